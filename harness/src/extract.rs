//! TRANSLATOR (T1): reads /repo's sources with syn 2 and writes `Generated.lean`.
//! It refuses (non-zero exit) any source shape it does not recognise rather than guessing.
use proc_macro2::{Delimiter, Spacing, TokenStream, TokenTree};
use quote::ToTokens;
use std::collections::BTreeMap;
use std::fmt::Write as _;
use syn::visit::Visit;

type R<T> = Result<T, String>;

fn lean_str(s: &str) -> String {
    let mut o = String::from("\"");
    for c in s.chars() {
        match c {
            '"' => o.push_str("\\\""),
            '\\' => o.push_str("\\\\"),
            '\n' => o.push_str("\\n"),
            c => o.push(c),
        }
    }
    o.push('"');
    o
}

fn lean_list(xs: &[String]) -> String {
    format!("[{}]", xs.iter().map(|x| lean_str(x)).collect::<Vec<_>>().join(", "))
}

fn lean_char(c: char) -> String {
    match c {
        '\'' => "'\\''".into(),
        '\\' => "'\\\\'".into(),
        c => format!("'{}'", c),
    }
}

fn find_fn<'a>(file: &'a syn::File, name: &str) -> R<&'a syn::ItemFn> {
    for it in &file.items {
        if let syn::Item::Fn(f) = it {
            if f.sig.ident == name {
                return Ok(f);
            }
        }
    }
    Err(format!("fn {} not found", name))
}

/// string literals of a `"a" | "b" | ...` token stream
fn str_alternatives(ts: TokenStream) -> R<Vec<String>> {
    let mut out = vec![];
    for tt in ts {
        match tt {
            TokenTree::Literal(l) => {
                let lit: syn::LitStr = syn::parse2(l.to_token_stream()).map_err(|e| e.to_string())?;
                out.push(lit.value());
            }
            TokenTree::Punct(p) if p.as_char() == '|' => {}
            other => return Err(format!("unexpected token in string alternatives: {}", other)),
        }
    }
    Ok(out)
}

/// `fn appl_x(instr: &str) -> bool { matches!(instr, "a" | "b") }`
fn appl_fn(file: &syn::File, name: &str) -> R<Vec<String>> {
    let f = find_fn(file, name)?;
    if f.block.stmts.len() != 1 {
        return Err(format!("{}: expected a single expression", name));
    }
    let mac = match &f.block.stmts[0] {
        syn::Stmt::Expr(syn::Expr::Macro(m), None) => &m.mac,
        syn::Stmt::Macro(m) => &m.mac,
        _ => return Err(format!("{}: expected matches!(..)", name)),
    };
    if !mac.path.is_ident("matches") {
        return Err(format!("{}: expected matches!(..)", name));
    }
    let toks: Vec<TokenTree> = mac.tokens.clone().into_iter().collect();
    // instr , <alternatives>
    if toks.len() < 3 || !matches!(&toks[1], TokenTree::Punct(p) if p.as_char() == ',') {
        return Err(format!("{}: unrecognised matches! shape", name));
    }
    str_alternatives(toks[2..].iter().cloned().collect())
}

struct ArmOut {
    names: Vec<String>,
    guard: String,
    kind: String,
    appl: Vec<String>,
}

fn pat_names(p: &syn::Pat) -> R<Vec<String>> {
    match p {
        syn::Pat::Lit(l) => match &l.lit {
            syn::Lit::Str(s) => Ok(vec![s.value()]),
            _ => Err("non-string literal pattern".into()),
        },
        syn::Pat::Or(o) => {
            let mut v = vec![];
            for c in &o.cases {
                v.extend(pat_names(c)?);
            }
            Ok(v)
        }
        syn::Pat::Wild(_) => Ok(vec![]),
        _ => Err(format!("unrecognised arm pattern: {}", p.to_token_stream())),
    }
}

/// finds `Enum::Variant` constructor used in the arm body together with the struct-literal fields we care about
struct BodyScan {
    variant: Option<String>,
    fallible: Option<bool>,
    guess: Option<String>,
    instr: Option<String>,
    appl: Vec<String>,
    enum_name: String,
}

impl<'ast> Visit<'ast> for BodyScan {
    fn visit_expr_path(&mut self, p: &'ast syn::ExprPath) {
        let segs: Vec<String> = p.path.segments.iter().map(|s| s.ident.to_string()).collect();
        if segs.len() == 2 && segs[0] == self.enum_name && self.variant.is_none() {
            self.variant = Some(segs[1].clone());
        }
        syn::visit::visit_expr_path(self, p);
    }
    fn visit_expr_struct(&mut self, s: &'ast syn::ExprStruct) {
        let segs: Vec<String> = s.path.segments.iter().map(|s| s.ident.to_string()).collect();
        if segs.len() == 2 && segs[0] == self.enum_name && self.variant.is_none() {
            self.variant = Some(segs[1].clone());
        }
        syn::visit::visit_expr_struct(self, s);
    }
    fn visit_field_value(&mut self, fv: &'ast syn::FieldValue) {
        if let syn::Member::Named(n) = &fv.member {
            let n = n.to_string();
            match (&*n, &fv.expr) {
                ("fallible", syn::Expr::Lit(syn::ExprLit { lit: syn::Lit::Bool(b), .. })) => self.fallible = Some(b.value),
                ("guess_name", syn::Expr::Lit(syn::ExprLit { lit: syn::Lit::Str(s), .. })) => self.guess = Some(s.value()),
                ("instr", syn::Expr::Lit(syn::ExprLit { lit: syn::Lit::Str(s), .. })) => self.instr = Some(s.value()),
                ("applicable_to", syn::Expr::Array(a)) => {
                    for e in &a.elems {
                        if let syn::Expr::Call(c) = e {
                            self.appl.push(c.func.to_token_stream().to_string());
                        } else {
                            self.appl.push(format!("?{}", e.to_token_stream()));
                        }
                    }
                }
                _ => {}
            }
        }
        syn::visit::visit_field_value(self, fv);
    }
}

fn find_match<'a>(f: &'a syn::ItemFn) -> R<&'a syn::ExprMatch> {
    struct M<'a>(Option<&'a syn::ExprMatch>);
    impl<'a> Visit<'a> for M<'a> {
        fn visit_expr_match(&mut self, m: &'a syn::ExprMatch) {
            if self.0.is_none() {
                self.0 = Some(m);
            }
        }
    }
    let mut m = M(None);
    m.visit_block(&f.block);
    m.0.ok_or_else(|| format!("{}: no match expression", f.sig.ident))
}

fn instr_arms(file: &syn::File, fname: &str, enum_name: &str, type_level: bool) -> R<Vec<ArmOut>> {
    let f = find_fn(file, fname)?;
    let m = find_match(f)?;
    let mut out = vec![];
    for arm in &m.arms {
        let names = pat_names(&arm.pat)?;
        let guard = match &arm.guard {
            None => "none".to_string(),
            Some((_, e)) => match e.to_token_stream().to_string().as_str() {
                "own_instr" => "own".into(),
                "bark" => "bark".into(),
                other => return Err(format!("{}: unrecognised guard `{}`", fname, other)),
            },
        };
        let mut scan = BodyScan { variant: None, fallible: None, guess: None, instr: None, appl: vec![], enum_name: enum_name.into() };
        scan.visit_expr(&arm.body);
        let variant = scan.variant.clone().ok_or_else(|| format!("{}: arm {:?} builds no {} variant", fname, names, enum_name))?;
        let kind = match (variant.as_str(), type_level) {
            ("AllowUnknown", true) => ".allowUnknown".to_string(),
            ("Map", _) => format!(".map {}", scan.fallible.ok_or(format!("{}: Map arm without `fallible` literal", fname))?),
            ("Ghosts", _) => ".ghosts".into(),
            ("Ghost", false) => ".ghost".into(),
            ("ChildParents", true) => ".childParents".into(),
            ("Where", true) => ".whereClause".into(),
            ("Child", false) => ".child".into(),
            ("Parent", false) => ".parent".into(),
            ("As", false) => ".asType".into(),
            ("Lit", false) => ".lit".into(),
            ("Pat", false) => ".pat".into(),
            ("Repeat", false) => ".repeat_".into(),
            ("SkipRepeat", false) => ".skipRepeat".into(),
            ("StopRepeat", false) => ".stopRepeat".into(),
            ("VariantTypeHint", false) => ".typeHint".into(),
            ("Misnamed", _) => {
                let g = scan.guess.clone().ok_or(format!("{}: Misnamed without guess_name literal", fname))?;
                if names.len() != 1 || scan.instr.as_deref() != Some(names[0].as_str()) {
                    return Err(format!("{}: Misnamed arm {:?} reports instr {:?}", fname, names, scan.instr));
                }
                format!(".misnamed {}", lean_str(&g))
            }
            ("Misplaced", _) => {
                if names.len() != 1 || scan.instr.as_deref() != Some(names[0].as_str()) {
                    return Err(format!("{}: Misplaced arm {:?} reports instr {:?}", fname, names, scan.instr));
                }
                ".misplaced".into()
            }
            ("UnrecognizedWithError", _) => ".unrecognizedWithError".into(),
            ("Unrecognized", _) => ".unrecognized".into(),
            (v, _) => return Err(format!("{}: unrecognised instruction variant {}", fname, v)),
        };
        if scan.appl.iter().any(|a| a.starts_with('?')) {
            return Err(format!("{}: applicable_to entry is not a call", fname));
        }
        out.push(ArmOut { names, guard, kind, appl: scan.appl });
    }
    Ok(out)
}

fn arms_lean(name: &str, arms: &[ArmOut]) -> String {
    let mut s = format!("def {} : List Arm := [\n", name);
    for (i, a) in arms.iter().enumerate() {
        let _ = write!(s, "  ⟨{}, .{}, {}, {}⟩{}\n", lean_list(&a.names), a.guard, a.kind, lean_list(&a.appl), if i + 1 < arms.len() { "," } else { "]" });
    }
    s
}

/// the nested `[instr(..)]` parser of `ParentChildFieldAsParsed::parse`
fn nested_arms(file: &syn::File) -> R<(Vec<String>, Vec<String>, Vec<String>)> {
    for it in &file.items {
        if let syn::Item::Impl(im) = it {
            let self_ty = im.self_ty.to_token_stream().to_string();
            if self_ty == "ParentChildFieldAsParsed" && im.trait_.is_some() {
                for ii in &im.items {
                    if let syn::ImplItem::Fn(f) = ii {
                        struct M<'a>(Option<&'a syn::ExprMatch>);
                        impl<'a> Visit<'a> for M<'a> {
                            fn visit_expr_match(&mut self, m: &'a syn::ExprMatch) {
                                if self.0.is_none() {
                                    self.0 = Some(m);
                                }
                            }
                        }
                        let mut m = M(None);
                        m.visit_block(&f.block);
                        let m = m.0.ok_or("ParentChildFieldAsParsed::parse: no match")?;
                        if m.arms.len() != 3 {
                            return Err("ParentChildFieldAsParsed::parse: expected 3 arms".into());
                        }
                        let names = pat_names(&m.arms[0].pat)?;
                        let mut scan = BodyScan { variant: None, fallible: None, guess: None, instr: None, appl: vec![], enum_name: "-".into() };
                        scan.visit_expr(&m.arms[0].body);
                        let second = pat_names(&m.arms[1].pat)?;
                        let third = pat_names(&m.arms[2].pat)?;
                        if !third.is_empty() {
                            return Err("ParentChildFieldAsParsed::parse: last arm is not a wildcard".into());
                        }
                        return Ok((names, scan.appl, second));
                    }
                }
            }
        }
    }
    Err("impl Parse for ParentChildFieldAsParsed not found".into())
}

fn const_str_array(file: &syn::File, name: &str) -> R<Vec<String>> {
    for it in &file.items {
        if let syn::Item::Const(c) = it {
            if c.ident == name {
                if let syn::Expr::Array(a) = &*c.expr {
                    let mut v = vec![];
                    for e in &a.elems {
                        if let syn::Expr::Lit(syn::ExprLit { lit: syn::Lit::Str(s), .. }) = e {
                            v.push(s.value());
                        } else {
                            return Err(format!("{}: non-string element", name));
                        }
                    }
                    return Ok(v);
                }
            }
        }
    }
    Err(format!("const {} not found", name))
}

/// `impl Index<&Kind> for ApplicableTo`: `Kind::X => &self[n]`
fn kind_index(file: &syn::File) -> R<Vec<(String, usize)>> {
    for it in &file.items {
        if let syn::Item::Impl(im) = it {
            let self_ty = im.self_ty.to_token_stream().to_string();
            let tr = im.trait_.as_ref().map(|t| t.1.to_token_stream().to_string()).unwrap_or_default();
            if self_ty == "ApplicableTo" && tr.starts_with("Index") {
                let s = im.to_token_stream().to_string();
                let mut out = vec![];
                let re_parts: Vec<&str> = s.split("Kind ::").collect();
                for part in re_parts.iter().skip(1) {
                    // `X => & self [n]`
                    let mut it = part.split_whitespace();
                    let name = it.next().unwrap_or("").to_string();
                    if let Some(pos) = part.find("self [") {
                        let rest = &part[pos + 6..];
                        let num: String = rest.trim_start().chars().take_while(|c| c.is_ascii_digit()).collect();
                        if let Ok(n) = num.parse::<usize>() {
                            out.push((name, n));
                        }
                    }
                }
                if out.len() != 6 {
                    return Err(format!("impl Index<&Kind> for ApplicableTo: expected 6 arms, found {}", out.len()));
                }
                return Ok(out);
            }
        }
    }
    Err("impl Index<&Kind> for ApplicableTo not found".into())
}

/// `impl Display for FallibleKind`
fn fallible_kind_names(file: &syn::File) -> R<Vec<((String, bool), String)>> {
    for it in &file.items {
        if let syn::Item::Impl(im) = it {
            let self_ty = im.self_ty.to_token_stream().to_string();
            if self_ty == "FallibleKind" && im.trait_.is_some() {
                struct M(Vec<((String, bool), String)>, Vec<String>);
                impl<'a> Visit<'a> for M {
                    fn visit_arm(&mut self, a: &'a syn::Arm) {
                        let p = a.pat.to_token_stream().to_string();
                        let b = a.body.to_token_stream().to_string();
                        // FallibleKind (Kind :: X , false) => f . write_str ("name")
                        let kind = p.split("Kind ::").nth(2).or_else(|| p.split("Kind ::").nth(1)).map(|x| x.split_whitespace().next().unwrap_or("").to_string());
                        let fall = if p.contains("true") { Some(true) } else if p.contains("false") { Some(false) } else { None };
                        let name = b.split('"').nth(1).map(|x| x.to_string());
                        match (kind, fall, name) {
                            (Some(k), Some(f), Some(n)) => self.0.push(((k, f), n)),
                            _ => self.1.push(p),
                        }
                    }
                }
                let mut m = M(vec![], vec![]);
                m.visit_item_impl(im);
                if !m.1.is_empty() || m.0.len() != 12 {
                    return Err(format!("impl Display for FallibleKind: unrecognised arms {:?} ({} recognised)", m.1, m.0.len()));
                }
                return Ok(m.0);
            }
        }
    }
    Err("impl Display for FallibleKind not found".into())
}

// ------------------------------------------------------------------------------------------
// quote! bodies -> templates

const OPS: [&str; 24] = ["<<=", ">>=", "...", "..=", "::", "->", "=>", "==", "!=", "<=", ">=", "&&", "||", "+=", "-=", "*=", "/=", "%=", "^=", "&=", "|=", "<<", ">>", ".."];

/// Lean `List Tm` of a `quote!` body. Spacing of literal punctuation is what `quote!` emits:
/// rustc's operator tokens, every character Joint except the last.
fn tmpl(ts: TokenStream) -> R<String> {
    let toks: Vec<TokenTree> = ts.into_iter().collect();
    let mut out: Vec<String> = vec![];
    let mut k = 0;
    while k < toks.len() {
        match &toks[k] {
            TokenTree::Punct(p) if p.as_char() == '#' => {
                // interpolation?
                match toks.get(k + 1) {
                    Some(TokenTree::Ident(id)) => {
                        out.push(format!(".h {}", lean_str(&id.to_string())));
                        k += 2;
                        continue;
                    }
                    Some(TokenTree::Group(g)) if g.delimiter() == Delimiter::Parenthesis => {
                        // #( #x )*   or  #( #x )sep*
                        let inner: Vec<TokenTree> = g.stream().into_iter().collect();
                        let simple = inner.len() == 2 && matches!(&inner[0], TokenTree::Punct(p) if p.as_char() == '#') && matches!(&inner[1], TokenTree::Ident(_));
                        if !simple {
                            return Err(format!("unsupported repetition in quote!: {}", g));
                        }
                        let name = inner[1].to_string();
                        // find the `*`
                        let mut n = k + 2;
                        let mut sep = String::new();
                        loop {
                            match toks.get(n) {
                                Some(TokenTree::Punct(p)) if p.as_char() == '*' => break,
                                Some(TokenTree::Punct(p)) => {
                                    sep.push(p.as_char());
                                    n += 1;
                                }
                                _ => return Err("unterminated repetition in quote!".into()),
                            }
                        }
                        if !sep.is_empty() {
                            return Err(format!("repetition with separator `{}` is not part of the translated skeletons", sep));
                        }
                        out.push(format!(".h {}", lean_str(&name)));
                        k = n + 1;
                        continue;
                    }
                    _ => {
                        out.push(".t (.punct '#' false)".into());
                        k += 1;
                        continue;
                    }
                }
            }
            TokenTree::Punct(p) if p.as_char() == '\'' => {
                out.push(".t (.punct '\\'' true)".into());
                k += 1;
            }
            TokenTree::Punct(_) => {
                // maximal run of adjacent (Joint) punctuation, not crossing a `#` interpolation or a lifetime quote
                let mut run: Vec<char> = vec![];
                let mut n = k;
                loop {
                    match toks.get(n) {
                        Some(TokenTree::Punct(p)) if p.as_char() != '#' && p.as_char() != '\'' || (n == k) => {
                            if let Some(TokenTree::Punct(p)) = toks.get(n) {
                                run.push(p.as_char());
                                n += 1;
                                if p.spacing() != Spacing::Joint {
                                    break;
                                }
                            }
                        }
                        _ => break,
                    }
                }
                // segment the run by maximal munch
                let mut r = 0;
                while r < run.len() {
                    let rest: String = run[r..].iter().collect();
                    let op = OPS.iter().find(|o| rest.starts_with(**o)).map(|o| o.len()).unwrap_or(1);
                    for (m, c) in run[r..r + op].iter().enumerate() {
                        out.push(format!(".t (.punct {} {})", lean_char(*c), if m + 1 < op { "true" } else { "false" }));
                    }
                    r += op;
                }
                k = n;
            }
            TokenTree::Ident(id) => {
                out.push(format!(".t (.ident {})", lean_str(&id.to_string())));
                k += 1;
            }
            TokenTree::Literal(l) => {
                out.push(format!(".t (.lit {})", lean_str(&l.to_string())));
                k += 1;
            }
            TokenTree::Group(g) => {
                let d = match g.delimiter() {
                    Delimiter::Parenthesis => ".paren",
                    Delimiter::Brace => ".brace",
                    Delimiter::Bracket => ".bracket",
                    Delimiter::None => ".none",
                };
                out.push(format!(".g {} {}", d, tmpl(g.stream())?));
                k += 1;
            }
        }
    }
    Ok(format!("[{}]", out.join(", ")))
}

struct QuoteCollector {
    quotes: Vec<TokenStream>,
}

impl<'ast> Visit<'ast> for QuoteCollector {
    fn visit_macro(&mut self, m: &'ast syn::Macro) {
        if m.path.is_ident("quote") {
            self.quotes.push(m.tokens.clone());
        }
    }
}

fn fn_quotes(file: &syn::File, name: &str) -> R<Vec<TokenStream>> {
    let f = find_fn(file, name)?;
    let mut q = QuoteCollector { quotes: vec![] };
    q.visit_block(&f.block);
    Ok(q.quotes)
}

// ------------------------------------------------------------------------------------------
// inventories

struct Inv {
    file: String,
    fn_stack: Vec<String>,
    sites: Vec<(String, String, String)>,
    cfg: Vec<(String, String, String, String)>,
    hash_vars: BTreeMap<(String, String), Vec<String>>,
    env_paths: Vec<String>,
    quoted_idents: Vec<String>,
    core_not_absolute: Vec<String>,
}

fn cfg_feature(attrs: &[syn::Attribute]) -> Option<String> {
    for a in attrs {
        if a.path().is_ident("cfg") {
            let s = a.meta.to_token_stream().to_string();
            if s.contains("feature") {
                if s.contains("\"syn2\"") {
                    return Some("syn2".into());
                }
                if s.contains("\"syn\"") {
                    return Some("syn".into());
                }
            }
        }
    }
    None
}

fn strip_cfg(ts: TokenStream) -> String {
    // token text without the leading #[cfg(..)] attribute
    let s = ts.to_string();
    match s.find(")]") {
        Some(p) if s.trim_start().starts_with("# [cfg") => s[p + 2..].trim().to_string(),
        _ => s,
    }
}

impl Inv {
    fn cur_fn(&self) -> String {
        self.fn_stack.last().cloned().unwrap_or_else(|| "-".into())
    }
    fn site(&mut self, what: String) {
        let f = self.cur_fn();
        self.sites.push((self.file.clone(), f, what));
    }
    fn scan_quote_tokens(&mut self, ts: TokenStream, prev_colon2: bool, prev_ident: bool) {
        let toks: Vec<TokenTree> = ts.into_iter().collect();
        let mut k = 0;
        let mut after_hash = false;
        while k < toks.len() {
            match &toks[k] {
                TokenTree::Punct(p) if p.as_char() == '#' => {
                    after_hash = true;
                    k += 1;
                    continue;
                }
                TokenTree::Ident(id) => {
                    if !after_hash {
                        let s = id.to_string();
                        if s == "core" || s == "std" || s == "alloc" {
                            // must be preceded by `::` that is itself not preceded by an identifier
                            let c2 = k >= 2
                                && matches!(&toks[k - 1], TokenTree::Punct(p) if p.as_char() == ':')
                                && matches!(&toks[k - 2], TokenTree::Punct(p) if p.as_char() == ':');
                            let before_ident = k >= 3 && matches!(&toks[k - 3], TokenTree::Ident(_))
                                && !(k >= 4 && matches!(&toks[k - 4], TokenTree::Punct(p) if p.as_char() == '#'));
                            if !(c2 && !before_ident) && !(k < 2 && prev_colon2 && !prev_ident) {
                                self.core_not_absolute.push(format!("{}:{}", self.cur_fn(), s));
                            }
                        }
                        self.quoted_idents.push(s);
                    }
                }
                TokenTree::Group(g) => {
                    if !(after_hash && g.delimiter() == Delimiter::Parenthesis) {
                        self.scan_quote_tokens(g.stream(), false, false);
                    }
                }
                _ => {}
            }
            after_hash = false;
            k += 1;
        }
    }
}

fn type_mentions_hash(t: &str) -> bool {
    t.contains("HashMap") || t.contains("HashSet")
}

impl<'ast> Visit<'ast> for Inv {
    fn visit_item_fn(&mut self, f: &'ast syn::ItemFn) {
        if f.attrs.iter().any(|a| a.path().is_ident("test")) {
            return;
        }
        if let Some(feat) = cfg_feature(&f.attrs) {
            self.cfg.push((self.file.clone(), f.sig.ident.to_string(), feat, strip_cfg(f.to_token_stream())));
        }
        self.fn_stack.push(f.sig.ident.to_string());
        for inp in &f.sig.inputs {
            if let syn::FnArg::Typed(pt) = inp {
                if type_mentions_hash(&pt.ty.to_token_stream().to_string()) {
                    self.hash_vars.entry((self.cur_fn(), pt.pat.to_token_stream().to_string())).or_default();
                }
            }
        }
        syn::visit::visit_item_fn(self, f);
        self.fn_stack.pop();
    }
    fn visit_impl_item_fn(&mut self, f: &'ast syn::ImplItemFn) {
        self.fn_stack.push(f.sig.ident.to_string());
        syn::visit::visit_impl_item_fn(self, f);
        self.fn_stack.pop();
    }
    fn visit_item_use(&mut self, u: &'ast syn::ItemUse) {
        if let Some(feat) = cfg_feature(&u.attrs) {
            self.cfg.push((self.file.clone(), "use".into(), feat, strip_cfg(u.to_token_stream())));
        }
        let s = u.to_token_stream().to_string();
        for bad in ["std :: env", "std :: time", "std :: fs", "std :: process", "std :: thread", "std :: net", "rand", "RandomState"] {
            if s.contains(bad) {
                self.env_paths.push(format!("{}: {}", self.file, s));
            }
        }
    }
    fn visit_local(&mut self, l: &'ast syn::Local) {
        if let Some(feat) = cfg_feature(&l.attrs) {
            let owner = format!("{}:let {}", self.cur_fn(), l.pat.to_token_stream());
            self.cfg.push((self.file.clone(), owner, feat, strip_cfg(l.to_token_stream())));
        }
        let text = l.to_token_stream().to_string();
        if type_mentions_hash(&text) {
            let name = match &l.pat {
                syn::Pat::Ident(i) => i.ident.to_string(),
                syn::Pat::Type(t) => match &*t.pat {
                    syn::Pat::Ident(i) => i.ident.to_string(),
                    p => p.to_token_stream().to_string(),
                },
                p => p.to_token_stream().to_string(),
            };
            self.hash_vars.entry((self.cur_fn(), name)).or_default();
        }
        syn::visit::visit_local(self, l);
    }
    fn visit_expr_method_call(&mut self, m: &'ast syn::ExprMethodCall) {
        let name = m.method.to_string();
        if name == "unwrap" || name == "expect" {
            let recv = m.receiver.to_token_stream().to_string();
            let short: String = recv.chars().take(60).collect();
            self.site(format!("{}({})", name, short));
        }
        if let syn::Expr::Path(p) = &*m.receiver {
            let v = p.path.to_token_stream().to_string();
            let key = (self.cur_fn(), v);
            if let Some(e) = self.hash_vars.get_mut(&key) {
                if !e.contains(&name) {
                    e.push(name.clone());
                }
            }
        }
        syn::visit::visit_expr_method_call(self, m);
    }
    fn visit_expr_for_loop(&mut self, f: &'ast syn::ExprForLoop) {
        let mut e: &syn::Expr = &f.expr;
        loop {
            match e {
                syn::Expr::Reference(r) => e = &r.expr,
                syn::Expr::Paren(p) => e = &p.expr,
                _ => break,
            }
        }
        if let syn::Expr::Path(p) = e {
            let key = (self.cur_fn(), p.path.to_token_stream().to_string());
            if let Some(v) = self.hash_vars.get_mut(&key) {
                if !v.contains(&"for-in".to_string()) {
                    v.push("for-in".into());
                }
            }
        }
        syn::visit::visit_expr_for_loop(self, f);
    }
    fn visit_expr_index(&mut self, i: &'ast syn::ExprIndex) {
        let e = i.expr.to_token_stream().to_string();
        // fixed-size array indexing by a literal inside `impl Index` is bounds-checked at compile time
        let lit_index = matches!(&*i.index, syn::Expr::Lit(_));
        if !(lit_index && e == "self") {
            let short: String = i.to_token_stream().to_string().chars().take(60).collect();
            self.site(format!("index({})", short));
        }
        syn::visit::visit_expr_index(self, i);
    }
    fn visit_macro(&mut self, m: &'ast syn::Macro) {
        let name = m.path.segments.last().map(|s| s.ident.to_string()).unwrap_or_default();
        match name.as_str() {
            "panic" | "unreachable" | "todo" | "unimplemented" | "assert" | "assert_eq" => {
                let arg: String = m.tokens.to_string().chars().take(50).collect();
                self.site(format!("{}!({})", name, arg));
            }
            "quote" | "parse_quote" | "format_ident" => {
                if self.file == "expand.rs" || self.file == "attr.rs" {
                    if name == "format_ident" {
                        // first argument is a format string: its literal prefix is an identifier fragment
                        if let Some(TokenTree::Literal(l)) = m.tokens.clone().into_iter().next() {
                            self.quoted_idents.push(format!("fmt:{}", l.to_string().trim_matches('"')));
                        }
                    } else {
                        self.scan_quote_tokens(m.tokens.clone(), false, false);
                    }
                }
            }
            _ => {
                // visit expressions inside ordinary macros (vec!, format!, matches!, Err(..)? ...)
                if let Ok(args) = m.parse_body_with(syn::punctuated::Punctuated::<syn::Expr, syn::Token![,]>::parse_terminated) {
                    for a in args.iter() {
                        self.visit_expr(a);
                    }
                }
            }
        }
    }
    fn visit_expr_path(&mut self, p: &'ast syn::ExprPath) {
        let s = p.path.to_token_stream().to_string();
        for bad in ["std :: env", "std :: time", "std :: fs", "std :: process", "std :: thread", "SystemTime", "Instant :: now", "RandomState", "thread_rng"] {
            if s.contains(bad) {
                self.env_paths.push(format!("{}:{}: {}", self.file, self.cur_fn(), s));
            }
        }
        syn::visit::visit_expr_path(self, p);
    }
}

// ------------------------------------------------------------------------------------------
// README

fn readme_tables(src: &str) -> R<(Vec<(String, Vec<String>)>, Vec<(String, bool, String, bool, bool)>)> {
    // shortcut table
    let mut header: Vec<String> = vec![];
    let mut cols: BTreeMap<usize, Vec<String>> = BTreeMap::new();
    for line in src.lines() {
        let l = line.trim();
        if !l.starts_with('|') {
            continue;
        }
        let cells: Vec<String> = l.trim_matches('|').split('|').map(|c| c.trim().to_string()).collect();
        if cells.iter().any(|c| c.contains("#[map()]")) && header.is_empty() {
            header = cells.iter().map(|c| c.trim_matches(|ch| ch == '#' || ch == '[' || ch == ']' || ch == '(' || ch == ')' || ch == '*' || ch == ' ').to_string()).collect();
            continue;
        }
        if header.is_empty() || cells.len() != header.len() {
            continue;
        }
        if cells[0].starts_with("**#[") {
            let row = cells[0].trim_matches(|ch| ch == '#' || ch == '[' || ch == ']' || ch == '(' || ch == ')' || ch == '*' || ch == ' ').to_string();
            for (n, c) in cells.iter().enumerate().skip(1) {
                if c.contains('✔') {
                    cols.entry(n).or_default().push(row.clone());
                } else if !c.contains('❌') {
                    return Err(format!("README shortcut table: unrecognised cell `{}`", c));
                }
            }
        }
    }
    if header.len() != 7 {
        return Err(format!("README shortcut table not found (header {:?})", header));
    }
    let shortcuts: Vec<(String, Vec<String>)> = (1..header.len()).map(|n| (header[n].clone(), cols.get(&n).cloned().unwrap_or_default())).collect();
    // the 12 documented impls
    let mut impls = vec![];
    let lines: Vec<&str> = src.lines().collect();
    for w in lines.windows(2) {
        let c = w[0].trim();
        let i = w[1].trim();
        if c.starts_with("// #[") && i.starts_with("impl ") {
            let name = c.trim_start_matches("// #[").split('(').next().unwrap_or("").to_string();
            let fallible = name.contains("try_");
            let base = name.replace("try_", "");
            // impl <trait path>< [&]A > for [&]B { ... }
            let after = i.trim_start_matches("impl ").trim();
            let tr = after.split('<').next().unwrap_or("").trim().to_string();
            let arg = after.split('<').nth(1).unwrap_or("").split('>').next().unwrap_or("").trim().to_string();
            let for_ty = after.split(" for ").nth(1).unwrap_or("").split('{').next().unwrap_or("").trim().to_string();
            impls.push((base, fallible, tr, arg.starts_with('&'), for_ty.starts_with('&')));
        }
    }
    if impls.len() != 12 {
        return Err(format!("README: expected 12 documented impls, found {}", impls.len()));
    }
    Ok((shortcuts, impls))
}

fn declared_attrs(src: &str) -> R<Vec<String>> {
    let p = src.find("attributes(").ok_or("proc_macro_derive attributes(..) not found")?;
    let rest = &src[p + "attributes(".len()..];
    let end = rest.find(')').ok_or("unterminated attributes(..)")?;
    Ok(rest[..end].split(',').map(|x| x.trim().to_string()).filter(|x| !x.is_empty()).collect())
}

// ------------------------------------------------------------------------------------------

pub fn generate(repo: &str) -> R<String> {
    let read = |rel: &str| std::fs::read_to_string(format!("{}/{}", repo, rel)).map_err(|e| format!("{}: {}", rel, e));
    let attr_src = read("o2o-impl/src/attr.rs")?;
    let attr: syn::File = syn::parse_file(&attr_src).map_err(|e| format!("attr.rs: {}", e))?;
    let expand: syn::File = syn::parse_file(&read("o2o-impl/src/expand.rs")?).map_err(|e| format!("expand.rs: {}", e))?;
    let ast: syn::File = syn::parse_file(&read("o2o-impl/src/ast.rs")?).map_err(|e| format!("ast.rs: {}", e))?;
    let validate: syn::File = syn::parse_file(&read("o2o-impl/src/validate.rs")?).map_err(|e| format!("validate.rs: {}", e))?;
    let readme = read("README.md")?;
    let macros = read("o2o-macros/src/lib.rs")?;

    let mut o = String::new();
    o.push_str("/-\nGENERATED by `harness extract` from /repo's working tree on every run. Do not edit.\n-/\nimport O2oModel.GenTypes\nnamespace O2o.Gen\n\n");

    // G1
    for (lean, rust) in [
        ("applOwnedInto", "appl_owned_into"), ("applRefInto", "appl_ref_into"), ("applFromOwned", "appl_from_owned"), ("applFromRef", "appl_from_ref"),
        ("applOwnedIntoExisting", "appl_owned_into_existing"), ("applRefIntoExisting", "appl_ref_into_existing"),
        ("applGhostsOwned", "appl_ghosts_owned"), ("applGhostsRef", "appl_ghosts_ref"), ("applGhostOwned", "appl_ghost_owned"), ("applGhostRef", "appl_ghost_ref"),
    ] {
        let _ = writeln!(o, "def {} : List String := {}", lean, lean_list(&appl_fn(&attr, rust)?));
    }
    o.push('\n');
    // G2
    o.push_str(&arms_lean("typeArms", &instr_arms(&attr, "parse_data_type_instruction", "DataTypeInstruction", true)?));
    o.push('\n');
    o.push_str(&arms_lean("memberArms", &instr_arms(&attr, "parse_member_instruction", "MemberInstruction", false)?));
    o.push('\n');
    let (nn, na, second) = nested_arms(&attr)?;
    if second != vec!["parent".to_string()] {
        return Err(format!("nested parser: second arm is {:?}, expected [\"parent\"]", second));
    }
    let _ = writeln!(o, "def nestedMapNames : List String := {}", lean_list(&nn));
    let _ = writeln!(o, "def nestedAppl : List String := {}", lean_list(&na));
    // G3
    let _ = writeln!(o, "def memberRepeatTypes : List String := {}", lean_list(&const_str_array(&attr, "MEMBER_REPEAT_TYPES")?));
    let _ = writeln!(o, "def traitRepeatTypes : List String := {}", lean_list(&const_str_array(&attr, "TRAIT_REPEAT_TYPES")?));
    let ki = kind_index(&attr)?;
    let _ = writeln!(o, "def kindIndex : List (String × Nat) := [{}]", ki.iter().map(|(k, n)| format!("({}, {})", lean_str(k), n)).collect::<Vec<_>>().join(", "));
    let fk = fallible_kind_names(&attr)?;
    let _ = writeln!(o, "def fallibleKindName : List ((String × Bool) × String) := [{}]",
        fk.iter().map(|((k, f), n)| format!("(({}, {}), {})", lean_str(k), f, lean_str(n))).collect::<Vec<_>>().join(", "));
    o.push('\n');
    // G4
    let (shortcuts, impls) = readme_tables(&readme)?;
    let _ = writeln!(o, "/-- README shortcut table: shortcut ↦ the basic instructions ticked in its column -/\ndef readmeShortcuts : List (String × List String) := [{}]",
        shortcuts.iter().map(|(s, v)| format!("({}, {})", lean_str(s), lean_list(v))).collect::<Vec<_>>().join(", "));
    let _ = writeln!(o, "/-- README list of the 12 impls: (basic instruction, fallible, trait path segments (leading \"\" = absolute), trait argument is `&A`, self type is `&B`) -/\ndef readmeImpls : List (String × Bool × List String × Bool × Bool) := [{}]",
        impls.iter().map(|(b, f, t, a, s)| format!("({}, {}, {}, {}, {})", lean_str(b), f, lean_list(&t.split("::").map(|x| x.to_string()).collect::<Vec<_>>()), a, s)).collect::<Vec<_>>().join(", "));
    let _ = writeln!(o, "def declaredAttrs : List String := {}", lean_list(&declared_attrs(&macros)?));
    o.push('\n');
    // G5
    for f in ["quote_from_trait", "quote_try_from_trait", "quote_into_trait", "quote_try_into_trait", "quote_into_existing_trait", "quote_try_into_existing_trait",
              "render_parent", "main_code_block", "main_code_block_ok", "struct_main_code_block", "enum_main_code_block", "struct_pre_init", "quote_action"] {
        let qs = fn_quotes(&expand, f)?;
        let mut parts = vec![];
        for q in qs {
            parts.push(tmpl(q).map_err(|e| format!("{}: {}", f, e))?);
        }
        let _ = writeln!(o, "/-- the `quote!` bodies of `{}`, in source order -/\ndef tmpl_{} : List (List Tm) := [\n  {}]", f, f, parts.join(",\n  "));
    }
    o.push('\n');
    // G6-G8, G10
    let mut sites = vec![];
    let mut cfgs = vec![];
    let mut hash: Vec<(String, String, Vec<String>)> = vec![];
    let mut envp = vec![];
    let mut qid: Vec<String> = vec![];
    let mut core_bad = vec![];
    for (name, file) in [("attr.rs", &attr), ("ast.rs", &ast), ("validate.rs", &validate), ("expand.rs", &expand)] {
        let mut inv = Inv { file: name.into(), fn_stack: vec![], sites: vec![], cfg: vec![], hash_vars: BTreeMap::new(), env_paths: vec![], quoted_idents: vec![], core_not_absolute: vec![] };
        inv.visit_file(file);
        sites.extend(inv.sites);
        cfgs.extend(inv.cfg);
        for ((f, v), mut ms) in inv.hash_vars {
            ms.sort();
            hash.push((format!("{}:{}", name, f), v, ms));
        }
        envp.extend(inv.env_paths);
        qid.extend(inv.quoted_idents);
        core_bad.extend(inv.core_not_absolute);
    }
    qid.sort();
    qid.dedup();
    let _ = writeln!(o, "def panicSites : List Site := [\n{}]", sites.iter().map(|(f, g, w)| format!("  ⟨{}, {}, {}⟩", lean_str(f), lean_str(g), lean_str(w))).collect::<Vec<_>>().join(",\n"));
    let _ = writeln!(o, "def hashUses : List HashUse := [\n{}]", hash.iter().map(|(f, v, m)| format!("  ⟨{}, {}, {}⟩", lean_str(f), lean_str(v), lean_list(m))).collect::<Vec<_>>().join(",\n"));
    let _ = writeln!(o, "def cfgSplits : List CfgSplit := [\n{}]", cfgs.iter().map(|(f, w, feat, t)| format!("  ⟨{}, {}, {}, {}⟩", lean_str(f), lean_str(w), lean_str(feat), lean_str(t))).collect::<Vec<_>>().join(",\n"));
    let _ = writeln!(o, "/-- uses of std::env / time / fs / process / RandomState … in the sources -/\ndef envPaths : List String := {}", lean_list(&envp));
    let _ = writeln!(o, "/-- identifiers written literally inside quote! / parse_quote! / format_ident! of expand.rs and attr.rs -/\ndef quotedIdents : List String := {}", lean_list(&qid));
    let _ = writeln!(o, "/-- `core` / `std` / `alloc` occurrences inside quote! that are not written `::core…` -/\ndef coreNotAbsolute : List String := {}", lean_list(&core_bad));
    o.push_str("\nend O2o.Gen\n");
    Ok(o)
}

pub fn main(repo: &str, out: Option<String>) {
    match generate(repo) {
        Ok(text) => match out {
            Some(path) => {
                let old = std::fs::read_to_string(&path).unwrap_or_default();
                if old != text {
                    std::fs::write(&path, text).expect("write Generated.lean");
                    println!("Generated.lean rewritten");
                } else {
                    println!("Generated.lean unchanged");
                }
            }
            None => print!("{}", text),
        },
        Err(e) => {
            println!("TRANSLATOR-REFUSED: {}", e);
            std::process::exit(3);
        }
    }
}
