//! Runs the real `o2o_impl::expand::derive` in-process on each case.
use crate::ser;
use std::io::{BufRead, Write};
use std::panic;

pub enum Outcome {
    Ok(String, proc_macro2::TokenStream),
    Err(Vec<String>),
    Panic(String),
    Skip(String),
}

#[cfg(feature = "s1")]
fn call(src: &str) -> Outcome {
    let di: syn1::DeriveInput = match syn1::parse_str(src) {
        Ok(d) => d,
        Err(e) => return Outcome::Skip(format!("syn1 parse: {}", e)),
    };
    match panic::catch_unwind(|| o2o_impl::expand::derive(&di)) {
        Ok(Ok(ts)) => Outcome::Ok(ser::ts_string(&ts), ts),
        Ok(Err(e)) => Outcome::Err(e.into_iter().map(|x| x.to_string()).collect()),
        Err(p) => Outcome::Panic(payload(p)),
    }
}

#[cfg(all(feature = "s2", not(feature = "s1")))]
fn call(src: &str) -> Outcome {
    let di: syn::DeriveInput = match syn::parse_str(src) {
        Ok(d) => d,
        Err(e) => return Outcome::Skip(format!("syn2 parse: {}", e)),
    };
    match panic::catch_unwind(|| o2o_impl::expand::derive(&di)) {
        Ok(Ok(ts)) => Outcome::Ok(ser::ts_string(&ts), ts),
        Ok(Err(e)) => Outcome::Err(e.into_iter().map(|x| x.to_string()).collect()),
        Err(p) => Outcome::Panic(payload(p)),
    }
}

fn payload(p: Box<dyn std::any::Any + Send>) -> String {
    if let Some(s) = p.downcast_ref::<&str>() {
        s.to_string()
    } else if let Some(s) = p.downcast_ref::<String>() {
        s.clone()
    } else {
        "?".into()
    }
}

pub fn derive_str(src: &str) -> Outcome {
    call(src)
}

pub fn outcome_line(o: &Outcome) -> String {
    match o {
        Outcome::Ok(t, _) => format!("OK {}", t),
        Outcome::Err(ms) => {
            let mut s = format!("ERR {}", ms.len());
            for m in ms {
                s.push(' ');
                s.push_str(&ser::esc(m));
            }
            s
        }
        Outcome::Panic(m) => format!("PANIC {}", ser::esc(m)),
        Outcome::Skip(m) => format!("SKIP {}", ser::esc(m)),
    }
}

/// stdin: `<id>\t<rust source of one item>` per line.
/// stdout: `IN <id> <encoded DeriveInput>` (unless `no_in`) and `OUT <id> <outcome>`.
pub fn main(no_in: bool, repeat: usize, analyze: bool) {
    panic::set_hook(Box::new(|_| {}));
    let stdin = std::io::stdin();
    let stdout = std::io::stdout();
    let mut w = std::io::BufWriter::new(stdout.lock());
    for line in stdin.lock().lines() {
        let line = line.unwrap();
        let Some((id, src)) = line.split_once('\t') else { continue };
        if !no_in {
            match syn::parse_str::<syn::DeriveInput>(src) {
                Ok(di) => writeln!(w, "IN {} {}", id, ser::derive_input(&di)).unwrap(),
                Err(e) => writeln!(w, "IN {} SKIP {}", id, ser::esc(&e.to_string())).unwrap(),
            }
        }
        let o = call(src);
        let first = outcome_line(&o);
        writeln!(w, "OUT {} {}", id, first).unwrap();
        if analyze {
            if let Outcome::Ok(_, ts) = &o {
                writeln!(w, "AN {} {}", id, crate::analyze::analyze(src, ts)).unwrap();
            }
        }
        for k in 1..repeat {
            let again = outcome_line(&call(src));
            if again != first {
                writeln!(w, "NONDET {} {} {}", id, k, again).unwrap();
            }
        }
    }
}
