//! Implementation-level inspection of a real expansion (used by the oracles, never by a "holds" verdict):
//! parses the output with syn 2 (`full`) as a file of items and reports, per item, what a reader of the
//! generated code would see.
use proc_macro2::{TokenStream, TokenTree};
use quote::ToTokens;
use std::collections::BTreeSet;

fn esc_json(s: &str) -> String {
    let mut o = String::from("\"");
    for c in s.chars() {
        match c {
            '"' => o.push_str("\\\""),
            '\\' => o.push_str("\\\\"),
            '\n' => o.push_str("\\n"),
            c if (c as u32) < 0x20 => o.push_str(&format!("\\u{:04x}", c as u32)),
            c => o.push(c),
        }
    }
    o.push('"');
    o
}

fn idents(ts: TokenStream, out: &mut BTreeSet<String>) {
    for tt in ts {
        match tt {
            TokenTree::Ident(i) => {
                out.insert(i.to_string());
            }
            TokenTree::Group(g) => idents(g.stream(), out),
            _ => {}
        }
    }
}

fn lifetimes(ts: TokenStream, out: &mut BTreeSet<String>) {
    let v: Vec<TokenTree> = ts.into_iter().collect();
    for k in 0..v.len() {
        match &v[k] {
            TokenTree::Punct(p) if p.as_char() == '\'' => {
                if let Some(TokenTree::Ident(i)) = v.get(k + 1) {
                    out.insert(i.to_string());
                }
            }
            TokenTree::Group(g) => lifetimes(g.stream(), out),
            _ => {}
        }
    }
}

/// JSON description of an expansion
pub fn analyze(input_src: &str, output: &TokenStream) -> String {
    let mut in_ids = BTreeSet::new();
    if let Ok(ts) = input_src.parse::<TokenStream>() {
        idents(ts, &mut in_ids);
    }
    let mut out_ids = BTreeSet::new();
    idents(output.clone(), &mut out_ids);
    let introduced: Vec<String> = out_ids.difference(&in_ids).cloned().collect();
    let file: Result<syn::File, _> = syn::parse2(output.clone());
    let mut s = String::from("{");
    s.push_str(&format!("\"introduced\":[{}],", introduced.iter().map(|x| esc_json(x)).collect::<Vec<_>>().join(",")));
    match file {
        Err(e) => {
            s.push_str(&format!("\"parse_ok\":false,\"parse_error\":{}", esc_json(&e.to_string())));
        }
        Ok(f) => {
            s.push_str("\"parse_ok\":true,\"items\":[");
            let mut first = true;
            for it in &f.items {
                if !first {
                    s.push(',');
                }
                first = false;
                match it {
                    syn::Item::Impl(im) => {
                        let tr = im.trait_.as_ref().map(|t| {
                            let mut p = t.1.clone();
                            let args = p.segments.last().map(|x| x.arguments.to_token_stream().to_string()).unwrap_or_default();
                            if let Some(l) = p.segments.last_mut() {
                                l.arguments = syn::PathArguments::None;
                            }
                            (p.to_token_stream().to_string().replace(' ', ""), args)
                        });
                        let self_ty = im.self_ty.to_token_stream().to_string();
                        let mut fns = vec![];
                        let mut sigs = vec![];
                        let mut assoc = vec![];
                        let mut other = 0;
                        for ii in &im.items {
                            match ii {
                                syn::ImplItem::Fn(f) => {
                                    fns.push(f.sig.ident.to_string());
                                    sigs.push(f.sig.to_token_stream().to_string());
                                }
                                syn::ImplItem::Type(t) => assoc.push(format!("{} = {}", t.ident, t.ty.to_token_stream())),
                                _ => other += 1,
                            }
                        }
                        let mut declared = BTreeSet::new();
                        let mut all_names = BTreeSet::new();
                        let mut twice: Vec<String> = vec![];
                        for p in &im.generics.params {
                            if let syn::GenericParam::Lifetime(l) = p {
                                declared.insert(l.lifetime.ident.to_string());
                            }
                            let nm = match p {
                                syn::GenericParam::Lifetime(l) => format!("'{}", l.lifetime.ident),
                                syn::GenericParam::Type(t) => t.ident.to_string(),
                                syn::GenericParam::Const(c) => c.ident.to_string(),
                            };
                            if !all_names.insert(nm.clone()) {
                                twice.push(nm);
                            }
                        }
                        let mut used = BTreeSet::new();
                        if let Some(t) = &im.trait_ {
                            lifetimes(t.1.to_token_stream(), &mut used);
                        }
                        lifetimes(im.self_ty.to_token_stream(), &mut used);
                        let undeclared: Vec<String> = used.iter().filter(|l| !declared.contains(*l) && *l != "static" && *l != "_").cloned().collect();
                        let (trp, tra) = tr.unwrap_or_default();
                        s.push_str(&format!(
                            "{{\"kind\":\"impl\",\"trait\":{},\"trait_args\":{},\"self_ty\":{},\"fns\":[{}],\"sigs\":[{}],\"assoc\":[{}],\"other_items\":{},\"undeclared_lifetimes\":[{}],\"declared_twice\":[{}],\"where\":{},\"n_attrs\":{}}}",
                            esc_json(&trp), esc_json(&tra), esc_json(&self_ty),
                            fns.iter().map(|x| esc_json(x)).collect::<Vec<_>>().join(","),
                            sigs.iter().map(|x| esc_json(x)).collect::<Vec<_>>().join(","),
                            assoc.iter().map(|x| esc_json(x)).collect::<Vec<_>>().join(","),
                            other,
                            undeclared.iter().map(|x| esc_json(x)).collect::<Vec<_>>().join(","),
                            twice.iter().map(|x| esc_json(x)).collect::<Vec<_>>().join(","),
                            esc_json(&im.generics.where_clause.as_ref().map(|w| w.predicates.to_token_stream().to_string()).unwrap_or_default()),
                            im.attrs.len()
                        ));
                    }
                    other => {
                        let t: String = other.to_token_stream().to_string().chars().take(40).collect();
                        s.push_str(&format!("{{\"kind\":\"other\",\"text\":{}}}", esc_json(&t)));
                    }
                }
            }
            s.push(']');
        }
    }
    s.push('}');
    s
}
