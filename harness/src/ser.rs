//! Canonical text form of token trees and of a parsed `DeriveInput`.
//!
//! One atom per whitespace-separated word:
//!   i<ident>   p<c> (punct, Alone)   j<c> (punct, Joint)   l<escaped literal text>
//!   ( ) [ ] { }   N( N)   group open / close
//! A `DeriveInput` is itself encoded as a token tree built from these atoms, so the Lean side
//! needs a single reader.
use proc_macro2::{Delimiter, Spacing, TokenStream, TokenTree};
use quote::ToTokens;

pub fn esc(s: &str) -> String {
    let mut o = String::new();
    for c in s.chars() {
        match c {
            ' ' => o.push_str("%20"),
            '%' => o.push_str("%25"),
            '\n' => o.push_str("%0A"),
            '\r' => o.push_str("%0D"),
            '\t' => o.push_str("%09"),
            c => o.push(c),
        }
    }
    o
}

pub fn ts(out: &mut String, t: &TokenStream) {
    for tt in t.clone() {
        match tt {
            TokenTree::Group(g) => {
                let (o, c) = match g.delimiter() {
                    Delimiter::Parenthesis => ("(", ")"),
                    Delimiter::Brace => ("{", "}"),
                    Delimiter::Bracket => ("[", "]"),
                    Delimiter::None => ("N(", "N)"),
                };
                out.push_str(o);
                out.push(' ');
                ts(out, &g.stream());
                out.push_str(c);
                out.push(' ');
            }
            TokenTree::Ident(i) => {
                out.push('i');
                out.push_str(&i.to_string());
                out.push(' ');
            }
            TokenTree::Punct(p) => {
                out.push(if p.spacing() == Spacing::Joint { 'j' } else { 'p' });
                out.push(p.as_char());
                out.push(' ');
            }
            TokenTree::Literal(l) => {
                out.push('l');
                out.push_str(&esc(&l.to_string()));
                out.push(' ');
            }
        }
    }
}

pub fn ts_string(t: &TokenStream) -> String {
    let mut s = String::new();
    ts(&mut s, t);
    s.trim_end().to_string()
}

fn grp(out: &mut String, f: impl FnOnce(&mut String)) {
    out.push_str("( ");
    f(out);
    out.push_str(") ");
}

fn attrs(out: &mut String, a: &[syn::Attribute]) {
    grp(out, |out| {
        for x in a {
            grp(out, |out| {
                grp(out, |out| ts(out, &x.path().to_token_stream()));
                match &x.meta {
                    syn::Meta::Path(_) => out.push_str("iP "),
                    syn::Meta::List(l) => {
                        out.push_str(match l.delimiter {
                            syn::MacroDelimiter::Paren(_) => "iLP ",
                            syn::MacroDelimiter::Brace(_) => "iLB ",
                            syn::MacroDelimiter::Bracket(_) => "iLK ",
                        });
                        grp(out, |out| ts(out, &l.tokens));
                    }
                    syn::Meta::NameValue(nv) => {
                        out.push_str("iNV ");
                        grp(out, |out| ts(out, &nv.value.to_token_stream()));
                    }
                }
            });
        }
    });
}

fn fields(out: &mut String, f: &syn::Fields) {
    let (tag, it): (&str, Vec<&syn::Field>) = match f {
        syn::Fields::Named(n) => ("inamed ", n.named.iter().collect()),
        syn::Fields::Unnamed(u) => ("iunnamed ", u.unnamed.iter().collect()),
        syn::Fields::Unit => ("iunit ", vec![]),
    };
    out.push_str(tag);
    grp(out, |out| {
        for fld in it {
            grp(out, |out| {
                attrs(out, &fld.attrs);
                match &fld.ident {
                    Some(i) => {
                        out.push('i');
                        out.push_str(&i.to_string());
                        out.push(' ');
                    }
                    None => out.push_str("p_ "),
                }
                grp(out, |out| ts(out, &fld.ty.to_token_stream()));
                // Field::ty is kept by o2o only when it is `Type::Path` (qself ignored): the path tokens
                match &fld.ty {
                    syn::Type::Path(p) => {
                        out.push_str("isome ");
                        grp(out, |out| ts(out, &p.path.to_token_stream()));
                    }
                    _ => out.push_str("inone "),
                }
            });
        }
    });
}

/// Encode the input exactly as syn handed it to the derive.
pub fn derive_input(di: &syn::DeriveInput) -> String {
    let mut out = String::new();
    let kind = match &di.data {
        syn::Data::Struct(_) => "istruct ",
        syn::Data::Enum(_) => "ienum ",
        syn::Data::Union(_) => "iunion ",
    };
    out.push_str(kind);
    out.push('i');
    out.push_str(&di.ident.to_string());
    out.push(' ');
    // generics: ( (kind name (full tokens) hasPunct (tokens as `ImplGenerics` prints the parameter: no default)) ... )
    grp(&mut out, |out| {
        for pair in di.generics.params.pairs() {
            let p = pair.value();
            grp(out, |out| {
                match p {
                    syn::GenericParam::Lifetime(l) => {
                        out.push_str("ilt ");
                        grp(out, |out| ts(out, &l.lifetime.to_token_stream()));
                    }
                    syn::GenericParam::Type(t) => {
                        out.push_str("ity ");
                        grp(out, |out| ts(out, &t.ident.to_token_stream()));
                    }
                    syn::GenericParam::Const(c) => {
                        out.push_str("iconst ");
                        grp(out, |out| ts(out, &c.ident.to_token_stream()));
                    }
                }
                grp(out, |out| ts(out, &p.to_token_stream()));
                out.push_str(if pair.punct().is_some() { "iy " } else { "in " });
                // `impl ToTokens for ImplGenerics`: lifetimes in full, type / const parameters without their defaults
                let impl_form = match p {
                    syn::GenericParam::Lifetime(l) => l.to_token_stream(),
                    syn::GenericParam::Type(t) => {
                        let (attrs, ident, bounds) = (&t.attrs, &t.ident, &t.bounds);
                        if bounds.is_empty() { quote::quote!(#(#attrs)* #ident) } else { quote::quote!(#(#attrs)* #ident: #bounds) }
                    }
                    syn::GenericParam::Const(c) => {
                        let (attrs, ident, ty) = (&c.attrs, &c.ident, &c.ty);
                        quote::quote!(#(#attrs)* const #ident: #ty)
                    }
                };
                grp(out, |out| ts(out, &impl_form));
            });
        }
    });
    attrs(&mut out, &di.attrs);
    match &di.data {
        syn::Data::Struct(s) => fields(&mut out, &s.fields),
        syn::Data::Enum(e) => {
            grp(&mut out, |out| {
                for v in &e.variants {
                    grp(out, |out| {
                        attrs(out, &v.attrs);
                        out.push('i');
                        out.push_str(&v.ident.to_string());
                        out.push(' ');
                        fields(out, &v.fields);
                    });
                }
            });
        }
        syn::Data::Union(_) => {}
    }
    out.trim_end().to_string()
}
