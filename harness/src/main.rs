mod ser;
mod run;
mod corpus;
mod extract;
mod analyze;

fn main() {
    let args: Vec<String> = std::env::args().collect();
    let cmd = args.get(1).map(|s| s.as_str()).unwrap_or("");
    let flag = |name: &str| args.iter().any(|a| a == name);
    let opt = |name: &str| args.iter().position(|a| a == name).and_then(|i| args.get(i + 1)).cloned();
    match cmd {
        "run" => run::main(flag("--no-in"), opt("--repeat").and_then(|x| x.parse().ok()).unwrap_or(1), flag("--analyze")),
        "extract" => extract::main(&opt("--repo").unwrap_or("/repo".into()), opt("--out")),
        "corpus" => corpus::main(&opt("--repo").unwrap_or("/repo".into())),
        _ => {
            eprintln!("usage: harness run [--no-in] [--repeat k] < cases");
            std::process::exit(2);
        }
    }
}
