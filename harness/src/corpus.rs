//! Extracts every `#[derive(o2o)]` input found in the repository's own tests, unit tests and README
//! from the working tree, one per line (`<id>\t<source>`).
use proc_macro2::{TokenStream, TokenTree};
use quote::ToTokens;
use std::path::Path;
use syn::visit::Visit;

struct V {
    out: Vec<String>,
}

fn is_o2o_derive(a: &syn::Attribute) -> bool {
    a.path().is_ident("derive") && a.meta.to_token_stream().to_string().contains("o2o")
}

fn strip(attrs: &mut Vec<syn::Attribute>) {
    attrs.retain(|a| !a.path().is_ident("derive"));
}

impl<'ast> Visit<'ast> for V {
    fn visit_item_struct(&mut self, i: &'ast syn::ItemStruct) {
        if i.attrs.iter().any(is_o2o_derive) {
            let mut c = i.clone();
            strip(&mut c.attrs);
            self.out.push(c.to_token_stream().to_string());
        }
    }
    fn visit_item_enum(&mut self, i: &'ast syn::ItemEnum) {
        if i.attrs.iter().any(is_o2o_derive) {
            let mut c = i.clone();
            strip(&mut c.attrs);
            self.out.push(c.to_token_stream().to_string());
        }
    }
}

fn scan_quotes(ts: TokenStream, out: &mut Vec<String>) {
    let toks: Vec<TokenTree> = ts.into_iter().collect();
    for (n, t) in toks.iter().enumerate() {
        if let TokenTree::Group(g) = t {
            let is_quote = n >= 2
                && matches!(&toks[n - 1], TokenTree::Punct(p) if p.as_char() == '!')
                && matches!(&toks[n - 2], TokenTree::Ident(i) if i == "quote");
            if is_quote {
                if syn::parse2::<syn::DeriveInput>(g.stream()).is_ok() {
                    out.push(g.stream().to_string());
                    continue;
                }
            }
            scan_quotes(g.stream(), out);
        }
    }
}

pub fn collect(repo: &str) -> Vec<(String, String)> {
    let mut res = vec![];
    let mut files: Vec<_> = std::fs::read_dir(Path::new(repo).join("o2o-tests/tests"))
        .map(|d| d.filter_map(|e| e.ok()).map(|e| e.path()).filter(|p| p.extension().map_or(false, |x| x == "rs")).collect())
        .unwrap_or_default();
    files.sort();
    for f in files {
        let Ok(src) = std::fs::read_to_string(&f) else { continue };
        let Ok(file) = syn::parse_file(&src) else { continue };
        let mut v = V { out: vec![] };
        v.visit_file(&file);
        let stem = f.file_stem().unwrap().to_string_lossy().to_string();
        for (n, s) in v.out.into_iter().enumerate() {
            res.push((format!("t{}#{}", stem, n), s));
        }
    }
    if let Ok(src) = std::fs::read_to_string(Path::new(repo).join("o2o-impl/src/tests.rs")) {
        if let Ok(ts) = src.parse::<TokenStream>() {
            let mut out = vec![];
            scan_quotes(ts, &mut out);
            for (n, s) in out.into_iter().enumerate() {
                res.push((format!("u#{}", n), s));
            }
        }
    }
    if let Ok(src) = std::fs::read_to_string(Path::new(repo).join("README.md")) {
        let mut in_block = false;
        let mut block = String::new();
        let mut k = 0;
        for line in src.lines() {
            if line.trim_start().starts_with("```") {
                if in_block {
                    if let Ok(file) = syn::parse_file(&block) {
                        let mut v = V { out: vec![] };
                        v.visit_file(&file);
                        for s in v.out {
                            res.push((format!("r#{}", k), s));
                            k += 1;
                        }
                    }
                    block.clear();
                    in_block = false;
                } else {
                    in_block = line.contains("rust");
                    if !in_block {
                        // a non-rust block: skip until its end
                        in_block = true;
                        block.push_str("!!not rust!!\n");
                    }
                }
            } else if in_block {
                block.push_str(line);
                block.push('\n');
            }
        }
    }
    res
}

pub fn main(repo: &str) {
    for (id, s) in collect(repo) {
        println!("{}\t{}", id, s.replace('\n', " "));
    }
}
