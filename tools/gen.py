"""Structured generator of derive inputs. Every random choice comes from one random.Random(seed).
Items are kept structured (instructions as (name, args)) so that the metamorphic transformations
(respelling, desugaring, projection, write-out of repeat, fault injection) can be applied to them."""
import random, re, os, copy

REPO = os.environ.get("O2O_REPO", "/repo")

MAP6 = ["owned_into", "ref_into", "from_owned", "from_ref", "owned_into_existing", "ref_into_existing"]
SHORT = {"into": ["owned_into", "ref_into"], "from": ["from_owned", "from_ref"],
         "map_owned": ["from_owned", "owned_into"], "map_ref": ["from_ref", "ref_into"],
         "map": ["from_owned", "from_ref", "owned_into", "ref_into"],
         "into_existing": ["owned_into_existing", "ref_into_existing"]}
MAP12 = MAP6 + list(SHORT)


def try_name(n):
    return {"owned_into": "owned_try_into", "ref_into": "ref_try_into", "into": "try_into", "from_owned": "try_from_owned",
            "from_ref": "try_from_ref", "from": "try_from", "map_owned": "try_map_owned", "map_ref": "try_map_ref", "map": "try_map",
            "owned_into_existing": "owned_try_into_existing", "ref_into_existing": "ref_try_into_existing",
            "into_existing": "try_into_existing"}[n]


TRY12 = [try_name(n) for n in MAP12]
ALL24 = MAP12 + TRY12
UNTRY = {try_name(n): n for n in MAP12}
MEMBER_TRY = [try_name(n) for n in MAP12 if "existing" not in n]


def kinds_of(name):
    """the basic kinds (among MAP6) an instruction name stands for, and its fallibility"""
    fall = name in UNTRY
    base = UNTRY.get(name, name)
    return (SHORT.get(base, [base]), fall)


ALL_O2O_NAMES = set(ALL24) | {"ghost", "ghost_owned", "ghost_ref", "ghosts", "ghosts_owned", "ghosts_ref", "child", "children", "child_parents", "parent", "as_type",
                              "literal", "pattern", "type_hint", "repeat", "skip_repeat", "stop_repeat", "where_clause", "allow_unknown"}
_bare = None


def bare_names():
    """names registered as helper attributes of the derive (read from the working tree)"""
    global _bare
    if _bare is None:
        try:
            src = open(os.path.join(REPO, "o2o-macros", "src", "lib.rs")).read()
            m = re.search(r"attributes\(([^)]*)\)", src, re.S)
            _bare = [x.strip() for x in m.group(1).split(",") if x.strip()]
        except Exception:
            _bare = ALL24 + ["child", "children", "child_parents", "parent", "ghost", "ghosts", "where_clause", "literal", "pattern", "type_hint", "o2o"]
    return _bare


class Instr:
    __slots__ = ("name", "args", "tag")

    def __init__(self, name, args=None, tag=None):
        self.name, self.args, self.tag = name, args, tag

    def inner(self):
        return self.name if self.args is None else f"{self.name}({self.args})"

    def bare(self):
        if self.tag and self.tag[0] == "unk" and self.tag[1] in ("[", "{", "="):
            # other attribute shapes a foreign attribute may have
            a = self.args or "x"
            return {"[": f"#[{self.name}[{a}]]", "{": f"#[{self.name}{{{a}}}]", "=": f"#[{self.name} = \"{a.replace(chr(34), '')}\"]"}[self.tag[1]]
        return f"#[{self.inner()}]"


class Field:
    def __init__(self, name, ty, attrs=None):
        self.name, self.ty, self.attrs = name, ty, attrs or []


class Variant:
    def __init__(self, name, shape, fields=None, attrs=None):
        self.name, self.shape, self.fields, self.attrs = name, shape, fields or [], attrs or []


class Item:
    def __init__(self, kind, name, shape="named", generics="", attrs=None, fields=None, variants=None, raw_attrs=None):
        self.kind, self.name, self.shape, self.generics = kind, name, shape, generics
        self.attrs, self.fields, self.variants = attrs or [], fields or [], variants or []
        self.raw_attrs = raw_attrs or []  # verbatim attribute strings (hostile shapes, foreign attributes)
        self.meta = {}


def render_attrs(attrs, spell):
    """spell: None = bare where possible else o2o(single); or a callable(list of Instr) -> list of strings"""
    if spell is not None:
        return spell(attrs)
    out = []
    for a in attrs:
        if a.name in bare_names() or (a.tag and a.tag[0] == "unk"):
            out.append(a.bare())
        else:
            out.append(f"#[o2o({a.inner()})]")
    return out


def render_fields(shape, fields, spell):
    if shape == "unit":
        return ""
    parts = []
    for f in fields:
        at = " ".join(render_attrs(f.attrs, spell))
        if shape == "named":
            parts.append(f"{at} {f.name}: {f.ty}".strip())
        else:
            parts.append(f"{at} {f.ty}".strip())
    body = ", ".join(parts)
    return "{ " + body + " }" if shape == "named" else "(" + body + ")"


def render(item, spell=None):
    at = " ".join(item.raw_attrs + render_attrs(item.attrs, spell))
    if item.kind == "struct":
        body = render_fields(item.shape, item.fields, spell)
        tail = "" if item.shape == "named" else ";"
        return f"{at} struct {item.name}{item.generics} {body}{tail}".strip()
    if item.kind == "union":
        body = render_fields("named", item.fields, spell)
        return f"{at} union {item.name}{item.generics} {body}".strip()
    vs = []
    for v in item.variants:
        vat = " ".join(render_attrs(v.attrs, spell))
        vs.append(f"{vat} {v.name}{render_fields(v.shape, v.fields, spell)}".strip())
    return f"{at} enum {item.name}{item.generics} {{ {', '.join(vs)} }}".strip()


# ---------------------------------------------------------------------------------------------

TYPES = ["i32", "String", "u8", "Vec<i32>", "Option<String>", "f32", "(i32, u8)", "[u8; 4]", "std::string::String", "Box<Inner>"]
NAMES = ["a", "b", "c", "d", "e", "f", "g", "h", "k", "m", "n", "q"]
OTHER = ["x", "y", "z", "w", "u", "v", "s", "t"]
CPARTS = ["A", "B", "C", "m::D", "G<i32>", "G<T>", "H::<'x, u8>", "crate::n::E", "::m::G<T>", "::k::K"]
ERRS = ["MyErr", "String", "std::io::Error", "E1<T>", "anyhow::Error", "::e::Err<T>"]

ACTIONS_TILDE = ["~.clone()", "~ as i64", "{ ~.to_string() }", "~.iter().map(|p| p.into()).collect()", "Some(~)", "~ + 1",
                 "[~, ~]", "(~, 1)", "~.parse::<i32>().unwrap()", "~.0", "Box::new(~)", "&~", "~ . x . y", "~.try_into()?"]
ACTIONS_AT = ["@.x + 1", "@.name.clone()", "{ @.a * @.b }", "foo(&@)", "@.items.len() as i32", "(@.a, @.b)", "@.v.iter().sum::<i32>()"]
ACTIONS_LITS = ["1u8", "0usize", "4294967296", "-1", "7i64", "2.5", "1e3", "\"lit\"", "'c'", "true", "99999999999u64"]
ACTIONS_PLAIN = ["{ 123 }", "{ Default::default() }", "{ None }", "{ String::new() }", "{ vec![1, 2] }", "{ \"~@\".len() }", "{ '~' as u32 }"]
ACTIONS_MIXED = ["~ + @.b", "{ if @.flag { ~ } else { 0 } }", "m!(~, @)", "(|p: i32| p + ~)(@.k)", "x::<Vec<_>>(~, &@)", "~ && @.y || !~"]


class G:
    def __init__(self, seed, profile):
        self.r = random.Random(seed)
        # a second stream for features added late: what the first stream generates stays what it was
        self.r2 = random.Random(f"{seed}-aux")
        self.p = profile

    def ch(self, xs):
        return self.r.choice(xs)

    def pr(self, key, default=0.0):
        return self.r.random() < self.p.get(key, default)

    # --- expressions -----------------------------------------------------------------------
    def action(self, kinds="any", fallible=False):
        r = self.r
        pools = ACTIONS_TILDE + ACTIONS_AT + ACTIONS_MIXED + (ACTIONS_PLAIN if kinds != "noplain" else [])
        a = self.ch(pools)
        if not fallible and "?" in a:
            a = "~.clone()"
        if self.pr("deep_expr", 0.0):
            a = self.deep_expr(3)
        return a

    def deep_expr(self, depth):
        r = self.r
        atoms = ["~", "@", "1", "\"s~@\"", "'@'", "'a'", "x", "y.z", "::core::mem::take", "b'~'", "1.5", "0x1f", "r#type"]
        if depth == 0:
            return self.ch(atoms)
        k = r.randrange(9)
        sub = lambda: self.deep_expr(depth - 1)
        if k == 0:
            return f"({sub()}, {sub()})"
        if k == 1:
            return f"[{sub()}; 2]"
        if k == 2:
            return "{ " + sub() + " }"
        if k == 3:
            return f"{sub()}.f::<T<'a>>({sub()})"
        if k == 4:
            return f"|p| {sub()}"
        if k == 5:
            return f"{sub()} {self.ch(['+', '&&', '||', '==', '<<', '..', '..=', '->', '=>', '>>=', '::'])} {sub()}"
        if k == 6:
            return f"mac!{self.ch(['(', '[', '{'])}"[:-1] + self.ch(["(" + sub() + ")", "[" + sub() + "]", "{" + sub() + "}"])
        if k == 7:
            return f"&'a {sub()}"
        return f"{sub()}.{self.ch(['0', 'x', 'await'])}"

    # --- type-level trait instructions -----------------------------------------------------
    def counterpart(self):
        if self.pr("tuple_cpart", 0.05):
            return "(" + ", ".join(self.ch(["i32", "String", "u8"]) for _ in range(self.r.randrange(1, 4))) + ")"
        if self.pr("generic_cpart", 0.1):
            if self.pr("x", 0.5):
                # any layout of lifetimes (own / counterpart-only, repeated, in any order) followed by type arguments
                lts = [self.ch(["'a", "'b", "'x", "'y"]) for _ in range(self.r.randrange(0, 4))]
                tys = [self.ch(["T", "i32", "Vec<u8>", "U"]) for _ in range(self.r.randrange(0 if lts else 1, 3))]
                return self.ch(["K", "N", "m::G"]) + self.ch(["<", "<", "::<"]) + ", ".join(lts + tys) + ">"
            return self.ch(["G<i32>", "G<T>", "H::<'x, u8>", "K<'x, 'y>", "L<'a>", "m::G<Vec<u8>>", "K<'x, 'x>", "K<'a, 'x>", "N<'y, 'x, 'y, T>", "K<'x, 'a>", "N<'x, 'a, 'y, T>", "K<'x, 'b>", "N<'b, 'x, 'a, T>"])
        return self.ch(["A", "B", "C", "m::D"] if not self.pr("odd_cpart", 0.05) else CPARTS)

    def trait_params(self, name, is_enum):
        ps = []
        if self.pr("vars", 0.05):
            n = self.r.randrange(1, 3)
            ps.append("vars(" + ", ".join(f"v{k}: {{ {self.ch(['1', '@.x', '@.a + 1', 'foo()'])} }}" for k in range(n)) + ")")
        if self.pr("attr_params", 0.05):
            ps.append(self.ch(["attribute(inline)", "attribute(allow(unused))", "attribute(doc = \"x y\")"]))
        if self.pr("attr_params", 0.05):
            ps.append(self.ch(["impl_attribute(cfg(test))", "impl_attribute(allow(dead_code))"]))
        if self.pr("attr_params", 0.05):
            ps.append(self.ch(["inner_attribute(allow(unused_variables))", "inner_attribute(rustfmt::skip)"]))
        if self.pr("trait_repeat", 0.0):
            ps.append(self.ch(["repeat()", "repeat(vars)", "repeat(update, vars)", "repeat(quick_return)", "repeat(default_case)", "skip_repeat", "stop_repeat", "stop_repeat, repeat()"]))
        self.r.shuffle(ps)
        tail = None
        if self.pr("update", 0.05):
            tail = ".." + self.ch(["Default::default()", "@.clone().into()", "base()", "{ mk(&@) }"])
        elif self.pr("quick_return", 0.04):
            tail = "return " + self.ch(["Foo(@.0)", "@.inner.into()", "{ mk(@) }", "~x"])
        elif is_enum and self.pr("default_case", 0.1):
            tail = "_ => " + self.ch(["panic!(\"no\")", "todo!()", "Default::default()", "Err(\"x\")?", "@.fallback()"])
        if tail:
            ps.append(tail)
        return ", ".join(ps)

    def trait_instr(self, name, cpart, is_enum, hint=None):
        _, fall = kinds_of(name)
        s = cpart
        if hint and not cpart.startswith("("):
            s += " as " + hint
        if fall and not self.pr("drop_err", 0.0):
            s += ", " + self.ch(ERRS if self.pr("odd_err", 0.2) else ["MyErr", "String"])
        elif not fall and self.pr("extra_err", 0.0):
            s += ", MyErr"
        ps = self.trait_params(name, is_enum)
        if ps:
            s += " | " + ps
        return Instr(name, s, tag=("trait", cpart))

    # --- member-level ----------------------------------------------------------------------
    def member_map_instr(self, cparts, names=None, fallible_ok=True, target_named=True, nfields=4):
        r = self.r
        pool = names or (MAP12 + (MEMBER_TRY if fallible_ok and self.pr("member_try", 0.15) else []))
        name = self.ch(pool)
        ded = ""
        dedicated_to = None
        if cparts and self.pr("dedicated", 0.25):
            dedicated_to = self.ch(cparts)
            if not dedicated_to.startswith("("):
                ded = dedicated_to + "| "
            else:
                dedicated_to = None
        k = r.randrange(6)
        member = self.ch(OTHER) if target_named and not self.pr("idx_rename", 0.15) else str(r.randrange(0, max(1, nfields)))
        if target_named and self.pr("kw_names", 0.0):
            member = self.ch(["dyn", "try", "async", "await"])   # reserved since the 2018 edition: identifiers for syn 1 only
        fall = name in UNTRY
        if self.pr("lit_args", 0.03):
            body = self.ch(ACTIONS_LITS) + (", " + self.ch(ACTIONS_TILDE[:4]) if self.pr("x", 0.3) else "")
        elif k == 0:
            body = member
        elif k == 1:
            body = self.action(fallible=fall)
        elif k == 2:
            body = member + ", " + self.action(fallible=fall)
        elif k == 3:
            body = member
        elif k == 4:
            body = member + ", " + self.ch(ACTIONS_TILDE[:8])
        else:
            body = self.ch(ACTIONS_TILDE[:8] + ACTIONS_AT[:3])
        return Instr(name, ded + body, tag=("mmap", dedicated_to))

    def ghost_instr(self, cparts, with_default=True):
        name = "ghost" if not self.pr("ghost_flavour", 0.3) else self.ch(["ghost_owned", "ghost_ref"])
        ded = ""
        dedicated_to = None
        if cparts and self.pr("dedicated", 0.25):
            c = self.ch(cparts)
            if not c.startswith("("):
                ded, dedicated_to = c + "| ", c
        if with_default:
            a = self.ch(ACTIONS_PLAIN + ["@.x.len()", "{ @.a + 1 }", "|| 5"]) if not self.pr("deep_expr", 0.0) else self.deep_expr(2)
            args = ded + a
        else:
            args = ded.rstrip("| ") if ded else None
            if ded:
                args = dedicated_to
        return Instr(name, args, tag=("ghost", dedicated_to))

    def field_attrs(self, cparts, has_from, target_named, nfields, is_variant_field=False):
        out = []
        r = self.r
        if self.pr("ghost_field", 0.1):
            out.append(self.ghost_instr(cparts, with_default=self.pr("ghost_default", 0.85)))
            if self.pr("ghost_pair", 0.2):
                out.append(self.ghost_instr(cparts, with_default=True))
        n = 0
        while self.pr("member_instr", 0.35) and n < 4:
            out.append(self.member_map_instr(cparts, target_named=target_named, nfields=nfields))
            n += 1
        if self.pr("try_pair", 0.0):
            # a fallible instruction next to its infallible twin, naming different counterpart members
            base = self.ch(["from", "into", "map", "map_owned", "from_owned", "owned_into", "ref_into", "from_ref", "map_ref"])
            ded = (self.ch(cparts) + "| ") if cparts and self.pr("dedicated", 0.25) and not cparts[0].startswith("(") else ""
            if "(" in ded:
                ded = ""
            t1 = self.ch(OTHER) if target_named else str(r.randrange(0, max(1, nfields)))
            t2 = self.ch(OTHER) if target_named else str(r.randrange(0, max(1, nfields)))
            out.append(Instr(try_name(base), ded + t1 + self.ch(["", "", ", ~.clone()"]), tag=("mmap", ded[:-2] if ded else None)))
            out.append(Instr(base, ded + t2 + self.ch(["", "", ", ~ + 1"]), tag=("mmap", ded[:-2] if ded else None)))
        if self.pr("as_type", 0.05):
            ded = (self.ch(cparts) + "| ") if cparts and self.pr("dedicated", 0.25) and not self.ch(cparts).startswith("(") else ""
            if ded.startswith("("):
                ded = ""
            out.append(Instr("as_type", ded + self.ch(["i64", "f64", "y, u8", "1, i16", "u64"]), tag=("as", None)))
        if self.pr("member_repeat", 0.0):
            out.append(Instr(self.ch(["repeat", "repeat", "skip_repeat", "stop_repeat"]),
                             self.ch([None, "", "map", "ghost, map", "child", "parent", "type_hint", "permeate()", "permeate(), map"]) if True else None, tag=("rep", None)))
            if out[-1].name != "repeat":
                out[-1].args = None
        r.shuffle(out)
        return out

    def hint(self):
        return self.ch([None, None, None, "{}", "()", "Unit"]) if self.pr("hints", 0.3) else None

    # --- whole items -----------------------------------------------------------------------
    def generics(self):
        if not self.pr("generics", 0.0):
            return ""
        ps = []
        for _ in range(self.r.randrange(1, 4)):
            ps.append(self.ch(["'a", "'b", "T", "U", "T: Clone", "'a, 'b: 'a", "const N: usize", "T = i32", "U: Clone + Default", "T: 'static + Copy"]))
        # unique names
        seen, out = set(), []
        for prm in ", ".join(ps).split(", "):
            nm = prm.split(":")[0].split("=")[0].strip()
            if nm not in seen:
                seen.add(nm)
                out.append(prm)
        return "<" + ", ".join(out) + ("," if self.pr("trailing_comma", 0.1) else "") + ">"

    def shape_fields(self, shape, nf, cparts, struct_hint):
        """fields for a deliberate tuple<->named shape change: every mapped member names its counterpart member, ghost
        members (with default) are sprinkled at any position, including the first"""
        r = self.r
        fields = []
        for k in range(nf):
            fa = []
            if self.pr("shape_ghost", 0.3):
                # a bare ghost (no value: the `..update` of the type supplies it) leaves no line in the initialiser, so
                # the members after it are rendered at a position that differs from their declaration index
                g = self.ghost_instr(cparts, with_default=not self.pr("shape_bare_ghost", 0.0))
                g.name = self.ch(["ghost", "ghost", "ghost_owned", "ghost_ref"])
                fa.append(g)
                if g.name != "ghost":
                    fa.append(Instr(self.ch(["map", "map_owned", "map_ref", "into", "from"]), (OTHER[k % len(OTHER)] if struct_hint else str(k)) + self.ch(["", "", ", ~.clone()", ", *~"]), tag=("mmap", None)))
            else:
                tgt = OTHER[k % len(OTHER)] if struct_hint else str(k)
                style = r.randrange(4)
                if len(cparts) > 1 and self.pr("shape_mixed", 0.0):
                    # a default instruction and one dedicated to a counterpart side by side, in either order; mostly the
                    # pair is valid (the one that applies names the member), sometimes the dedicated one forgets the name
                    ded = self.ch(cparts)
                    nm = self.ch(["map", "into", "from", "map_owned", "owned_into"])
                    forget = self.pr("shape_forget", 0.15)
                    pair = [Instr(nm, self.ch(["~.clone()", "~ + 1", tgt, tgt + ", ~.clone()"]), tag=("mmap", None)),
                            Instr(nm, ded + "| " + (self.ch(["~.clone()", "~ + 1"]) if forget else tgt + self.ch(["", ", ~.clone()", ", ~ + 1"])), tag=("mmap", ded))]
                    if r.random() < 0.5:
                        pair.reverse()
                    fa += pair
                    if nm != "map" and r.random() < 0.7:
                        fa.append(Instr("map", tgt, tag=("mmap", None)))
                elif self.pr("shape_nameless", 0.0):
                    # an inline expression and no member name: `~` stands for the member at the declaration position
                    fa.append(Instr(self.ch(["map", "from", "map_owned", "map_ref", "into"]), self.ch(["~ + 1", "~.clone()", "{ ~.to_string() }", "f(&~, &@)"]), tag=("mmap", None)))
                elif style == 0:
                    fa.append(Instr("map", tgt, tag=("mmap", None)))
                elif style == 1:
                    fa.append(Instr("map_owned", tgt, tag=("mmap", None)))
                    fa.append(Instr("map_ref", tgt + ", *~", tag=("mmap", None)))
                elif style == 2:
                    fa.append(Instr("from", tgt, tag=("mmap", None)))
                    fa.append(Instr("into", tgt + self.ch(["", ", ~.clone()", ", ~ + 1"]), tag=("mmap", None)))
                else:
                    fa.append(Instr(self.ch(["map", "try_map"]) if self.pr("member_try", 0.1) else "map", tgt + ", ~ + 1", tag=("mmap", None)))
            fields.append(Field(NAMES[k] if shape == "named" else None, self.ch(["i32", "String", "u8"]), fa))
        return fields

    def struct(self, name="S"):
        r = self.r
        if self.pr("shape_change", 0.0):
            shape = self.ch(["tuple", "named"])
            hint = "{}" if shape == "tuple" else "()"
            cparts = [self.ch(["A", "B"])]
            if self.pr("shape_multi", 0.0):
                cparts = ["A", "B"]
            attrs = []
            for c in cparts:
                for _ in range(r.randrange(1, 3)):
                    nm = self.ch(ALL24 if self.pr("fallible", 0.3) else MAP12)
                    attrs.append(self.trait_instr(nm, c, False, hint))
            fields = self.shape_fields(shape, r.randrange(1, 5), cparts, shape == "tuple")
            it = Item("struct", name, shape, "", attrs, fields)
            it.meta["cparts"] = cparts
            return it
        shape = self.ch(["named", "named", "named", "tuple", "tuple", "unit"]) if not self.p.get("force_shape") else self.p["force_shape"]
        nf = 0 if shape == "unit" else r.randrange(self.p.get("min_fields", 0), self.p.get("max_fields", 4) + 1)
        ncp = 1 if not self.pr("multi_cpart", 0.2) else r.randrange(2, 4)
        cparts = []
        while len(cparts) < ncp:
            c = self.counterpart()
            if c not in cparts:
                cparts.append(c)
        attrs = []
        has_from = False
        for c in cparts:
            for _ in range(1 if not self.pr("multi_instr", 0.3) else r.randrange(1, 4)):
                nm = self.ch(ALL24 if self.pr("fallible", 0.3) else MAP12)
                ks, _ = kinds_of(nm)
                has_from = has_from or any(k.startswith("from") for k in ks)
                attrs.append(self.trait_instr(nm, c, False, self.hint()))
        if self.pr("where_clause", 0.05):
            ded = (self.ch(cparts) + "| ") if self.pr("dedicated", 0.25) and not cparts[0].startswith("(") else ""
            if "(" in ded:
                ded = ""
            wcs = ["T: Clone", "T: Into<U>, U: Default", "'a: 'b", "Vec<T>: Sized", "T: Default", "U: Copy + 'static"]
            attrs.append(Instr("where_clause", ded + self.ch(wcs), tag=("where", None)))
            if self.pr("second_where", 0.5):
                # a default and a dedicated clause side by side, in either order
                c = self.ch(cparts)
                other = "" if ded else ((c + "| ") if not c.startswith("(") else "")
                w2 = Instr("where_clause", other + self.ch(wcs), tag=("where", None))
                if self.pr("x", 0.5):
                    attrs.append(w2)
                else:
                    attrs.insert(len(attrs) - 1, w2)
        if self.pr("ghosts", 0.08):
            ded = (self.ch(cparts) + "| ") if self.pr("dedicated", 0.25) else ""
            if "(" in ded:
                ded = ""
            nm = "ghosts" if not self.pr("ghost_flavour", 0.3) else self.ch(["ghosts_owned", "ghosts_ref"])
            # a stray child path: the entry is addressed to a nested struct no #[child_parents] declares (must be reported,
            # for whichever flavour / counterpart the instruction applies to)
            stray = self.ch(["base@", "a.b@", "0@"]) if self.pr("stray_child_ghost", 0.0) else ""
            gs = ", ".join(f"{stray if r.random() < 0.7 else ''}{self.ch(OTHER + ['0', '1'])}: {{ {self.ch(['1', '@.a', 'Default::default()', '@.x.clone()'])} }}" for _ in range(r.randrange(1, 3)))
            attrs.append(Instr(nm, ded + gs, tag=("ghosts", None)))
            if self.pr("second_ghosts", 0.4):
                c = self.ch(cparts)
                other = "" if ded else ((c + "| ") if not c.startswith("(") else "")
                g2 = Instr(self.ch(["ghosts", nm]), other + f"{self.ch(OTHER)}: {{ 2 }}", tag=("ghosts", None))
                if self.pr("x", 0.5):
                    attrs.append(g2)
                else:
                    attrs.insert(len(attrs) - 1, g2)
        fields = []
        for k in range(nf):
            fields.append(Field(NAMES[k % len(NAMES)] if shape == "named" else None, self.ch(TYPES),
                                self.field_attrs(cparts, has_from, target_named=(shape == "named"), nfields=nf)))
        if self.pr("repeat_overlap", 0.0):
            # a later member of a repeat run spells out an instruction of the *same name* as a repeated one, dedicated to
            # one counterpart (or default where the repeated one is dedicated): the two must not shadow each other
            for i, f in enumerate(fields[:-1]):
                rep = next((a for a in f.attrs if a.name == "repeat"), None)
                maps = [a for a in f.attrs if a.tag and a.tag[0] == "mmap"]
                if rep is not None and maps and (rep.args in (None, "") or "map" in (rep.args or "")):
                    src = self.ch(maps)
                    tgt = self.ch(fields[i + 1:])
                    if any(a.name in ("repeat", "skip_repeat", "stop_repeat") for a in tgt.attrs):
                        continue
                    c = self.ch(cparts)
                    body = self.ch(OTHER) if shape == "named" else str(r.randrange(0, max(1, nf)))
                    ded = "" if (src.tag[1] is not None) else ((c + "| ") if not c.startswith("(") else "")
                    tgt.attrs.append(Instr(src.name, ded + body + self.ch(["", ", ~.clone()"]), tag=("mmap", c if ded else None)))
                    break
        r.shuffle(attrs) if self.pr("shuffle_type_attrs", 0.3) else None
        self.unknowns(attrs, fields, True)
        it = Item("struct", name, shape, self.generics(), attrs, fields)
        it.meta["cparts"] = cparts
        return it

    def enum(self, name="E"):
        r = self.r
        ncp = 1 if not self.pr("multi_cpart", 0.2) else 2
        cparts = []
        while len(cparts) < ncp:
            c = self.counterpart()
            if c not in cparts and not c.startswith("("):
                cparts.append(c)
        prim = self.pr("enum_prim", 0.0)
        if prim:
            cparts = [self.ch(["i32", "u8", "&'static str", "String"])]
            if self.pr("prim_multi", 0.0):
                cparts = self.r.sample(["i32", "i64", "u8", "u16"], 2)
        attrs = []
        names = [n for n in ALL24 if "existing" not in n] if not self.pr("enum_existing", 0.02) else ALL24
        for c in cparts:
            for _ in range(1 if not self.pr("multi_instr", 0.3) else r.randrange(1, 3)):
                nm = self.ch(names if self.pr("fallible", 0.3) else [n for n in names if n in MAP12])
                attrs.append(self.trait_instr(nm, c, True, None))
        if self.pr("ghosts", 0.08):
            ded = (self.ch(cparts) + "| ") if self.pr("dedicated", 0.25) else ""
            nm = "ghosts" if not self.pr("ghost_flavour", 0.3) else self.ch(["ghosts_owned", "ghosts_ref"])
            gs = ", ".join(self.ch([f"X{k}: {{ E::V0 }}", f"Y{k}(..): {{ todo!() }}", f"Z{k}{{ a, .. }}: {{ E::V1(a) }}", f"W{k}: {{ @.def() }}"] + ([f"{k}: {{ E::V0 }}"] if self.pr("enum_ghost_idx", 0.0) else [])) for k in range(r.randrange(1, 3)))
            attrs.append(Instr(nm, ded + gs, tag=("ghosts", None)))
        if self.pr("cp_on_enum", 0.0):
            attrs.append(Instr("child_parents", self.ch(["p: P", "p: P, p.q: m::Q", "A| p: P"]), tag=("cp", None)))
        vs = []
        nv = r.randrange(self.p.get("min_variants", 1), self.p.get("max_variants", 4) + 1)
        for k in range(nv):
            shape = self.ch(["unit", "unit", "tuple", "named"]) if not self.pr("payload_heavy", 0.0) else self.ch(["tuple", "named", "named"])
            nf = 0 if shape == "unit" else r.randrange(0 if self.pr("empty_payload", 0.1) else 1, 3)
            vat = []
            if prim:
                if self.pr("lit", 0.6):
                    vat.append(Instr("literal", self.ch([str(k), str(k * 10), f"\"s{k}\"", "-1"]), tag=("lit", None)))
                    if len(cparts) > 1 and self.pr("lit_pair", 0.5):
                        # a default and a dedicated literal side by side, in either order
                        l2 = Instr("literal", self.ch(cparts) + "| " + str(k * 100 + 7), tag=("lit", None))
                        if self.pr("x", 0.5):
                            vat.append(l2)
                        else:
                            vat.insert(len(vat) - 1, l2)
                elif self.pr("pat", 0.7):
                    vat.append(Instr("pattern", self.ch([f"{k}..={k + 5}", f"{k} | {k + 100}", "_", f"\"a{k}\" | \"b\"", f"x if x > {k}", f"..={k}"]), tag=("pat", None)))
                    if len(cparts) > 1 and self.pr("lit_pair", 0.5):
                        p2 = Instr("pattern", self.ch(cparts) + "| " + f"{k}..={k + 50}", tag=("pat", None))
                        if self.pr("x", 0.5):
                            vat.append(p2)
                        else:
                            vat.insert(len(vat) - 1, p2)
                    if self.pr("pat_into", 0.8):
                        # mostly an expression; now and then a name alone (the arm would be empty: a diagnostic since fix 08c970f)
                        body = "{ " + str(k) + " }" if self.r2.random() < 0.85 else self.r2.choice([f"W{k}", f"W{k}, {{ {k} }}"])
                        vat.append(Instr(self.ch(["into", "owned_into", "ref_into"]), body, tag=("mmap", None)))
                if self.pr("prim_ghost", 0.0):
                    vat.append(self.ghost_instr(cparts, with_default=self.pr("ghost_default", 0.7)))
            else:
                if self.pr("variant_ghost", 0.08):
                    vat.append(self.ghost_instr(cparts, with_default=self.pr("ghost_default", 0.7)))
                if self.pr("variant_map", 0.25):
                    nm = self.ch(MAP12[:9] + (MEMBER_TRY if self.pr("member_try", 0.15) else []))
                    ded = (self.ch(cparts) + "| ") if self.pr("dedicated", 0.25) else ""
                    body = self.ch([f"W{k}", f"W{k}", "{ ~ }", f"W{k}, {{ ~(1) }}", "{ A::Other }", f"{{ E::V{k} }}", "~"])
                    vat.append(Instr(nm, ded + body, tag=("mmap", None)))
                if self.pr("type_hint", 0.12):
                    ded = (self.ch(cparts) + "| ") if self.pr("dedicated", 0.25) else ""
                    vat.append(Instr("type_hint", ded + "as " + self.ch(["{}", "()", "Unit"]), tag=("th", None)))
                    if self.pr("type_hint_pair", 0.0):
                        # a default and a dedicated hint of different forms side by side, in either order
                        other = "" if ded else (self.ch(cparts) + "| ")
                        t2 = Instr("type_hint", other + "as " + self.ch(["{}", "()"]), tag=("th", None))
                        if self.pr("x", 0.5):
                            vat.append(t2)
                        else:
                            vat.insert(len(vat) - 1, t2)
                if self.pr("variant_ghosts", 0.05):
                    vat.append(Instr(self.ch(["ghosts", "ghosts_owned", "ghosts_ref"]), self.ch(["g: { 1 }", "0: { 1 }, h: { @.x }", "g: { ~ }"]), tag=("ghosts", None)))
                if self.pr("member_repeat", 0.0):
                    vat.append(Instr(self.ch(["repeat", "skip_repeat", "stop_repeat"]), None, tag=("rep", None)))
                    if vat[-1].name == "repeat":
                        vat[-1].args = self.ch([None, "", "map", "ghost", "type_hint"])
            fields = [Field(NAMES[m] if shape == "named" else None, self.ch(TYPES),
                            self.field_attrs(cparts, True, target_named=(shape == "named"), nfields=nf, is_variant_field=True)) for m in range(nf)]
            if not prim and fields and self.pr("variant_struct_instr", 0.0):
                # instructions that belong to structs, written inside an enum: a flattened payload member, a nested-struct
                # ghost at variant level, a #[parent(..)] list on a payload member (of a path / a tuple / a reference type)
                what = self.ch(["child", "child", "ghosts", "ghosts", "parent", "parent"])
                if what == "child":
                    self.ch(fields).attrs.append(Instr("child", self.ch(["p", "p.q", "A| p", "0"]), tag=("child", None)))
                elif what == "ghosts":
                    vat.append(Instr(self.ch(["ghosts", "ghosts_owned", "ghosts_ref"]), self.ch(["p@x: { 1 }", "p.q@0: { 1 }, y: { 2 }", "A| p@x: { 1 }"]), tag=("ghosts", None)))
                else:
                    f = self.ch(fields)
                    f.attrs.append(Instr("parent", self.ch([None, "x, y", "[parent(z)] x: Q", "[parent(z)] x", "[parent(0)] x: Q", "[parent([parent(w)] z)] x: Q", "A| x, [map(w)] y", "0, 1"]), tag=("parent", None)))
                    f.ty = self.ch([f.ty, "(i32, u8)", "&'a Base", "[u8; 2]", "Base"])
            if not prim and fields and self.pr("variant_parent_hint", 0.0):
                # a #[parent(..)] list on a payload member of a variant whose shape is given by the variant's own
                # #[type_hint(..)]: the nested fields are written in that shape, whatever the enum-level instruction says
                f = self.ch(fields)
                f.attrs = [a for a in f.attrs if a.name != "parent"]
                ded = (self.ch(cparts) + "| ") if self.pr("dedicated", 0.25) else ""
                f.attrs.append(Instr("parent", ded + self.ch(["[into(~ + 1)] 0", "[from(x)] 0", "[map(x)] 0", "0", "[into(x)] 0, [map(y, ~.clone())] 1",
                                                              "x, [map(w)] y", "[owned_into(x)] [ref_into(~.clone())] 0", "[into_existing(x)] 0", "[map(x)] 0, 1"]), tag=("parent", None)))
                f.ty = "Base"
                vat = [a for a in vat if a.name != "type_hint"]
                if self.pr("x", 0.8):
                    dh = (self.ch(cparts) + "| ") if self.pr("dedicated", 0.25) else ""
                    vat.append(Instr("type_hint", dh + "as " + self.ch(["{}", "{}", "()"]), tag=("th", None)))
            if not prim and shape != "unit" and self.pr("shape_change", 0.0):
                vat = [a for a in vat if a.name != "type_hint"]
                vat.append(Instr("type_hint", "as " + ("{}" if shape == "tuple" else "()"), tag=("th", None)))
                fields = self.shape_fields(shape, max(1, nf), cparts, shape == "tuple")
            vs.append(Variant(f"V{k}", shape, fields, vat))
        if not prim and self.pr("permeate_run", 0.0):
            # payload-level runs across variants: a permeating block, closed (by its own stop_repeat or by the stop_repeat of the
            # next block's opener), then a plain repeat in a later variant, then at least one more variant with members
            def mk(k, nfl, first_attrs):
                shape = self.ch(["named", "named", "tuple"])
                fl = [Field(NAMES[m] if shape == "named" else None, "i32", list(first_attrs) if m == 0 else ([Instr("skip_repeat", None, tag=("rep", None))] if self.pr("x", 0.15) else [])) for m in range(nfl)]
                return Variant(f"V{k}", shape, fl, [])
            m1 = [Instr("from", "~ * 2", tag=("mmap", None)), Instr("into", "~ / 2", tag=("mmap", None))] if self.pr("x", 0.5) else [Instr("map", "~.clone()", tag=("mmap", None))]
            m2 = [Instr("from", "~ + 1", tag=("mmap", None)), Instr("into", "~ - 1", tag=("mmap", None))]
            vs = [mk(0, r.randrange(1, 3), [Instr("repeat", self.ch(["permeate()", "permeate(), map", "map, permeate()"]), tag=("rep", None))] + m1)]
            for _ in range(r.randrange(0, 3)):
                vs.append(mk(len(vs), r.randrange(1, 3), []))
            if self.pr("x", 0.5):
                vs.append(mk(len(vs), r.randrange(1, 3), [Instr("stop_repeat", None, tag=("rep", None))]))
                vs.append(mk(len(vs), r.randrange(1, 3), [Instr("repeat", self.ch([None, "", "map"]), tag=("rep", None))] + m2))
            else:
                vs.append(mk(len(vs), r.randrange(1, 3), [Instr("stop_repeat", None, tag=("rep", None)), Instr("repeat", self.ch([None, "", "map"]), tag=("rep", None))] + m2))
            for _ in range(r.randrange(1, 3)):
                vs.append(mk(len(vs), r.randrange(1, 3), []))
            if self.pr("x", 0.3):
                vs.insert(r.randrange(len(vs) + 1), Variant(f"U{len(vs)}", "unit", [], []))
            if len(vs) > 2 and self.pr("variant_stop_in_run", 0.0):
                # a variant-level stop_repeat (lone, or closing a variant-level repeat block) on a variant inside the payload-level
                # run: the two levels keep separate states, the payload-level run goes on
                k = r.randrange(1, len(vs) - 1)
                vs[k].attrs.append(Instr("stop_repeat", None, tag=("rep", None)))
                if self.pr("x", 0.5):
                    vs[0].attrs += [Instr("repeat", self.ch(["type_hint", "map", None]), tag=("rep", None)), Instr("type_hint", "as " + ("{}" if vs[0].shape == "tuple" else "()"), tag=("th", None))]
        if not prim and len(vs) >= 2 and self.pr("variant_repeat_run", 0.0):
            # a deliberate run: one variant opens `repeat` and carries something repeatable, later variants opt out / stop
            for v in vs:
                v.attrs = [a for a in v.attrs if a.name not in ("repeat", "skip_repeat", "stop_repeat")]
            s0 = r.randrange(0, len(vs) - 1)
            head = vs[s0]
            if not any(a.tag and a.tag[0] == "mmap" for a in head.attrs):
                head.attrs.append(Instr(self.ch(["into", "from", "map", "owned_into", "from_owned"]), self.ch([f"W{s0}", "{ E::V0 }", f"W{s0}"]), tag=("mmap", None)))
            head.attrs.insert(r.randrange(len(head.attrs) + 1), Instr("repeat", self.ch([None, "", "map", "map, ghost", "map, type_hint"]), tag=("rep", None)))
            for v in vs[s0 + 1:]:
                t = r.random()
                if t < 0.35:
                    v.attrs.insert(r.randrange(len(v.attrs) + 1), Instr("skip_repeat", None, tag=("rep", None)))
                elif t < 0.5:
                    v.attrs.insert(r.randrange(len(v.attrs) + 1), Instr("stop_repeat", None, tag=("rep", None)))
                    break
        self.unknowns(attrs, vs, False)
        it = Item("enum", name, "enum", self.generics(), attrs, variants=vs)
        it.meta["cparts"] = cparts
        return it

    def unknowns(self, attrs, members, is_struct):
        """allow_unknown + misplaced / foreign bare attributes, at random positions"""
        if not self.pr("unknowns", 0.0):
            return
        r = self.r
        if self.pr("allow_unknown", 0.7):
            attrs.insert(r.randrange(len(attrs) + 1), Instr("allow_unknown", None, tag=("au", None)))
        for _ in range(r.randrange(1, 3)):
            nm = self.ch(["parent", "ghost", "child", "literal", "pattern", "type_hint", "children", "serde", "doc_hidden", "ghost_ref"])
            attrs.insert(r.randrange(len(attrs) + 1), Instr(nm, self.ch([None, "A", "x: { 1 }", "rename = \"x\""]), tag=("unk", self.ch([None, None, None, None, "[", "{", "="]))))
        if members and self.pr("member_unknowns", 0.6):
            m = self.ch(members)
            nm = self.ch(["where_clause", "child_parents", "children", "allow_unknown", "serde", "try_into_existing", "owned_try_into_existing"])
            m.attrs.insert(r.randrange(len(m.attrs) + 1), Instr(nm, self.ch([None, "T: Clone", "x", "skip"]), tag=("unk", self.ch([None, None, None, None, "[", "{", "="]))))

    def tree(self, name="S"):
        """flattened struct: child / child_parents / parent(...)"""
        r = self.r
        shape = self.ch(["named", "named", "tuple"])
        cparts = [self.ch(["A", "B"])] if not self.pr("multi_cpart", 0.2) else ["A", "B"]
        if self.pr("generic_cpart", 0.0):
            cparts[0] = self.ch(["G<i32>", "G::<i32>", "m::G<Vec<u8>>", "L<'a>"])
        attrs = []
        for c in cparts:
            for _ in range(r.randrange(1, 3)):
                nm = self.ch(ALL24 if self.pr("fallible", 0.3) else MAP12)
                attrs.append(self.trait_instr(nm, c, False, self.hint() if self.pr("hints", 0.2) else None))
        # a random trie of paths
        segs_named = ["p", "q", "pp", "r"]
        paths = []
        for _ in range(r.randrange(1, 4)):
            depth = r.randrange(1, self.p.get("max_depth", 3) + 1)
            paths.append([self.ch(segs_named) if shape == "named" or self.pr("mixed_levels", 0.3) else str(r.randrange(0, 3)) for _ in range(depth)])
        nf = r.randrange(1, self.p.get("max_fields", 5) + 1)
        fields = []
        used_prefixes = []
        for k in range(nf):
            fa = []
            mode = r.randrange(10)
            if self.pr("parent_heavy", 0.0):
                mode = self.ch([6, 7, 7, 7, 8])
            if mode < 6:
                pth = self.ch(paths)
                pth = pth[: r.randrange(1, len(pth) + 1)]
                ded = (self.ch(cparts) + "| ") if self.pr("dedicated", 0.25) else ""
                fa.append(Instr("child", ded + ".".join(pth), tag=("child", None)))
                for n in range(1, len(pth) + 1):
                    if pth[:n] not in used_prefixes:
                        used_prefixes.append(pth[:n])
                if self.pr("child_pair", 0.0):
                    # a default and a dedicated #[child] side by side on one member, naming different paths, in either order
                    pth2 = self.ch(paths)
                    pth2 = pth2[: r.randrange(1, len(pth2) + 1)]
                    other = "" if ded else (self.ch(cparts) + "| ")
                    c2 = Instr("child", other + ".".join(pth2), tag=("child", None))
                    if self.pr("x", 0.5):
                        fa.append(c2)
                    else:
                        fa.insert(len(fa) - 1, c2)
                    for n in range(1, len(pth2) + 1):
                        if pth2[:n] not in used_prefixes:
                            used_prefixes.append(pth2[:n])
                if self.pr("member_instr", 0.35):
                    fa.append(self.member_map_instr(cparts, target_named=True, nfields=nf))
            elif mode == 6:
                ded = (self.ch(cparts) + "| ") if self.pr("dedicated", 0.25) else ""
                fa.append(Instr("parent", (ded.rstrip("| ") if ded else None) if self.pr("bare_parent_ded", 0.3) else None, tag=("parent", None)))
            elif mode == 7:
                ded = (self.ch(cparts) + "| ") if self.pr("dedicated", 0.25) else ""
                fa.append(Instr("parent", ded + self.parent_args(self.p.get("parent_depth", 2)), tag=("parent", None)))
                if ded and self.pr("second_parent", 0.3):
                    others = [c for c in cparts if c + "| " != ded]
                    if others and self.pr("x", 0.5):
                        # a parameterless parent dedicated to another counterpart next to the parameterised one
                        p2 = Instr("parent", self.ch(others), tag=("parent", None))
                    else:
                        p2 = Instr("parent", self.parent_args(1), tag=("parent", None))
                    if self.pr("x", 0.5):
                        fa.append(p2)
                    else:
                        fa.insert(len(fa) - 1, p2)
            else:
                if self.pr("member_instr", 0.35):
                    fa.append(self.member_map_instr(cparts, target_named=True, nfields=nf))
            fields.append(Field(NAMES[k] if shape == "named" else None, self.ch(["i32", "String", "Inner", "m::Inner", "&'a str"]), fa))
        ghost_only = None
        ghost_only_more = []
        drop_ghost_cp = False
        if used_prefixes and self.pr("ghost_only_child", 0.0):
            base = self.ch(used_prefixes)
            ghost_only = base + [self.ch(["gm", "gm", "5", "pp"])]
            if ghost_only in used_prefixes:
                ghost_only = None
            else:
                # further nested structs that exist only through ghost entries (their relative order is the written one)
                for seg in ["gn", "go", "6"][: r.randrange(0, 3)]:
                    q = self.ch(used_prefixes) + [seg]
                    if q not in used_prefixes and q != ghost_only and q not in ghost_only_more:
                        ghost_only_more.append(q)
        if used_prefixes and not self.pr("drop_child_parents", 0.05):
            r.shuffle(used_prefixes) if self.pr("shuffle_cp", 0.5) else None
            keep = [pth for pth in used_prefixes if not self.pr("drop_cp_entry", 0.03)]
            drop_ghost_cp = bool(ghost_only) and self.pr("drop_ghost_cp", 0.0)
            if ghost_only and not drop_ghost_cp:
                keep.append(ghost_only)
                keep.extend(ghost_only_more)
            ded = (self.ch(cparts) + "| ") if self.pr("dedicated", 0.25) else ""
            attrs.append(Instr("child_parents", ded + ", ".join(".".join(pth) + ": " + self.ch(["P", "m::Q", "R<T>"]) + (self.ch(["", "", " as {}", " as ()"]) if not self.pr("cp_unit", 0.0) else " as Unit") for pth in keep), tag=("cp", None)))
            if self.pr("second_cp", 0.3):
                c = self.ch(cparts)
                other = "" if ded else (c + "| ")
                cp2 = Instr("child_parents", other + ", ".join(".".join(pth) + ": " + self.ch(["P2", "m::Q2"]) for pth in keep), tag=("cp", None))
                if self.pr("x", 0.5):
                    attrs.append(cp2)
                else:
                    attrs.insert(len(attrs) - 1, cp2)
        if ghost_only:
            # a nested struct that no member is flattened into: it exists only through struct-level ghost entries
            attrs.append(Instr(self.ch(["ghosts", "ghosts", "ghosts_owned"] if not (used_prefixes and drop_ghost_cp) else ["ghosts", "ghosts_owned", "ghosts_ref", "ghosts_ref"]), ".".join(ghost_only) + "@" + self.ch(["gx", "0"]) + ": { 9 }" + (", " + ".".join(ghost_only) + "@gy: { 10 }" if self.pr("x", 0.3) else "")
                               + "".join(", " + ".".join(q) + "@gz: { 11 }" for q in ghost_only_more), tag=("ghosts", None)))
        elif self.pr("ghosts", 0.15) and used_prefixes:
            pth = self.ch(used_prefixes)
            ded = (self.ch(cparts) + "| ") if self.pr("child_ghosts_ded", 0.2) else ""
            attrs.append(Instr(self.ch(["ghosts", "ghosts_owned"]), ded + ".".join(pth) + "@" + self.ch(["gx", "0"]) + ": { 7 }" + (", top: { 1 }" if self.pr("x", 0.3) else ""), tag=("ghosts", None)))
            if ded and self.pr("x", 0.6):
                # a second instruction (another counterpart, or the default) with an entry under the same child path
                others = [c for c in cparts if c + "| " != ded]
                d2 = (self.ch(others) + "| ") if others and self.pr("x", 0.6) else ""
                g2 = Instr(self.ch(["ghosts", "ghosts_owned", "ghosts_ref"]), d2 + ".".join(self.ch([pth, self.ch(used_prefixes)])) + "@" + self.ch(["gx", "gy", "0"]) + ": { 8 }", tag=("ghosts", None))
                attrs.insert(r.randrange(len(attrs) + 1), g2)
        if self.pr("interleave", 0.5):
            r.shuffle(fields)
            for k, f in enumerate(fields):
                if shape == "named":
                    f.name = NAMES[k]
        if self.r2.random() < self.p.get("child_shape_skew", 0.0):
            # a deliberate construction (second random stream): a From conversion from a counterpart of one shape whose
            # nested struct has the other shape, and a flattened member whose instruction has an expression and no name —
            # `~` has to resolve inside the nested struct, by the shape #[child_parents] gives *it*
            r2 = self.r2
            kids = [f for f in fields if any(a.name == "child" for a in f.attrs)]
            cps = [a for a in attrs if a.name == "child_parents"]
            if kids and cps and shape == "named":
                c = cparts[0]
                top, nested = (" as ()", "{}") if r2.random() < 0.5 else ("", "()")
                attrs[:] = [a for a in attrs if not (a.tag and a.tag[0] == "trait")]
                attrs.insert(0, Instr(r2.choice(["from", "from_owned", "from_ref", "map", "map_owned", "try_from"]), c + top, tag=("trait", c)))
                if attrs[0].name == "try_from":
                    attrs[0].args += ", String"
                for a in cps:
                    a.args = re.sub(r" as (\{\}|\(\)|Unit)", "", a.args)
                    a.args = re.sub(r"(: [A-Za-z0-9_:<>]+)", r"\1 as " + nested, a.args)
                f = r2.choice(kids)
                f.attrs = [a for a in f.attrs if a.name == "child"][:1]
                f.attrs[0].args = f.attrs[0].args.split("| ")[-1]
                f.attrs.append(Instr(r2.choice(["from", "map", "from_owned", "map_owned"]), r2.choice(["~.to_string()", "~ + 1", "~.clone()", "Some(~)"]), tag=("mmap", None)))
        it = Item("struct", name, shape, self.generics(), attrs, fields)
        it.meta["cparts"] = cparts
        return it

    def trait_repeat_item(self, name="S"):
        """sequences of trait instructions of the same name over several counterparts with repeat / skip / stop placements"""
        r = self.r
        is_enum = self.pr("enum_item", 0.3)
        names = [self.ch(ALL24 if self.pr("fallible", 0.3) else MAP12) for _ in range(r.randrange(1, 3))]
        if self.pr("overlap_names", 0.4):
            # instruction names whose kind sets contain one another (map ⊃ from ⊃ from_owned ..): several repeat templates
            # of different width can be open at the same time
            fam = self.ch([["map", "from", "from_owned", "map_owned"], ["map", "into", "owned_into", "map_owned"], ["map_ref", "from_ref", "ref_into", "map"],
                           ["into", "owned_into", "ref_into"], ["from", "from_owned", "from_ref"]])
            names = [self.ch(fam) for _ in range(r.randrange(2, 4))]
            if self.pr("fallible", 0.3):
                names = [try_name(n) for n in names]
        if self.pr("twin_names", 0.0):
            # an instruction name next to its fallible twin (from_owned / try_from_owned): their templates are separate
            base = self.ch([n for n in names if n in MAP12] or ["from_owned"])
            names = [base, try_name(base)] + ([self.ch(names)] if self.pr("x", 0.3) else [])
        if is_enum:
            names = [n for n in names if "existing" not in n] or ["map"]
        cps = ["A", "B", "C", "m::D", "E5", "F6", "G<i32>"]
        r.shuffle(cps)
        attrs = []
        k = 0
        multi_open = None
        if self.pr("multi_open", 0.0):
            # two templates of different width open at the same time (different instruction names, different parameters), then
            # instructions whose kinds both of them cover: only a template of the very same name reaches them
            wide1, wide2, narrow = self.ch([("map", "from", "from_owned"), ("map", "map_owned", "from_owned"), ("map", "into", "ref_into"),
                                            ("from", "map", "from_ref"), ("map_owned", "map", "owned_into"), ("into", "map", "owned_into")])
            multi_open = [wide1, wide2] + [narrow] * r.randrange(1, 3)
            if self.pr("fallible", 0.3):
                multi_open = [try_name(n) for n in multi_open]
        for ci, c in enumerate(cps[: (len(multi_open) if multi_open else r.randrange(2, 7))]):
            nm = multi_open[ci] if multi_open else self.ch(names)
            _, fall = kinds_of(nm)
            s = c + ((", " + self.ch(["MyErr", "MyErr", "String", "E2", "m::Err<T>"])) if fall else "")
            ps = []
            mark = self.ch(["", "", "repeat()", "repeat(vars)", "repeat(update)", "repeat(quick_return)", "repeat(vars, update)", "skip_repeat", "stop_repeat",
                            "stop_repeat, repeat()", "stop_repeat, repeat(vars)", "repeat(default_case)"])
            if multi_open:
                mark = self.ch(["repeat()", "repeat(vars)"]) if ci < 2 else ""
            if mark:
                ps.append(mark)
            if multi_open and ci < 2:
                ps.append(f"vars(k: {{ {ci * 2 + 1} }})")
            elif multi_open:
                pass
            elif self.pr("vars", 0.4):
                ps.append(f"vars(v{k}: {{ {self.ch(['1', '@.x', 'foo()'])} }})")
            if self.pr("attr_params", 0.1):
                ps.append("attribute(inline)")
            r.shuffle(ps)
            t = r.random() if not multi_open else 1.0
            if t < 0.3:
                ps.append(".." + self.ch(["Default::default()", "base()"]))
            elif t < 0.45:
                ps.append("return " + self.ch(["Foo(@.0)", "mk(&@)"]))
            elif t < 0.6 and is_enum:
                ps.append("_ => " + self.ch(["todo!()", "panic!(\"no\")"]))
            head = s
            if ps:
                s += " | " + ", ".join(ps)
            # structured copy of the parameters, for the written-out form (C14): marks, and the four repeatable kinds
            info = {"head": head, "marks": [x.strip() for x in mark.split(",")] if mark and not mark.startswith("repeat(") else ([mark] if mark else []),
                    "vars": next((x for x in ps if x.startswith("vars(")), None), "other": [x for x in ps if x.startswith("attribute(")],
                    "update": next((x for x in ps if x.startswith("..")), None), "quick_return": next((x for x in ps if x.startswith("return ")), None),
                    "default_case": next((x for x in ps if x.startswith("_ =>")), None)}
            if mark.startswith("stop_repeat, repeat"):
                info["marks"] = ["stop_repeat", mark.split(", ", 1)[1]]
            attrs.append(Instr(nm, s, tag=("trait", c, info)))
            k += 1
        if is_enum:
            vs = [Variant(f"V{m}", "unit", [], [Instr("literal", str(m), tag=("lit", None))] if self.pr("lit", 0.3) else []) for m in range(r.randrange(1, 3))]
            it = Item("enum", "E", "enum", "", attrs, variants=vs)
        else:
            fields = [Field(NAMES[m], "i32", []) for m in range(r.randrange(0, 3))]
            it = Item("struct", name, "named", "", attrs, fields)
        it.meta["cparts"] = cps
        return it

    def parent_args(self, depth):
        r = self.r
        parts = []
        for k in range(r.randrange(1, 4)):
            pre = ""
            if depth > 0 and self.pr("nested_parent", 0.3):
                pre = f"[parent({self.parent_args(depth - 1)})] "
                nm = self.ch(["sub", "inner", "0"])
                ty = self.ch([": Sub", ": m::Sub", "", ": Sub"])
                parts.append(pre + nm + ty)
                continue
            if self.pr("nested_instr", 0.4):
                nm = self.ch(MAP12)
                pre = f"[{nm}({self.ch(['that', 'that, ~.clone()', '~ + 1', '0', '1, { @.z }', '7u64', '1u8, ~', '4294967296'])})] "
            parts.append(pre + self.ch(["fa", "fb", "fc", "0", "1"]))
        return ", ".join(parts)


# ---------------------------------------------------------------------------------------------
# profiles

BASE = {}
PROFILES = {
    "struct-flat": {"max_fields": 4, "hints": 0.5, "member_instr": 0.5, "ghost_field": 0.15, "multi_cpart": 0.25, "fallible": 0.35,
                    "as_type": 0.08, "ghosts": 0.1, "update": 0.08, "tuple_cpart": 0.08, "dedicated": 0.3, "kw_names": 0.02},
    "traits": {"max_fields": 2, "multi_instr": 0.8, "multi_cpart": 0.5, "fallible": 0.5, "generic_cpart": 0.3, "odd_cpart": 0.3, "odd_err": 0.5,
               "tuple_cpart": 0.1, "member_instr": 0.05, "shuffle_type_attrs": 0.8, "hints": 0.2},
    "member-instrs": {"lit_args": 0.08, "min_fields": 1, "max_fields": 2, "member_instr": 0.85, "member_try": 0.4, "dedicated": 0.45, "multi_cpart": 0.7, "multi_instr": 0.7,
                      "fallible": 0.5, "ghost_field": 0.25, "ghost_pair": 0.4, "ghost_flavour": 0.5, "hints": 0.2, "try_pair": 0.2},
    "enum": {"max_variants": 4, "member_instr": 0.3, "variant_map": 0.35, "type_hint": 0.2, "variant_ghost": 0.12, "ghosts": 0.12,
             "default_case": 0.3, "fallible": 0.35, "multi_cpart": 0.25, "dedicated": 0.3, "variant_ghosts": 0.08, "ghost_field": 0.1, "try_pair": 0.12},
    "enum-members": {"max_variants": 3, "payload_heavy": 0.85, "member_instr": 0.55, "member_try": 0.4, "try_pair": 0.35, "fallible": 0.6, "dedicated": 0.3,
                     "multi_cpart": 0.3, "type_hint": 0.25, "multi_instr": 0.5, "ghost_field": 0.1, "variant_map": 0.2, "type_hint_pair": 0.5},
    "enum-prim": {"enum_prim": 1.0, "max_variants": 5, "default_case": 0.6, "fallible": 0.4, "lit": 0.6, "pat": 0.7, "prim_ghost": 0.12, "prim_multi": 0.3},
    "tree": {"max_fields": 6, "max_depth": 3, "member_instr": 0.3, "fallible": 0.3, "multi_cpart": 0.3, "hints": 0.2, "ghosts": 0.2, "dedicated": 0.25, "mixed_levels": 0.3, "child_ghosts_ded": 0.35, "ghost_only_child": 0.2, "generic_cpart": 0.15, "child_pair": 0.25, "child_shape_skew": 0.06},
    "trait-params": {"max_fields": 3, "vars": 0.5, "attr_params": 0.4, "update": 0.3, "quick_return": 0.2, "default_case": 0.4, "trait_repeat": 0.3,
                     "multi_instr": 0.7, "fallible": 0.4, "member_instr": 0.3},
    "repeat": {"max_fields": 6, "min_fields": 2, "member_repeat": 0.35, "member_instr": 0.5, "ghost_field": 0.15, "max_variants": 4, "variant_map": 0.3,
               "trait_repeat": 0.4, "vars": 0.3, "update": 0.2, "multi_instr": 0.6, "type_hint": 0.2, "variant_repeat_run": 0.35,
               "multi_cpart": 0.45, "dedicated": 0.4, "repeat_overlap": 0.5, "permeate_run": 0.15, "variant_stop_in_run": 0.5},
    "multi-counterpart": {"multi_cpart": 1.0, "dedicated": 0.6, "member_instr": 0.6, "ghost_field": 0.2, "ghosts": 0.3, "where_clause": 0.3, "multi_instr": 0.5,
                          "fallible": 0.3, "variant_map": 0.4, "type_hint": 0.3, "variant_ghost": 0.15, "variant_ghosts": 0.1, "try_pair": 0.15, "child_ghosts_ded": 0.5, "type_hint_pair": 0.5},
    "generics": {"generics": 1.0, "generic_cpart": 0.7, "where_clause": 0.5, "max_fields": 2, "trailing_comma": 0.2, "multi_cpart": 0.3, "fallible": 0.3, "dedicated": 0.4},
    "expr": {"deep_expr": 0.8, "member_instr": 0.7, "ghost_field": 0.2, "ghosts": 0.2, "vars": 0.4, "update": 0.3, "quick_return": 0.15, "default_case": 0.3,
             "variant_map": 0.5, "max_fields": 3},
    "parents": {"lit_args": 0.05, "ghost_only_child": 0.2, "drop_ghost_cp": 0.5, "parent_heavy": 0.8, "parent_depth": 3, "nested_parent": 0.45, "nested_instr": 0.5, "max_fields": 4, "fallible": 0.3, "multi_cpart": 0.5, "hints": 0.3,
                "dedicated": 0.45, "member_instr": 0.3, "update": 0.1, "vars": 0.1, "generic_cpart": 0.25, "second_parent": 0.5, "attr_params": 0.25, "child_pair": 0.2},
    "trait-repeat": {"vars": 0.4, "fallible": 0.3, "attr_params": 0.1, "enum_item": 0.3, "lit": 0.3, "multi_open": 0.12, "twin_names": 0.2},
    "shape-change": {"shape_change": 0.8, "update": 0.3, "shape_bare_ghost": 0.35, "shape_nameless": 0.25, "shape_multi": 0.5, "shape_mixed": 0.5, "shape_forget": 0.3, "multi_cpart": 0.4, "shape_ghost": 0.3, "fallible": 0.3, "max_variants": 3, "variant_map": 0.1, "member_try": 0.1, "multi_instr": 0.5},
    "enum-misuse": {"max_variants": 3, "member_instr": 0.2, "variant_map": 0.2, "type_hint": 0.15, "fallible": 0.3, "multi_cpart": 0.2, "dedicated": 0.3,
                    "variant_struct_instr": 0.6, "cp_on_enum": 0.3, "variant_parent_hint": 0.35},
    "unknowns": {"unknowns": 1.0, "max_fields": 3, "member_instr": 0.3, "multi_instr": 0.5, "max_variants": 3, "variant_map": 0.2},
    "faults": {"max_fields": 3, "member_instr": 0.4, "multi_cpart": 0.3, "fallible": 0.4, "drop_err": 0.15, "extra_err": 0.1, "ghost_field": 0.2, "ghost_default": 0.5,
               "dedicated": 0.4, "ghosts": 0.3, "stray_child_ghost": 0.4, "ghost_flavour": 0.5, "where_clause": 0.2, "hints": 0.4, "drop_child_parents": 0.3, "drop_cp_entry": 0.2, "type_hint": 0.3,
               "cp_unit": 0.08, "enum_ghost_idx": 0.3},
}

KINDS_OF_ITEM = {"enum-misuse": ["enum"], "shape-change": ["struct", "enum"], "unknowns": ["struct", "enum"], "parents": ["tree"], "trait-repeat": ["trait_repeat"], "enum": ["enum"], "enum-members": ["enum"], "enum-prim": ["enum"], "tree": ["tree"], "repeat": ["struct", "enum"], "multi-counterpart": ["struct", "enum", "tree"],
                 "trait-params": ["struct", "enum"], "generics": ["struct", "enum"], "expr": ["struct", "enum"], "faults": ["struct", "enum", "tree"],
                 "traits": ["struct", "enum"], "struct-flat": ["struct"], "member-instrs": ["struct"]}


def gen_items(profile, seed, n):
    g = G(seed, PROFILES[profile])
    kinds = KINDS_OF_ITEM[profile]
    out = []
    for k in range(n):
        kind = g.ch(kinds)
        it = {"struct": g.struct, "enum": g.enum, "tree": g.tree, "trait_repeat": g.trait_repeat_item}[kind]()
        it.meta["id"] = f"{profile}-{seed}-{k}"
        respell_dedications(g, it)
        out.append(it)
    return out


def respell_dedications(g, it):
    """now and then a dedication `Type<..>| ...` names the generic counterpart with the other turbofish spelling
    (`Type::<..>` / `Type<..>`): as written the two are different types for the derive, under both back-ends"""
    if g.r.random() >= 0.2:
        return
    hosts = [it] + list(it.fields) + list(it.variants) + [f for v in it.variants for f in v.fields]
    for h in hosts:
        for a in h.attrs:
            if a.args is None or (a.tag and a.tag[0] == "trait"):
                continue
            m = re.match(r"^([A-Za-z_:]+)(::)?(<[^|]*>)\| ", a.args)
            if m and g.r.random() < 0.5:
                head = m.group(1) + ("" if m.group(2) else "::") + m.group(3)
                a.args = head + a.args[m.end() - 2:]


# ---------------------------------------------------------------------------------------------
# spellings (C13)

def speller(r, mode="random"):
    """returns a callable(list[Instr]) -> list[str]"""
    def sp(attrs):
        out, k = [], 0
        while k < len(attrs):
            a = attrs[k]
            choice = r.randrange(3) if mode == "random" else {"bare": 0, "single": 1, "grouped": 2}[mode]
            if (choice == 0 and a.name in bare_names()) or (a.tag and a.tag[0] == "unk"):
                # foreign / misplaced bare attributes keep their spelling: inside o2o(..) they would mean something else
                out.append(a.bare())
                k += 1
            elif choice == 1:
                out.append(f"#[o2o({a.inner()}{',' if r.random() < 0.2 and mode == 'random' else ''})]")
                k += 1
            else:
                n = r.randrange(1, 4) if mode == "random" else len(attrs)
                grp = [a]
                for x in attrs[k + 1:k + n]:
                    if x.tag and x.tag[0] == "unk":
                        break
                    grp.append(x)
                out.append("#[o2o(" + ", ".join(x.inner() for x in grp) + ")]")
                k += len(grp)
        return out
    return sp


# ---------------------------------------------------------------------------------------------
# hostile stream (C16)

HOSTILE_ARGS = ["(1u8)", "(0usize, ~)", "(4294967296)", "(-1)", "(1.5)", "(A| 1u8)", "(0x1f)", "", "()", "(A)", "(A as)", "(A as {x})", "(A, )", "(A | )", "(A | vars())", "(A | vars(x))", "(A | vars(x: 1))", "(A | ..)", "(A | return)",
                "(| x)", "(A B)", "(A | repeat(foo))", "(A | attribute)", "(A | attribute())", "(1)", "(\"s\")", "(A::<>)", "(::A)", "(A<B)", "(A as Unit, E | skip_repeat, skip_repeat)",
                "(x: {1})", "(X{..}: {1})", "(X(..): {1})", "(a.b@c: {1})", "(a.@c: {1})", "(0: {1}, 1: {2},)", "(a.b.c)", "(0.1)", "(a.0.b: T)", "(a: T as Foo)", "(a: T, a: U)",
                "(T: Clone)", "(T: )", "(: T)", "(A| T: Clone,)", "(x, ~.y)", "(x,)", "(, x)", "(~)", "(@)", "({})", "({ } x)", "(A| )", "(A|)", "(A| 0, { ~ })", "(as {})", "(as ())",
                "(as Unit)", "(A| as {})", "(permeate())", "(permeate(), map)", "(map, foo)", "(permeate(x))", "([map(x)] a)", "([foo(x)] a)", "([map(x)] [parent(b)] a: T)",
                "([parent(x)] [parent(y)] a)", "([parent([parent([parent(q)] z)] y)] x)", "(a, b, c)", "(0, 1)", "(i32)", "(A| i32)", "(x, i32)", "(1..=2)", "(_)", "(A | B)", "{A}", "[A]", " = \"x\"",
                "(A | _ => 1)", "(A | stop_repeat, repeat())", "(A | repeat(), vars(a: {1}))", "((i32, u8))", "((i32, u8) as {})", "(())", "(A as () , E)"]
HOSTILE_NAMES = ALL24 + ["ghost", "ghost_owned", "ghost_ref", "ghosts", "ghosts_owned", "ghosts_ref", "child", "children", "child_parents", "parent", "as_type", "literal",
                         "pattern", "type_hint", "repeat", "skip_repeat", "stop_repeat", "where_clause", "allow_unknown", "o2o", "doc", "serde", "foo", "derive", "cfg"]


def gen_hostile(seed, n):
    r = random.Random(seed)
    out = []
    for k in range(n):
        def attr():
            nm = r.choice(HOSTILE_NAMES)
            ar = r.choice(HOSTILE_ARGS)
            if r.random() < 0.35:
                inner = ", ".join(r.choice(HOSTILE_NAMES) + (r.choice(HOSTILE_ARGS) if r.random() < 0.8 else "") for _ in range(r.randrange(0, 4)))
                inner = inner.replace(" = \"x\"", "").replace("{A}", "(A)").replace("[A]", "(A)")
                return f"#[o2o({inner})]"
            return f"#[{nm}{ar}]"
        ta = " ".join(attr() for _ in range(r.randrange(0, 4)))
        if r.random() < 0.7:
            ta = "#[map(A)] " + ta if r.random() < 0.7 else ta + " #[try_map(B, E)]"
        kind = r.choice(["struct", "struct", "tuple", "unit", "enum", "enum", "union"])
        def flds(named):
            fs = []
            for m in range(r.randrange(0, 4)):
                fa = " ".join(attr() for _ in range(r.randrange(0, 3)))
                fs.append(f"{fa} {NAMES[m]}: i32" if named else f"{fa} i32")
            return ", ".join(fs)
        if kind == "struct":
            s = f"{ta} struct S {{ {flds(True)} }}"
        elif kind == "tuple":
            s = f"{ta} struct S({flds(False)});"
        elif kind == "unit":
            s = f"{ta} struct S;"
        elif kind == "union":
            s = f"{ta} union U {{ a: i32, b: u32 }}"
        else:
            vs = []
            for m in range(r.randrange(0, 4)):
                va = " ".join(attr() for _ in range(r.randrange(0, 3)))
                sh = r.choice(["", "", f"({flds(False)})", f"{{ {flds(True)} }}"])
                vs.append(f"{va} V{m}{sh}")
            s = f"{ta} enum E {{ {', '.join(vs)} }}"
        out.append((f"hostile-{seed}-{k}", re.sub(r"\s+", " ", s).strip()))
    return out


def gen_cases(profile, seed, n):
    if profile == "hostile":
        return gen_hostile(seed, n)
    return [(it.meta["id"], render(it)) for it in gen_items(profile, seed, n)]


if __name__ == "__main__":
    import sys
    prof, seed, n = sys.argv[1], int(sys.argv[2]), int(sys.argv[3])
    for i, s in gen_cases(prof, seed, n):
        print(f"{i}\t{s}")
