#!/bin/bash
# runs every seeded change against the check of its property; prints one line per seed
cd /verif
for d in seeded/*/; do
  id=$(basename $d); p=${id%%-*}
  r=$(tools/run_seed.sh /verif/$d $p 2>&1 | tail -1 | cut -c1-140)
  echo "$id: $r"
done
