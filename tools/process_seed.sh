#!/bin/bash
# usage: process_seed.sh <worktree> <seed-id> <demo-file-in-SEED> <demo-destination-relative> <demo command...>
# verify in the scratch worktree, store under seeded/<seed-id>, remove the worktree, run the property's check against it
WT=$1; ID=$2; DEMOF=$3; DEST=$4; shift 4
P=${ID%%-*}
cd /verif
DEMO=$DEMOF tools/verify_seed.sh "$WT" "$DEST" "$@" 2>&1 | grep -E "^---|Summary|test result|rc=" | head -12
mkdir -p seeded/$ID && cp $WT/SEED/patch.diff $WT/SEED/*.rs seeded/$ID/ 2>/dev/null; cp $WT/SEED/README.md seeded/$ID/AGENT_README.md
git -C /repo worktree remove --force $WT; rm -rf $WT*
if ! git -C /repo apply --check /verif/seeded/$ID/patch.diff 2>/dev/null; then
  if git -C /repo apply -C1 --check /verif/seeded/$ID/patch.diff 2>/dev/null; then
    git -C /repo apply -C1 /verif/seeded/$ID/patch.diff && git -C /repo diff > /tmp/rebased.diff && git -C /repo checkout -- . && mv seeded/$ID/patch.diff seeded/$ID/patch.orig.diff && mv /tmp/rebased.diff seeded/$ID/patch.diff && echo "patch re-based with -C1"
  else echo "PATCH DOES NOT APPLY to current /repo"; fi
fi
tools/run_seed.sh /verif/seeded/$ID $P 2>&1 | tail -1
