#!/bin/bash
# usage: run_seed.sh <seed-dir> <prop> [more props...]  — applies the seeded change to /repo, runs the checks, undoes it
SEED=$1; shift
cd /verif
rm -rf /verif/work/evidence_backup && cp -r /verif/evidence /verif/work/evidence_backup
git -C /repo apply "$SEED/patch.diff" || { echo "patch does not apply"; exit 2; }
for P in "$@"; do
  ./check $P quick 2>&1 | grep -E "^(VIOLATION|OK|KNOWN)" | grep -v KNOWN-FINDING | cut -c1-200
done
git -C /repo checkout -- .
/verif/harness/target/debug/harness extract --out /verif/lean/O2oModel/Generated.lean >/dev/null
(cd /verif/harness && cargo build --offline --quiet 2>/dev/null; cargo build --offline --quiet --no-default-features --features s2 --target-dir target2 2>/dev/null)
# evidence files written while the seeded change was applied are not evidence about /repo: restore
for P in "$@"; do cp /verif/work/evidence_backup/$P.json /verif/evidence/$P.json 2>/dev/null; done
