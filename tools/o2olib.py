"""Shared helpers of the check driver: run the harness and the Lean driver on the same cases,
canonicalise outcomes, compare."""
import hashlib, os, re, subprocess, sys, json, hashlib, time

VERIF = os.path.dirname(os.path.dirname(os.path.abspath(__file__)))
REPO = os.environ.get("O2O_REPO", "/repo")
HARNESS_DIR = os.path.join(VERIF, "harness")
LEAN_DIR = os.path.join(VERIF, "lean")
DRIVER = os.path.join(LEAN_DIR, ".lake", "build", "bin", "driver")
WORK = os.path.join(VERIF, "work")

ENV = dict(os.environ, CARGO_NET_OFFLINE="true", RUST_BACKTRACE="0")


def harness_bin(backend):
    tdir = "target" if backend == "s1" else "target2"
    return os.path.join(HARNESS_DIR, tdir, "debug", "harness")


def repo_sources_hash():
    """content hash of everything of /repo the harness is built from"""
    h = hashlib.sha256()
    root = os.path.join(REPO, "o2o-impl")
    for base, dirs, files in sorted(os.walk(root)):
        dirs[:] = sorted(d for d in dirs if d not in ("target", "target2"))
        for f in sorted(files):
            if f.endswith(".rs") or f == "Cargo.toml":
                pth = os.path.join(base, f)
                h.update(pth.encode())
                h.update(open(pth, "rb").read())
    return h.hexdigest()


def build_harness(backend):
    """cargo build of the harness against /repo's working tree (path dependency). cargo decides by modification times,
    which two edits within one second (a patch applied right after a build) can defeat: the sources' *content* hash is
    kept next to the build, and a changed hash drops the path dependency's build before cargo is asked"""
    tdir = "target" if backend == "s1" else "target2"
    feat = [] if backend == "s1" else ["--no-default-features", "--features", "s2", "--target-dir", "target2"]
    stamp = os.path.join(HARNESS_DIR, tdir, ".repo_sources_hash")
    hsh = repo_sources_hash()
    old = open(stamp).read().strip() if os.path.exists(stamp) else ""
    if old != hsh:
        subprocess.run(["cargo", "clean", "--offline", "-p", "o2o-impl"] + feat, cwd=HARNESS_DIR, env=ENV, stdout=subprocess.PIPE, stderr=subprocess.STDOUT, text=True)
    r = subprocess.run(["cargo", "build", "--offline", "--quiet"] + feat, cwd=HARNESS_DIR, env=ENV, stdout=subprocess.PIPE, stderr=subprocess.STDOUT, text=True)
    if r.returncode == 0:
        os.makedirs(os.path.dirname(stamp), exist_ok=True)
        open(stamp, "w").write(hsh)
    return r.returncode == 0, r.stdout


def run_harness(backend, cases, no_in=False, repeat=1, extra=()):
    """cases: list of (id, source). Returns (ins: {id: encoded}, outs: {id: outcome line}, nondet: [ids])."""
    inp = "".join(f"{i}\t{s}\n" for i, s in cases)
    cmd = [harness_bin(backend), "run"] + (["--no-in"] if no_in else []) + (["--repeat", str(repeat)] if repeat > 1 else []) + list(extra)
    r = subprocess.run(cmd, input=inp, env=ENV, stdout=subprocess.PIPE, stderr=subprocess.PIPE, text=True)
    if r.returncode != 0:
        raise RuntimeError(f"harness run failed rc={r.returncode}: {r.stderr[-2000:]}")
    ins, outs, nondet = {}, {}, []
    global last_analysis
    last_analysis = {}
    for line in r.stdout.split("\n"):
        if line.startswith("IN "):
            _, i, rest = (line.split(" ", 2) + [""])[:3]
            ins[i] = rest
        elif line.startswith("OUT "):
            _, i, rest = (line.split(" ", 2) + [""])[:3]
            outs[i] = rest
        elif line.startswith("NONDET "):
            nondet.append(line.split(" ")[1])
        elif line.startswith("AN "):
            _, i, rest = (line.split(" ", 2) + [""])[:3]
            try:
                last_analysis[i] = json.loads(rest)
            except Exception:
                last_analysis[i] = {"parse_ok": False, "parse_error": "analysis not decodable"}
    return ins, outs, nondet


last_analysis = {}


def analyze(backend, cases):
    """real expansion + syn-2 inspection of the output. returns ({id: canon outcome}, {id: analysis})"""
    _, outs, _ = run_harness(backend, cases, no_in=True, extra=("--analyze",))
    return {i: canon_impl(outs.get(i, "?")) for i, _ in cases}, dict(last_analysis)


def run_model(backend, ins):
    """ins: {id: encoded}. Returns {id: outcome line} from the Lean driver."""
    inp = "".join(f"IN {i} {e}\n" for i, e in ins.items())
    r = subprocess.run([DRIVER, "syn2" if backend == "s2" else "syn1"], input=inp, stdout=subprocess.PIPE, stderr=subprocess.PIPE, text=True)
    if r.returncode != 0:
        raise RuntimeError(f"driver failed rc={r.returncode}: {r.stderr[-2000:]}")
    outs = {}
    global last_flags
    last_flags = {}
    for line in r.stdout.split("\n"):
        if line.startswith("MOD "):
            _, i, rest = (line.split(" ", 2) + [""])[:3]
            outs[i] = rest
        elif line.startswith("FLAG "):
            # properties of the parsed input the model evaluates next to the outcome (`COLLISION`: names collide, the zone
            # outside which C16_derive_panics_only_at_todo_without_collision leaves one panic site)
            _, i, rest = (line.split(" ", 2) + [""])[:3]
            last_flags.setdefault(i, set()).add(rest.strip())
    return outs


last_flags = {}


def unesc(s):
    return re.sub(r"%([0-9A-Fa-f]{2})", lambda m: chr(int(m.group(1), 16)), s)


_templates = None
FORCE_LIB = {"unexpected token", '#[name = "Value"] syntax is not supported.'}


def o2o_templates():
    """Message templates of o2o's own diagnostics: every string literal of the non-test sources that
    looks like a sentence, `{..}` placeholders turned into wildcards. Regenerated from /repo each run."""
    global _templates
    if _templates is not None:
        return _templates
    pats = []
    for f in ("attr.rs", "ast.rs", "validate.rs", "expand.rs"):
        try:
            src = open(os.path.join(REPO, "o2o-impl", "src", f)).read()
        except OSError:
            continue
        for m in re.finditer(r'"((?:[^"\\]|\\.)*)"', src):
            lit = m.group(1).encode().decode("unicode_escape")
            if len(lit) < 12 or " " not in lit:
                continue
            rx = re.escape(lit)
            rx = re.sub(r"\\\{[^}]*\\\}", "(.*)", rx)
            pats.append(re.compile("^" + rx + "$", re.S))
    _templates = pats
    return pats


def classify(msg):
    if msg.startswith("unexpected end of input, "):
        msg = msg[len("unexpected end of input, "):]
    if msg in FORCE_LIB:
        return "lib"
    for p in o2o_templates():
        if p.match(msg):
            return "o2o"
    return "lib"


def canon_impl(line):
    """outcome line of the implementation -> canonical tuple"""
    if line.startswith("OK"):
        return ("OK", line[2:].strip())
    if line.startswith("ERR "):
        parts = line.split(" ")
        msgs = [unesc(x) for x in parts[2:]]
        o2o = [m for m in msgs if classify(m) == "o2o"]
        lib = [m for m in msgs if classify(m) != "o2o"]
        if lib and not o2o:
            return ("LIBERR",)
        if lib:
            return ("ERR", tuple(o2o), "+lib")
        return ("ERR", tuple(o2o))
    if line.startswith("PANIC"):
        return ("PANIC",)
    if line.startswith("SKIP"):
        return ("SKIP",)
    return ("?", line)


def canon_model(line):
    if line.startswith("OK"):
        return ("OK", line[2:].strip())
    if line.startswith("ERR "):
        parts = line.split(" ")
        return ("ERR", tuple(unesc(x) for x in parts[2:]))
    if line.startswith("LIBERR"):
        return ("LIBERR",)
    if line.startswith("PANIC"):
        return ("PANIC",)
    if line.startswith("UNSUPPORTED"):
        return ("UNSUPPORTED", unesc(line[12:]))
    if line.startswith("SKIP"):
        return ("SKIP",)
    return ("?", line)


def pretty_tokens(enc):
    """readable rendering of an encoded token stream (for replay files)"""
    out = []
    for a in enc.split():
        if a in ("(", ")", "[", "]", "{", "}"):
            out.append(a)
        elif a == "N(" or a == "N)":
            out.append("")
        elif a[0] == "i":
            out.append(a[1:])
        elif a[0] == "p":
            out.append(a[1:])
        elif a[0] == "j":
            out.append(a[1:] + "​")
        elif a[0] == "l":
            out.append(unesc(a[1:]))
    s = " ".join(out)
    return s.replace("​ ", "")


def compare(cases, backend="s1"):
    """Run both sides. Returns dict with per-id results and a list of disagreements."""
    ins, outs, nondet = run_harness(backend, cases)
    mod = run_model(backend, ins)
    res = {"n": len(cases), "agree": 0, "unsupported": 0, "skipped": 0, "disagree": [], "kinds": {}, "outs": outs, "mod": mod, "ins": ins,
           "flags": dict(last_flags)}
    src = dict(cases)
    for i, _ in cases:
        ci = canon_impl(outs.get(i, "?"))
        cm = canon_model(mod.get(i, "?"))
        res["kinds"][ci[0]] = res["kinds"].get(ci[0], 0) + 1
        if cm[0] == "UNSUPPORTED":
            res["unsupported"] += 1
            continue
        if ci[0] == "SKIP" or cm[0] == "SKIP":
            res["skipped"] += 1
            continue
        if ci == cm:
            res["agree"] += 1
        else:
            res["disagree"].append({"id": i, "source": src[i], "impl": ci, "model": cm})
    return res


def read_cases(path):
    cases = []
    for line in open(path):
        line = line.rstrip("\n")
        if "\t" in line:
            i, s = line.split("\t", 1)
            cases.append((i, s))
    return cases
