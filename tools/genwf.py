"""Derive inputs that are consistent by construction (for C17's syntax oracle).

C17 quantifies over every input the derive accepts whose embedded types, patterns and expressions are well-formed.
The inputs built here additionally keep the *kind* of every designated member name (identifier vs index) in agreement
with the shape the counterpart is given (its own shape, or the `as {}` / `as ()` hint), and use the parameters only
where the documentation gives them a meaning. Within that, shapes, kinds, fallibility, parameters, ghosts, parents,
children, hints and enum features are combined freely — no expected values are needed, only rustc's parser judges the
output — so the combinations reach well beyond what the designed programs of the runtime tie cover.
"""
import random
import gen
from gen import Instr, Field, Variant, Item, NAMES, OTHER

EXPRS = ["~.clone()", "~ + 1", "{ ~.to_string() }", "Some(~)", "(~, 1)", "@.k.len()", "{ mk(&@) }", "~ as i64"]
VALUES = ["{ 1 }", "{ Default::default() }", "{ @.k.clone() }", "{ mk(&@) }", "|| 5", "{ vec![1, 2] }"]
CPS = ["A", "B", "m::D", "G<i32>", "crate::n::E"]


def pick_kinds(r, allow_existing=True):
    names = [n for n in gen.ALL24 if allow_existing or "existing" not in n]
    return r.choice(names)


def trait_instr(r, name, c, hint, bare_parent, is_enum):
    ks, fall = gen.kinds_of(name)
    head = c + (" as " + hint if hint else "") + (", " + r.choice(["String", "MyErr", "E1<T>"]) if fall else "")
    params = []
    if r.random() < 0.25:
        params.append("vars(v0: { 1 }, v1: { v0 + 1 })")
    if r.random() < 0.2:
        params.append("attribute(inline)")
    if r.random() < 0.15:
        params.append("impl_attribute(cfg(test))")
    if r.random() < 0.2:
        params.append("inner_attribute(allow(unused_variables))")
    existing = any("existing" in k for k in ks)
    if not is_enum and not existing and not bare_parent and hint != "Unit" and r.random() < 0.2:
        params.append(r.choice(["..Default::default()", "..base()", "..{ mk(&@) }"]))
    if is_enum and r.random() < 0.2:
        params.append(r.choice(["_ => todo!()", "_ => { mk(&@) }"]))
    if r.random() < 0.04:
        params = [r.choice(["return mk(@)", "return { @.inner.into() }"])]
    r.shuffle(params)
    # an expression parameter (`..base`, `_ => ..`, `return ..`) runs to the end of the list: it is written last
    params.sort(key=lambda x: 1 if (x.startswith("..") or x.startswith("_ =>") or x.startswith("return")) else 0)
    if sum(1 for x in params if x.startswith("..") or x.startswith("_ =>") or x.startswith("return")) > 1:
        params = [x for x in params if not x.startswith("_ =>")]
    return Instr(name, head + (" | " + ", ".join(params) if params else ""), tag=("trait", c))


def tname(named, j):
    return OTHER[j % len(OTHER)] + (str(j // len(OTHER)) if j >= len(OTHER) else "") if named else str(j)


def member_attrs(r, j, cps, sshape_named, tnamed, uniform, allow_plain=True):
    """instructions of one mapped member: per counterpart when the counterparts have different shapes (or now and then
    anyway), otherwise default ones"""
    out = []
    targets = [None] if (uniform and r.random() < 0.65) else list(cps)
    for c in targets:
        named = tnamed[cps[0]] if c is None else tnamed[c]
        same = (named == sshape_named)
        ded = "" if c is None else c + "| "
        tag = ("mmap", c)
        t = tname(named, j)
        style = r.randrange(7)
        if style == 0 and same and allow_plain:
            continue
        if style == 1 and same:
            out.append(Instr(r.choice(["map", "from", "into", "map_owned", "map_ref"]), ded + r.choice(EXPRS), tag=tag))
        elif style == 2:
            out.append(Instr("map", ded + t, tag=tag))
        elif style == 3:
            out.append(Instr("from", ded + t + r.choice(["", ", " + r.choice(EXPRS)]), tag=tag))
            out.append(Instr("into", ded + t + r.choice(["", ", " + r.choice(EXPRS)]), tag=tag))
            if r.random() < 0.3:
                out.append(Instr("into_existing", ded + t + ", " + r.choice(EXPRS), tag=tag))
        elif style == 4:
            out.append(Instr("map_owned", ded + t, tag=tag))
            out.append(Instr("map_ref", ded + t + ", " + r.choice(EXPRS), tag=tag))
        elif style == 5:
            nm = r.choice(["try_map", "try_into", "try_from"]) if r.random() < 0.5 else "map"
            out.append(Instr(nm, ded + t + ", " + r.choice(EXPRS), tag=tag))
            if nm != "map" and nm != "try_map":
                out.append(Instr("map", ded + t, tag=tag))
        else:
            out.append(Instr("map", ded + t + r.choice(["", ", " + r.choice(EXPRS)]), tag=tag))
    if r.random() < 0.08:
        out.append(Instr("as_type", r.choice(["i64", "f64"]), tag=("as", None)))
        # as_type stands for a map instruction of its own: keep it the only default one
        out = [a for a in out if a.tag[1] is not None or a.name == "as_type"]
        if any(tnamed[c] != sshape_named for c in cps):
            out = [a for a in out if a.name != "as_type"] or [Instr("map", tname(tnamed[cps[0]], j), tag=("mmap", None))]
    r.shuffle(out)
    return out


def ghost_attr(r, cps):
    nm = r.choice(["ghost", "ghost", "ghost_owned", "ghost_ref"])
    ded = (r.choice(cps) + "| ") if r.random() < 0.3 else ""
    return Instr(nm, ded + r.choice(VALUES), tag=("ghost", None))


def struct(r, name="S"):
    named = r.random() < 0.6
    nf = r.randrange(1, 5)
    cps = r.sample(CPS, 1 if r.random() < 0.6 else 2)
    hint, tnamed = {}, {}
    for c in cps:
        t = r.random()
        if t < 0.3:
            hint[c] = "()" if named else "{}"
            tnamed[c] = not named
        else:
            hint[c] = ("{}" if named else "()") if t < 0.4 else None
            tnamed[c] = named
    uniform = len(set(tnamed.values())) == 1
    all_named = named and all(tnamed.values())
    feature = r.choice(["plain", "plain", "bare_parent", "param_parent", "child", "ghosts"])
    if feature in ("param_parent", "child") and not all_named:
        feature = "plain"
    bare_parent = feature == "bare_parent"
    attrs = []
    for c in cps:
        for _ in range(r.randrange(1, 4)):
            attrs.append(trait_instr(r, pick_kinds(r), c, hint[c], bare_parent, False))
    # an instruction name may be given once per counterpart and kind: drop later duplicates of a (counterpart, kind, fallibility)
    seen, keep = set(), []
    for a in attrs:
        ks, fall = gen.kinds_of(a.name)
        key = {(a.tag[1], k, fall) for k in ks}
        if key & seen:
            continue
        seen |= key
        keep.append(a)
    attrs = keep
    fields = []
    special = r.randrange(nf) if feature in ("bare_parent", "param_parent") else None
    for j in range(nf):
        fname = NAMES[j] if named else None
        if j == special and bare_parent:
            fields.append(Field(fname, "Base", [Instr("parent", None, tag=("parent", None))]))
            continue
        if j == special:
            entries = ["p1", "[map(q2)] p2", "[map(q3, ~.clone())] p3", "[from(q4)] [into(q4, ~ + 1)] p4"]
            fields.append(Field(fname, "Base", [Instr("parent", ", ".join(r.sample(entries, r.randrange(2, 4))), tag=("parent", None))]))
            continue
        fa = member_attrs(r, j, cps, named, tnamed, uniform)
        if feature == "child" and r.random() < 0.5:
            fa.append(Instr("child", r.choice(["c1", "c1", "c1.c2"]), tag=("child", None)))
        elif r.random() < 0.12:
            fa = [ghost_attr(r, cps)] if r.random() < 0.5 else fa + [ghost_attr(r, cps)]
            if not any(a.args and "{" in a.args or a.args and "||" in a.args for a in fa if a.name.startswith("ghost")):
                pass
        fields.append(Field(fname, r.choice(["i32", "String", "Vec<i32>", "Inner"]), fa))
    if feature == "child":
        # nested struct types may carry generic arguments, in either spelling (they are written in expression position)
        attrs.append(Instr("child_parents", "c1: " + r.choice(["C1", "C1", "R<T>", "m::R<i32, u8>", "R::<T>"]) + ", c1.c2: " + r.choice(["m::C2", "m::C2", "Q<Vec<u8>>"]), tag=("cp", None)))
    if feature == "ghosts" or r.random() < 0.15:
        for c in ([None] if uniform and r.random() < 0.6 else cps):
            tn = tnamed[cps[0]] if c is None else tnamed[c]
            gs = ", ".join(f"{('g' + str(q)) if tn else str(nf + q)}: {r.choice([v for v in VALUES if v.startswith('{')])}" for q in range(r.randrange(1, 3)))
            attrs.append(Instr(r.choice(["ghosts", "ghosts", "ghosts_owned", "ghosts_ref"]), ("" if c is None else c + "| ") + gs, tag=("ghosts", None)))
    r.shuffle(attrs)
    it = Item("struct", name, "named" if named else "tuple", r.choice(["", "", "<T>", "<'a>"]), attrs, fields)
    it.meta["cparts"] = cps
    return it


def enum(r, name="E"):
    cps = r.sample(["A", "B", "m::D"], 1 if r.random() < 0.65 else 2)
    attrs = []
    for c in cps:
        for _ in range(r.randrange(1, 3)):
            attrs.append(trait_instr(r, pick_kinds(r, allow_existing=False), c, None, False, True))
    seen, keep = set(), []
    for a in attrs:
        ks, fall = gen.kinds_of(a.name)
        key = {(a.tag[1], k, fall) for k in ks}
        if key & seen:
            continue
        seen |= key
        keep.append(a)
    attrs = keep
    variants = []
    for k in range(r.randrange(1, 5)):
        shape = r.choice(["unit", "unit", "tuple", "named"])
        nf = 0 if shape == "unit" else r.randrange(1, 4)
        vat = []
        if r.random() < 0.3:
            vat.append(Instr("map", f"W{k}", tag=("mmap", None)))
        named = shape == "named"
        tnamed = {c: named for c in cps}
        if shape != "unit" and r.random() < 0.3:
            vat.append(Instr("type_hint", "as " + ("()" if named else "{}"), tag=("th", None)))
            tnamed = {c: not named for c in cps}
        fields = []
        for j in range(nf):
            fa = member_attrs(r, j, cps, named, tnamed, True)
            fa = [a for a in fa if a.name not in ("into_existing", "as_type")]
            if r.random() < 0.1:
                fa = [Instr("ghost", r.choice(VALUES), tag=("ghost", None))]
            fields.append(Field(NAMES[j] if named else None, r.choice(["i32", "String"]), fa))
        variants.append(Variant(f"V{k}", shape, fields, vat))
    if r.random() < 0.25:
        attrs.append(Instr(r.choice(["ghosts", "ghosts_owned"]), "Zed: { " + name + "::V0 }" + r.choice(["", ", Yot(..): { todo!() }", ", Xen { a, .. }: { mk(a) }"]), tag=("ghosts", None)))
    if len(variants) > 1 and r.random() < 0.2:
        v = r.choice(variants)
        v.attrs.append(Instr("ghost", "{ " + cps[0] + "::Other }" if r.random() < 0.7 else None, tag=("ghost", None)))
    r.shuffle(attrs)
    it = Item("enum", name, "named", "", attrs, [], variants)
    it.meta["cparts"] = cps
    return it


def enum_prim(r, name="E"):
    """an enum mapped to a primitive: every variant has a #[literal] or a #[pattern]; a pattern variant gets the expression it
    converts back to (now and then only a name: an empty arm, rejected since fix 08c970f), a unit / payload variant may carry
    a variant-level instruction, a default arm closes the From side"""
    prim = r.choice(["i32", "u8", "i64", "&'static str", "String"])
    strs = prim in ("&'static str", "String")
    attrs = []
    nm = r.choice(["map", "map_owned", "from", "into", "from_owned", "owned_into", "ref_into", "try_map_owned", "try_into"])
    ks, fall = gen.kinds_of(nm)
    head = prim + (", String" if fall else "")
    params = []
    if r.random() < 0.7:
        params.append(r.choice(["_ => todo!()", "_ => panic!(\"no\")", "_ => { mk(&@) }"]))
    if r.random() < 0.2:
        params.insert(0, "vars(v0: { 1 })")
    attrs.append(Instr(nm, head + (" | " + ", ".join(params) if params else ""), tag=("trait", prim)))
    variants = []
    for k in range(r.randrange(1, 5)):
        vat = []
        lit = f"\"s{k}\"" if strs else str(k)
        t = r.random()
        if t < 0.5:
            vat.append(Instr("literal", lit, tag=("lit", None)))
        elif t < 0.9:
            vat.append(Instr("pattern", r.choice([f"\"a{k}\" | \"b{k}\"", "_"]) if strs else r.choice([f"{k}..={k + 5}", f"{k} | {k + 100}", "_", f"x if x > {k}"]), tag=("pat", None)))
            if r.random() < 0.9:
                vat.append(Instr(r.choice(["into", "owned_into", "ref_into"]), "{ " + lit + " }" if r.random() < 0.85 else f"W{k}", tag=("mmap", None)))
        else:
            vat.append(Instr("literal", lit, tag=("lit", None)))
            vat.append(Instr("pattern", "_", tag=("pat", None)))
        r.shuffle(vat)
        shape = r.choice(["unit", "unit", "unit", "tuple", "named"])
        fields = [Field(NAMES[j] if shape == "named" else None, "i32", [Instr("ghost", "{ 0 }", tag=("ghost", None))] if r.random() < 0.5 else []) for j in range(0 if shape == "unit" else 1)]
        variants.append(Variant(f"V{k}", shape, fields, vat))
    it = Item("enum", name, "named", "", attrs, [], variants)
    it.meta["cparts"] = [prim]
    return it


def gen_consistent(seed, n):
    r = random.Random(f"wf-consistent-{seed}")
    rp = random.Random(f"wf-consistent-prim-{seed}")
    out = []
    for k in range(n):
        it = struct(r) if r.random() < 0.7 else enum(r)
        # a tenth of the items, from a stream of their own: enums mapped to a primitive (literals and patterns)
        if rp.random() < 0.1:
            it = enum_prim(rp)
        it.meta["id"] = f"wfc-{seed}-{k}"
        out.append(it)
    return out
