#!/usr/bin/env python3
"""Entry point of every registered check.

  check.py --setup
  check.py <Cxx> quick|thorough
  check.py <Cxx> --replay <file>

Flow (DESIGN.md §1): translator -> lake build of the property's theorems + axiom audit ->
cargo build of the harness against /repo's working tree -> correspondence (model vs real derive)
on corpus + generated cases -> implementation-level oracle (searches for a failing input) ->
known findings -> verdict + evidence.
"""
import sys, os, re, json, time, subprocess, hashlib, collections, random, fcntl

sys.path.insert(0, os.path.dirname(os.path.abspath(__file__)))
import o2olib as L
import gen
import props as P

VERIF = L.VERIF
EVID = os.path.join(VERIF, "evidence")
REPLAY = os.path.join(EVID, "replay")
LEAN = L.LEAN_DIR

ALLOWED_AXIOMS = {"propext", "Classical.choice", "Quot.sound"}
TRUSTED_BASE = [
    "Lean 4.33.0 kernel (lake build; thorough tier re-checks the property module with leanchecker)",
    "axioms: subset of {propext, Classical.choice, Quot.sound}; no sorry/admit/native_decide/bv_decide/own axioms (audited every run)",
    "translator tools/extract (harness extract): copies tables / quote! skeletons / inventories from /repo sources into Generated.lean",
    "correspondence check: harness (real o2o_impl::expand::derive in-process, catch_unwind) vs Lean driver on the same serialised DeriveInput",
    "modelled not verified: syn/quote/proc-macro2 parsing+printing (Syn.lean), rustc's reading of the emitted tokens, spans",
]


def sh(cmd, cwd=None, timeout=None):
    r = subprocess.run(cmd, cwd=cwd, env=L.ENV, stdout=subprocess.PIPE, stderr=subprocess.STDOUT, text=True, timeout=timeout)
    return r.returncode, r.stdout


class Lock:
    def __enter__(self):
        os.makedirs(L.WORK, exist_ok=True)
        self.f = open(os.path.join(L.WORK, ".lock"), "w")
        fcntl.flock(self.f, fcntl.LOCK_EX)
        return self

    def __exit__(self, *a):
        fcntl.flock(self.f, fcntl.LOCK_UN)
        self.f.close()


# ------------------------------------------------------------------------------------------
# step 1: translator

def run_translator():
    """regenerates lean/O2oModel/Generated.lean from /repo; returns (ok, message)"""
    ok, out = L.build_harness("s1")
    if not ok:
        return False, "harness (s1) does not build against /repo:\n" + out[-3000:]
    rc, out = sh([L.harness_bin("s1"), "extract", "--repo", L.REPO, "--out", os.path.join(LEAN, "O2oModel", "Generated.lean")])
    if rc != 0:
        return False, "translator refused the sources (a table no longer has the recognised shape):\n" + out[-3000:]
    return True, out


# ------------------------------------------------------------------------------------------
# step 2/3: kernel check + audit

def lean_sources():
    res = []
    for root, _, files in os.walk(LEAN):
        if ".lake" in root:
            continue
        for f in files:
            if f.endswith(".lean"):
                res.append(os.path.join(root, f))
    return res


BANNED = re.compile(r"\b(sorry|admit|native_decide|bv_decide|implemented_by|unsafe)\b|^\s*axiom\s|maxHeartbeats\s+0", re.M)


def strip_comments(src):
    src = re.sub(r"/-.*?-/", "", src, flags=re.S)
    src = re.sub(r"--.*", "", src)
    return re.sub(r'"(?:[^"\\]|\\.)*"', '""', src)


def audit_sources():
    bad = []
    for f in lean_sources():
        if os.path.basename(f) == "Driver.lean":
            continue
        s = strip_comments(open(f).read())
        for m in BANNED.finditer(s):
            bad.append(f"{os.path.relpath(f, LEAN)}: {m.group(0).strip()}")
    return bad


def prop_modules(prop):
    """the property's theorem files: Props/<prop>.lean and, where a theorem needs lemmas that themselves build on the
    first file, Props/<prop>b.lean"""
    mods = [prop]
    for sfx in ("b", "c", "d", "e", "f"):
        if os.path.exists(os.path.join(LEAN, "O2oModel", "Props", prop + sfx + ".lean")):
            mods.append(prop + sfx)
    return mods


def theorems_of(prop):
    """(name, statement) of every theorem in the property's theorem files"""
    res = []
    for mod in prop_modules(prop):
        path = os.path.join(LEAN, "O2oModel", "Props", mod + ".lean")
        src = re.sub(r"/-.*?-/", "", open(path).read(), flags=re.S)
        src = re.sub(r"--.*", "", src)
        for m in re.finditer(r"^theorem\s+([A-Za-z0-9_.']+)(.*?)(?::=|\n\s*\|)", src, re.S | re.M):
            res.append((m.group(1), re.sub(r"\s+", " ", m.group(2)).strip()))
    return res


def kernel_check(prop, thorough):
    """build the model + the property module, print axioms. returns dict"""
    res = {"ok": False, "log": "", "theorems": [], "axioms": {}, "failed": []}
    # only this property's theorem modules (with whatever they import) and the driver: an obligation of another property
    # that no longer checks is that property's alarm, not this one's
    rc, out = sh(["lake", "build"] + [f"O2oModel.Props.{m}" for m in prop_modules(prop)] + ["driver"], cwd=LEAN, timeout=3600)
    res["log"] = out[-6000:]
    thms = theorems_of(prop)
    res["theorems"] = thms
    if rc != 0:
        # which theorems of this property failed?
        failed = []
        for m in re.finditer(r"error: (O2oModel/[A-Za-z0-9_/]+\.lean):(\d+):", out):
            failed.append(f"{m.group(1)}:{m.group(2)}")
        res["failed"] = failed or ["lake build failed"]
        return res
    # axiom audit: a scratch file that imports the module and prints the axioms of each theorem
    os.makedirs(L.WORK, exist_ok=True)
    aud = os.path.join(L.WORK, f"Audit_{prop}.lean")
    with open(aud, "w") as f:
        for m in prop_modules(prop):
            f.write(f"import O2oModel.Props.{m}\n")
        for name, _ in thms:
            f.write(f"#print axioms O2o.{name}\n")
    rc, out = sh(["lake", "env", "lean", aud], cwd=LEAN, timeout=1800)
    if rc != 0:
        res["failed"] = ["axiom audit failed: " + out[-1500:]]
        return res
    cur = None
    for line in out.replace("\n  ", " ").split("\n"):
        m = re.match(r"'O2o\.([^']+)' depends on axioms: \[(.*)\]", line)
        if m:
            res["axioms"][m.group(1)] = [x.strip() for x in m.group(2).split(",")]
            continue
        m = re.match(r"'O2o\.([^']+)' does not depend on any axioms", line)
        if m:
            res["axioms"][m.group(1)] = []
    bad = []
    for name, _ in thms:
        if name not in res["axioms"]:
            bad.append(f"{name}: no axiom report")
        elif not set(res["axioms"][name]) <= ALLOWED_AXIOMS:
            bad.append(f"{name}: axioms {res['axioms'][name]}")
    bad += audit_sources()
    if thorough:
        rc, out = sh(["lake", "env", "leanchecker"] + [f"O2oModel.Props.{m}" for m in prop_modules(prop)], cwd=LEAN, timeout=3600)
        res["leanchecker_rc"] = rc
        if rc != 0:
            bad.append("leanchecker: " + out[-800:])
    res["failed"] = bad
    res["ok"] = not bad
    return res


# ------------------------------------------------------------------------------------------
# correspondence

def struct_hash(src):
    """structural hash: instruction names and punctuation kept, other identifiers / literals normalised"""
    keep = set(gen.ALL24) | {"ghost", "ghosts", "ghost_owned", "ghost_ref", "ghosts_owned", "ghosts_ref", "child", "child_parents", "parent", "as_type",
                             "literal", "pattern", "type_hint", "repeat", "skip_repeat", "stop_repeat", "where_clause", "o2o", "vars", "return", "as",
                             "struct", "enum", "union", "Unit", "permeate", "attribute", "impl_attribute", "inner_attribute", "allow_unknown", "children"}
    s = re.sub(r'"[^"]*"', "S", src)
    s = re.sub(r"[A-Za-z_][A-Za-z0-9_]*", lambda m: m.group(0) if m.group(0) in keep else "x", s)
    s = re.sub(r"\d+", "0", s)
    return hashlib.sha1(s.encode()).hexdigest()[:16]


def load_corpus_cases():
    rc, out = sh([L.harness_bin("s1"), "corpus", "--repo", L.REPO])
    cases = []
    for line in out.split("\n"):
        if "\t" in line:
            i, s = line.split("\t", 1)
            cases.append((i, s))
    # minimised past disagreements + known-finding witnesses kept in /verif/corpus
    cdir = os.path.join(VERIF, "corpus")
    if os.path.isdir(cdir):
        for f in sorted(os.listdir(cdir)):
            if f.endswith(".txt"):
                cases += [(f"k{f[:-4]}:{i}", s) for i, s in L.read_cases(os.path.join(cdir, f))]
    return cases


def write_replay(prop, tag, payload):
    os.makedirs(REPLAY, exist_ok=True)
    h = hashlib.sha1(json.dumps(payload, sort_keys=True, default=str).encode()).hexdigest()[:10]
    path = os.path.join(REPLAY, f"{prop}-{tag}-{h}.json")
    with open(path, "w") as f:
        json.dump(payload, f, indent=1, default=str)
    return path


def shrink(source, still_fails, budget=60):
    """greedy attribute / member deletion on the source text while `still_fails(source)` holds"""
    cur = source
    t0 = time.time()
    changed = True
    while changed and time.time() - t0 < budget:
        changed = False
        # candidate deletions: each top-level `#[...]` attribute occurrence
        spans = [(m.start(), m.end()) for m in re.finditer(r"#\s*\[(?:[^\[\]]|\[(?:[^\[\]]|\[[^\[\]]*\])*\])*\]", cur)]
        for a, b in spans:
            cand = (cur[:a] + cur[b:]).strip()
            cand = re.sub(r"\s+", " ", cand)
            try:
                if cand != cur and still_fails(cand):
                    cur = cand
                    changed = True
                    break
            except Exception:
                pass
    return cur


# ------------------------------------------------------------------------------------------

def known_findings():
    path = os.path.join(VERIF, "KNOWN_FINDINGS.json")
    if not os.path.exists(path):
        return []
    return json.load(open(path))["findings"]


def main():
    args = sys.argv[1:]
    if args and args[0] == "--setup":
        with Lock():
            ok1, o1 = L.build_harness("s1")
            ok2, o2 = L.build_harness("s2")
            okt, ot = run_translator()
            rc, out = sh(["lake", "build"], cwd=LEAN, timeout=7200)
            print(o1[-500:], o2[-500:], ot[-500:], out[-1500:])
            sys.exit(0 if (ok1 and ok2 and okt and rc == 0) else 1)
    prop = args[0]
    if len(args) >= 3 and args[1] == "--replay":
        sys.exit(P.replay(prop, args[2]))
    tier = args[1] if len(args) > 1 else os.environ.get("VERIF_TIER", "quick")
    seed = int(os.environ.get("VERIF_SEED", "1"))
    with Lock():
        rc = run_check(prop, tier, seed)
    sys.exit(rc)


def run_check(prop, tier, seed):
    t0 = time.time()
    thorough = tier == "thorough"
    spec = P.PROPS[prop]
    violations = []     # (replay_path, found_input: bool, text)
    notes = []
    cov = {"trusted_base": TRUSTED_BASE, "checker_cmd": f"cd lean && lake build O2oModel.Props.{prop} && lake env lean <#print axioms for each theorem>" + (" && lake env leanchecker O2oModel.Props." + prop if thorough else "")}

    # 1. translator
    ok, msg = run_translator()
    broken = []
    if not ok:
        broken.append({"kind": "translator", "detail": msg})
    # 2/3. kernel
    kc = kernel_check(prop, thorough) if ok else {"ok": False, "theorems": theorems_of(prop), "axioms": {}, "failed": ["translator failed"], "log": ""}
    thms = kc["theorems"]
    cov["obligations"] = len(thms)
    cov["discharged"] = len(thms) if kc["ok"] else 0
    cov["theorems"] = [{"name": n, "statement": s[:400], "axioms": kc["axioms"].get(n)} for n, s in thms]
    if not kc["ok"]:
        broken.append({"kind": "proof", "detail": kc["failed"], "log": kc.get("log", "")[-3000:]})

    # 4. correspondence
    backends = spec.get("backends", ["s1"]) if not thorough else ["s1", "s2"]
    for b in backends:
        okb, outb = L.build_harness(b)
        if not okb:
            broken.append({"kind": "harness-build", "detail": outb[-3000:]})
    n_gen = spec.get("n_thorough", 20000) if thorough else spec.get("n_quick", 1500)
    cases = []
    if not any(x["kind"] == "harness-build" for x in broken):
        corpus = load_corpus_cases()
        if not thorough:
            # a slice of the repo corpus in the quick tier, everything in the thorough tier
            r = random.Random(seed)
            keep = [c for c in corpus if c[0].startswith("k")]
            rest = [c for c in corpus if not c[0].startswith("k")]
            r.shuffle(rest)
            corpus = keep + rest[: spec.get("corpus_quick", 120)]
        cases += corpus
        profs = spec["profiles"]
        per = max(1, n_gen // len(profs))
        for k, prof in enumerate(profs):
            cases += gen.gen_cases(prof, seed * 1000 + k, per)
        cases += P.extra_cases(prop, seed, thorough)
    evals = 0
    hashes = set()
    nontrivial = 0
    kinds = collections.Counter()
    unsupported = 0
    samples = []
    disagreements = []
    results = {}
    for b in backends:
        if any(x["kind"] == "harness-build" for x in broken):
            break
        res = L.compare(cases, b)
        results[b] = res
        evals += res["n"]
        unsupported += res["unsupported"]
        for k, v in res["kinds"].items():
            kinds[f"{b}:{k}"] += v
        for d in res["disagree"]:
            d["backend"] = b
            disagreements.append(d)
    for i, s in cases:
        if P.nontrivial(prop, s):
            h = struct_hash(s)
            if h not in hashes:
                hashes.add(h)
                if len(samples) < 3:
                    samples.append({"id": i, "input": s[:600]})
    nontrivial = len(hashes)
    # what the generated and corpus inputs look like: how many of them use each feature of the instruction language
    feats = collections.OrderedDict([
        ("struct", r"\bstruct\b"), ("enum", r"\benum\b"), ("tuple_struct_or_variant", r"\w\s*\((?![^)]*:)[^)]*\)\s*[;,}]"),
        ("two_or_more_counterparts", None), ("fallible_instruction", r"\btry_|_try_"), ("dedication `Type|`", r"\w[\w:<>', ]*\|"),
        ("shape_hint as {} / as ()", r" as (\{\}|\(\)|Unit)"), ("member_rename_or_expression", r"#\[(o2o\()?(try_)?(map|from|into|owned_into|ref_into|from_owned|from_ref|map_owned|map_ref)\w*\("),
        ("ghost (member)", r"#\[(o2o\()?ghost(_owned|_ref)?\b"), ("ghosts (type / variant)", r"ghosts(_owned|_ref)?\("), ("child", r"#\[(o2o\()?child\("),
        ("child_parents", r"child_parents\("), ("parent bare", r"#\[parent\]"), ("parent with list", r"#\[(o2o\()?parent\("), ("nested [instr(..)] in parent", r"parent\([^\]]*\["),
        ("repeat / skip / stop", r"\b(repeat|skip_repeat|stop_repeat)\b"), ("vars", r"vars\("), ("update `..`", r"\| [^#]*\.\.[A-Za-z{@]"), ("quick return", r"\breturn "),
        ("attribute params", r"\b(attribute|impl_attribute|inner_attribute)\("), ("type_hint (variant)", r"type_hint\("), ("literal / pattern", r"#\[(o2o\()?(literal|pattern)\("),
        ("default case `_ =>`", r"_ =>"), ("where_clause", r"where_clause\("), ("generic type or counterpart", r"<[^>]*>"), ("grouped #[o2o(..)] spelling", r"#\[o2o\("), ("as_type", r"as_type\("),
        ("allow_unknown / foreign attrs", r"allow_unknown|serde|doc_hidden|derive\(")])
    hist = collections.OrderedDict((k, 0) for k in feats)
    for _, s in cases:
        for k, rx in feats.items():
            if rx is None:
                m = re.findall(r"#\[(?:o2o\()?(?:try_|owned_|ref_)*(?:map|from|into)\w*\(\s*([A-Za-z_:][\w:]*)", s.split(" struct ")[0].split(" enum ")[0])
                if len(set(m)) >= 2:
                    hist[k] += 1
            elif re.search(rx, s):
                hist[k] += 1
    cov["input_features"] = {"inputs": len(cases), "using": dict(hist)}
    cov.update({"evaluations": evals, "distinct_nontrivial": nontrivial, "rule": P.RULES.get(prop, P.RULES["default"]),
                "samples": samples, "outcome_kinds": dict(kinds), "skipped_unsupported": unsupported, "profiles": spec["profiles"],
                "correspondence_disagreements": len(disagreements)})
    if disagreements:
        broken.append({"kind": "correspondence", "detail": [{k: d[k] for k in ("id", "source", "backend")} | {"impl": str(d["impl"])[:1500], "model": str(d["model"])[:1500]} for d in disagreements[:5]],
                       "count": len(disagreements)})

    # 5/6. implementation-level oracle: always run on this property's cases (it is the search for a failing
    # input; a failing input that is not a listed finding is a violation whether or not a tie broke)
    kf = [f for f in known_findings() if f["property"] == prop and f.get("status", "finding") == "finding"]
    oracle = P.run_oracle(prop, cases, results, seed, thorough, disagreements)
    cov["oracle"] = {k: oracle[k] for k in oracle if k not in ("failures",)}
    if oracle.get("error"):
        # an oracle that could not run to completion explored nothing: that is not a pass
        broken.append({"kind": "oracle", "detail": oracle["error"], "log": ""})
    fresh = []
    known_hit = collections.OrderedDict()
    for f in oracle["failures"]:
        cls = P.classify_failure(prop, f, kf)
        if cls is None:
            fresh.append(f)
        else:
            known_hit.setdefault(cls["id"], cls)
    # replay the listed witnesses themselves
    for f in kf:
        st = P.replay_finding(prop, f)
        if st == "fails":
            known_hit.setdefault(f["id"], f)
        elif st == "passes":
            notes.append(f"known finding {f['id']} no longer reproduces on this tree")
    for fid, f in known_hit.items():
        print(f"KNOWN-FINDING: property={prop} {f['id']}: {f['what_fails']}")
    cov["known_findings_reproduced"] = list(known_hit.keys())

    # verdict
    if fresh:
        first = fresh[0]
        try:
            small = shrink(first["source"], lambda s: P.oracle_fails(prop, s, first), budget=40) if first.get("shrinkable", True) else first["source"]
        except Exception:
            small = first["source"]
        payload = {"property": prop, "kind": "failing-input", "what": first["what"], "source": small, "original_source": first["source"],
                   "detail": first.get("detail"), "broken_ties": broken, "seed": seed, "others": [x["source"] for x in fresh[1:6]]}
        path = write_replay(prop, "input", payload)
        violations.append((path, True, first["what"]))
    elif broken:
        payload = {"property": prop, "kind": "broken-tie", "broken": broken, "seed": seed,
                   "note": "a proof obligation or the model/implementation correspondence no longer checks; the oracle campaign found no input on which the property fails"}
        path = write_replay(prop, "tie", payload)
        violations.append((path, False, broken[0]["kind"]))

    wall = time.time() - t0
    ev = {"property_id": prop, "tier": tier, "seed": seed, "level": "proof", "coverage": cov,
          "assumptions": P.ASSUMPTIONS.get(prop, []) + P.ASSUMPTIONS["all"], "wall_s": round(wall, 2), "violations": len(violations), "notes": notes}
    os.makedirs(EVID, exist_ok=True)
    with open(os.path.join(EVID, prop + ".json"), "w") as f:
        json.dump(ev, f, indent=1, default=str)
    for path, found, what in violations:
        print(f"VIOLATION property={prop} replay={path}" + ("" if found else " no-failing-input-found"))
    if not violations:
        print(f"OK property={prop} tier={tier} theorems={cov['discharged']}/{cov['obligations']} cases={evals} nontrivial={nontrivial} wall={wall:.1f}s")
    return 1 if violations else 0


if __name__ == "__main__":
    main()
