#!/bin/bash
# usage: verify_seed.sh <worktree> <demo-destination-relative> <demo command...>
# confirms in the scratch worktree: suite green with the change, demo fails with it and passes without it
set -u
WT=$1; DEST=$2; shift 2
cd "$WT" || exit 2
export CARGO_NET_OFFLINE=true RUST_BACKTRACE=0
rm -f "$DEST"
git apply -R --check SEED/patch.diff 2>/dev/null || git apply SEED/patch.diff
echo "--- suite with the change"
cargo nextest run --workspace --no-fail-fast --offline 2>&1 | tail -1
mkdir -p "$(dirname "$DEST")"; cp SEED/${DEMO:-demo.rs} "$DEST"
echo "--- demo with the change (expected to fail)"
"$@" > /tmp/seed_demo_with.log 2>&1; echo "rc=$?"; grep -E "test result|Summary|FAIL|failed" /tmp/seed_demo_with.log | head -5
git apply -R SEED/patch.diff
echo "--- demo without the change (expected to pass)"
"$@" > /tmp/seed_demo_without.log 2>&1; echo "rc=$?"; grep -E "test result|Summary|FAIL|failed" /tmp/seed_demo_without.log | head -5
git apply SEED/patch.diff
rm -f "$DEST"
