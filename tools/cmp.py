#!/usr/bin/env python3
"""ad-hoc: compare model and implementation on a case file. usage: cmp.py cases.txt [s1|s2] [max-show]"""
import sys, os
sys.path.insert(0, os.path.dirname(os.path.abspath(__file__)))
import o2olib as L
cases = L.read_cases(sys.argv[1])
b = sys.argv[2] if len(sys.argv) > 2 else "s1"
show = int(sys.argv[3]) if len(sys.argv) > 3 else 5
r = L.compare(cases, b)
print({k: r[k] for k in ("n", "agree", "unsupported", "skipped", "kinds")}, "disagree:", len(r["disagree"]))
for d in r["disagree"][:show]:
    print("----", d["id"]); print(d["source"][:700])
    if d["impl"][0] == "OK" and d["model"][0] == "OK":
        a, b2 = d["impl"][1].split(), d["model"][1].split()
        k = next((n for n in range(min(len(a), len(b2))) if a[n] != b2[n]), min(len(a), len(b2)))
        print("  first diff at token", k); print("  impl :", " ".join(a[max(0,k-12):k+12])); print("  model:", " ".join(b2[max(0,k-12):k+12]))
    else:
        print("  impl :", str(d["impl"])[:600]); print("  model:", str(d["model"])[:600])
import collections
print(collections.Counter(L.canon_model(v)[1] for v in r["mod"].values() if v.startswith("UNSUPPORTED")).most_common(10))
