#!/usr/bin/env python3
"""model-vs-implementation sweep over all profiles. usage: sweep.py <seed0> <nseeds> <n> [backend]"""
import sys, os, json, collections
sys.path.insert(0, os.path.dirname(os.path.abspath(__file__)))
import o2olib as L, gen
seed0, nseeds, n = int(sys.argv[1]), int(sys.argv[2]), int(sys.argv[3])
b = sys.argv[4] if len(sys.argv) > 4 else "s1"
tot = collections.Counter(); dis = []
uns = collections.Counter()
for prof in list(gen.PROFILES) + ["hostile"]:
    for seed in range(seed0, seed0 + nseeds):
        cases = gen.gen_cases(prof, seed, n)
        r = L.compare(cases, b)
        tot["n"] += r["n"]; tot["agree"] += r["agree"]; tot["unsupported"] += r["unsupported"]; tot["skipped"] += r["skipped"]
        for k, v in r["kinds"].items(): tot["k_" + k] += v
        for v in r["mod"].values():
            if v.startswith("UNSUPPORTED"): uns[L.unesc(v[12:])] += 1
        for d in r["disagree"]:
            dis.append(d)
            print("DISAGREE", d["id"], "\n  ", d["source"][:500], "\n   impl:", str(d["impl"])[:300], "\n   model:", str(d["model"])[:300], flush=True)
print(dict(tot)); print(uns.most_common(10)); print("disagreements:", len(dis))
