#!/bin/bash
# applies one sed expression to /repo/o2o-impl/src/attr.rs, regenerates the tables, builds all theorems; reports whether a proof broke
cd /verif
sed -i "$1" /repo/o2o-impl/src/${2:-attr.rs}
if git -C /repo diff --quiet; then echo "  (no change made)"; fi
(cd /repo && cargo build --offline -p o2o-impl --features syn 2>&1 | grep -E "^error" | head -2)
harness/target/debug/harness extract --out lean/O2oModel/Generated.lean >/dev/null 2>&1 || echo "  translator refused"
(cd lean && lake build 2>&1 | grep -E "^error: O2oModel" | cut -c1-90 | sort -u | head -5)
git -C /repo checkout -- .
harness/target/debug/harness extract --out lean/O2oModel/Generated.lean >/dev/null
