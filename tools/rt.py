"""Runtime tie (implementation-level oracle, never a source of a "holds" verdict): designed closed programs.

A *designer* builds, from one random.Random state, small mappings whose documented meaning it knows: the deriving
type with its o2o instructions, the counterpart types, sample values, and the value every generated conversion must
produce according to the README. The programs go through the real `#[derive(o2o)]` proc-macro built from /repo's
working tree (rustc's proc_macro bridge, not proc-macro2's fallback), are compiled and run, and the printed Debug
values are compared with the designer's expectation.  A module that rustc rejects although the designer built it
from documented features is a failure too (generated code does not compile).
"""
import gen
import os, re, random, subprocess, shutil, json, hashlib

VERIF = os.path.dirname(os.path.dirname(os.path.abspath(__file__)))
REPO = os.environ.get("O2O_REPO", "/repo")
RT = os.path.join(VERIF, "work", "rt")
ENV = dict(os.environ, CARGO_NET_OFFLINE="true", RUST_BACKTRACE="0")


# ------------------------------------------------------------------------------------------------
# values and Debug formatting

def dbg(v):
    """Rust `{:?}` of the designed values: int, ('named', Ty, [(name, v)..]), ('tuple', Ty, [v..]), ('unit', Ty), ('str', s)"""
    if isinstance(v, int):
        return str(v)
    k = v[0]
    if k == "str":
        return '"' + v[1] + '"'
    if k == "unit":
        return v[1]
    if k == "named":
        return v[1] + " { " + ", ".join(f"{n}: {dbg(x)}" for n, x in v[2]) + " }" if v[2] else v[1]
    if k == "tuple":
        return v[1] + "(" + ", ".join(dbg(x) for x in v[2]) + ")" if v[2] else v[1]
    if k == "ok":
        return "Ok(" + dbg(v[1]) + ")"
    if k == "err":
        return "Err(" + dbg(v[1]) + ")"
    raise ValueError(v)


def lit(v):
    """Rust expression constructing the value"""
    if isinstance(v, int):
        return str(v)
    k = v[0]
    if k == "unit":
        return v[1]
    if k == "named":
        return v[1] + " { " + ", ".join(f"{n}: {lit(x)}" for n, x in v[2]) + " }"
    if k == "tuple":
        return v[1] + "(" + ", ".join(lit(x) for x in v[2]) + ")"
    raise ValueError(v)


class Module:
    def __init__(self, name, family, tags=()):
        self.name, self.family, self.tags = name, family, list(tags)
        self.types = []      # rust item source strings
        self.tests = []      # (test name, rust statements that `println!` one line, expected text)
        self.derive_src = ""  # the deriving item (what o2o sees), for replay files

    def source(self):
        out = ["#![allow(dead_code, unused_variables, unused_mut, unused_imports, unreachable_patterns, clippy::all)]", "use o2o::o2o;", "use o2o::traits::*;", "use std::convert::TryFrom;", "use std::convert::TryInto;"]
        out += self.types
        out.append("pub fn run() {")
        for tn, code, _ in self.tests:
            out.append("    { " + code + " }")
        out.append("}")
        return "\n".join(out) + "\n"


DERIVES = "#[derive(Debug, Clone, Default, PartialEq)]"


# ------------------------------------------------------------------------------------------------
# family 1: flat structs (C01, C07, C08)

def design_flat(r, name):
    m = Module(name, "flat")
    n = r.randrange(1, 5)
    s_named = r.random() < 0.6
    a_named = r.random() < 0.7 if s_named else r.random() < 0.4
    hint = ""
    if s_named and not a_named:
        hint = " as ()"
    if not s_named and a_named:
        hint = " as {}"
    fallible = r.random() < 0.3
    use_vars = r.random() < 0.3
    a_members = []     # (name or None, rust type)
    s_fields = []      # dict per field
    ghosts_seen = False
    for k in range(n):
        kinds = ["plain", "plain", "rename", "action", "astype"]
        if a_named and s_named:
            kinds.append("ghost1")         # a ghost of one flavour only: `ghost_owned` / `ghost_ref` (grouped spelling)
            kinds.append("ghost2")         # dedicated ghosts of both flavours with different defaults
        if a_named or k == n - 1:
            kinds.append("ghost")          # under a positional counterpart a ghost is only placed last (known index-skew defect otherwise)
        kind = r.choice(kinds)
        if not s_named and a_named and kind == "plain":
            kind = "rename"                # a tuple member needs a name under `as {}`
        if not a_named and kind == "rename":
            kind = "plain"
        f = {"k": k, "kind": kind, "sname": f"s{k}" if s_named else str(k)}
        if kind == "ghost1":
            # the member is a ghost in the owned (or the by-reference) conversions only, an ordinary member in the others
            f["flavour"] = r.choice(["owned", "ref"])
            f["const"] = 600 + k
            f["aname"] = f["sname"]
            f["aty"] = "i64"
            a_members.append((f["aname"], "i64"))
        elif kind == "ghost2":
            f["c_owned"], f["c_ref"] = 610 + k, 620 + k
        elif kind == "ghost":
            f["const"] = 700 + k
            # a bare #[ghost] member of a named struct: its value comes from the From instruction's `..update`
            f["upd"] = s_named and r.random() < 0.35
        if kind not in ("ghost", "ghost1", "ghost2"):
            idx = len(a_members)
            if a_named:
                an = f"r{k}" if kind == "rename" or (kind in ("action", "astype") and r.random() < 0.5) or not s_named else f["sname"]
            else:
                an = str(idx)
            f["aname"] = an
            f["aty"] = "i32" if kind == "astype" else "i64"
            a_members.append((an, f["aty"]))
            if kind == "action":
                f["mul"], f["add"] = r.randrange(2, 5), r.randrange(1, 9)
                f["usevar"] = use_vars and r.random() < 0.6
            if kind in ("action", "astype") and s_named and not a_named and r.random() < 0.15:
                # under `as ()` an expression without an explicit index binds `~` to the member's position (fix 50c5f10;
                # it used to resolve to `value.<own name>`)
                f["implicit"] = True
        s_fields.append(f)
    struct_ghost = a_named and r.random() < 0.4
    extra = a_named and (r.random() < (0.7 if fallible else 0.4) or any(f["kind"] == "ghost1" for f in s_fields))
    if struct_ghost:
        a_members.append(("g", "i64"))
    if extra:
        a_members.append(("x", "i64"))
    # "narrow instruction first, broad #[map(..)] as the fallback": of two default instructions that both apply to a
    # conversion the one written first is in force (from: the narrow one; into / into_existing: only the broad one applies)
    renames = [f for f in s_fields if f["kind"] == "rename"]
    if extra and not fallible and renames and r.random() < 0.4:
        r.choice(renames)["narrow"] = r.choice(["from", "from_owned+from_ref", "into"])
    # --- types
    if a_named:
        m.types.append(f"{DERIVES} pub struct A {{ " + ", ".join(f"pub {nm}: {ty}" for nm, ty in a_members) + " }")
    else:
        m.types.append(f"{DERIVES} pub struct A(" + ", ".join(f"pub {ty}" for _, ty in a_members) + ");")
    vtxt = " | vars(v0: { 5 })" if use_vars else ""
    itxt = " | " + ", ".join((["vars(v0: { 5 })"] if use_vars else []) + (["..Default::default()"] if extra else [])) if (use_vars or extra) else ""
    err = ", String" if fallible else ""
    pre = "try_" if fallible else ""
    # `..update` belongs to the Into side only (a From impl of a tuple struct cannot take it)
    from_upd = any(f.get("upd") for f in s_fields)
    ftxt = " | " + ", ".join((["vars(v0: { 5 })"] if use_vars else []) + (["..mk_base()"] if from_upd else [])) if (use_vars or from_upd) else ""
    attrs = [f"#[{pre}from(A{hint}{err}{ftxt})]", f"#[{pre}into(A{hint}{err}{itxt})]", f"#[{pre}into_existing(A{hint}{err}{vtxt})]"]
    if struct_ghost:
        attrs.append("#[ghosts(g: { 1100 })]")
    fsrc = []
    for f in s_fields:
        fa = []
        same = s_named and a_named and f.get("aname") == f["sname"]
        tgt = f.get("aname")
        if f["kind"] == "ghost2":
            two = [f"#[o2o(ghost_owned(A| {{ {f['c_owned']} }}))]", f"#[o2o(ghost_ref(A| {{ {f['c_ref']} }}))]"]
            r.shuffle(two)
            fa += two
        elif f["kind"] == "ghost1":
            fa.append(f"#[o2o(ghost_{f['flavour']}({{ {f['const']} }}))]")
        elif f["kind"] == "ghost" and f.get("upd"):
            fa.append("#[ghost]")
        elif f["kind"] == "ghost":
            fa.append(f"#[ghost({{ {f['const']} }})]")
        elif f["kind"] == "rename" and fallible and extra and r.random() < 0.8:
            # most-specific pick: in a fallible conversion the `try_` instruction wins over the plain one written first
            fa.append("#[map(x)]")
            fa.append(f"#[try_map({tgt})]")
        elif f["kind"] == "rename" and extra and not fallible and not f.get("narrow") and random.Random(f"{name}-ded-{f['k']}").random() < 0.3:
            # most-specific pick: the instruction dedicated to the counterpart is in force, although a default one that
            # applies to the same conversions is written above it (own random stream: the other choices stay as they were)
            fa += ["#[map(x)]", f"#[map(A| {tgt})]"]
        elif f["kind"] == "rename" and f.get("narrow") == "into":
            fa += [f"#[into(x)]", f"#[into_existing(x)]", f"#[map({tgt})]"]
        elif f["kind"] == "rename" and f.get("narrow"):
            fa += [f"#[{nm}({tgt})]" for nm in f["narrow"].split("+")] + ["#[map(x)]"]
        elif f["kind"] == "rename":
            fa.append(f"#[map({tgt})]")
        elif f["kind"] == "astype":
            explicit = (not a_named) and s_named and not f.get("implicit")
            fa.append(f"#[o2o(as_type({(tgt + ', ') if (a_named and not same) or explicit else ''}i32))]")
        elif f["kind"] == "action":
            explicit = (not a_named) and s_named and not f.get("implicit")
            pfx = (tgt + ", ") if (a_named and not same) or explicit else ""
            v = " + v0" if f["usevar"] else ""
            fa.append(f"#[from({pfx}~ * {f['mul']})]")
            fa.append(f"#[into({pfx}~ + {f['add']}{v})]")
        elif not same and a_named:
            fa.append(f"#[map({tgt})]")
        decl = f"pub {f['sname']}: i64" if s_named else "pub i64"
        fsrc.append(" ".join(fa + [decl]))
    if s_named:
        item = " ".join(attrs) + " pub struct S { " + ", ".join(fsrc) + " }"
    else:
        item = " ".join(attrs) + " pub struct S(" + ", ".join(fsrc) + ");"
    m.derive_src = item
    m.types.append(f"#[derive(o2o)] {DERIVES} " + item)
    if from_upd:
        m.types.append("pub fn mk_base() -> S { S { " + ", ".join(f"{f['sname']}: {800 + f['k']}" for f in s_fields) + " } }")
    # --- sample values and expectations
    aval = {nm: 10 * (i + 1) + 1 for i, (nm, _) in enumerate(a_members)}
    sval = {f["sname"]: 100 + f["k"] for f in s_fields}

    def a_value(d):
        if a_named:
            return ("named", "A", [(nm, d[nm]) for nm, _ in a_members])
        return ("tuple", "A", [d[nm] for nm, _ in a_members])

    def s_value(d):
        if s_named:
            return ("named", "S", [(f["sname"], d[f["sname"]]) for f in s_fields])
        return ("tuple", "S", [d[f["sname"]] for f in s_fields])
    def exp_s_for(flav):
        d = dict(exp_s)
        for f in s_fields:
            if f["kind"] == "ghost1":
                d[f["sname"]] = f["const"] if f["flavour"] == flav else aval[f["aname"]]
            if f["kind"] == "ghost2":
                d[f["sname"]] = f["c_owned"] if flav == "owned" else f["c_ref"]
        return d
    exp_s = {}
    for f in s_fields:
        if f["kind"] in ("ghost1", "ghost2"):
            continue
        if f["kind"] == "ghost":
            exp_s[f["sname"]] = (800 + f["k"]) if f.get("upd") else f["const"]
        elif f["kind"] == "action":
            exp_s[f["sname"]] = aval[f["aname"]] * f["mul"]
        else:
            exp_s[f["sname"]] = aval[f["aname"]]

    def exp_a(base, flav="owned"):
        d = dict(base)
        for f in s_fields:
            if f["kind"] in ("ghost", "ghost2"):
                continue
            if f["kind"] == "ghost1":
                if f["flavour"] != flav:
                    d[f["aname"]] = sval[f["sname"]]
                continue
            if f["kind"] == "action":
                d[f["aname"]] = sval[f["sname"]] + f["add"] + (5 if f["usevar"] else 0)
            elif f.get("narrow"):
                d["x"] = sval[f["sname"]]
            else:
                d[f["aname"]] = sval[f["sname"]]
        if struct_ghost:
            d["g"] = 1100
        return d
    zero = {nm: 0 for nm, _ in a_members}
    pre_exist = {nm: 9000 + i for i, (nm, _) in enumerate(a_members)}
    a_lit, s_lit = lit(a_value(aval)), lit(s_value(sval))
    q = "?" if False else ""
    wrap = (lambda v: ("ok", v)) if fallible else (lambda v: v)
    if fallible:
        m.tests.append(("from_owned", f'let a = {a_lit}; let r: Result<S, String> = S::try_from(a); println!("{name} from_owned {{:?}}", r);', dbg(wrap(s_value(exp_s_for("owned"))))))
        m.tests.append(("from_ref", f'let a = {a_lit}; let r: Result<S, String> = S::try_from(&a); println!("{name} from_ref {{:?}}", r);', dbg(wrap(s_value(exp_s_for("ref"))))))
        m.tests.append(("into_owned", f'let s = {s_lit}; let r: Result<A, String> = s.try_into(); println!("{name} into_owned {{:?}}", r);', dbg(wrap(a_value(exp_a(zero))))))
        m.tests.append(("into_ref", f'let s = {s_lit}; let r: Result<A, String> = (&s).try_into(); println!("{name} into_ref {{:?}}", r);', dbg(wrap(a_value(exp_a(zero, "ref"))))))
        m.tests.append(("existing_owned", f'let s = {s_lit}; let mut o = {lit(a_value(pre_exist))}; s.try_into_existing(&mut o).unwrap(); println!("{name} existing_owned {{:?}}", o);', dbg(a_value(exp_a(pre_exist)))))
        m.tests.append(("existing_ref", f'let s = {s_lit}; let mut o = {lit(a_value(pre_exist))}; (&s).try_into_existing(&mut o).unwrap(); println!("{name} existing_ref {{:?}}", o);', dbg(a_value(exp_a(pre_exist, "ref")))))
    else:
        m.tests.append(("from_owned", f'let a = {a_lit}; let r = S::from(a); println!("{name} from_owned {{:?}}", r);', dbg(s_value(exp_s_for("owned")))))
        m.tests.append(("from_ref", f'let a = {a_lit}; let r = S::from(&a); println!("{name} from_ref {{:?}}", r);', dbg(s_value(exp_s_for("ref")))))
        m.tests.append(("into_owned", f'let s = {s_lit}; let r: A = s.into(); println!("{name} into_owned {{:?}}", r);', dbg(a_value(exp_a(zero)))))
        m.tests.append(("into_ref", f'let s = {s_lit}; let r: A = (&s).into(); println!("{name} into_ref {{:?}}", r);', dbg(a_value(exp_a(zero, "ref")))))
        m.tests.append(("existing_owned", f'let s = {s_lit}; let mut o = {lit(a_value(pre_exist))}; s.into_existing(&mut o); println!("{name} existing_owned {{:?}}", o);', dbg(a_value(exp_a(pre_exist)))))
        m.tests.append(("existing_ref", f'let s = {s_lit}; let mut o = {lit(a_value(pre_exist))}; (&s).into_existing(&mut o); println!("{name} existing_ref {{:?}}", o);', dbg(a_value(exp_a(pre_exist, "ref")))))
    return m


def design_flat_perm(r, name):
    """positional counterpart, members designated by index in another order (From direction only: the Into direction
    of a positional counterpart ignores index renames on the pinned tree — known finding)"""
    m = Module(name, "flat")
    n = r.randrange(2, 5)
    s_named = r.random() < 0.5
    perm = list(range(n))
    r.shuffle(perm)
    fallible = r.random() < 0.3
    pre, err = ("try_", ", String") if fallible else ("", "")
    hint = " as ()" if s_named else ""
    muls = [r.choice([None, None, 2, 3]) for _ in range(n)]
    m.types.append(f"{DERIVES} pub struct A(" + ", ".join("pub i64" for _ in range(n)) + ");")
    fsrc = []
    for k in range(n):
        att = f"#[from({perm[k]}, ~ * {muls[k]})]" if muls[k] else f"#[{r.choice(['from', 'map'])}({perm[k]})]"
        fsrc.append(att + (f" pub s{k}: i64" if s_named else " pub i64"))
    item = f"#[{pre}from(A{hint}{err})] pub struct S" + (" { " + ", ".join(fsrc) + " }" if s_named else "(" + ", ".join(fsrc) + ");")
    m.derive_src = item
    m.types.append(f"#[derive(o2o)] {DERIVES} " + item)
    aval = [10 * (i + 1) + 1 for i in range(n)]
    exp = [aval[perm[k]] * (muls[k] or 1) for k in range(n)]
    sv = ("named", "S", [(f"s{k}", exp[k]) for k in range(n)]) if s_named else ("tuple", "S", exp)
    a_lit = lit(("tuple", "A", aval))
    if fallible:
        m.tests.append(("from_owned", f'let a = {a_lit}; let r: Result<S, String> = S::try_from(a); println!("{name} from_owned {{:?}}", r);', dbg(("ok", sv))))
        m.tests.append(("from_ref", f'let a = {a_lit}; let r: Result<S, String> = S::try_from(&a); println!("{name} from_ref {{:?}}", r);', dbg(("ok", sv))))
    else:
        m.tests.append(("from_owned", f'let a = {a_lit}; let r = S::from(a); println!("{name} from_owned {{:?}}", r);', dbg(sv)))
        m.tests.append(("from_ref", f'let a = {a_lit}; let r = S::from(&a); println!("{name} from_ref {{:?}}", r);', dbg(sv)))
    return m


def design_flat_parent(r, name):
    """a bare #[parent] member (the post-init dialect of Into / TryInto): the parent's own mapping fills the counterpart
    members it knows, the other members are mapped as usual; a member of S may designate a counterpart member that
    the parent also writes — the parent's call runs after the plain assignments in every Into flavour"""
    m = Module(name, "flat")
    fallible = r.random() < 0.4
    pre, err = ("try_", ", String") if fallible else ("", "")
    nb = r.randrange(1, 4)
    ns = r.randrange(1, 3)
    dup = r.random() < 0.75
    # `vars(..)` used by a struct-level ghost, in Into and IntoExisting alike (the Into flavour dropped the bindings in the
    # post-init dialect until fix 615fb96)
    use_vars = r.random() < 0.35
    a_members = [f"b{k}" for k in range(nb)] + [f"s{k}" for k in range(ns)] + (["g"] if use_vars else [])
    m.types.append(f"{DERIVES} pub struct A {{ " + ", ".join(f"pub {nm}: i64" for nm in a_members) + " }")
    m.types.append(f"#[derive(o2o)] {DERIVES} #[{pre}from(A{err})] #[{pre}into_existing(A{err})] pub struct Base {{ " + ", ".join(f"pub b{k}: i64" for k in range(nb)) + " }")
    fields = [("base", "#[parent] pub base: Base")] + [(f"s{k}", f"pub s{k}: i64") for k in range(ns)]
    dup_to = r.randrange(nb)
    if dup:
        fields.append(("dup", f"#[map(b{dup_to})] pub dup: i64"))
    r.shuffle(fields)
    if use_vars:
        # an inner attribute must stay the first thing in the body, in front of the `vars` bindings
        ia = ", inner_attribute(allow(unused_variables))" if r.random() < 0.5 else ""
        # each binding is evaluated exactly once per conversion: `five()` counts its calls
        m.types.append("pub static CALLS: std::sync::atomic::AtomicI64 = std::sync::atomic::AtomicI64::new(0);")
        m.types.append("pub fn five() -> i64 { CALLS.fetch_add(1, std::sync::atomic::Ordering::SeqCst); 5 }")
        item = f"#[{pre}from(A{err})] #[{pre}into(A{err} | vars(v0: {{ five() }}, v1: {{ v0 * 2 }}){ia})] #[{pre}into_existing(A{err} | vars(v0: {{ five() }}, v1: {{ v0 * 2 }}){ia})] #[ghosts(g: {{ v1 + 1 }})] pub struct S {{ " + ", ".join(src for _, src in fields) + " }"
    else:
        ia = " | inner_attribute(allow(unused_variables))" if r.random() < 0.4 else ""
        fa = " | attribute(inline)" if r.random() < 0.3 else ""
        item = f"#[{pre}from(A{err}{fa})] #[{pre}into(A{err}{ia})] #[{pre}into_existing(A{err}{ia})] pub struct S {{ " + ", ".join(src for _, src in fields) + " }"
    m.derive_src = item
    m.types.append(f"#[derive(o2o)] {DERIVES} " + item)
    aval = {nm: 10 * (i + 1) + 1 for i, nm in enumerate(a_members)}
    a_v = ("named", "A", [(nm, aval[nm]) for nm in a_members])

    def s_v(d):
        return ("named", "S", [(nm, ("named", "Base", [(f"b{k}", d[f"base.b{k}"]) for k in range(nb)]) if nm == "base" else d[nm]) for nm, _ in fields])
    exp_s = {f"base.b{k}": aval[f"b{k}"] for k in range(nb)}
    exp_s.update({f"s{k}": aval[f"s{k}"] for k in range(ns)})
    exp_s["dup"] = aval[f"b{dup_to}"]
    sval = {f"base.b{k}": 100 + k for k in range(nb)}
    sval.update({f"s{k}": 200 + k for k in range(ns)})
    sval["dup"] = 300
    exp_a = {f"b{k}": sval[f"base.b{k}"] for k in range(nb)}
    exp_a.update({f"s{k}": sval[f"s{k}"] for k in range(ns)})
    exp_a["g"] = 11
    ea = ("named", "A", [(nm, exp_a[nm]) for nm in a_members])
    pre_exist = ("named", "A", [(nm, 9000 + i) for i, nm in enumerate(a_members)])
    a_lit, s_lit = lit(a_v), lit(s_v(sval))
    if fallible:
        m.tests.append(("from_owned", f'let a = {a_lit}; let r: Result<S, String> = S::try_from(a); println!("{name} from_owned {{:?}}", r);', dbg(("ok", s_v(exp_s)))))
        m.tests.append(("from_ref", f'let a = {a_lit}; let r: Result<S, String> = S::try_from(&a); println!("{name} from_ref {{:?}}", r);', dbg(("ok", s_v(exp_s)))))
        m.tests.append(("into_owned", f'let s = {s_lit}; let r: Result<A, String> = s.try_into(); println!("{name} into_owned {{:?}}", r);', dbg(("ok", ea))))
        m.tests.append(("into_ref", f'let s = {s_lit}; let r: Result<A, String> = (&s).try_into(); println!("{name} into_ref {{:?}}", r);', dbg(("ok", ea))))
        m.tests.append(("existing_owned", f'let s = {s_lit}; let mut o = {lit(pre_exist)}; s.try_into_existing(&mut o).unwrap(); println!("{name} existing_owned {{:?}}", o);', dbg(ea)))
        m.tests.append(("existing_ref", f'let s = {s_lit}; let mut o = {lit(pre_exist)}; (&s).try_into_existing(&mut o).unwrap(); println!("{name} existing_ref {{:?}}", o);', dbg(ea)))
    else:
        m.tests.append(("from_owned", f'let a = {a_lit}; let r = S::from(a); println!("{name} from_owned {{:?}}", r);', dbg(s_v(exp_s))))
        m.tests.append(("from_ref", f'let a = {a_lit}; let r = S::from(&a); println!("{name} from_ref {{:?}}", r);', dbg(s_v(exp_s))))
        m.tests.append(("into_owned", f'let s = {s_lit}; let r: A = s.into(); println!("{name} into_owned {{:?}}", r);', dbg(ea)))
        m.tests.append(("into_ref", f'let s = {s_lit}; let r: A = (&s).into(); println!("{name} into_ref {{:?}}", r);', dbg(ea)))
        m.tests.append(("existing_owned", f'let s = {s_lit}; let mut o = {lit(pre_exist)}; s.into_existing(&mut o); println!("{name} existing_owned {{:?}}", o);', dbg(ea)))
        m.tests.append(("existing_ref", f'let s = {s_lit}; let mut o = {lit(pre_exist)}; (&s).into_existing(&mut o); println!("{name} existing_ref {{:?}}", o);', dbg(ea)))
    if use_vars:
        m.tests.append(("vars_once", f'println!("{name} vars_once {{}}", CALLS.load(std::sync::atomic::Ordering::SeqCst));', "4"))
    return m


def design_two_parents(r, name):
    """one member that is a bare #[parent] for counterpart A (post-init dialect) and a parameterised #[parent(B| ..)] for
    counterpart B (plain initialiser; B positional or with a type-level ghost): each counterpart's impl must use its own
    dialect"""
    m = Module(name, "flat")
    fallible = r.random() < 0.3
    pre, err = ("try_", ", String") if fallible else ("", "")
    nb = r.randrange(1, 4)
    b_tuple = r.random() < 0.5
    s_first = r.random() < 0.5
    m.types.append(f"{DERIVES} pub struct A {{ pub s0: i64, " + ", ".join(f"pub b{k}: i64" for k in range(nb)) + " }")
    m.types.append(f"#[derive(o2o)] {DERIVES} #[{pre}from(A{err})] #[{pre}into_existing(A{err})] pub struct Base {{ " + ", ".join(f"pub b{k}: i64" for k in range(nb)) + " }")
    order = ["s0"] + [f"b{k}" for k in range(nb)] if s_first else [f"b{k}" for k in range(nb)] + ["s0"]
    if b_tuple:
        m.types.append(f"{DERIVES} pub struct B(" + ", ".join("pub i64" for _ in order) + ");")
        plist = ", ".join(f"[map({order.index(f'b{k}')})] b{k}" for k in range(nb))
        binstr = f"#[{pre}from(B as (){err})] #[{pre}into(B as (){err})]"
        s0attr = f"#[map(B| {order.index('s0')})] "
    else:
        m.types.append(f"{DERIVES} pub struct B {{ " + ", ".join(f"pub {nm}: i64" for nm in order) + ", pub g: i64 }")
        plist = ", ".join(f"b{k}" for k in range(nb))
        binstr = f"#[{pre}from(B{err})] #[{pre}into(B{err})] #[ghosts(B| g: {{ 7 }})]"
        s0attr = ""
    pattrs = [f"#[parent(A)]", f"#[parent(B| {plist})]"]
    r.shuffle(pattrs)
    fields = [f"{s0attr}pub s0: i64", " ".join(pattrs) + " pub base: Base"]
    if not s_first:
        fields.reverse()
    item = f"#[{pre}from(A{err})] #[{pre}into(A{err})] {binstr} pub struct S {{ " + ", ".join(fields) + " }"
    m.derive_src = item
    m.types.append(f"#[derive(o2o)] {DERIVES} " + item)
    vals = {"s0": 5}
    vals.update({f"b{k}": 20 + k for k in range(nb)})
    base_v = ("named", "Base", [(f"b{k}", vals[f"b{k}"]) for k in range(nb)])
    s_v = ("named", "S", [("s0", vals["s0"]), ("base", base_v)] if s_first else [("base", base_v), ("s0", vals["s0"])])
    a_v = ("named", "A", [("s0", vals["s0"])] + [(f"b{k}", vals[f"b{k}"]) for k in range(nb)])
    b_in = ("tuple", "B", [vals[nm] for nm in order]) if b_tuple else ("named", "B", [(nm, vals[nm]) for nm in order] + [("g", 99)])
    b_out = ("tuple", "B", [vals[nm] for nm in order]) if b_tuple else ("named", "B", [(nm, vals[nm]) for nm in order] + [("g", 7)])
    wrap = (lambda v: ("ok", v)) if fallible else (lambda v: v)
    for T, tin, tout in (("A", a_v, a_v), ("B", b_in, b_out)):
        if fallible:
            m.tests.append((f"from_{T}", f'let a = {lit(tin)}; let r: Result<S, String> = S::try_from(a); println!("{name} from_{T} {{:?}}", r);', dbg(wrap(s_v))))
            m.tests.append((f"into_{T}", f'let s = {lit(s_v)}; let r: Result<{T}, String> = s.try_into(); println!("{name} into_{T} {{:?}}", r);', dbg(wrap(tout))))
            m.tests.append((f"into_ref_{T}", f'let s = {lit(s_v)}; let r: Result<{T}, String> = (&s).try_into(); println!("{name} into_ref_{T} {{:?}}", r);', dbg(wrap(tout))))
        else:
            m.tests.append((f"from_{T}", f'let a = {lit(tin)}; let r = S::from(a); println!("{name} from_{T} {{:?}}", r);', dbg(s_v)))
            m.tests.append((f"into_{T}", f'let s = {lit(s_v)}; let r: {T} = s.into(); println!("{name} into_{T} {{:?}}", r);', dbg(tout)))
            m.tests.append((f"into_ref_{T}", f'let s = {lit(s_v)}; let r: {T} = (&s).into(); println!("{name} into_ref_{T} {{:?}}", r);', dbg(tout)))
    return m


def design_flat_skew(r, name):
    """named struct built from a positional counterpart (`as ()`), with members that leave no line in the initialiser
    (bare `#[ghost]`, supplied by `..update`) ahead of members whose expression uses `~` without naming an index: `~` is
    the counterpart's member at the *declaration* position, not at the number of lines written so far (From only)"""
    m = Module(name, "flat")
    n = r.randrange(2, 6)
    fallible = r.random() < 0.25
    pre, err = ("try_", ", String") if fallible else ("", "")
    kinds = [r.choice(["bare", "bare", "ghostval", "implicit", "implicit", "plain", "explicit"]) for _ in range(n)]
    if "bare" not in kinds[:-1]:
        kinds[r.randrange(n - 1)] = "bare"
    if not any(k == "implicit" for k in kinds[kinds.index("bare") + 1:]):
        kinds[r.randrange(kinds.index("bare") + 1, n)] = "implicit"
    muls = [r.randrange(2, 6) for _ in range(n)]
    tgt = [r.randrange(n) for _ in range(n)]
    m.types.append(f"{DERIVES} pub struct A(" + ", ".join("pub i64" for _ in range(n)) + ");")
    aval = [10 * (i + 1) + 1 for i in range(n)]
    fsrc, exp = [], []
    for k in range(n):
        kd = kinds[k]
        if kd == "bare":
            att, e = r.choice(["#[ghost] ", "#[o2o(ghost)] ", "#[o2o(ghost_owned)] #[o2o(ghost_ref)] "]), 800 + k
        elif kd == "ghostval":
            att, e = f"#[ghost({{ {700 + k} }})] ", 700 + k
        elif kd == "implicit":
            ins = r.choice(["from", "map", "from"])
            att, e = f"#[{ins}(~ * {muls[k]})] ", aval[k] * muls[k]
        elif kd == "explicit":
            att, e = f"#[from({tgt[k]}, ~ * {muls[k]})] ", aval[tgt[k]] * muls[k]
        else:
            att, e = "", aval[k]
        fsrc.append(f"{att}pub s{k}: i64")
        exp.append(e)
    item = f"#[{pre}from(A as (){err} | ..mk_base())] pub struct S {{ " + ", ".join(fsrc) + " }"
    m.derive_src = item
    m.types.append(f"#[derive(o2o)] {DERIVES} " + item)
    m.types.append("pub fn mk_base() -> S { S { " + ", ".join(f"s{k}: {800 + k}" for k in range(n)) + " } }")
    sv = ("named", "S", [(f"s{k}", exp[k]) for k in range(n)])
    a_lit = lit(("tuple", "A", aval))
    if fallible:
        m.tests.append(("from_owned", f'let a = {a_lit}; let r: Result<S, String> = S::try_from(a); println!("{name} from_owned {{:?}}", r);', dbg(("ok", sv))))
        m.tests.append(("from_ref", f'let a = {a_lit}; let r: Result<S, String> = S::try_from(&a); println!("{name} from_ref {{:?}}", r);', dbg(("ok", sv))))
    else:
        m.tests.append(("from_owned", f'let a = {a_lit}; let r = S::from(a); println!("{name} from_owned {{:?}}", r);', dbg(sv)))
        m.tests.append(("from_ref", f'let a = {a_lit}; let r = S::from(&a); println!("{name} from_ref {{:?}}", r);', dbg(sv)))
    return m


def design_flat_any(r, name):
    t = r.random()
    return design_flat_skew(r, name) if t < 0.07 else design_flat_perm(r, name) if t < 0.15 else design_flat_parent(r, name) if t < 0.3 else design_flat(r, name)


# ------------------------------------------------------------------------------------------------
# family 2: flattened structs (C03)

def contiguous_after_sort(paths):
    """does the code's ordering (groups by first-seen full path, stable) keep every prefix's members together?"""
    order = []
    for p in paths:
        if p not in order:
            order.append(p)
    seq = sorted(range(len(paths)), key=lambda i: order.index(paths[i]))
    spaths = [paths[i] for i in seq]
    prefixes = set()
    for p in spaths:
        if p[0].startswith("<"):
            continue
        for d in range(1, len(p) + 1):
            prefixes.add(p[:d])
    for pre in prefixes:
        idx = [i for i, p in enumerate(spaths) if p[:len(pre)] == pre]
        if idx and idx[-1] - idx[0] + 1 != len(idx):
            return False
    return True


def design_tree(r, name):
    m = Module(name, "tree")
    # a small trie of named child structs
    trie = {"": []}
    paths = [()]
    tynames = {(): "A"}
    for _ in range(r.randrange(1, 4)):
        parent = r.choice(paths)
        if len(parent) >= 3:
            continue
        seg = r.choice(["base", "inner", "meta", "base2", "inn"])
        p = parent + (seg,)
        if p in paths:
            continue
        paths.append(p)
        tynames[p] = "T" + "".join(s.capitalize() for s in p)
    # siblings whose names are textual prefixes of one another (`base` / `base2`), to be laid out next to each other
    pair = None
    if r.random() < 0.25:
        parent = r.choice([q for q in paths if len(q) < 3])
        a, b = (r.choice([("base", "base2"), ("inn", "inner")]))
        for seg in (a, b):
            q = parent + (seg,)
            if q not in paths:
                paths.append(q)
                tynames[q] = "T" + "".join(x.capitalize() for x in q)
        pair = (parent + (a,), parent + (b,))
    leaves = []   # (path, member name in counterpart, flat field name, renamed?)
    k = 0
    for p in paths:
        for _ in range(r.randrange(1, 3) if p else r.randrange(0, 3)):
            ren = r.random() < 0.3
            leaves.append({"path": p, "aname": (f"m{k}" if ren else f"f{k}"), "sname": f"f{k}", "ren": ren, "k": k})
            k += 1
    # every child path needs at least one leaf below it (otherwise Default cannot be avoided): add one
    for p in paths:
        if p and not any(l["path"][:len(p)] == p for l in leaves):
            leaves.append({"path": p, "aname": f"f{k}", "sname": f"f{k}", "ren": False, "k": k})
            k += 1
    r.shuffle(leaves)
    if pair:
        la = [l for l in leaves if l["path"] == pair[0]]
        lb = [l for l in leaves if l["path"] == pair[1]]
        ldeep = []
        if len(pair[1]) < 3 and random.Random(f"{name}-pairdeep").random() < 0.5:
            # the longer-named sibling has a nested struct of its own whose member comes right after the members of the
            # shorter-named one: `base`, then `base2.deep` (decided on a random stream of its own)
            deep = pair[1] + ("deep",)
            if deep not in paths:
                paths.append(deep)
                tynames[deep] = "T" + "".join(x.capitalize() for x in deep)
                ldeep = [{"path": deep, "aname": f"f{k}", "sname": f"f{k}", "ren": False, "k": k}]
                k += 1
        leaves = [l for l in leaves if l["path"] not in pair] + la + ldeep + lb
    # the code groups members by their full path; a member without #[child] is a group of its own (its name)
    if not contiguous_after_sort([l["path"] if l["path"] else ("<" + l["sname"] + ">",) for l in leaves]):
        m.tags.append("interleaved-siblings")
    # counterpart types
    for p in sorted(paths, key=len, reverse=True):
        mem = [(l["aname"], "i64") for l in sorted(leaves, key=lambda l: l["k"]) if l["path"] == p]
        subs = [(q[-1], tynames[q]) for q in paths if len(q) == len(p) + 1 and q[:len(p)] == p]
        m.types.append(f"{DERIVES} pub struct {tynames[p]} {{ " + ", ".join(f"pub {a}: {t}" for a, t in mem + subs) + " }")
    fallible = r.random() < 0.25
    pre = "try_" if fallible else ""
    err = ", String" if fallible else ""
    cps = ", ".join(".".join(p) + ": " + tynames[p] for p in paths if p)
    attrs = [f"#[{pre}map(A{err})]", f"#[{pre}into_existing(A{err})]"]
    if cps:
        attrs.append(f"#[child_parents({cps})]")
    fsrc = []
    for l in leaves:
        fa = []
        if l["path"]:
            fa.append(f"#[child({'.'.join(l['path'])})]")
        if l["ren"]:
            fa.append(f"#[map({l['aname']})]")
        fsrc.append(" ".join(fa + [f"pub {l['sname']}: i64"]))
    item = " ".join(attrs) + " pub struct S { " + ", ".join(fsrc) + " }"
    m.derive_src = item
    m.types.append(f"#[derive(o2o)] {DERIVES} " + item)

    def a_value(getter, p=()):
        mem = [(l["aname"], getter(l)) for l in sorted(leaves, key=lambda l: l["k"]) if l["path"] == p]
        subs = [(q[-1], a_value(getter, q)) for q in paths if len(q) == len(p) + 1 and q[:len(p)] == p]
        return ("named", tynames[p], mem + subs)
    s_of = lambda getter: ("named", "S", [(l["sname"], getter(l)) for l in leaves])
    a_in = a_value(lambda l: 10 * l["k"] + 1)
    s_in = s_of(lambda l: 100 + l["k"])
    exp_s = s_of(lambda l: 10 * l["k"] + 1)
    exp_a = a_value(lambda l: 100 + l["k"])
    a_pre = a_value(lambda l: 9000 + l["k"])
    wrap = (lambda v: ("ok", v)) if fallible else (lambda v: v)
    T = "try_" if fallible else ""
    if fallible:
        m.tests.append(("from_owned", f'let a = {lit(a_in)}; let r: Result<S, String> = S::try_from(a); println!("{name} from_owned {{:?}}", r);', dbg(wrap(exp_s))))
        m.tests.append(("from_ref", f'let a = {lit(a_in)}; let r: Result<S, String> = S::try_from(&a); println!("{name} from_ref {{:?}}", r);', dbg(wrap(exp_s))))
        m.tests.append(("into_owned", f'let s = {lit(s_in)}; let r: Result<A, String> = s.try_into(); println!("{name} into_owned {{:?}}", r);', dbg(wrap(exp_a))))
        m.tests.append(("into_ref", f'let s = {lit(s_in)}; let r: Result<A, String> = (&s).try_into(); println!("{name} into_ref {{:?}}", r);', dbg(wrap(exp_a))))
        m.tests.append(("existing_owned", f'let s = {lit(s_in)}; let mut o = {lit(a_pre)}; s.try_into_existing(&mut o).unwrap(); println!("{name} existing_owned {{:?}}", o);', dbg(exp_a)))
    else:
        m.tests.append(("from_owned", f'let a = {lit(a_in)}; let r = S::from(a); println!("{name} from_owned {{:?}}", r);', dbg(exp_s)))
        m.tests.append(("from_ref", f'let a = {lit(a_in)}; let r = S::from(&a); println!("{name} from_ref {{:?}}", r);', dbg(exp_s)))
        m.tests.append(("into_owned", f'let s = {lit(s_in)}; let r: A = s.into(); println!("{name} into_owned {{:?}}", r);', dbg(exp_a)))
        m.tests.append(("into_ref", f'let s = {lit(s_in)}; let r: A = (&s).into(); println!("{name} into_ref {{:?}}", r);', dbg(exp_a)))
        m.tests.append(("existing_owned", f'let s = {lit(s_in)}; let mut o = {lit(a_pre)}; s.into_existing(&mut o); println!("{name} existing_owned {{:?}}", o);', dbg(exp_a)))
        m.tests.append(("existing_ref", f'let s = {lit(s_in)}; let mut o = {lit(a_pre)}; (&s).into_existing(&mut o); println!("{name} existing_ref {{:?}}", o);', dbg(exp_a)))
    return m


def design_tree_hints(r, name):
    """nested counterparts of mixed shapes: a positional level next to a named one, and a grandchild that is populated
    only by struct-level ghost entries (`path@member: { value }`)"""
    m = Module(name, "tree")
    shape = r.randrange(2)
    nplain = r.randrange(1, 3)
    nchild = r.randrange(1, 3)
    gval = [321 + i for i in range(r.randrange(1, 3))]
    fallible = r.random() < 0.25
    pre, err = ("try_", ", String") if fallible else ("", "")
    with_existing = r.random() < 0.6
    m.types.append(f"{DERIVES} pub struct M {{ " + ", ".join(f"pub id{i}: i64" for i in range(len(gval))) + " }")
    if shape == 0:
        # A { p.., v: V }   V(c.., M)   M { id.. }
        m.types.append(f"{DERIVES} pub struct V(" + ", ".join(["pub i64"] * nchild + ["pub M"]) + ");")
        m.types.append(f"{DERIVES} pub struct A {{ " + ", ".join([f"pub p{i}: i64" for i in range(nplain)] + ["pub v: V"]) + " }")
        gpath = f"v.{nchild}"
        cps = f"v: V as (), {gpath}: M"
        hint = ""
        fields = [f"pub p{i}: i64" for i in range(nplain)] + [f"#[child(v)] #[map({i})] pub c{i}: i64" for i in range(nchild)]
    else:
        # A(p.., V)   V { c.., m: M }   M { id.. }
        m.types.append(f"{DERIVES} pub struct V {{ " + ", ".join([f"pub c{i}: i64" for i in range(nchild)] + ["pub m: M"]) + " }")
        m.types.append(f"{DERIVES} pub struct A(" + ", ".join(["pub i64"] * nplain + ["pub V"]) + ");")
        gpath = f"{nplain}.m"
        cps = f"{nplain}: V as {{}}, {gpath}: M"
        hint = " as ()"
        fields = [f"#[map({i})] pub p{i}: i64" for i in range(nplain)] + [f"#[child({nplain})] pub c{i}: i64" for i in range(nchild)]
        # now and then (a random stream of its own) one flattened member carries expressions and no name: `~` resolves
        # inside the nested struct, by the shape #[child_parents] gives it (named), not by the counterpart's (positional)
        ra = random.Random(f"{name}-childact")
        act = ra.randrange(nchild) if ra.random() < 0.5 else None
        if act is not None:
            fields[nplain + act] = f"#[child({nplain})] #[from(~ * 2)] #[into(~ + 3)] pub c{act}: i64"
    ghosts = ", ".join(f"{gpath}@id{i}: {{ {g} }}" for i, g in enumerate(gval))
    attrs = [f"#[{pre}map(A{hint}{err})]"] + ([f"#[{pre}into_existing(A{hint}{err})]"] if with_existing else []) + [f"#[child_parents({cps})]", f"#[ghosts({ghosts})]"]
    item = " ".join(attrs) + " pub struct S { " + ", ".join(fields) + " }"
    m.derive_src = item
    m.types.append(f"#[derive(o2o)] {DERIVES} " + item)
    pv = lambda b: [b + i for i in range(nplain)]
    cv = lambda b: [b + 50 + i for i in range(nchild)]
    act = locals().get("act") if shape == 1 else None

    def a_value(b, ids):
        mv = ("named", "M", [(f"id{i}", x) for i, x in enumerate(ids)])
        if shape == 0:
            return ("named", "A", [(f"p{i}", x) for i, x in enumerate(pv(b))] + [("v", ("tuple", "V", cv(b) + [mv]))])
        return ("tuple", "A", pv(b) + [("named", "V", [(f"c{i}", x) for i, x in enumerate(cv(b))] + [("m", mv)])])
    s_value = lambda b: ("named", "S", [(f"p{i}", x) for i, x in enumerate(pv(b))] + [(f"c{i}", x) for i, x in enumerate(cv(b))])
    a_in, s_in = a_value(10, [7] * len(gval)), s_value(100)
    exp_s, exp_a = s_value(10), a_value(100, gval)
    if act is not None:
        # From doubles what it reads from the nested struct, Into / IntoExisting add 3 to what they write into it
        exp_s = ("named", "S", [(n, v * 2 if n == f"c{act}" else v) for n, v in exp_s[2]])
        bump = lambda vv: ("named", "V", [(n, v + 3 if n == f"c{act}" else v) for n, v in vv[2]])
        exp_a = ("tuple", "A", exp_a[2][:-1] + [bump(exp_a[2][-1])])
    a_pre = a_value(9000, [9] * len(gval))
    wrap = (lambda v: ("ok", v)) if fallible else (lambda v: v)
    if fallible:
        m.tests.append(("from_owned", f'let a = {lit(a_in)}; let r: Result<S, String> = S::try_from(a); println!("{name} from_owned {{:?}}", r);', dbg(wrap(exp_s))))
        m.tests.append(("into_owned", f'let s = {lit(s_in)}; let r: Result<A, String> = s.try_into(); println!("{name} into_owned {{:?}}", r);', dbg(wrap(exp_a))))
        m.tests.append(("into_ref", f'let s = {lit(s_in)}; let r: Result<A, String> = (&s).try_into(); println!("{name} into_ref {{:?}}", r);', dbg(wrap(exp_a))))
        if with_existing:
            m.tests.append(("existing_owned", f'let s = {lit(s_in)}; let mut o = {lit(a_pre)}; s.try_into_existing(&mut o).unwrap(); println!("{name} existing_owned {{:?}}", o);', dbg(exp_a)))
    else:
        m.tests.append(("from_owned", f'let a = {lit(a_in)}; let r = S::from(a); println!("{name} from_owned {{:?}}", r);', dbg(exp_s)))
        m.tests.append(("from_ref", f'let a = {lit(a_in)}; let r = S::from(&a); println!("{name} from_ref {{:?}}", r);', dbg(exp_s)))
        m.tests.append(("into_owned", f'let s = {lit(s_in)}; let r: A = s.into(); println!("{name} into_owned {{:?}}", r);', dbg(exp_a)))
        m.tests.append(("into_ref", f'let s = {lit(s_in)}; let r: A = (&s).into(); println!("{name} into_ref {{:?}}", r);', dbg(exp_a)))
        if with_existing:
            m.tests.append(("existing_owned", f'let s = {lit(s_in)}; let mut o = {lit(a_pre)}; s.into_existing(&mut o); println!("{name} existing_owned {{:?}}", o);', dbg(exp_a)))
            m.tests.append(("existing_ref", f'let s = {lit(s_in)}; let mut o = {lit(a_pre)}; (&s).into_existing(&mut o); println!("{name} existing_ref {{:?}}", o);', dbg(exp_a)))
    return m


def design_pparent(r, name):
    """a parameterised `#[parent(..)]`: the deriving struct holds a nested struct (of nested structs) whose leaves are the
    flat members of the counterpart; nested levels are written `[parent(..)] member: Type`, renamed leaves
    `[map(flat_name)] member`"""
    m = Module(name, "tree")
    counter = [0]
    types = []
    # how a renamed leaf is written: one `[map(x)]`, or one instruction per direction (`[from(x)] [into(x)]
    # [into_existing(x)]`), where the struct may have no plain `into` at all — then the IntoExisting flavours, owned and by
    # reference, have only the `[into_existing(x)]` spelling to go by
    split = r.random() < 0.4
    has_into = (not split) or r.random() < 0.6
    with_existing = True if split else r.random() < 0.6

    deltas = {}   # flat name -> (added by the owned Into flavours, added by the by-reference ones)

    def rename(flat):
        if not split:
            return f"[map({flat})] "
        if r.random() < 0.35:
            # one instruction per ownership: IntoExisting has none of its own and goes by the Into instruction of the
            # same ownership (owned with owned, by-reference with by-reference)
            deltas[flat] = (1000, 2000)
            parts = [f"[from({flat})]", f"[owned_into({flat}, ~ + 1000)]", f"[ref_into({flat}, ~ + 2000)]"]
            r.shuffle(parts)
            return " ".join(parts) + " "
        parts = [f"[from({flat})]"] + ([f"[into({flat})]"] if has_into else []) + [r.choice([f"[into_existing({flat})]", f"[owned_into_existing({flat})] [ref_into_existing({flat})]"])]
        r.shuffle(parts)
        return " ".join(parts) + " "

    def build(tyname, depth):
        """returns (entries text, rust fields, leaves [(path list, flat name)])"""
        entries, fields, leaves = [], [], []
        n_leaf = r.randrange(1, 3)
        n_sub = r.randrange(0, 3) if depth < 2 else 0
        if depth == 0 and n_leaf + n_sub < 2:
            n_leaf = 2   # `#[parent(x)]` with one name is read as a dedication to type `x`
        items = ["leaf"] * n_leaf + ["sub"] * n_sub
        r.shuffle(items)
        for it in items:
            k = counter[0]
            counter[0] += 1
            if it == "leaf":
                nm = f"l{k}"
                ren = r.random() < 0.4
                flat = f"x{k}" if ren else nm
                entries.append((rename(flat) if ren else "") + nm)
                fields.append(f"pub {nm}: i64")
                leaves.append(([nm], flat))
            else:
                nm, ty = f"n{k}", f"T{k}"
                e2, f2, l2 = build(ty, depth + 1)
                types.append(f"{DERIVES} pub struct {ty} {{ " + ", ".join(f2) + " }")
                entries.append(f"[parent({', '.join(e2)})] {nm}: {ty}")
                fields.append(f"pub {nm}: {ty}")
                leaves += [([nm] + pth, flat) for pth, flat in l2]
        return entries, fields, leaves
    entries, bfields, leaves = build("Base", 0)
    types.append(f"{DERIVES} pub struct Base {{ " + ", ".join(bfields) + " }")
    m.types += types
    m.types.append(f"{DERIVES} pub struct A {{ " + ", ".join(f"pub {flat}: i64" for _, flat in leaves) + ", pub own: i64 }")
    attrs = (["#[map(A)]"] if has_into else ["#[from(A)]"]) + (["#[into_existing(A)]"] if with_existing else [])
    sf = [f"#[parent({', '.join(entries)})] pub base: Base", "pub own: i64"]
    r.shuffle(sf)
    item = " ".join(attrs) + " pub struct S { " + ", ".join(sf) + " }"
    m.derive_src = item
    m.types.append(f"#[derive(o2o)] {DERIVES} " + item)

    def nested(vals, tyname, fields_src, prefix):
        # value of the nested struct rooted at `prefix` from {tuple(path): value}
        out = []
        for fsrc in fields_src:
            nm, ty = fsrc[len("pub "):].split(": ")
            if ty == "i64":
                out.append((nm, vals[tuple(prefix + [nm])]))
            else:
                sub_fields = next(t for t in m.types if f"pub struct {ty} " in t)
                inner = sub_fields[sub_fields.index("{") + 1:sub_fields.rindex("}")].strip().split(", ")
                out.append((nm, nested(vals, ty, inner, prefix + [nm])))
        return ("named", tyname, out)
    a_in = {flat: 10 * (i + 1) + 1 for i, (_, flat) in enumerate(leaves)}
    s_in = {tuple(pth): 100 + i for i, (pth, _) in enumerate(leaves)}
    a_val = lambda d, own: ("named", "A", [(flat, d[flat]) for _, flat in leaves] + [("own", own)])

    def s_val(d, own):
        fs = []
        for f in sf:
            if "base: Base" in f:
                fs.append(("base", nested(d, "Base", bfields, [])))
            else:
                fs.append(("own", own))
        return ("named", "S", fs)
    exp_s = s_val({tuple(pth): a_in[flat] for pth, flat in leaves}, 5)
    exp_a = a_val({flat: s_in[tuple(pth)] + deltas.get(flat, (0, 0))[0] for pth, flat in leaves}, 6)
    exp_a_ref = a_val({flat: s_in[tuple(pth)] + deltas.get(flat, (0, 0))[1] for pth, flat in leaves}, 6)
    a_lit, s_lit = lit(a_val(a_in, 5)), lit(s_val(s_in, 6))
    pre_exist = a_val({flat: 9000 + i for i, (_, flat) in enumerate(leaves)}, 9100)
    m.tests.append(("from_owned", f'let a = {a_lit}; let r = S::from(a); println!("{name} from_owned {{:?}}", r);', dbg(exp_s)))
    m.tests.append(("from_ref", f'let a = {a_lit}; let r = S::from(&a); println!("{name} from_ref {{:?}}", r);', dbg(exp_s)))
    if has_into:
        m.tests.append(("into_owned", f'let s = {s_lit}; let r: A = s.into(); println!("{name} into_owned {{:?}}", r);', dbg(exp_a)))
        m.tests.append(("into_ref", f'let s = {s_lit}; let r: A = (&s).into(); println!("{name} into_ref {{:?}}", r);', dbg(exp_a_ref)))
    if with_existing:
        m.tests.append(("existing_owned", f'let s = {s_lit}; let mut o = {lit(pre_exist)}; s.into_existing(&mut o); println!("{name} existing_owned {{:?}}", o);', dbg(exp_a)))
        m.tests.append(("existing_ref", f'let s = {s_lit}; let mut o = {lit(pre_exist)}; (&s).into_existing(&mut o); println!("{name} existing_ref {{:?}}", o);', dbg(exp_a_ref)))
    return m


def design_tree_any(r, name):
    t = r.random()
    return design_tree_hints(r, name) if t < 0.2 else design_pparent(r, name) if t < 0.4 else design_tree(r, name)


# ------------------------------------------------------------------------------------------------
# family 3: enums (C02)

def design_enum(r, name):
    m = Module(name, "enum")
    nv = r.randrange(1, 5)
    variants = []
    for k in range(nv):
        shape = r.choice(["unit", "unit", "tuple", "named", "hinted"])
        nf = 0 if shape == "unit" else r.randrange(1, 3)
        ren = r.random() < 0.3
        variants.append({"k": k, "shape": shape, "nf": nf, "sname": f"V{k}", "aname": (f"W{k}" if ren else f"V{k}"), "ren": ren,
                         "fren": [r.random() < 0.3 and shape == "named" for _ in range(nf)],
                         # `hinted`: a positional variant against a named one (`#[type_hint(as {})]`), every payload member names
                         # its counterpart member; a ghost payload member may sit at any position, the first included
                         "gpos": (r.choice([None] + list(range(nf + 1))) if shape == "hinted" else None)})
    fallible = r.random() < 0.25
    pre = "try_" if fallible else ""
    err = ", String" if fallible else ""
    # From-only programs may designate tuple payload positions in another order (index renames, with or without an
    # expression); the Into direction of a positional counterpart ignores index renames (known finding), so these
    # programs request From conversions only
    from_only = r.random() < 0.3
    if from_only:
        for v in variants:
            if v["shape"] == "tuple":
                v["nf"] = r.randrange(2, 4)
                v["fren"] = [False] * v["nf"]
                v["perm"] = list(range(v["nf"]))
                r.shuffle(v["perm"])
                v["mul"] = [r.choice([None, None, 2, 3]) for _ in range(v["nf"])]

    def hinted_slots(v):
        slots = [("m", j) for j in range(v["nf"])]
        if v["gpos"] is not None:
            slots.insert(v["gpos"], ("g", None))
        return slots

    def vdecl(v, side):
        nm = v["sname"] if side == "s" else v["aname"]
        if v["shape"] == "unit":
            return nm
        if v["shape"] == "hinted":
            if side == "a":
                return nm + " { " + ", ".join(f"x{j}: i64" for j in range(v["nf"])) + " }"
            return "#[type_hint(as {})] " + nm + "(" + ", ".join(("#[ghost({ -1 })] i64" if kind == "g" else f"#[map(x{j})] i64") for kind, j in hinted_slots(v)) + ")"
        if v["shape"] == "tuple" and side == "s" and v.get("perm"):
            return nm + "(" + ", ".join((f"#[from({v['perm'][i]}, ~ * {v['mul'][i]})] " if v["mul"][i] else f"#[from({v['perm'][i]})] ") + "i64" for i in range(v["nf"])) + ")"
        if v["shape"] == "tuple":
            return nm + "(" + ", ".join("i64" for _ in range(v["nf"])) + ")"
        fl = []
        for i in range(v["nf"]):
            fn = f"p{i}" if side == "s" or not v["fren"][i] else f"q{i}"
            att = f"#[map(q{i})] " if side == "s" and v["fren"][i] else ""
            fl.append(f"{att}{fn}: i64")
        return nm + " { " + ", ".join(fl) + " }"
    m.types.append(f"#[derive(Debug, Clone, PartialEq)] pub enum A {{ " + ", ".join(vdecl(v, "a") for v in variants) + " }")
    item = f"#[{pre}{'from_owned' if from_only else 'map_owned'}(A{err})] pub enum S {{ " + ", ".join((f"#[map({v['aname']})] " if v["ren"] else "") + vdecl(v, "s") for v in variants) + " }"
    m.derive_src = item
    m.types.append("#[derive(o2o)] #[derive(Debug, Clone, PartialEq)] " + item)

    def val(v, side, base):
        ty = ("S" if side == "s" else "A") + "::" + (v["sname"] if side == "s" else v["aname"])
        if v["shape"] == "unit":
            return ("unit", ty)
        if v["shape"] == "hinted":
            if side == "a":
                return ("named", ty, [(f"x{j}", base + j) for j in range(v["nf"])])
            return ("tuple", ty, [(-1 if kind == "g" else base + j) for kind, j in hinted_slots(v)])
        if v["shape"] == "tuple":
            return ("tuple", ty, [base + i for i in range(v["nf"])])
        return ("named", ty, [((f"p{i}" if side == "s" or not v["fren"][i] else f"q{i}"), base + i) for i in range(v["nf"])])

    def show(v):
        # Debug of an enum value prints the variant name without the type
        t = dbg(v)
        return t.split("::", 1)[1]
    wrap = (lambda t: "Ok(" + t + ")") if fallible else (lambda t: t)
    for v in variants:
        a_in, s_in = val(v, "a", 10 * v["k"] + 1), val(v, "s", 100 + 10 * v["k"])
        es, ea = show(val(v, "s", 10 * v["k"] + 1)), show(val(v, "a", 100 + 10 * v["k"]))
        if from_only:
            if v.get("perm"):
                base = 10 * v["k"] + 1
                es = show(("tuple", "S::" + v["sname"], [(base + v["perm"][i]) * (v["mul"][i] or 1) for i in range(v["nf"])]))
            k = v["k"]
            if fallible:
                m.tests.append((f"from_owned_{k}", f'let a = {lit(a_in)}; let r: Result<S, String> = S::try_from(a); println!("{name} from_owned_{k} {{:?}}", r);', wrap(es)))
            else:
                m.tests.append((f"from_owned_{k}", f'let a = {lit(a_in)}; let r = S::from(a); println!("{name} from_owned_{k} {{:?}}", r);', es))
            continue
        if fallible:
            m.tests.append((f"from_owned_{v['k']}", f'let a = {lit(a_in)}; let r: Result<S, String> = S::try_from(a); println!("{name} from_owned_{v["k"]} {{:?}}", r);', wrap(es)))
            m.tests.append((f"into_owned_{v['k']}", f'let s = {lit(s_in)}; let r: Result<A, String> = s.try_into(); println!("{name} into_owned_{v["k"]} {{:?}}", r);', wrap(ea)))
        else:
            m.tests.append((f"from_owned_{v['k']}", f'let a = {lit(a_in)}; let r = S::from(a); println!("{name} from_owned_{v["k"]} {{:?}}", r);', es))
            m.tests.append((f"into_owned_{v['k']}", f'let s = {lit(s_in)}; let r: A = s.into(); println!("{name} into_owned_{v["k"]} {{:?}}", r);', ea))
    return m


# ------------------------------------------------------------------------------------------------
# family 4: enums <-> primitives (C09)

def design_prim(r, name):
    m = Module(name, "prim")
    nv = r.randrange(2, 6)
    variants = []
    used = set()
    for k in range(nv):
        if r.random() < 0.65:
            x = r.choice([i for i in range(0, 12) if i not in used])
            used.add(x)
            variants.append({"k": k, "kind": "lit", "x": x})
        else:
            lo = r.randrange(0, 10)
            hi = lo + r.randrange(0, 4)
            form = r.choice(["range", "or", "range", "or", "wild"])
            variants.append({"k": k, "kind": "pat", "lo": lo, "hi": hi, "form": form, "into": r.randrange(lo, hi + 1)})
    def matches(v, x):
        if v["kind"] == "lit":
            return x == v["x"]
        if v["form"] == "range":
            return v["lo"] <= x <= v["hi"]
        if v["form"] == "wild":
            return True
        return x == v["lo"] or x == v["hi"]
    # a bare #[ghost] variant (no counterpart value): skipped by From, sent to the default case by Into
    ghost_at = r.randrange(0, nv + 1) if r.random() < 0.35 else None
    vs = []
    for v in variants:
        if ghost_at is not None and v["k"] == ghost_at:
            vs.append("#[ghost] G")
        if v["kind"] == "lit":
            vs.append(f"#[literal({v['x']})] V{v['k']}")
        else:
            ptxt = f"{v['lo']}..={v['hi']}" if v["form"] == "range" else ("_" if v["form"] == "wild" else f"{v['lo']} | {v['hi']}")
            vs.append(f"#[pattern({ptxt})] #[into({{ {v['into']} }})] V{v['k']}")
    if ghost_at is not None and ghost_at == nv:
        vs.append("#[ghost] G")
    into_tail = " | _ => 999" if ghost_at is not None else ""
    item = '#[try_from(i32, String | _ => Err("nomatch".to_string())?)] #[into(i32' + into_tail + ')] pub enum S { ' + ", ".join(vs) + " }"
    m.derive_src = item
    m.types.append("#[derive(o2o)] #[derive(Debug, Clone, PartialEq)] " + item)
    for x in range(-1, 15):
        hit = next((v for v in variants if matches(v, x)), None)
        exp = f"Ok(V{hit['k']})" if hit else 'Err("nomatch")'
        xl = f"({x})" if x < 0 else str(x)
        m.tests.append((f"from_{x}", f'let r: Result<S, String> = S::try_from({xl}); println!("{name} from_{x} {{:?}}", r);', exp))
    for v in variants:
        exp = v["x"] if v["kind"] == "lit" else v["into"]
        m.tests.append((f"into_{v['k']}", f'let r: i32 = S::V{v["k"]}.into(); println!("{name} into_{v["k"]} {{:?}}", r);', str(exp)))
        m.tests.append((f"into_ref_{v['k']}", f'let r: i32 = (&S::V{v["k"]}).into(); println!("{name} into_ref_{v["k"]} {{:?}}", r);', str(exp)))
    if ghost_at is not None:
        m.tests.append(("into_ghost", f'let r: i32 = S::G.into(); println!("{name} into_ghost {{:?}}", r);', "999"))
        m.tests.append(("into_ref_ghost", f'let r: i32 = (&S::G).into(); println!("{name} into_ref_ghost {{:?}}", r);', "999"))
    return m


def design_flat7(r, name):
    """the mix used for C07: more #[parent] programs (all six flavours of one mapping side by side)"""
    t = r.random()
    return design_flat_perm(r, name) if t < 0.1 else design_flat_parent(r, name) if t < 0.45 else design_pparent(r, name) if t < 0.65 else design_flat(r, name)


def design_generic(r, name):
    """C11 (and C04's generic error types): generic deriving types and counterparts — lifetimes, type parameters,
    counterpart-only lifetimes (with and without a type parameter next to them), both turbofish spellings, default and
    dedicated where-clauses, by-reference conversions that need `'o2o`. rustc must accept the impls and the conversions
    must deliver the values"""
    m = Module(name, "generic")
    has_lt = r.random() < 0.5          # S<'a> holds a &'a str
    has_t = r.random() < 0.6           # S<T> holds a T
    cp_only_lt = r.random() < 0.45     # the counterpart has a lifetime of its own ('b), carried by a PhantomData member
    two = r.random() < 0.35            # a second counterpart B with the same members
    fallible = r.random() < 0.3
    pre = "try_" if fallible else ""
    sgens = [x for x, on in (("'a", has_lt), ("T", has_t)) if on]
    # how S declares its parameters: bare names (bounds in a where_clause), or bounds / defaults written inline
    # (`T: Clone`, `T: Clone = i64`) — the impls have to apply S by the bare names either way (fix 6f54c9a)
    inline = has_t and r.random() < 0.5
    sdecl = [("'a" if x == "'a" else ("T: Clone" + (" = i64" if r.random() < 0.4 else "")) if inline else x) for x in sgens]
    S = "S" + ("<" + ", ".join(sdecl) + ">" if sdecl else "")

    def cpath(base, with_b):
        args = (["'b"] if with_b else []) + sgens
        if not args:
            return base
        return base + r.choice(["<", "::<"]) + ", ".join(args) + ">"
    spelled = {}

    def cpath_once(base, with_b):
        # one spelling per counterpart: a dedication has to repeat the instruction's spelling
        if base not in spelled:
            spelled[base] = cpath(base, with_b)
        return spelled[base]
    members = [("n", "i64")] + ([("s", "&'a str")] if has_lt else []) + ([("t", "T")] if has_t else [])
    r.shuffle(members)
    cps = [("A", cp_only_lt)] + ([("B", False)] if two else [])
    for base, with_b in cps:
        decl_args = (["'b"] if with_b else []) + sgens
        decl = base + ("<" + ", ".join(decl_args) + ">" if decl_args else "")
        fields = ", ".join(f"pub {nm}: {ty}" for nm, ty in members) + (", pub ph: std::marker::PhantomData<&'b ()>" if with_b else "")
        m.types.append(f"pub struct {decl} {{ {fields} }}")
    if fallible:
        m.types.append("#[derive(Debug)] pub struct MyErr<X>(pub X);")
    err = (", MyErr<T>" if has_t else ", MyErr<i64>") if fallible else ""
    attrs = []
    for base, with_b in cps:
        c = cpath_once(base, with_b)
        if with_b:
            # the counterpart's own lifetime is only named in the instruction: the impl has to declare it
            nm = (lambda x: gen.try_name(x)) if fallible else (lambda x: x)
            attrs.append(" ".join(f"#[{nm(x)}({c}{err})]" for x in ("from_owned", "from_ref", "owned_into", "ref_into")))
            attrs.append(f"#[ghosts({c}| ph: {{ std::marker::PhantomData }})]")
        else:
            attrs.append(f"#[{pre}map({c}{err})]" + (f" #[{pre}into_existing({c}{err})]" if r.random() < 0.4 else ""))
    if has_t and not (inline and r.random() < 0.5):
        if two and r.random() < 0.5:
            # a default clause and one dedicated to B, in either order; both give what the by-reference impls need
            wc = ["#[where_clause(T: Clone)]", f"#[where_clause({cpath_once('B', False)}| T: Clone + Sized)]"]
            r.shuffle(wc)
            attrs += wc
        else:
            attrs.append("#[where_clause(T: Clone)]")
    r.shuffle(attrs)
    mf = ", ".join((("#[map_ref(~.clone())] " if ty == "T" else "") + f"pub {nm}: {ty}") for nm, ty in members)
    item = " ".join(attrs) + f" pub struct {S} {{ {mf} }}"
    m.derive_src = item
    m.types.append("#[derive(o2o)] " + item)
    vals = {"n": "7", "s": '"hi"', "t": "41i64"}
    show = {"n": "7", "s": '"hi"', "t": "41"}
    tup = lambda v: "(" + ", ".join(f"{v}.{nm}" for nm, _ in members) + ",)"
    exp = "(" + ", ".join(show[nm] for nm, _ in members) + (",)" if len(members) == 1 else ")")
    s_lit = "S { " + ", ".join(f"{nm}: {vals[nm]}" for nm, _ in members) + " }"
    un = ".unwrap()" if fallible else ""
    for base, with_b in cps:
        a_lit = base + " { " + ", ".join(f"{nm}: {vals[nm]}" for nm, _ in members) + (", ph: std::marker::PhantomData" if with_b else "") + " }"
        conv_from = (lambda e: f"S::try_from({e}).unwrap()") if fallible else (lambda e: f"S::from({e})")
        holes = (["'_"] if with_b else []) + [("'_" if g.startswith("'") else "_") for g in sgens]
        ann = base + ("<" + ", ".join(holes) + ">" if holes else "")
        if fallible:
            conv_into = lambda e: "{ let r: Result<" + ann + ", _> = " + e + ".try_into(); r.unwrap() }"
        else:
            conv_into = lambda e: "{ let r: " + ann + " = " + e + ".into(); r }"
        m.tests.append((f"from_owned_{base}", f'let a = {a_lit}; let r = {conv_from("a")}; println!("{name} from_owned_{base} {{:?}}", {tup("r")});', exp))
        m.tests.append((f"from_ref_{base}", f'let a = {a_lit}; let r = {conv_from("&a")}; println!("{name} from_ref_{base} {{:?}}", {tup("r")});', exp))
        m.tests.append((f"into_owned_{base}", f'let s = {s_lit}; let r = {conv_into("s")}; println!("{name} into_owned_{base} {{:?}}", {tup("r")});', exp))
        m.tests.append((f"into_ref_{base}", f'let s = {s_lit}; let r = {conv_into("(&s)")}; println!("{name} into_ref_{base} {{:?}}", {tup("r")});', exp))
    return m


def design_subst(r, name):
    """the mix used for C10: programs whose inline expressions use `~` / `@` (flat structs with actions, enums whose
    payload expressions designate another position)"""
    t = r.random()
    return design_enum(r, name) if t < 0.4 else design_flat_skew(r, name) if t < 0.55 else design_tree_hints(r, name) if t < 0.7 else design_flat(r, name)


def design_wf(r, name):
    """the mix used for C17: programs rustc must accept — nested counterparts of mixed shapes, and bare-#[parent] programs
    with item / inner attributes (the post-init dialect)"""
    t = r.random()
    return design_tree_hints(r, name) if t < 0.4 else design_flat_parent(r, name) if t < 0.75 else design_two_parents(r, name)


FAMILIES = {"generic": design_generic, "pparent": design_pparent, "wf": design_wf, "subst": design_subst, "flat7": design_flat7, "flat": design_flat_any, "tree": design_tree_any, "hints": design_tree_hints, "enum": design_enum, "prim": design_prim}


# ------------------------------------------------------------------------------------------------
# building and running

def ensure_crate():
    os.makedirs(os.path.join(RT, "src"), exist_ok=True)
    with open(os.path.join(RT, "Cargo.toml"), "w") as f:
        f.write('[package]\nname = "rt"\nversion = "0.1.0"\nedition = "2021"\n\n[workspace]\n\n[dependencies]\n'
                f'o2o = {{ path = "{REPO}" }}\n\n[profile.dev]\ndebug = false\nopt-level = 0\n')
    os.makedirs(os.path.join(RT, ".cargo"), exist_ok=True)
    with open(os.path.join(RT, ".cargo", "config.toml"), "w") as f:
        f.write("[net]\noffline = true\n")
    lock = os.path.join(RT, "Cargo.lock")
    if not os.path.exists(lock):
        shutil.copy(os.path.join(REPO, "Cargo.lock"), lock)
    # cargo decides by modification times, which a patch applied within the second of the last build can defeat: when the
    # *content* of /repo's crates changed, their builds are dropped before cargo is asked
    h = hashlib.sha256()
    for sub in ("src", "o2o-impl", "o2o-macros"):
        for base, dirs, files in sorted(os.walk(os.path.join(REPO, sub))):
            dirs[:] = sorted(d for d in dirs if d not in ("target", "target2", "tests"))
            for f in sorted(files):
                if f.endswith(".rs") or f == "Cargo.toml":
                    pth = os.path.join(base, f)
                    h.update(pth.encode())
                    h.update(open(pth, "rb").read())
    stamp = os.path.join(RT, ".repo_sources_hash")
    if (open(stamp).read().strip() if os.path.exists(stamp) else "") != h.hexdigest():
        subprocess.run(["cargo", "clean", "--offline", "-p", "o2o", "-p", "o2o-impl", "-p", "o2o-macros"], cwd=RT, env=ENV, stdout=subprocess.PIPE, stderr=subprocess.STDOUT, text=True)
        open(stamp, "w").write(h.hexdigest())


def write_modules(mods):
    src = os.path.join(RT, "src")
    for f in os.listdir(src):
        if f.startswith("m_") or f == "main.rs":
            os.remove(os.path.join(src, f))
    for m in mods:
        with open(os.path.join(src, f"m_{m.name}.rs"), "w") as f:
            f.write(m.source())
    with open(os.path.join(src, "main.rs"), "w") as f:
        for m in mods:
            f.write(f"mod m_{m.name};\n")
        f.write("fn main() {\n" + "".join(f"    m_{m.name}::run();\n" for m in mods) + "}\n")


def build_and_run(mods, max_rounds=80):
    """returns (lines: {(mod, test): text}, rejected: {mod: first rustc error})"""
    ensure_crate()
    rejected = {}
    live = list(mods)
    for _ in range(max_rounds):
        write_modules(live)
        r = subprocess.run(["cargo", "build", "--offline", "--quiet", "--message-format", "short"], cwd=RT, env=ENV, stdout=subprocess.PIPE, stderr=subprocess.STDOUT, text=True)
        if r.returncode == 0:
            break
        bad = {}
        for line in r.stdout.split("\n"):
            mm = re.match(r"src/m_(\w+)\.rs:\d+:\d+: error(\[E\d+\])?: (.*)", line)
            if mm and mm.group(1) not in bad:
                bad[mm.group(1)] = (mm.group(2) or "") + " " + mm.group(3)
        if not bad:
            raise RuntimeError("runtime-tie crate does not build and no module is to blame:\n" + r.stdout[-3000:])
        rejected.update(bad)
        live = [m for m in live if m.name not in bad]
    else:
        raise RuntimeError("runtime-tie crate still fails after dropping rejected modules")
    out = subprocess.run([os.path.join(RT, "target", "debug", "rt")], stdout=subprocess.PIPE, stderr=subprocess.PIPE, text=True)
    lines = {}
    for line in out.stdout.split("\n"):
        parts = line.split(" ", 2)
        if len(parts) == 3:
            lines[(parts[0], parts[1])] = parts[2]
    return lines, rejected, out.returncode


def campaign(family, seed, n):
    """design n modules of a family, run them; returns (failures, n_modules, n_tests, skipped_known)"""
    r = random.Random(seed * 7919 + hash(family) % 1000)
    r = random.Random(f"{family}-{seed}")
    mods = [FAMILIES[family](r, f"{family}{k}") for k in range(n)]
    known = [m for m in mods if m.tags]
    run = [m for m in mods if not m.tags]
    lines, rejected, rc = build_and_run(run)
    fails = []
    ntests = 0
    for m in run:
        if m.name in rejected:
            fails.append({"source": m.derive_src, "what": "generated code is rejected by rustc: " + rejected[m.name][:160], "module": m.source(), "shrinkable": False})
            continue
        for tn, _, exp in m.tests:
            ntests += 1
            got = lines.get((m.name, tn))
            if got != exp:
                fails.append({"source": m.derive_src, "what": f"conversion `{tn}` delivers {got!r}, documented meaning gives {exp!r}", "module": m.source(), "shrinkable": False})
                break
    return fails, len(run), ntests, [(m.derive_src, m.tags) for m in known]


if __name__ == "__main__":
    import sys
    fam, seed, n = sys.argv[1], int(sys.argv[2]), int(sys.argv[3])
    fails, nm, nt, known = campaign(fam, seed, n)
    print(f"modules={nm} tests={nt} failures={len(fails)} tagged-known={len(known)}")
    for f in fails[:5]:
        print("FAIL:", f["what"]); print("   ", f["source"])
