"""Per-property configuration: generator profiles, non-triviality rules, implementation-level oracles
(used to search for a failing input; never the source of a "holds" verdict), known-finding classification."""
import os, re, json, random, subprocess, collections, copy
import o2olib as L
import gen
import genwf
import rt

PROPS = {
    "C01": {"profiles": ["struct-flat", "member-instrs", "shape-change"], "n_quick": 5400},
    "C02": {"profiles": ["enum", "multi-counterpart", "shape-change", "enum-members"], "n_quick": 6000},
    "C03": {"profiles": ["tree", "parents"], "n_quick": 5400},
    "C04": {"profiles": ["traits", "generics", "trait-repeat"], "n_quick": 4500},
    "C05": {"profiles": ["member-instrs", "multi-counterpart", "enum-members"], "n_quick": 5400},
    "C06": {"profiles": ["multi-counterpart", "tree", "enum", "parents", "repeat"], "n_quick": 6000},
    "C07": {"profiles": ["struct-flat", "tree", "enum", "shape-change"], "n_quick": 5400},
    "C08": {"profiles": ["trait-params", "tree", "trait-repeat"], "n_quick": 5400},
    "C09": {"profiles": ["enum-prim"], "n_quick": 3600},
    "C10": {"profiles": ["expr", "shape-change", "tree"], "n_quick": 4500},
    "C11": {"profiles": ["generics"], "n_quick": 4500},
    "C12": {"profiles": ["traits", "member-instrs", "enum"], "n_quick": 4500},
    "C13": {"profiles": ["struct-flat", "enum", "tree", "trait-params", "unknowns"], "n_quick": 3600, "backends": ["s1", "s2"]},
    "C14": {"profiles": ["repeat", "trait-repeat"], "n_quick": 5400},
    "C15": {"profiles": ["faults", "hostile", "parents", "trait-repeat", "unknowns", "shape-change", "enum-misuse"], "n_quick": 7200},
    "C16": {"profiles": ["hostile", "enum-prim", "tree", "faults", "parents", "unknowns", "member-instrs", "shape-change", "enum-misuse"], "n_quick": 9000},
    "C17": {"profiles": ["struct-flat", "enum", "tree", "trait-params", "generics", "shape-change"], "n_quick": 5400},
    "C18": {"profiles": ["hostile", "struct-flat", "enum", "tree", "unknowns"], "n_quick": 5400, "backends": ["s1", "s2"]},
    "C19": {"profiles": ["faults", "hostile", "multi-counterpart", "trait-repeat", "tree"], "n_quick": 4500},
    "C20": {"profiles": ["expr", "struct-flat", "enum", "tree", "parents"], "n_quick": 4500},
}

RULES = {
    "default": "corpus = every #[derive(o2o)] input of o2o-tests, o2o-impl/src/tests.rs and README (read from the working tree) + cases from tools/gen.py "
               "(one random.Random(VERIF_SEED) per profile). A case counts as non-trivial when it carries at least one member-level instruction or a "
               "trait-instruction parameter; distinct = structural hash (instruction names, punctuation, shapes kept; other identifiers and literals normalised).",
    "C03": "as default, and the case must contain a child / child_parents / parent instruction",
    "C09": "as default, and the case must contain a literal or pattern instruction",
    "C11": "as default, and the item must be generic or the counterpart path must carry generic arguments",
    "C14": "as default, and the case must contain repeat / skip_repeat / stop_repeat",
    "C16": "every case counts (the property quantifies over arbitrary inputs); distinct by structural hash",
    "C18": "every case counts; distinct by structural hash; each case is expanded by both back-ends",
    "C19": "every case counts; distinct by structural hash; each case is expanded twice in-process and once more in a second process",
}

ASSUMPTIONS = {
    "all": [
        "the theorems are about the Lean model (lean/O2oModel); the model is tied to /repo by the translator (tables, quote! skeletons, inventories "
        "regenerated each run) and by the correspondence check on the cases counted above",
        "syn / quote / proc-macro2 behaviour (Path, Member, Punctuated parsing and printing, Display of token streams) is modelled in Syn.lean, not verified",
        "the in-process harness uses proc-macro2's fallback implementation, not rustc's proc_macro bridge",
    ],
    "C01": ["values are modelled only for the plain fragment (named struct, named counterpart, members mapped by default or by a rename without expression): O2oModel/Sem.lean reads `T { a: value.x, }` as 'a holds the value at x' and `other.x = self.n;` as a store; the C01_value_* theorems are about that reading. For expressions, casts, ghosts, tuple shapes and nesting the theorems show which tokens are emitted for which slot/source, and the runtime tie compiles and runs designed programs",
            "that rustc evaluates struct expressions and assignments as Sem.lean reads them is rustc's semantics, not proved"],
    "C02": ["as C01; `match` semantics (first matching arm) is rustc's"],
    "C03": ["once-construction is proved for every tree of any depth whose nested structs are contiguous in the sorted member list (hypothesis NodeList.WF); that the sort yields such a tree exactly when sibling subtrees do not interleave is not proved (and interleaved subtrees are a known finding); the sort is proved a stable permutation ordered by group index",
            "values of nested conversions are not modelled in Lean (Sem.lean covers flat structs only): the runtime tie compiles and runs designed trees"],
    "C07": ["agreement is proved as token identity of the member lines (any flavours of one direction) and, for Into vs IntoExisting, as equality of the values both leave at every designated member under the record semantics of O2oModel/Sem.lean (plain fragment); beyond that fragment agreement is syntactic (same plumbing tokens) plus the runtime tie"],
    "C09": ["pattern matching semantics is rustc's"],
    "C11": ["'type-checks' is rustc's judgement: the header construction is proved, acceptance by rustc is not modelled"],
    "C18": ["the two syn versions are library code: compared by running both builds on every case, not proved"],
    "C20": ["the actual #![no_std] build is not part of this check"],
}


def nontrivial(prop, s):
    body = s
    if prop in ("C16", "C18", "C19"):
        return True
    if prop == "C03":
        return bool(re.search(r"\b(child|child_parents|parent)\b", s))
    if prop == "C09":
        return bool(re.search(r"\b(literal|pattern)\b", s))
    if prop == "C11":
        return bool(re.search(r"(struct|enum)\s+\w+\s*<", s)) or bool(re.search(r"\(\s*[\w:]+\s*(::)?\s*<", s))
    if prop == "C14":
        return bool(re.search(r"\b(repeat|skip_repeat|stop_repeat)\b", s))
    m = re.search(r"(struct|enum)\s+\w+", s)
    inner = s[m.end():] if m else s
    return "#" in inner or "|" in s[: m.start()] if m else "#" in s


def extra_cases(prop, seed, thorough):
    """property-specific additions to the correspondence cases"""
    out = []
    r = random.Random(seed * 7919 + 13)
    if prop == "C13":
        # respelled variants of structured items
        for k, prof in enumerate(["struct-flat", "enum", "tree", "trait-params"]):
            for it in gen.gen_items(prof, seed * 1000 + 500 + k, 120 if not thorough else 1500):
                out.append((it.meta["id"] + "~sp", gen.render(it, gen.speller(r))))
    if prop in ("C15", "C16"):
        # documented misuses injected into structured items (the classes of the fault-injection oracle): the model must
        # report what the implementation reports, and neither may panic on them
        for k, prof in enumerate(["struct-flat", "traits", "tree"]):
            for it in gen.gen_items(prof, seed * 1000 + 520 + k, 150 if not thorough else 1500):
                kind = r.choice(FAULTS)[0]
                it2 = inject_fault(it, kind, r)
                if it2 is not None:
                    out.append((it.meta["id"] + "~" + kind, gen.render(it2, gen.speller(r) if r.random() < 0.3 else None)))
    return out


# ------------------------------------------------------------------------------------------
# helpers for the metamorphic oracles

def expand(backend, sources):
    """sources: list of (id, src) -> {id: canonical impl outcome}"""
    _, outs, _ = L.run_harness(backend, sources, no_in=True)
    return {i: L.canon_impl(outs.get(i, "?")) for i, _ in sources}


def split_impls(tokens):
    """split an OK token string into impl items (top-level `iimpl` boundaries, attributes attached to the next impl)"""
    toks = tokens.split()
    items, cur, depth = [], [], 0
    start_positions = []
    k = 0
    # an item ends with its top-level brace group
    while k < len(toks):
        t = toks[k]
        cur.append(t)
        if t in ("(", "[", "{", "N("):
            depth += 1
        elif t in (")", "]", "}", "N)"):
            depth -= 1
            if depth == 0 and t == "}" and "iimpl" in cur:
                items.append(" ".join(cur))
                cur = []
        k += 1
    if cur:
        items.append(" ".join(cur))
    return items


# ------------------------------------------------------------------------------------------
# oracles. Each returns a list of failures: {"source":…, "what":…, "detail":…}

def oracle_c16(cases, results):
    fails = []
    res = results.get("s1") or next(iter(results.values()), None)
    if not res:
        return fails
    src = dict(cases)
    for i, line in res["outs"].items():
        if line.startswith("PANIC"):
            site = None
            m = res["mod"].get(i, "")
            if m.startswith("PANIC"):
                site = L.unesc(m[6:])
            msg = L.unesc(line[6:])
            if site is None:
                # the model declined (unsupported fragment): fall back to the panic message for the class
                mm = re.search(r"unreachable code: (\d+)", msg)
                if mm:
                    site = f"message:unreachable({mm.group(1)})"
                elif "not yet implemented" in msg:
                    site = "message:todo"
            fails.append({"source": src.get(i, ""), "what": "derive panicked: " + msg[:120], "site": site, "detail": {"model": m[:200]},
                          "flags": sorted(res.get("flags", {}).get(i, ()))})
    return fails


def oracle_c19(cases, results, seed, thorough):
    fails = []
    src = dict(cases)
    sub = cases
    _, outs1, nondet = L.run_harness("s1", sub, no_in=True, repeat=3 if not thorough else 6)
    for i in nondet:
        fails.append({"source": src[i], "what": "two expansions in one process differ", "shrinkable": False})
    procs = 4 if thorough else 1
    for p in range(procs):
        _, outs2, _ = L.run_harness("s1", sub, no_in=True)
        for i, _ in sub:
            if outs1.get(i) != outs2.get(i):
                fails.append({"source": src[i], "what": "expansions in two processes differ", "detail": {"a": outs1.get(i, "")[:400], "b": outs2.get(i, "")[:400]}, "shrinkable": False})
    return fails


def oracle_c18(cases, results):
    fails = []
    if "s1" not in results or "s2" not in results:
        return fails
    src = dict(cases)
    for i, _ in cases:
        a = L.canon_impl(results["s1"]["outs"].get(i, "?"))
        b = L.canon_impl(results["s2"]["outs"].get(i, "?"))
        if a[0] == "SKIP" or b[0] == "SKIP":
            continue
        if a != b:
            fails.append({"source": src[i], "what": "syn1 and syn2 builds disagree", "detail": {"syn1": str(a)[:600], "syn2": str(b)[:600]}})
    return fails


def oracle_c13(cases, results, seed, thorough):
    """respell: bare / o2o(single) / grouped spellings of the same structured item must expand identically"""
    fails = []
    r = random.Random(seed + 99)
    items = []
    for k, prof in enumerate(["struct-flat", "enum", "tree", "trait-params", "repeat", "unknowns"]):
        items += gen.gen_items(prof, seed * 1000 + 700 + k, 150 if not thorough else 2000)
    base, resp = [], []
    for it in items:
        # all instructions of these profiles have a bare form or are rendered inside o2o(..) in both spellings
        base.append((it.meta["id"], gen.render(it)))
        resp.append((it.meta["id"], gen.render(it, gen.speller(r))))
    for b in ("s1",):
        a = expand(b, base)
        c = expand(b, resp)
        for (i, s1), (_, s2) in zip(base, resp):
            x, y = a[i], c[i]
            if x[0] == "OK" and y[0] == "OK":
                if x != y:
                    fails.append({"source": s2, "what": "respelled input expands differently", "detail": {"bare": s1}})
            elif (x[0] == "OK") != (y[0] == "OK"):
                # accept/reject must agree, except for names that are not instructions at that level (bare: may belong to
                # another macro) — our generator only emits real instructions, so any difference counts
                fails.append({"source": s2, "what": "respelled input is accepted/rejected differently", "detail": {"bare": s1, "bare_outcome": str(x)[:300], "respelled_outcome": str(y)[:300]}})
    return fails, len(base)


def desugar_item(it, r):
    """write shortcuts out (type level and member level), preserving order"""
    it2 = copy.deepcopy(it)

    def expand_list(attrs):
        out = []
        for a in attrs:
            base = gen.UNTRY.get(a.name, a.name)
            fall = a.name in gen.UNTRY
            if base in gen.SHORT and r.random() < 0.8:
                for b in gen.SHORT[base]:
                    nm = gen.try_name(b) if fall else b
                    out.append(gen.Instr(nm, a.args, a.tag))
            elif a.name in ("ghost", "ghosts") and r.random() < 0.8:
                out.append(gen.Instr(a.name + "_owned", a.args, a.tag))
                out.append(gen.Instr(a.name + "_ref", a.args, a.tag))
            else:
                out.append(a)
        return out
    it2.attrs = expand_list(it2.attrs)
    for f in it2.fields:
        f.attrs = expand_list(f.attrs)
    for v in it2.variants:
        v.attrs = expand_list(v.attrs)
        for f in v.fields:
            f.attrs = expand_list(f.attrs)
    return it2


def oracle_c12(cases, results, seed, thorough):
    fails = []
    r = random.Random(seed + 12)
    items = []
    for k, prof in enumerate(["traits", "member-instrs", "enum", "struct-flat"]):
        items += gen.gen_items(prof, seed * 1000 + 800 + k, 150 if not thorough else 2000)
    # C12 is stated "absent repeat() parameters"
    items = [it for it in items if "repeat" not in gen.render(it)]
    base = [(it.meta["id"], gen.render(it)) for it in items]
    des = [(it.meta["id"], gen.render(desugar_item(it, r))) for it in items]
    a = expand("s1", base)
    c = expand("s1", des)
    for (i, s1), (_, s2) in zip(base, des):
        x, y = a[i], c[i]
        if x[0] == "OK" and y[0] == "OK":
            if sorted(split_impls(x[1])) != sorted(split_impls(y[1])):
                fails.append({"source": s1, "what": "shortcut and written-out form generate different impls", "detail": {"written_out": s2}})
        elif (x[0] == "OK") != (y[0] == "OK"):
            fails.append({"source": s1, "what": "shortcut and written-out form are accepted/rejected differently", "detail": {"written_out": s2, "a": str(x)[:300], "b": str(y)[:300]}})
    return fails, len(base)


def counterpart_of_impl(item_tokens, self_name):
    """the counterpart type text of an impl item: generic argument of the trait"""
    m = re.search(r"i(?:From|TryFrom|Into|TryInto|IntoExisting|TryIntoExisting) p< (.*?) ifor ", item_tokens)
    return m.group(1) if m else None


def project_item(it, keep):
    """remove every instruction that concerns a counterpart other than `keep`"""
    it2 = copy.deepcopy(it)

    def relevant(a):
        if a.tag and a.tag[0] == "trait":
            return a.tag[1] == keep
        if a.args and "|" in a.args:
            head = a.args.split("|", 1)[0].strip()
            # dedicated form `Type| …`
            if re.fullmatch(r"[A-Za-z_][\w:<>', ]*", head) and head in it.meta.get("cparts", []) and head != keep:
                return False
        # bare dedication: `#[ghost(Type)]`, `#[parent(Type)]` (a single type path as the whole argument)
        if a.tag and a.tag[0] in ("ghost", "parent") and a.args and a.args.strip() in it.meta.get("cparts", []) and a.args.strip() != keep:
            return False
        return True
    it2.attrs = [a for a in it2.attrs if relevant(a)]
    for f in it2.fields:
        f.attrs = [a for a in f.attrs if relevant(a)]
    for v in it2.variants:
        v.attrs = [a for a in v.attrs if relevant(a)]
        for f in v.fields:
            f.attrs = [a for a in f.attrs if relevant(a)]
    return it2


def oracle_c06(cases, results, seed, thorough):
    fails = []
    items = []
    for k, prof in enumerate(["multi-counterpart", "tree", "enum", "parents", "repeat"]):
        items += gen.gen_items(prof, seed * 1000 + 900 + k, 600 if not thorough else 4000)
    items = [it for it in items if len(it.meta.get("cparts", [])) >= 2 and not any(c.startswith("(") for c in it.meta["cparts"])]
    # a trait-level `repeat(..)` hands parameters of one counterpart's instruction to the following instructions on purpose:
    # such items are outside the projection's premise (C14 covers them)
    items = [it for it in items if not any(a.tag and a.tag[0] == "trait" and "repeat" in (a.args or "") for a in it.attrs)]
    # member-level repeat next to dedication: a member that repeats a default mapping instruction, and a later member that
    # spells out an instruction of the *same name* dedicated to one counterpart — for the other counterparts the repeated
    # one is still in force, with or without that dedicated instruction
    r6 = random.Random(seed + 66)
    for it in list(items):
        if it.kind != "struct" or it.shape != "named" or len(it.fields) < 2 or r6.random() > 0.35:
            continue
        if any(a.name in ("repeat", "skip_repeat", "stop_repeat") for f in it.fields for a in f.attrs):
            continue
        tw = copy.deepcopy(it)
        tw.meta["id"] = it.meta["id"] + "+rd"
        nm = r6.choice(["map", "from", "into", "map_owned", "map_ref", "into_existing"])
        k0 = r6.randrange(len(tw.fields) - 1)
        tw.fields[k0].attrs += [gen.Instr("repeat", r6.choice([None, "map"]), tag=("rep", None)), gen.Instr(nm, r6.choice(["zq_r", "zq_r, ~.clone()"]), tag=("mmap", None))]
        c = r6.choice(tw.meta["cparts"])
        f1 = r6.choice(tw.fields[k0 + 1:])
        f1.attrs.append(gen.Instr(nm, c + "| " + r6.choice(["zq_own", "zq_own, ~.clone()"]), tag=("mmap", c)))
        items.append(tw)
    full = [(it.meta["id"], gen.render(it)) for it in items]
    a = expand("s1", full)
    # project onto every counterpart in turn (not only the first one written)
    n = 0
    for turn in range(3):
        proj, keepers = [], {}
        for it in items:
            if turn >= len(it.meta["cparts"]):
                continue
            keep = it.meta["cparts"][turn]
            keepers[it.meta["id"]] = keep
            proj.append((it.meta["id"], gen.render(project_item(it, keep))))
        c = expand("s1", proj)
        psrc = dict(proj)
        for i, s1 in full:
            if i not in keepers:
                continue
            x, y = a[i], c[i]
            if x[0] != "OK" or y[0] != "OK":
                continue
            n += 1
            keep = keepers[i]
            # impls for `keep` in the full expansion = all impls of the projection
            want = split_impls(y[1])
            got_all = split_impls(x[1])
            got = [g for g in got_all if g in want]
            if sorted(got) != sorted(want) or len(got_all) < len(want):
                fails.append({"source": s1, "what": f"impls for counterpart {keep} change when the instructions for the other counterparts are removed", "detail": {"projected": psrc[i]}})
    return fails, n



TRAIT_OF_KIND = {
    "from_owned": ("::core::convert::From", False, False), "from_ref": ("::core::convert::From", True, False),
    "owned_into": ("::core::convert::Into", False, False), "ref_into": ("::core::convert::Into", False, True),
    "owned_into_existing": ("o2o::traits::IntoExisting", False, False), "ref_into_existing": ("o2o::traits::IntoExisting", False, True),
}
TRY_TRAIT = {"::core::convert::From": "::core::convert::TryFrom", "::core::convert::Into": "::core::convert::TryInto", "o2o::traits::IntoExisting": "o2o::traits::TryIntoExisting"}
FN_OF_TRAIT = {"::core::convert::From": "from", "::core::convert::TryFrom": "try_from", "::core::convert::Into": "into", "::core::convert::TryInto": "try_into",
               "o2o::traits::IntoExisting": "into_existing", "o2o::traits::TryIntoExisting": "try_into_existing"}


def norm_ty(s):
    s = re.sub(r"&\s*'o2o\s*", "&", s)
    return re.sub(r"\s+", "", s)


def oracle_c17(cases, seed, thorough):
    """every accepted expansion must parse as a file of impl items of the right shape"""
    fails = []
    # domain: inputs that are well-formed by construction — the repository's own derive inputs (and, once built, the
    # designed closed programs of the runtime tie). Randomly generated inputs may pair a member name of the wrong kind
    # (index vs identifier) with a counterpart shape, which the derive does not validate; that is outside C17's premise.
    cases = [c for c in cases if re.match(r"^(t|u#|r#|k|d)", c[0]) and not c[0].startswith("tree") and not c[0].startswith("trait")]
    outs, an = L.analyze("s1", cases)
    n = 0
    src = dict(cases)
    for i, _ in cases:
        if outs[i][0] != "OK":
            continue
        n += 1
        a = an.get(i)
        if a is None:
            continue
        if not a.get("parse_ok"):
            fails.append({"source": src[i], "what": "accepted input expands to tokens that are not a sequence of items: " + a.get("parse_error", "")[:80]})
            continue
        for it in a["items"]:
            if it["kind"] != "impl" or it["trait"] not in FN_OF_TRAIT:
                fails.append({"source": src[i], "what": "output item is not an impl of one of the six conversion traits", "detail": it})
                break
            want_fn = FN_OF_TRAIT[it["trait"]]
            fallible = "Try" in it["trait"]
            if it["fns"] != [want_fn] or it["other_items"] != 0 or (len(it["assoc"]) != (1 if fallible else 0)) or (fallible and not it["assoc"][0].startswith("Error =")):
                fails.append({"source": src[i], "what": "impl item does not hold exactly the required method (+ Error type for fallible traits)", "detail": it})
                break
    return fails, n


def rustc_parse_errors(texts, tag):
    """texts: list of Rust source fragments (sequences of items). Returns {index: first parse error}; each fragment sits in
    a module of its own that is configured out, so it is parsed but neither resolved nor type-checked"""
    d = os.path.join(L.WORK, "parsecheck")
    os.makedirs(d, exist_ok=True)
    path = os.path.join(d, f"pc_{tag}.rs")
    with open(path, "w") as f:
        for k, t in enumerate(texts):
            f.write(f"#[cfg(any())] mod m{k} {{ " + t.replace("\n", " ") + " }\n")
    r = subprocess.run(["rustc", "--edition", "2021", "--crate-type", "lib", "--emit=metadata", "--error-format=short", "-o", os.path.join(d, f"pc_{tag}.rmeta"), path],
                       stdout=subprocess.PIPE, stderr=subprocess.STDOUT, text=True, env=L.ENV)
    bad = {}
    for line in r.stdout.split("\n"):
        m = re.match(r".*pc_\w+\.rs:(\d+):\d+: error(?:\[E\d+\])?: (.*)", line)
        if m:
            bad.setdefault(int(m.group(1)) - 1, m.group(2))
    if r.returncode != 0 and not bad:
        raise RuntimeError("syntax oracle: rustc failed without a located error: " + r.stdout[-800:])
    return bad


def oracle_c17_syntax(cases, seed, thorough):
    """rustc's own parser on every accepted expansion, the randomly generated inputs included: the expansion is pasted
    into a module that is configured out (`#[cfg(any())] mod m { .. }`), so it must be syntactically valid Rust but is
    neither resolved nor type-checked — exactly the `well-formed` half of C17 that needs no premise on the input"""
    fails = []
    # domain: the repository's own derive inputs + inputs consistent by construction (tools/genwf.py): member names agree
    # in kind with the counterpart's shape, parameters are used where the documentation gives them a meaning
    cases = [c for c in cases if re.match(r"^(t|u#|r#|k|d)", c[0]) and not c[0].startswith("tree") and not c[0].startswith("trait")]
    cases += [(it.meta["id"], gen.render(it)) for it in genwf.gen_consistent(seed, 2500 if not thorough else 20000)]
    outs = expand("s1", cases)
    src = dict(cases)
    ids = [i for i, _ in cases if outs[i][0] == "OK"]
    if not ids:
        return fails, 0
    bad = rustc_parse_errors([L.pretty_tokens(outs[i][1]) for i in ids], str(seed))
    for k, msg in sorted(bad.items()):
        i = ids[k]
        fails.append({"source": src[i], "what": "accepted input expands to tokens rustc cannot parse: " + msg[:120]})
    return fails, len(ids)


def expected_impls(it):
    """documented impl set of a structured item: multiset of (trait, arg is ref, self is ref, counterpart, error type)"""
    exp = []
    for a in it.attrs:
        if not (a.tag and a.tag[0] == "trait"):
            continue
        kinds, fall = gen.kinds_of(a.name)
        cpart = a.tag[1]
        head = a.args.split("|", 1)[0]
        err = None
        if fall:
            # error type = text after the first top-level comma that follows the counterpart (and optional hint)
            rest = head[len(cpart):] if head.startswith(cpart) else head
            m = re.search(r",\s*(.+)$", rest)
            err = m.group(1).strip() if m else None
        for k in kinds:
            tr, argref, selfref = TRAIT_OF_KIND[k]
            if fall:
                tr = TRY_TRAIT[tr]
            exp.append((tr, argref, selfref, norm_ty(cpart.replace("::<", "<")), norm_ty(err) if err else None))
    return sorted(exp, key=str)


def oracle_c04(cases, seed, thorough):
    fails = []
    items = []
    for k, prof in enumerate(["traits", "generics", "struct-flat", "enum", "trait-repeat", "unknowns"]):
        items += gen.gen_items(prof, seed * 1000 + 600 + k, 200 if not thorough else 2500)
    # the requested set is the same however the instructions are spelled: a third of the items is written with grouped
    # `#[o2o(a(..), b(..), allow_unknown, ..)]` lists / single `#[o2o(a(..))]` wrappers
    r4 = random.Random(seed + 44)
    srcs = [(it.meta["id"], gen.render(it, gen.speller(r4) if r4.random() < 0.35 else None)) for it in items]
    # `allow_unknown` is a switch, not an instruction: wherever it is written among the type-level instructions — first,
    # in the middle or last of one `#[o2o(..)]` list — the requested set stays what it was
    import copy
    for it in list(items[:(800 if not thorough else 5000)]):
        if r4.random() < 0.5 and it.attrs and not any(a.name == "allow_unknown" for a in it.attrs):
            tw = copy.deepcopy(it)
            tw.meta["id"] = it.meta["id"] + "+au"
            tw.attrs.insert(r4.randrange(len(tw.attrs) + 1), gen.Instr("allow_unknown", None, tag=("au", None)))
            items.append(tw)
            srcs.append((tw.meta["id"], gen.render(tw, gen.speller(r4, r4.choice(["grouped", "grouped", "random"])))))
    # one impl per (kind, fallibility, counterpart): a second instruction for the same counterpart under another name whose
    # kinds overlap (`map` + `from`, `into` + `owned_into`, ..) must not yield the same impl twice (it is a rejected input)
    for it in list(items[:(800 if not thorough else 5000)]):
        traits = [a for a in it.attrs if a.tag and a.tag[0] == "trait"]
        if traits and r4.random() < 0.3:
            t = r4.choice(traits)
            ks, fall = gen.kinds_of(t.name)
            over = [n_ for n_ in gen.ALL24 if n_ != t.name and gen.kinds_of(n_)[1] == fall and set(gen.kinds_of(n_)[0]) & set(ks)]
            if over:
                tw = copy.deepcopy(it)
                tw.meta["id"] = it.meta["id"] + "+ov"
                tw.attrs.insert(r4.randrange(len(tw.attrs) + 1), gen.Instr(r4.choice(over), t.args.split("|", 1)[0].strip(), tag=t.tag))
                items.append(tw)
                srcs.append((tw.meta["id"], gen.render(tw)))
    outs, an = L.analyze("s1", srcs)
    n = 0
    for it, (i, s) in zip(items, srcs):
        if outs[i][0] != "OK" or not an.get(i, {}).get("parse_ok"):
            continue
        n += 1
        got = []
        for im in an[i]["items"]:
            if im["kind"] != "impl":
                continue
            arg = im["trait_args"].strip()
            arg = arg[1:-1].strip() if arg.startswith("<") else arg
            argref = arg.startswith("&")
            selfref = im["self_ty"].strip().startswith("&")
            cp = norm_ty(re.sub(r"^&\s*('o2o\s*)?", "", arg))
            err = None
            for a in im["assoc"]:
                if a.startswith("Error ="):
                    err = norm_ty(a[len("Error ="):])
            got.append((im["trait"], argref, selfref, cp.replace("::<", "<"), err))
        if len(set(got)) != len(got):
            dup = sorted({g for g in got if got.count(g) > 1}, key=str)
            fails.append({"source": s, "what": "the same impl is generated more than once (one impl per kind, fallibility and counterpart)", "detail": {"twice": dup[:4]}})
        elif sorted(got, key=str) != expected_impls(it):
            fails.append({"source": s, "what": "the set of generated impls differs from the documented set for these trait instructions",
                          "detail": {"expected": expected_impls(it), "got": sorted(got, key=str)}})
    return fails, n


ALLOWED_INTRODUCED = {"core", "convert", "result", "o2o", "traits", "From", "TryFrom", "Into", "TryInto", "IntoExisting", "TryIntoExisting", "Result",
                      "Default", "Ok", "default", "Error", "impl", "for", "fn", "type", "let", "mut", "match", "where", "as", "_", "self", "value", "other", "obj",
                      "from", "try_from", "into", "try_into", "into_existing", "try_into_existing"}


def oracle_c20(cases, seed, thorough):
    fails = []
    outs, an = L.analyze("s1", cases)
    n = 0
    src = dict(cases)
    for i, _ in cases:
        if outs[i][0] != "OK" or i not in an:
            continue
        n += 1
        bad = [x for x in an[i]["introduced"] if x not in ALLOWED_INTRODUCED and not re.fullmatch(r"f\d+", x)]
        if bad:
            fails.append({"source": src[i], "what": "generated code introduces identifiers that come neither from the user nor from core / o2o::traits / the prelude: " + ", ".join(bad[:6])})
    return fails, n


def oracle_c11(cases, seed, thorough):
    fails = []
    outs, an = L.analyze("s1", cases)
    n = 0
    src = dict(cases)
    for i, _ in cases:
        if outs[i][0] != "OK" or not an.get(i, {}).get("parse_ok"):
            continue
        n += 1
        for im in an[i]["items"]:
            if im["kind"] != "impl":
                continue
            if im["undeclared_lifetimes"]:
                fails.append({"source": src[i], "what": "impl header uses a lifetime that the impl does not declare: '" + im["undeclared_lifetimes"][0]})
                break
            if im.get("declared_twice"):
                fails.append({"source": src[i], "what": "the impl declares a generic parameter twice: " + im["declared_twice"][0]})
                break
            st = re.sub(r"::", "", im["self_ty"])
            if re.search(r"<[^<>]*(:|=|\bconst\b)", st):
                fails.append({"source": src[i], "what": "the deriving type is not applied in argument form: bounds / defaults / `const` appear in its argument list", "detail": im["self_ty"]})
                break
    return fails, n


def oracle_c11_where(seed, thorough):
    """each impl carries the where-clause dedicated to its counterpart, else the default one, else none"""
    fails = []
    items = []
    for k, prof in enumerate(["generics", "multi-counterpart"]):
        items += gen.gen_items(prof, seed * 1000 + 620 + k, 300 if not thorough else 3000)
    items = [it for it in items if any(a.name == "where_clause" for a in it.attrs)]
    srcs = [(it.meta["id"], gen.render(it)) for it in items]
    outs, an = L.analyze("s1", srcs)
    n = 0
    for it, (i, s) in zip(items, srcs):
        if outs[i][0] != "OK" or not an.get(i, {}).get("parse_ok"):
            continue
        cps = {norm_ty(c.replace("::<", "<")) for c in it.meta.get("cparts", [])}
        ded, default = {}, None
        for a in it.attrs:
            if a.name != "where_clause" or a.args is None:
                continue
            left, bar, right = a.args.partition("|")
            if bar and norm_ty(left.replace("::<", "<")) in cps:
                ded.setdefault(norm_ty(left.replace("::<", "<")), right)
            elif default is None:
                default = a.args
        n += 1
        for im in an[i]["items"]:
            if im["kind"] != "impl":
                continue
            arg = im["trait_args"].strip()
            arg = arg[1:-1].strip() if arg.startswith("<") else arg
            cp = norm_ty(re.sub(r"^&\s*('o2o\s*)?", "", arg)).replace("::<", "<")
            want = ded.get(cp, default)
            strip = lambda t: norm_ty(t or "").rstrip(",")
            if strip(want) != strip(im.get("where", "")):
                fails.append({"source": s, "what": f"impl for counterpart {cp} carries where-clause `{im.get('where', '')}`, the instructions designate `{want or ''}`"})
                break
    return fails, n


def fn_body(item_tokens):
    """tokens of the fn body of an impl item (last brace group inside the impl's brace group)"""
    toks = item_tokens.split()
    # find `ifn`, then the first `{` after the parameter list at depth of the impl body
    try:
        k = toks.index("ifn")
    except ValueError:
        return None
    depth = 0
    start = None
    for n in range(k, len(toks)):
        t = toks[n]
        if t in ("(", "[", "N("):
            depth += 1
        elif t in (")", "]", "N)"):
            depth -= 1
        elif t == "{" and depth == 0:
            start = n
            break
    if start is None:
        return None
    return " ".join(toks[start:-1])


def oracle_c07(cases, seed, thorough):
    """owned vs by-reference flavour of the same mapping: when every instruction of the item applies to both
    flavours alike (only map / from / into / into_existing style names), the two fn bodies must be token-identical
    up to the `&` of a bare-parent conversion."""
    fails = []
    items = []
    for k, prof in enumerate(["struct-flat", "enum", "tree"]):
        items += gen.gen_items(prof, seed * 1000 + 650 + k, 250 if not thorough else 3000)
    sym = {"map", "from", "into", "into_existing", "try_map", "try_from", "try_into", "try_into_existing", "ghost", "ghosts", "child", "child_parents",
           "parent", "as_type", "where_clause", "type_hint", "literal", "pattern", "repeat", "skip_repeat", "stop_repeat"}

    def names(it):
        out = [a.name for a in it.attrs]
        for f in it.fields:
            out += [a.name for a in f.attrs]
        for v in it.variants:
            out += [a.name for a in v.attrs]
            for f in v.fields:
                out += [a.name for a in f.attrs]
        return out
    items = [it for it in items if all(n in sym for n in names(it)) and "[" not in "".join(a.args or "" for f in it.fields for a in f.attrs if a.name == "parent")]
    srcs = [(it.meta["id"], gen.render(it)) for it in items]
    outs = expand("s1", srcs)
    n = 0
    for i, s in srcs:
        if outs[i][0] != "OK":
            continue
        n += 1
        groups = collections.defaultdict(list)
        for im in split_impls(outs[i][1]):
            m = re.search(r"i(From|TryFrom|Into|TryInto|IntoExisting|TryIntoExisting) p< (.*?) p> ifor (.*?) \{", im)
            if not m:
                continue
            key = (m.group(1), norm_ty(re.sub(r"p& (j' io2o )?", "", m.group(2))), norm_ty(re.sub(r"p& (j' io2o )?", "", m.group(3))))
            groups[key].append(fn_body(im))
        for key, bodies in groups.items():
            if len(bodies) == 2 and None not in bodies:
                a, b = [x.replace("( p& ivalue )", "ivalue") for x in bodies]
                a = re.sub(r"\( p& \( (iself p\. \S+) \) \)", r"\1", a)
                b = re.sub(r"\( p& \( (iself p\. \S+) \) \)", r"\1", b)
                if a != b:
                    fails.append({"source": s, "what": f"owned and by-reference {key[0]} impls of the same mapping have different bodies", "detail": {"a": bodies[0][:500], "b": bodies[1][:500]}})
                    break
    return fails, n


def all_attr_lists(it):
    yield it.attrs
    for f in it.fields:
        yield f.attrs
    for v in it.variants:
        yield v.attrs
        for f in v.fields:
            yield f.attrs


def oracle_c10(cases, seed, thorough):
    """(a) no `~` / `@` punctuation survives in the output of items without pattern/literal instructions;
       (b) metamorphic pass-through: inserting one opaque marker token anywhere inside a user expression changes the
           output by exactly that token, at every place the expression is used."""
    fails = []
    r = random.Random(seed + 10)
    items = []
    for k, prof in enumerate(["expr", "struct-flat", "enum", "trait-params"]):
        items += gen.gen_items(prof, seed * 1000 + 300 + k, 200 if not thorough else 2500)
    items = [it for it in items if not any(a.name in ("pattern", "literal") for al in all_attr_lists(it) for a in al)]
    base = [(it.meta["id"], gen.render(it)) for it in items]
    outs = expand("s1", base)
    n = 0
    marked = []
    for it, (i, s) in zip(items, base):
        o = outs[i]
        if o[0] != "OK":
            continue
        n += 1
        toks = o[1].split()
        left = [t for t in toks if t in ("p~", "j~", "p@", "j@")]
        if left:
            fails.append({"source": s, "what": "a placeholder (`~` or `@`) is left in the generated code"})
            continue
        # (b) plant a marker inside one expression-carrying instruction
        cands = [(al, k) for al in all_attr_lists(it) for k, a in enumerate(al)
                 if a.args and re.search(r"[~@{]", a.args) and a.name not in ("child_parents", "where_clause", "type_hint", "repeat", "child", "parent", "as_type")]
        if not cands:
            continue
        it2 = copy.deepcopy(it)
        lists2 = list(all_attr_lists(it2))
        lists1 = list(all_attr_lists(it))
        al, k = r.choice(cands)
        idx = next(n2 for n2, l in enumerate(lists1) if l is al)
        a2 = lists2[idx][k]
        # insert after a `~`, `@` or `{` occurrence (never inside a string / char literal: our catalogue keeps those short)
        pos = [m.end() for m in re.finditer(r"[~@{(]", a2.args) if not re.search(r"[\"']", a2.args[max(0, m.start() - 2):m.end() + 2])]
        if not pos:
            continue
        q = r.choice(pos)
        a2.args = a2.args[:q] + " zq9mark " + a2.args[q:]
        marked.append((i, s, gen.render(it2)))
    outs2 = expand("s1", [(i, s2) for i, _, s2 in marked])
    for i, s, s2 in marked:
        a, b = outs[i], outs2[i]
        if b[0] != "OK":
            # the marker may turn a member name / path into an expression and be (rightly) rejected: not a pass-through case
            continue
        stripped = " ".join(t for t in b[1].split() if t != "izq9mark")
        if stripped != a[1]:
            fails.append({"source": s2, "what": "an extra token inside a user expression changes the generated code by more than that token",
                          "detail": {"without_marker": s}})
    return fails, n


def requested_kinds(it):
    """{counterpart: set of (basic kind, fallible)} requested by the trait instructions"""
    req = collections.defaultdict(set)
    for a in it.attrs:
        if a.tag and a.tag[0] == "trait":
            ks, f = gen.kinds_of(a.name)
            for k in ks:
                req[a.tag[1]].add((k, f))
    return req


def oracle_c05(cases, seed, thorough):
    """non-interference: adding a member instruction whose kinds are requested by no trait instruction (directly or
    through the into_existing -> into / fallible -> infallible fallbacks) must leave the expansion unchanged"""
    fails = []
    r = random.Random(seed + 5)
    items = []
    for k, prof in enumerate(["member-instrs", "struct-flat", "multi-counterpart"]):
        items += gen.gen_items(prof, seed * 1000 + 350 + k, 250 if not thorough else 3000)
    items = [it for it in items if it.kind == "struct" and it.fields]
    pairs = []
    for it in items:
        req = requested_kinds(it)
        allreq = set().union(*req.values()) if req else set()
        used_basic = {k for k, _ in allreq}
        # kinds reachable through fallbacks
        reach = set(used_basic)
        if "owned_into_existing" in used_basic:
            reach.add("owned_into")
        if "ref_into_existing" in used_basic:
            reach.add("ref_into")
        free = [k for k in gen.MAP6 if k not in reach]
        if not free:
            continue
        it2 = copy.deepcopy(it)
        f = r.choice(it2.fields)
        nm = r.choice(free)
        if r.random() < 0.3 and "existing" not in nm:
            nm = gen.try_name(nm)
        f.attrs.insert(r.randrange(len(f.attrs) + 1), gen.Instr(nm, r.choice(["zz_unused", "zz_unused, ~.clone()", "{ unused() }"]), tag=("mmap", None)))
        pairs.append((it.meta["id"], gen.render(it), gen.render(it2)))
    a = expand("s1", [(i, s) for i, s, _ in pairs])
    b = expand("s1", [(i, s2) for i, _, s2 in pairs])
    n = 0
    for i, s, s2 in pairs:
        if a[i][0] != "OK":
            continue
        n += 1
        if a[i] != b[i]:
            fails.append({"source": s2, "what": "a member instruction that applies to no requested conversion changes the expansion", "detail": {"without": s}})
    f2, n2 = oracle_c05_shadowed(seed, thorough)
    f3, n3 = oracle_c05_order(seed, thorough)
    return fails + f2 + f3, n + n2 + n3


SAME_NAME_CATEGORIES = {"type_hint", "child", "literal", "pattern", "where_clause", "child_parents", "ghost", "ghost_owned", "ghost_ref",
                        "ghosts", "ghosts_owned", "ghosts_ref", "parent", "as_type"} | set(gen.ALL24)


def dedication_of(a, cparts):
    """counterpart an instruction is dedicated to (`Type| ...`), or None"""
    if a.args is None:
        return None
    left, bar, _ = a.args.partition("|")
    if not bar:
        # `#[parent(Type)]` / `#[ghost(Type)]`: a dedication without parameters
        n = norm_ty(left.replace("::<", "<"))
        return n if n in cparts else None
    n = norm_ty(left.replace("::<", "<"))
    return n if n in cparts else None


def oracle_c05_order(seed, thorough, profiles=("multi-counterpart", "enum-members", "member-instrs", "tree", "generics")):
    """most-specific pick is independent of written order: swapping a default instruction with a dedicated instruction
    of the same name on the same item / member / variant must leave the expansion unchanged"""
    fails = []
    r = random.Random(seed + 56)
    items = []
    for k, prof in enumerate(profiles):
        items += gen.gen_items(prof, seed * 1000 + 370 + k, 300 if not thorough else 3000)
    pairs = []
    for it in items:
        cps = {norm_ty(c.replace("::<", "<")) for c in it.meta.get("cparts", [])}
        hosts = [it] + list(it.fields) + list(it.variants) + [f for v in it.variants for f in v.fields]
        cands = []
        for hi, h in enumerate(hosts):
            for x in range(len(h.attrs) - 1):
                # only neighbours are swapped: the order of either one relative to every other instruction stays as written
                for y in (x + 1,):
                    a, b = h.attrs[x], h.attrs[y]
                    if a.name != b.name or a.name not in SAME_NAME_CATEGORIES:
                        continue
                    if (a.tag and a.tag[0] == "trait") or (b.tag and b.tag[0] == "trait"):
                        continue  # two trait instructions are two requests, not two candidates
                    da, db = dedication_of(a, cps), dedication_of(b, cps)
                    if (da is None) != (db is None):
                        cands.append((hi, x, y))
        if not cands:
            # no such neighbours as generated: write a pair onto one member (mapping instructions of one name, a default
            # one and one dedicated to a counterpart, different arguments), at a random position among its instructions
            members = [(hi, h) for hi, h in enumerate(hosts) if isinstance(h, gen.Field)]
            cs = [c for c in it.meta.get("cparts", []) if not c.startswith("(")]
            if not members or not cs or r.random() < 0.3:
                continue
            it = copy.deepcopy(it)
            hosts = [it] + list(it.fields) + list(it.variants) + [f for v in it.variants for f in v.fields]
            hi, _ = r.choice(members)
            h = hosts[hi]
            nm = r.choice(["into", "map", "from", "owned_into", "ref_into", "map_owned", "map_ref", "from_owned", "try_into", "try_map"])
            c = r.choice(cs)
            pair = [gen.Instr(nm, r.choice(["zq_a", "zq_a, ~.clone()", "{ zq_default(&@) }"]), tag=("mmap", None)),
                    gen.Instr(nm, c + "| " + r.choice(["zq_b", "zq_b, ~ + 1", "{ zq_dedicated(&@) }"]), tag=("mmap", c))]
            r.shuffle(pair)
            x = r.randrange(len(h.attrs) + 1)
            h.attrs[x:x] = pair
            cands = [(hi, x, x + 1)]
        hi, x, y = r.choice(cands)
        it2 = copy.deepcopy(it)
        hosts2 = [it2] + list(it2.fields) + list(it2.variants) + [f for v in it2.variants for f in v.fields]
        h2 = hosts2[hi]
        h2.attrs[x], h2.attrs[y] = h2.attrs[y], h2.attrs[x]
        pairs.append((it.meta["id"], gen.render(it), gen.render(it2)))
    a = expand("s1", [(i, s) for i, s, _ in pairs])
    b = expand("s1", [(i, s2) for i, _, s2 in pairs])
    n = 0
    for i, s, s2 in pairs:
        if a[i][0] != "OK" and b[i][0] != "OK":
            continue
        n += 1
        if a[i] != b[i]:
            fails.append({"source": s2, "what": "swapping a default and a dedicated instruction of the same name changes the expansion", "detail": {"original_order": s, "a": str(a[i])[:300], "b": str(b[i])[:300]}})
    return fails, n


def oracle_c05_shadowed(seed, thorough):
    """most-specific pick: next to a fallible member instruction, its infallible twin (same kinds, same dedication) is
    shadowed in every fallible conversion; when no infallible conversion of those kinds is requested, adding the twin
    must leave the expansion unchanged (struct members and enum variant payload members alike)"""
    fails = []
    r = random.Random(seed + 55)
    items = []
    for k, prof in enumerate(["member-instrs", "enum-members", "multi-counterpart", "shape-change"]):
        items += gen.gen_items(prof, seed * 1000 + 360 + k, 700 if not thorough else 4000)
    pairs = []
    for it in items:
        req = requested_kinds(it)
        allreq = set().union(*req.values()) if req else set()
        infall = {k for k, f in allreq if not f}
        # kinds an infallible pass may consult (into_existing falls back on into)
        consulted = set(infall)
        if "owned_into_existing" in infall:
            consulted.add("owned_into")
        if "ref_into_existing" in infall:
            consulted.add("ref_into")
        members = list(it.fields) + [f for v in it.variants for f in v.fields]
        cands = []
        for f in members:
            for a in f.attrs:
                if a.tag and a.tag[0] == "mmap" and a.name in gen.UNTRY:
                    ks, _ = gen.kinds_of(a.name)
                    if not (set(ks) & consulted):
                        cands.append((f, a))
        if not cands:
            continue
        it2 = copy.deepcopy(it)
        members2 = list(it2.fields) + [f for v in it2.variants for f in v.fields]
        f, a = r.choice(cands)
        f2 = members2[members.index(f)]
        ded = (a.args.split("|", 1)[0] + "| ") if (a.args and a.tag[1]) else ""
        tagc = a.tag[1]
        if not ded and r.random() < 0.5:
            # the fallible instruction is a default one, so it serves every counterpart: an infallible twin *dedicated* to one of
            # them is on a later step of the lookup all the same (exact fallibility first, dedication second within a step)
            cs = [c for c in it.meta.get("cparts", []) if not c.startswith("(")]
            if cs:
                tagc = r.choice(cs)
                ded = tagc + "| "
        f2.attrs.insert(r.randrange(len(f2.attrs) + 1), gen.Instr(gen.UNTRY[a.name], ded + r.choice(["zz_shadowed", "zz_shadowed, ~.clone()", "{ shadowed() }"]), tag=("mmap", tagc)))
        pairs.append((it.meta["id"], gen.render(it), gen.render(it2)))
    # a designed family of the same question where the *name* matters: a payload member of a variant destructured by name
    # (and a member of a named struct), whose fallible instruction carries an expression and no name — the infallible twin's
    # name must not leak into the fallible conversion (pattern binding, field read)
    for k in range(40 if not thorough else 300):
        tl = r.choice(["try_from", "try_from_owned", "try_from_ref", "try_map", "try_map_owned"])
        ml = r.choice([n for n in ("try_from", "try_map", "try_from_owned", "try_from_ref", "try_map_owned", "try_map_ref") if set(gen.kinds_of(n)[0]) & set(gen.kinds_of(tl)[0])])
        c = r.choice(["A", "m::D"])
        ded = r.choice(["", "", c + "| "])
        act = r.choice(["m!(~)", "{ ~.parse()? }", "~.try_into()?"])
        twin = f"#[{gen.UNTRY[ml]}({ded}zz_shadowed{r.choice(['', ', ~.clone()'])})]"
        own = f"#[{ml}({ded}{act})]"
        pair = lambda t: " ".join([own, t] if r.random() < 0.5 else [t, own]).strip()
        if r.random() < 0.6:
            mk = lambda t: f"#[{tl}({c}, String)] enum E {{ V0, V1 {{ {pair(t)} a: i32, b: u8 }} }}"
        else:
            mk = lambda t: f"#[{tl}({c}, String)] struct S {{ {pair(t)} a: i32, b: u8 }}"
        st = r.getstate()
        s0 = mk("")
        r.setstate(st)
        s1 = mk(twin)
        pairs.append((f"dz-{k}", s0, s1))
    a = expand("s1", [(i, s) for i, s, _ in pairs])
    b = expand("s1", [(i, s2) for i, _, s2 in pairs])
    n = 0
    for i, s, s2 in pairs:
        if a[i][0] != "OK":
            continue
        n += 1
        if a[i] != b[i]:
            fails.append({"source": s2, "what": "an infallible member instruction shadowed by its fallible twin changes the fallible expansion", "detail": {"without": s}})
    # second pattern — the order of the steps: an into_existing conversion, fallible or not, consults the member's
    # infallible into_existing instruction before any `into` instruction; with no Into conversion requested, adding an
    # Into-only instruction (fallible or not) next to it must leave the expansion unchanged
    pairs = []
    shaped = []
    for it0 in items:
        # shape the item for this question: keep its From instructions, replace the Into ones by into_existing flavours
        # (mostly fallible) for the same counterparts, and give one member an infallible into_existing instruction
        if it0.kind != "struct" or not it0.fields:
            continue
        it = copy.deepcopy(it0)
        cps = [c for c in it.meta.get("cparts", []) if not c.startswith("(")]
        if not cps:
            continue
        kept = []
        for a_ in it.attrs:
            if a_.tag and a_.tag[0] == "trait":
                ks, _ = gen.kinds_of(a_.name)
                if all(k.startswith("from") for k in ks):
                    kept.append(a_)
            else:
                kept.append(a_)
        it.attrs = kept
        for c in cps:
            nm = r.choice(["try_into_existing", "owned_try_into_existing", "ref_try_into_existing", "try_into_existing", "into_existing"])
            it.attrs.insert(r.randrange(len(it.attrs) + 1), gen.Instr(nm, c + (", String" if "try" in nm else ""), tag=("trait", c)))
        f = r.choice(it.fields)
        f.attrs = [x for x in f.attrs if not (x.tag and x.tag[0] == "mmap" and any("into" in k for k in gen.kinds_of(x.name)[0])) and not x.name.startswith("ghost") and x.name not in ("parent", "child")]
        dedc = r.choice(cps) if r.random() < 0.4 else None
        f.attrs.insert(r.randrange(len(f.attrs) + 1), gen.Instr(r.choice(["into_existing", "into_existing", "owned_into_existing", "ref_into_existing"]),
                                                                 (dedc + "| " if dedc else "") + r.choice(["zz_own", "zz_own, ~.clone()"]), tag=("mmap", dedc)))
        it.meta = dict(it.meta)
        it.meta["id"] = it.meta["id"] + "-steps"
        shaped.append(it)
    for it in shaped + items:
        req = requested_kinds(it)
        allreq = set().union(*req.values()) if req else set()
        if any(k in ("owned_into", "ref_into") for k, _ in allreq) or not any(k.endswith("into_existing") for k, _ in allreq):
            continue
        members = list(it.fields) + [f for v in it.variants for f in v.fields]
        cands = []
        for f in members:
            for a_ in f.attrs:
                if a_.tag and a_.tag[0] == "mmap" and a_.name in ("into_existing", "owned_into_existing", "ref_into_existing"):
                    cands.append((f, a_))
        if not cands:
            continue
        it2 = copy.deepcopy(it)
        members2 = list(it2.fields) + [f for v in it2.variants for f in v.fields]
        f, a_ = r.choice(cands)
        f2 = members2[members.index(f)]
        ded = (a_.args.split("|", 1)[0] + "| ") if (a_.args and a_.tag[1]) else ""
        own = {"into_existing": ["into", "try_into"], "owned_into_existing": ["owned_into", "owned_try_into"], "ref_into_existing": ["ref_into", "ref_try_into"]}[a_.name]
        f2.attrs.insert(r.randrange(len(f2.attrs) + 1), gen.Instr(r.choice(own), ded + r.choice(["zz_later_step", "zz_later_step, ~.clone()", "{ later_step() }"]), tag=("mmap", a_.tag[1])))
        pairs.append((it.meta["id"], gen.render(it), gen.render(it2)))
    a = expand("s1", [(i, s) for i, s, _ in pairs])
    b = expand("s1", [(i, s2) for i, _, s2 in pairs])
    for i, s, s2 in pairs:
        if a[i][0] != "OK":
            continue
        n += 1
        if a[i] != b[i]:
            fails.append({"source": s2, "what": "an `into` member instruction changes an into_existing conversion although the member has an into_existing instruction of its own (a later step of the lookup overtakes an earlier one)", "detail": {"without": s}})
    return fails, n


FAULTS = [
    ("no-trait-instr", "At least one trait instruction is expected."),
    ("dup-instr", "Ident here must be unique."),
    ("missing-err", "Error type should be specified for fallible instruction."),
    ("extra-err", "Error type should not be specified for infallible instruction."),
    ("unknown-cpart-where", "doesn't match any type specified in trait instructions."),
    ("unknown-cpart-member", "doesn't match any type specified in trait instructions."),
    ("dup-default-where", "There can be at most one default #[where_clause(...)] instruction."),
    ("dup-default-ghosts", "There can be at most one default #[ghosts(...)] instruction."),
    ("misplaced-member", "should be used on a member."),
    ("misnamed-type", "Perhaps you meant 'ghosts'?"),
    ("misplaced-type", "should be used on a struct."),
    ("unknown-own", "is not supported."),
    ("ghost-no-default", "should provide default value for type"),
    ("child-no-parents", "Missing #[child_parents(...)] instruction for"),
    ("repeat-param-conflict", "will be overriden. Did you forget to use 'skip_repeat'?"),
    ("tuple-named-no-name", "should specify corresponding field name of the Zq7"),
    ("untyped-nested-parent", "Field 'zq_t' should have type here"),
    ("update-into-existing", "Struct update syntax '..' is not applicable to 'into_existing' instructions"),
    ("update-next-to-bare-parent", "is not applicable next to a parameterless #[parent] member"),
    ("ghost-child-no-parents", r"re:Missing (#\[child_parents\(\.\.\.\)\]|'zq_base: \[Type Path\]') instruction for (type )?Zq8"),
]


def fault_hit(text, msg):
    return re.search(text[3:], msg) is not None if text.startswith("re:") else text in msg


def inject_fault(it, kind, r):
    it2 = copy.deepcopy(it)
    traits = [a for a in it2.attrs if a.tag and a.tag[0] == "trait"]
    if kind == "no-trait-instr":
        it2.attrs = [a for a in it2.attrs if not (a.tag and a.tag[0] == "trait")]
    elif kind == "dup-instr":
        if not traits:
            return None
        t = r.choice(traits)
        head = t.args.split("|", 1)[0].strip()
        # the same counterpart requested twice for one kind: by the same name, or by another name whose kinds overlap
        # (`map` next to `from`, `into` next to `owned_into`, `try_map_owned` next to `owned_try_into`, ..)
        nm = t.name
        if r.random() < 0.5:
            ks, fall = gen.kinds_of(t.name)
            over = [n for n in gen.ALL24 if n != t.name and gen.kinds_of(n)[1] == fall and set(gen.kinds_of(n)[0]) & set(ks)]
            nm = r.choice(over) if over else nm
        it2.attrs.insert(r.randrange(len(it2.attrs) + 1), gen.Instr(nm, head, tag=t.tag))
    elif kind == "missing-err":
        c = "Zq1"
        it2.attrs.insert(r.randrange(len(it2.attrs) + 1), gen.Instr(r.choice(gen.TRY12), c, tag=("trait", c)))
    elif kind == "extra-err":
        c = "Zq2"
        it2.attrs.insert(r.randrange(len(it2.attrs) + 1), gen.Instr(r.choice(gen.MAP12), c + ", SomeErr", tag=("trait", c)))
    elif kind == "unknown-cpart-where":
        it2.attrs.insert(r.randrange(len(it2.attrs) + 1), gen.Instr("where_clause", "NoSuchType| T: Clone"))
    elif kind == "unknown-cpart-member":
        tgt = [f for f in it2.fields] + [f for v in it2.variants for f in v.fields]
        if not tgt:
            return None
        f = r.choice(tgt)
        f.attrs.insert(r.randrange(len(f.attrs) + 1), gen.Instr(r.choice(["map", "from", "into", "ghost"]), "NoSuchType| zz"))
    elif kind == "dup-default-where":
        it2.attrs = [a for a in it2.attrs if a.name != "where_clause"]
        for _ in range(2):
            it2.attrs.insert(r.randrange(len(it2.attrs) + 1), gen.Instr("where_clause", "T: Clone"))
    elif kind == "dup-default-ghosts":
        it2.attrs = [a for a in it2.attrs if not a.name.startswith("ghosts")]
        g = "zq: { 1 }" if it2.kind == "struct" else "Zq: { todo!() }"
        for _ in range(2):
            it2.attrs.insert(r.randrange(len(it2.attrs) + 1), gen.Instr("ghosts", g))
    elif kind == "misplaced-member":
        it2.attrs.insert(r.randrange(len(it2.attrs) + 1), gen.Instr(r.choice(["literal", "pattern", "type_hint", "repeat", "stop_repeat"]), None))
        if it2.attrs and it2.attrs[-1].name in ("repeat", "stop_repeat"):
            pass
    elif kind == "misnamed-type":
        it2.attrs.insert(r.randrange(len(it2.attrs) + 1), gen.Instr("ghost", "zq: { 1 }"))
    elif kind == "misplaced-type":
        tgt = [f for f in it2.fields] + [v for v in it2.variants]
        if not tgt:
            return None
        f = r.choice(tgt)
        f.attrs.insert(r.randrange(len(f.attrs) + 1), gen.Instr("where_clause", "T: Clone"))
    elif kind == "unknown-own":
        tgt = [it2] + [f for f in it2.fields] + [v for v in it2.variants]
        t = r.choice(tgt)
        t.attrs.insert(r.randrange(len(t.attrs) + 1), gen.Instr("zq_unknown_instr", None))
    elif kind == "ghost-no-default":
        if it2.kind != "struct" or not it2.fields:
            return None
        c = "Zq3"
        it2.attrs.insert(r.randrange(len(it2.attrs) + 1), gen.Instr("from_owned", c, tag=("trait", c)))
        f = r.choice(it2.fields)
        f.attrs = [a for a in f.attrs if not a.name.startswith("ghost")]
        f.attrs.insert(r.randrange(len(f.attrs) + 1), gen.Instr("ghost", None))
    elif kind == "child-no-parents":
        if it2.kind != "struct" or not it2.fields:
            return None
        c = "Zq4"
        it2.attrs = [a for a in it2.attrs if a.name != "child_parents"]
        it2.attrs.insert(r.randrange(len(it2.attrs) + 1), gen.Instr("owned_into", c, tag=("trait", c)))
        # never touch a member's ghost instructions: another injected fault (`ghost-no-default`) may live there
        cands = [f for f in it2.fields if not any(a.name.startswith("ghost") for a in f.attrs)]
        if not cands:
            return None
        f = r.choice(cands)
        f.attrs = [a for a in f.attrs if a.name not in ("child", "parent")]
        f.attrs.insert(r.randrange(len(f.attrs) + 1), gen.Instr("child", "zq_base"))
    elif kind == "tuple-named-no-name":
        # positional type (or variant) against a named counterpart: the instruction dedicated to that counterpart gives
        # an expression but no member name. Inserted at any position among the member's instructions, so that valid
        # default instructions may precede or follow it
        c = "Zq7"
        nofield = lambda f: not any(a.name.startswith("ghost") or a.name in ("parent", "child") for a in f.attrs)
        if it2.kind == "struct":
            cands = [f for f in it2.fields if nofield(f)] if it2.shape == "tuple" else []
            if not cands:
                return None
            it2.attrs.insert(r.randrange(len(it2.attrs) + 1), gen.Instr(r.choice(["owned_into", "ref_into", "into"]), c + " as {}", tag=("trait", c)))
        else:
            vs = [v for v in it2.variants if v.shape == "tuple" and any(nofield(f) for f in v.fields) and not any(a.name in ("ghost", "ghosts") for a in v.attrs)]
            if not vs:
                return None
            v = r.choice(vs)
            cands = [f for f in v.fields if nofield(f)]
            it2.attrs.insert(r.randrange(len(it2.attrs) + 1), gen.Instr(r.choice(["owned_into", "ref_into", "into"]), c, tag=("trait", c)))
            v.attrs.insert(r.randrange(len(v.attrs) + 1), gen.Instr("type_hint", c + "| as {}", tag=("th", None)))
        f = r.choice(cands)
        f.attrs.insert(r.randrange(len(f.attrs) + 1), gen.Instr(r.choice(["into", "map"]), c + "| ~.clone()"))
        if r.random() < 0.5:
            # a valid default instruction of the same kind in front of everything: the dedicated one still applies to Zq7
            f.attrs.insert(0, gen.Instr(r.choice(["into", "map"]), "zq_f" + r.choice(["", ", ~.clone()"])))
    elif kind == "untyped-nested-parent":
        if it2.kind != "struct" or not it2.fields:
            return None
        c = "Zq8"
        cands = [f for f in it2.fields if not any(a.name.startswith("ghost") for a in f.attrs)]
        if not cands:
            return None
        it2.attrs.insert(r.randrange(len(it2.attrs) + 1), gen.Instr(r.choice(["from_owned", "from_ref", "from", "map"]), c, tag=("trait", c)))
        f = r.choice(cands)
        # the untyped level sits at any depth of the nested list; other levels are typed, and may carry the same member name
        shape = r.choice(["[parent(zq_inner)] zq_t",
                          "[parent([parent(zq_l)] zq_m: ZqT)] zq_t",
                          "[parent([parent(zq_l)] zq_t)] zq_m: ZqT",
                          "[parent([parent(zq_l)] zq_t)] zq_t: ZqT",
                          "[parent([parent([parent(zq_l)] zq_t)] zq_t: ZqT)] zq_t: ZqU",
                          "zq_a, [parent(zq_b, [parent(zq_l)] zq_t)] zq_m: ZqT, zq_c"])
        f.attrs.insert(r.randrange(len(f.attrs) + 1), gen.Instr("parent", c + "| " + shape))
    elif kind == "update-next-to-bare-parent":
        # `..expr` on an instruction that generates an Into conversion (one-sided names included) of a counterpart for which
        # a member carries a parameterless #[parent] — also when that member has a #[parent(..)] list dedicated to the same
        # counterpart next to the default bare one: the body is assembled on a default value either way
        if it2.kind != "struct" or it2.shape not in ("named", "tuple"):
            return None
        c = "Zq10"
        nm = r.choice(["owned_into", "ref_into", "into", "map", "map_owned", "map_ref", "owned_try_into", "ref_try_into", "try_into", "try_map"])
        it2.attrs.insert(r.randrange(len(it2.attrs) + 1), gen.Instr(nm, c + (", String" if "try" in nm else "") + " | " + r.choice(["", "attribute(inline), "]) + "..zq_base()", tag=("trait", c)))
        pa = [gen.Instr("parent", None, tag=("parent", None))]
        if r.random() < 0.5:
            pa.insert(r.randrange(2), gen.Instr("parent", c + "| " + ("zq_x, zq_y" if it2.shape == "named" else "0, 1"), tag=("parent", c)))
        it2.fields.insert(r.randrange(len(it2.fields) + 1), gen.Field("zq_p" if it2.shape == "named" else None, "ZqBase", pa))
    elif kind == "update-into-existing":
        c = "Zq9"
        nm = r.choice(["into_existing", "owned_into_existing", "ref_into_existing", "try_into_existing", "owned_try_into_existing"])
        it2.attrs.insert(r.randrange(len(it2.attrs) + 1), gen.Instr(nm, c + (", String" if "try" in nm else "") + " | " + r.choice(["", "attribute(inline), "]) + "..zq_base()", tag=("trait", c)))
    elif kind == "ghost-child-no-parents":
        # a struct-level ghost addressed to a nested struct (`path@name`) of a counterpart that declares no such nested
        # struct — in an instruction of any flavour (dedicated, so that no default one shadows it), next to conversions of both flavours: the Into conversions it
        # applies to cannot be written, whichever other conversions the counterpart has
        if it2.kind != "struct":
            return None
        c = "Zq8"
        fl = r.choice(["", "_owned", "_ref", "_ref"])
        trs = r.choice([["into"], ["map"], ["owned_into", "ref_into"], ["ref_into", "owned_into"], ["try_into"], ["into", "from"],
                        {"": ["owned_into"], "_owned": ["owned_into"], "_ref": ["ref_into"]}[fl]])
        for nm in trs:
            it2.attrs.insert(r.randrange(len(it2.attrs) + 1), gen.Instr(nm, c + (", String" if "try" in nm else ""), tag=("trait", c)))
        it2.attrs.insert(r.randrange(len(it2.attrs) + 1), gen.Instr("ghosts" + fl, c + "| " + r.choice(["zq_base@zq_g: { 1 }", "zq_base.zq_in@zq_g: { 1 }, zq_top: { 2 }"]), tag=("ghosts", None)))
    elif kind == "repeat-param-conflict":
        # a repeat template that covers a parameter kind, followed by an instruction of the same name that sets that
        # parameter itself without `skip_repeat` (whether or not the template sets it)
        nm = r.choice(["from_owned", "owned_into", "map", "from", "ref_into"])
        what = r.choice(["vars", "update", "quick_return"] + (["default_case"] if it2.kind == "enum" else []))
        param = {"vars": "vars(zq: { 1 })", "update": "..zq_base()", "quick_return": "return zq(@)", "default_case": "_ => zq()"}[what]
        cover = r.choice(["repeat()", f"repeat({what})", f"repeat({what})"])
        tmpl_has = r.random() < 0.4
        t1 = "Zq5 | " + cover + (", " + param if tmpl_has else "")
        it2.attrs.append(gen.Instr(nm, t1, tag=("trait", "Zq5")))
        it2.attrs.append(gen.Instr(nm, "Zq6 | " + param, tag=("trait", "Zq6")))
    return it2


def oracle_update_parent(seed, thorough, syntax):
    """`..expr` has a meaning only where one struct expression is built. Inputs that put it on an Into instruction of a
    counterpart that is assembled on a default value (a parameterless #[parent] member) must not be accepted; if one is,
    the `..expr` tokens stand between statements (C08: they supply no field) and — `syntax` — rustc is asked to parse the body"""
    fails = []
    r = random.Random(seed + 88)
    items = []
    for k, prof in enumerate(["struct-flat", "trait-params"]):
        items += [it for it in gen.gen_items(prof, seed * 1000 + 530 + k, 150 if not thorough else 1500)]
    srcs = []
    for it in items:
        it2 = inject_fault(it, "update-next-to-bare-parent", r)
        if it2 is not None:
            srcs.append((it.meta["id"] + "~up", gen.render(it2, gen.speller(r) if r.random() < 0.3 else None)))
    outs = expand("s1", srcs)
    ok = [(i, s) for i, s in srcs if outs[i][0] == "OK"]
    bad = rustc_parse_errors([L.pretty_tokens(outs[i][1]) for i, _ in ok], f"up{seed}") if (syntax and ok) else {}
    for k, (i, s) in enumerate(ok):
        toks = outs[i][1].split()
        stray = any(toks[j] == "j." and toks[j + 1] == "p." and j > 0 and toks[j - 1] == "p;" for j in range(len(toks) - 1))
        if syntax:
            if k in bad:
                fails.append({"source": s, "what": "accepted input expands to tokens rustc cannot parse: " + bad[k][:120], "shrinkable": False})
        elif stray:
            fails.append({"source": s, "what": "`..expr` is accepted on a conversion whose body is assembled on a default value: the tokens stand between statements and supply no field", "shrinkable": False})
    return fails, len(srcs)


def oracle_c15(cases, seed, thorough):
    """fault injection: a documented misuse injected at a random position into an input that the derive parses must be
    rejected with the rule's message; two injected faults must both be reported"""
    fails = []
    r = random.Random(seed + 15)
    items = []
    for k, prof in enumerate(["struct-flat", "enum", "traits", "tree"]):
        items += gen.gen_items(prof, seed * 1000 + 400 + k, 200 if not thorough else 2500)
    base = [(it.meta["id"], gen.render(it)) for it in items]
    outs = expand("s1", base)
    faulty = []
    for it, (i, s) in zip(items, base):
        if outs[i][0] not in ("OK", "ERR"):
            continue  # parse-stage (library) rejection or panic: validation is never reached
        ks = r.sample(FAULTS, 2) if r.random() < 0.3 else [r.choice(FAULTS)]
        # faults that delete instructions go first so that they cannot delete another injected fault
        removers = ("no-trait-instr", "dup-default-where", "dup-default-ghosts", "ghost-no-default", "child-no-parents")
        ks.sort(key=lambda k: 0 if k[0] in removers else 1)
        names2 = [k[0] for k in ks]
        if len(ks) == 2 and "no-trait-instr" in names2 and any(x in ("dup-instr", "missing-err", "extra-err", "ghost-no-default", "child-no-parents", "repeat-param-conflict", "tuple-named-no-name", "untyped-nested-parent", "update-into-existing", "ghost-child-no-parents", "update-next-to-bare-parent") for x in names2):
            ks = [k for k in ks if k[0] == "no-trait-instr"]
        if len(ks) == 2 and {ks[0][0], ks[1][0]} == {"dup-default-where", "unknown-cpart-where"}:
            ks = ks[:1]
        it2 = it
        ok = True
        for kind, _ in ks:
            it2 = inject_fault(it2, kind, r)
            if it2 is None:
                ok = False
                break
        if ok:
            faulty.append((i, gen.render(it2, gen.speller(r) if r.random() < 0.3 else None), ks, s))
    outs2 = expand("s1", [(i, s2) for i, s2, _, _ in faulty])
    n = 0
    for i, s2, ks, s in faulty:
        o = outs2[i]
        if o[0] in ("LIBERR", "PANIC"):
            continue
        if o[0] == "ERR" and len(o[1]) == 1 and not all(fault_hit(text, o[1][0]) for _, text in ks):
            continue  # a parse-stage o2o diagnostic (single message) pre-empts validation: known limitation, see KNOWN_FINDINGS C15-parse-stage
        n += 1
        msgs = o[1] if o[0] == "ERR" else ()
        for kind, text in ks:
            if not any(fault_hit(text, m) for m in msgs):
                fails.append({"source": s2, "what": f"injected misuse `{kind}` is not reported (expected a diagnostic containing: {text})",
                              "detail": {"before_injection": s, "outcome": str(o)[:600]}, "shrinkable": False})
                break
    return fails, n


CATEGORY = {"child": "child", "parent": "parent", "ghost": "ghost", "ghost_owned": "ghost", "ghost_ref": "ghost", "type_hint": "type_hint"}


def category_of(a):
    if a.name in CATEGORY:
        return CATEGORY[a.name]
    if a.name in gen.ALL24 or a.name == "as_type":
        return "map"
    return None


def write_out_members(members):
    """documented meaning of member-level repeat for one struct / one variant payload (non-permeating)"""
    out = []
    active = None  # (instructions to copy)
    for m in members:
        names = [a.name for a in m.attrs]
        own = [a for a in m.attrs if a.name not in ("repeat", "skip_repeat", "stop_repeat")]
        if "stop_repeat" in names:
            active = None
        if "repeat" in names:
            rep = next(a for a in m.attrs if a.name == "repeat")
            cats = [c.strip() for c in (rep.args or "").split(",") if c.strip()]
            if any(c.startswith("permeate") for c in cats):
                return None
            if active is not None and "stop_repeat" not in names:
                return None  # unterminated: rejected by the derive
            cats = cats or ["map", "child", "parent", "ghost", "type_hint"]
            active = [a for a in own if category_of(a) in cats]
            out.append(own)
        elif active is not None and "skip_repeat" not in names:
            out.append(own + copy.deepcopy(active))
        else:
            out.append(own)
    return out


def write_out_enum_fields(variants):
    """documented meaning of member-level repeat on the payload members of an enum's variants: a plain repeat ends with its
    variant, a `repeat(permeate())` one is carried on over the following variants until `stop_repeat`"""
    out = []
    active = None  # (instructions to copy, permeating)
    for v in variants:
        vo = []
        for m in v.fields:
            names = [a.name for a in m.attrs]
            own = [a for a in m.attrs if a.name not in ("repeat", "skip_repeat", "stop_repeat")]
            if "stop_repeat" in names:
                active = None
            if "repeat" in names:
                rep = next(a for a in m.attrs if a.name == "repeat")
                cats = [c.strip() for c in (rep.args or "").split(",") if c.strip()]
                perm = any(c.startswith("permeate") for c in cats)
                cats = [c for c in cats if not c.startswith("permeate")]
                if active is not None and "stop_repeat" not in names:
                    return None  # unterminated: rejected by the derive
                cats = cats or ["map", "child", "parent", "ghost", "type_hint"]
                active = ([a for a in own if category_of(a) in cats], perm)
                vo.append(own)
            elif active is not None and "skip_repeat" not in names:
                vo.append(own + copy.deepcopy(active[0]))
            else:
                vo.append(own)
        if active is not None and not active[1]:
            active = None
        out.append(vo)
    return out


TRAIT_KINDS = ["vars", "update", "quick_return", "default_case"]


def write_out_traits(it):
    """documented meaning of trait-level repeat: returns a copy of the item without repeat / skip_repeat / stop_repeat
    marks and with the repeated parameters written on every instruction they reach; None when the documented meaning
    is a diagnostic (unterminated repeat, a parameter that would be overridden)"""
    it2 = copy.deepcopy(it)
    templates = {}
    for a in it2.attrs:
        if not (a.tag and a.tag[0] == "trait" and len(a.tag) > 2):
            continue
        info = a.tag[2]
        key = a.name
        marks = info["marks"]
        rep = next((m for m in marks if m.startswith("repeat")), None)
        if "stop_repeat" in marks:
            templates.pop(key, None)
        own = {k: info[k] for k in TRAIT_KINDS}
        if rep is not None:
            if key in templates:
                return None
            inner = rep[len("repeat("):-1].strip() if rep.startswith("repeat(") else ""
            covered = [x.strip() for x in inner.split(",") if x.strip()] or TRAIT_KINDS
            templates[key] = (covered, dict(own))
        elif key in templates and "skip_repeat" not in marks:
            covered, tv = templates[key]
            for k in covered:
                if own[k] is not None:
                    return None
                own[k] = tv[k]
        ps = [x for x in [own["vars"]] + info["other"] if x] + [x for x in (own["update"], own["quick_return"], own["default_case"]) if x]
        if sum(1 for x in (own["update"], own["quick_return"], own["default_case"]) if x) > 1:
            return None  # the written-out form cannot hold two tails in one instruction
        a.args = info["head"] + (" | " + ", ".join(ps) if ps else "")
    return it2


def oracle_c14_traits(seed, thorough):
    fails = []
    items = gen.gen_items("trait-repeat", seed * 1000 + 460, 600 if not thorough else 6000)
    pairs = []
    for it in items:
        it2 = write_out_traits(it)
        if it2 is None:
            continue
        pairs.append((it.meta["id"], gen.render(it), gen.render(it2)))
    a = expand("s1", [(i, s) for i, s, _ in pairs])
    b = expand("s1", [(i, s2) for i, _, s2 in pairs])
    n = 0
    for i, s, s2 in pairs:
        if a[i][0] in ("LIBERR", "PANIC") or b[i][0] in ("LIBERR", "PANIC"):
            continue
        n += 1
        if a[i] != b[i]:
            fails.append({"source": s, "what": "trait-level repeat differs from its written-out form", "detail": {"written_out": s2, "a": str(a[i])[:300], "b": str(b[i])[:300]}})
    return fails, n


def oracle_c14(cases, seed, thorough):
    ft, nt = oracle_c14_traits(seed, thorough)
    fm, nm = oracle_c14_members(cases, seed, thorough)
    return ft + fm, nt + nm


def oracle_c14_members(cases, seed, thorough):
    fails = []
    items = gen.gen_items("repeat", seed * 1000 + 450, 500 if not thorough else 6000)
    pairs = []
    REP = ("repeat", "skip_repeat", "stop_repeat")
    for it in items:
        if it.kind == "enum":
            if any(a.name in REP for v in it.variants for a in v.attrs) and any(a.name in REP for v in it.variants for f in v.fields for a in f.attrs):
                # both levels at once: each keeps its own state — the payload members are written out by their own marks, the
                # variants by theirs
                if any(a.name == "as_type" for v in it.variants for f in v.fields for a in f.attrs):
                    continue
                w1 = write_out_enum_fields(it.variants)
                w2 = write_out_members(it.variants)
                if w1 is None or w2 is None:
                    continue
                it2 = copy.deepcopy(it)
                for v, vo, va in zip(it2.variants, w1, w2):
                    v.attrs = va
                    for f, attrs in zip(v.fields, vo):
                        f.attrs = attrs
                pairs.append((it.meta["id"], gen.render(it), gen.render(it2)))
                continue
            # variant-level repeat: the variants are the members; payload members must not take part
            if not any(a.name in REP for v in it.variants for a in v.attrs):
                # no variant-level repeat: the payload members' own repeat instructions (plain and permeating)
                if not any(a.name in REP for v in it.variants for f in v.fields for a in f.attrs):
                    continue
                if any(a.name == "as_type" for v in it.variants for f in v.fields for a in f.attrs):
                    continue
                w = write_out_enum_fields(it.variants)
                if w is None:
                    continue
                it2 = copy.deepcopy(it)
                for v, vo in zip(it2.variants, w):
                    for f, attrs in zip(v.fields, vo):
                        f.attrs = attrs
                pairs.append((it.meta["id"], gen.render(it), gen.render(it2)))
                continue
            if any(a.name in REP or a.name == "as_type" for v in it.variants for f in v.fields for a in f.attrs):
                continue
            w = write_out_members(it.variants)
            if w is None:
                continue
            it2 = copy.deepcopy(it)
            for v, attrs in zip(it2.variants, w):
                v.attrs = attrs
            pairs.append((it.meta["id"], gen.render(it), gen.render(it2)))
            continue
        if it.kind != "struct" or not any(a.name in REP for f in it.fields for a in f.attrs):
            continue
        if any(a.name == "as_type" for f in it.fields for a in f.attrs):
            continue  # a repeated as_type keeps the origin member's type in its cast: documented exception
        w = write_out_members(it.fields)
        if w is None:
            continue
        it2 = copy.deepcopy(it)
        for f, attrs in zip(it2.fields, w):
            f.attrs = attrs
        # trait-level repeat params are not touched
        pairs.append((it.meta["id"], gen.render(it), gen.render(it2)))
    a = expand("s1", [(i, s) for i, s, _ in pairs])
    b = expand("s1", [(i, s2) for i, _, s2 in pairs])
    n = 0
    for i, s, s2 in pairs:
        if a[i][0] in ("LIBERR", "PANIC") or b[i][0] in ("LIBERR", "PANIC"):
            continue
        n += 1
        if a[i] != b[i]:
            fails.append({"source": s, "what": "member-level repeat differs from its written-out form", "detail": {"written_out": s2, "a": str(a[i])[:300], "b": str(b[i])[:300]}})
    return fails, n


ATTR_TOKENS = {
    "attribute(inline)": "p# [ iinline ]", "attribute(allow(unused))": "p# [ iallow ( iunused ) ]", "attribute(doc = \"x y\")": "p# [ idoc p= l\"x%20y\" ]",
    "impl_attribute(cfg(test))": "p# [ icfg ( itest ) ]", "impl_attribute(allow(dead_code))": "p# [ iallow ( idead_code ) ]",
    "inner_attribute(allow(unused_variables))": "p# p! [ iallow ( iunused_variables ) ]", "inner_attribute(rustfmt::skip)": "p# p! [ irustfmt j: p: iskip ]",
}


def oracle_c08_attrs(seed, thorough):
    """every impl an instruction produces carries the instruction's `attribute(..)` on the fn, `impl_attribute(..)` on the
    impl and `inner_attribute(..)` inside the fn body: the number of occurrences of each attribute in the real output is
    the number of impls requested by the instructions that carry it"""
    fails = []
    items = []
    for k, prof in enumerate(["trait-params", "parents", "tree"]):
        items += gen.gen_items(prof, seed * 1000 + 480 + k, 300 if not thorough else 3000)
    srcs = []
    expect = {}
    for it in items:
        exp = collections.Counter()
        for a in it.attrs:
            if not (a.tag and a.tag[0] == "trait") or "|" not in (a.args or ""):
                continue
            ks, _ = gen.kinds_of(a.name)
            params = a.args.split("|", 1)[1]
            for text, tok in ATTR_TOKENS.items():
                if text in params:
                    exp[tok] += len(ks)
        if exp:
            expect[it.meta["id"]] = exp
            srcs.append((it.meta["id"], gen.render(it)))
    outs = expand("s1", srcs)
    n = 0
    for i, s in srcs:
        if outs[i][0] != "OK":
            continue
        n += 1
        for tok, cnt in expect[i].items():
            got = outs[i][1].count(tok)
            if got != cnt:
                fails.append({"source": s, "what": f"attribute `{tok}` appears {got} time(s) in the expansion, the instructions that carry it request {cnt} impl(s)"})
                break
    return fails, n


RT_FAMILY = {"C01": "flat", "C07": "flat7", "C08": "flat", "C02": "enum", "C03": "tree", "C09": "prim", "C17": "wf", "C10": "subst", "C11": "generic", "C04": "generic"}


def oracle_rt(prop, seed, thorough):
    fam = RT_FAMILY[prop]
    fails, nmods, ntests, known = rt.campaign(fam, seed * 100 + int(prop[1:]), 150 if not thorough else 600)
    return fails, nmods, ntests, len(known)


def run_oracle(prop, cases, results, seed, thorough, disagreements):
    out = {"name": None, "evaluated": 0, "failures": []}
    try:
        if prop in RT_FAMILY:
            rf, nmods, ntests, nknown = oracle_rt(prop, seed, thorough)
            out["runtime_tie"] = {"family": RT_FAMILY[prop], "programs_compiled_and_run": nmods, "conversions_compared": ntests,
                                  "skipped_designed_in_known_defect_zone": nknown,
                                  "what": "designed closed programs through the real #[derive(o2o)] (rustc proc_macro bridge), printed values vs the documented meaning"}
            out["failures"] += rf
        if prop in ("C01", "C02", "C03", "C08", "C09"):
            out["name"] = "runtime tie: compile-and-run of designed programs vs documented meaning"
            out["evaluated"] = out["runtime_tie"]["conversions_compared"]
            if prop == "C08":
                out["name"] += " + attribute count: every impl of an instruction carries its attribute / impl_attribute / inner_attribute"
                fo, no = oracle_c08_attrs(seed, thorough)
                out["failures"] += fo
                out["evaluated"] += no
                # which instruction a repeated vars / update / return / default case reaches: the written-out form of trait-level repeat
                out["name"] += " + trait-level repeat vs its written-out form (who receives the repeated parameters)"
                fo, no = oracle_c14_traits(seed + 8, thorough)
                out["failures"] += fo
                out["evaluated"] += no
                out["name"] += " + `..expr` where no struct expression is built (Into conversion next to a parameterless #[parent]) is never accepted"
                fo, no = oracle_update_parent(seed + 8, thorough, syntax=False)
                out["failures"] += fo
                out["evaluated"] += no
            if prop == "C09":
                out["name"] += " + metamorphic: swapping a default with a dedicated #[literal] / #[pattern] leaves the real expansion unchanged"
                fo, no = oracle_c05_order(seed + 9, thorough, profiles=("enum-prim",))
                out["failures"] += fo
                out["evaluated"] += no
            if prop == "C01":
                out["name"] += " + metamorphic: an instruction on a later step of a member's lookup (infallible twin of a fallible one; `into` next to an into_existing one) never changes the conversion"
                fo, no = oracle_c05_shadowed(seed + 1, thorough)
                out["failures"] += fo
                out["evaluated"] += no
            if prop == "C03":
                out["name"] += " + metamorphic: swapping a default #[child] / #[parent] / mapping instruction with a dedicated neighbour of the same name leaves the real expansion unchanged"
                fo, no = oracle_c05_order(seed + 3, thorough, profiles=("tree", "parents"))
                out["failures"] += fo
                out["evaluated"] += no
            if prop == "C02":
                out["name"] += " + metamorphic: swapping a default with a dedicated variant / payload instruction of the same name leaves the real expansion unchanged"
                fo, no = oracle_c05_order(seed + 2, thorough, profiles=("enum-members", "enum", "multi-counterpart"))
                out["failures"] += fo
                out["evaluated"] += no
        elif prop == "C16":
            out["name"] = "catch_unwind on the real derive for every case"
            out["failures"] = oracle_c16(cases, results)
            out["evaluated"] = len(cases)
        elif prop == "C19":
            out["name"] = "byte comparison of repeated expansions (same process, fresh processes)"
            out["failures"] = oracle_c19(cases, results, seed, thorough)
            out["evaluated"] = len(cases)
        elif prop == "C18":
            out["name"] = "direct diff of the syn1 and syn2 builds"
            out["failures"] = oracle_c18(cases, results)
            out["evaluated"] = len(cases)
        elif prop == "C13":
            out["name"] = "metamorphic: random respelling (bare / o2o(x) / grouped) on the real derive"
            out["failures"], out["evaluated"] = oracle_c13(cases, results, seed, thorough)
        elif prop == "C12":
            out["name"] = "metamorphic: shortcuts written out (type, member, variant level) on the real derive"
            out["failures"], out["evaluated"] = oracle_c12(cases, results, seed, thorough)
        elif prop == "C06":
            out["name"] = "metamorphic: projection onto one counterpart on the real derive"
            out["failures"], out["evaluated"] = oracle_c06(cases, results, seed, thorough)
        elif prop == "C10":
            out["name"] = "no placeholder left + metamorphic marker-token pass-through on the real derive + runtime tie (designed programs whose expressions use ~ / @)"
            f10, n10 = oracle_c10(cases, seed, thorough)
            out["failures"] += f10
            out["evaluated"] = n10 + out["runtime_tie"]["conversions_compared"]
        elif prop == "C05":
            out["name"] = "metamorphic on the real derive: an instruction for a kind nobody requested, the infallible twin of a fallible instruction, and swapping a default with a dedicated instruction of the same name all leave the expansion unchanged"
            out["failures"], out["evaluated"] = oracle_c05(cases, seed, thorough)
        elif prop == "C15":
            out["name"] = "fault injection (15 documented misuse classes, single and paired, random position and spelling) on the real derive"
            out["failures"], out["evaluated"] = oracle_c15(cases, seed, thorough)
        elif prop == "C14":
            out["name"] = "metamorphic: member-level, variant-level and trait-level repeat vs the harness's own written-out form on the real derive"
            out["failures"], out["evaluated"] = oracle_c14(cases, seed, thorough)
        elif prop == "C17":
            out["name"] = "syn-2 `File` parse + shape inspection of the real output of every accepted case + rustc's parser on every accepted expansion (configured-out module) + runtime tie (designed programs with nested counterparts of mixed shapes must be accepted by rustc)"
            f17, n17 = oracle_c17(cases, seed, thorough)
            out["failures"] += f17
            f17s, n17s = oracle_c17_syntax(cases, seed, thorough)
            out["failures"] += f17s
            out["syntax_checked_by_rustc"] = n17s
            fu, nu = oracle_update_parent(seed + 17, thorough, syntax=True)
            out["failures"] += fu
            n17s += nu
            out["evaluated"] = n17 + n17s + out["runtime_tie"]["conversions_compared"]
        elif prop == "C04":
            out["name"] = "impl headers of the real output (parsed with syn 2) vs the documented impl set of the instructions"
            f4, n4 = oracle_c04(cases, seed, thorough)
            out["failures"] += f4
            out["evaluated"] = n4 + out["runtime_tie"]["conversions_compared"]
            out["name"] += " + runtime tie (generic programs, generic error types: rustc must accept the impls, values compared)"
        elif prop == "C20":
            out["name"] = "identifier scan of the real output minus the input's identifiers"
            out["failures"], out["evaluated"] = oracle_c20(cases, seed, thorough)
        elif prop == "C11":
            out["name"] = "real impl headers (syn-parsed): every lifetime used is declared, no parameter declared twice, the type applied in argument form, and the where-clause is the one the instructions designate for that counterpart"
            f11, n11 = oracle_c11(cases, seed, thorough)
            out["failures"] += f11
            fw, nw = oracle_c11_where(seed, thorough)
            out["failures"] += fw
            out["evaluated"] = n11 + nw + out["runtime_tie"]["conversions_compared"]
            out["name"] += " + runtime tie (generic programs: lifetimes, type parameters, counterpart-only lifetimes, both turbofish spellings, where-clauses — rustc must accept the impls, values compared)"
        elif prop == "C07":
            out["name"] = "owned vs by-reference bodies of symmetric mappings on the real output + runtime tie (all six flavours of one mapping on equal inputs)"
            f7, n7 = oracle_c07(cases, seed, thorough)
            out["failures"] += f7
            # every flavour picks among a member's instructions by the same rule (dedicated before default, whatever the written
            # order): swapping a default with a dedicated neighbour must leave all six flavours unchanged
            fo, no = oracle_c05_order(seed + 7, thorough, profiles=("member-instrs", "multi-counterpart", "struct-flat"))
            out["failures"] += fo
            # the fallible flavour of into_existing follows the instruction the infallible one follows: an Into-only
            # instruction (fallible or not) next to the member's own into_existing instruction changes neither
            fs, ns = oracle_c05_shadowed(seed + 7, thorough)
            out["failures"] += fs
            out["evaluated"] = n7 + no + ns + out["runtime_tie"]["conversions_compared"]
            out["name"] += " + metamorphic: default / dedicated neighbour swap; step order of the lookup (try_into_existing follows the member's into_existing instruction, not its try_into one)"
        else:
            out["name"] = "none beyond the correspondence (a broken tie is reported without a failing input)"
    except Exception as e:  # an oracle that cannot run must not hide a result
        out["error"] = repr(e)[:500]
    # a disagreement between model and implementation is itself a candidate failing input for properties whose
    # statement is "the implementation behaves like X" — it is reported through `broken`, not here
    return out


def classify_failure(prop, f, known):
    """returns the known finding this failure belongs to, or None"""
    for k in known:
        cls = k.get("class", {})
        # a panic-site class may be narrowed to the zone of inputs the finding describes: the same site reached from outside
        # that zone (e.g. because a validation rule stopped firing) is a new violation
        zone_ok = ("source_regex" not in cls) or re.search(cls["source_regex"], f.get("source", "")) is not None
        # .. or to the inputs on which the model evaluates a flag (`COLLISION`: the hypothesis whose negation the theorem
        # C16_derive_panics_only_at_todo_without_collision needs for this site to be reachable at all)
        if "model_flag" in cls and cls["model_flag"] not in f.get("flags", ()):
            zone_ok = False
        if "panic_site" in cls and f.get("site") == cls["panic_site"] and zone_ok:
            return k
        if "panic_site" in cls and str(f.get("site", "")).startswith("message:") and zone_ok:
            tag = f["site"][len("message:"):]
            if cls["panic_site"].endswith(tag) or (tag == "todo" and cls["panic_site"].endswith(":todo")):
                return k
        if "panic_site" in cls:
            continue
        if "source_regex" in cls and re.search(cls["source_regex"], f.get("source", "")) and cls.get("what", "") in f.get("what", ""):
            return k
    return None


def replay_finding(prop, k):
    """replays a listed witness on the real code. returns 'fails' | 'passes' | 'n/a'"""
    w = k.get("witness")
    if not w:
        return "n/a"
    exp = k.get("expect", {})
    b = exp.get("backend", "s1")
    o = expand(b, [("w", w)])["w"]
    if exp.get("outcome") == "backends-differ":
        return "fails" if o != expand("s2", [("w", w)])["w"] else "passes"
    if exp.get("outcome") == "panic":
        return "fails" if o[0] == "PANIC" else "passes"
    if exp.get("outcome") == "err-contains":
        return "fails" if o[0] in ("ERR", "LIBERR") and any(exp["text"] in m for m in (o[1] if len(o) > 1 else [])) else "passes"
    if exp.get("outcome") == "ok-contains":
        return "fails" if o[0] == "OK" and exp["text"] in o[1] else "passes"
    if exp.get("outcome") == "unparsable":
        return "fails" if o[0] == "OK" and rustc_parse_errors([L.pretty_tokens(o[1])], "witness") else "passes"
    if exp.get("outcome") == "ok-count":
        return "fails" if o[0] == "OK" and o[1].count(exp["text"]) >= exp["min"] else "passes"
    return "n/a"


def oracle_fails(prop, source, first):
    """used by the shrinker: does `source` still exhibit the failure `first`?"""
    if prop == "C16":
        return expand("s1", [("x", source)])["x"][0] == "PANIC"
    if prop == "C18":
        return L.canon_impl(L.run_harness("s1", [("x", source)], no_in=True)[1].get("x", "?")) != L.canon_impl(L.run_harness("s2", [("x", source)], no_in=True)[1].get("x", "?"))
    return False


def replay(prop, path):
    d = json.load(open(path))
    print(json.dumps({k: d[k] for k in d if k in ("property", "kind", "what", "source")}, indent=1))
    if d.get("kind") == "failing-input":
        for b in ("s1", "s2"):
            try:
                print(b, expand(b, [("r", d["source"])])["r"])
            except Exception as e:
                print(b, "error", e)
        ins, outs, _ = L.run_harness("s1", [("r", d["source"])])
        print("model:", L.run_model("s1", ins).get("r"))
        return 1
    return 1
