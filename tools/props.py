"""Per-property configuration: generator profiles, non-triviality rules, implementation-level oracles
(used to search for a failing input; never the source of a "holds" verdict), known-finding classification."""
import os, re, json, random, subprocess, collections, copy
import o2olib as L
import gen

PROPS = {
    "C01": {"profiles": ["struct-flat", "member-instrs"], "n_quick": 1500},
    "C02": {"profiles": ["enum", "multi-counterpart"], "n_quick": 1500},
    "C03": {"profiles": ["tree"], "n_quick": 1500},
    "C04": {"profiles": ["traits", "generics"], "n_quick": 1500},
    "C05": {"profiles": ["member-instrs", "multi-counterpart"], "n_quick": 1500},
    "C06": {"profiles": ["multi-counterpart", "tree", "enum"], "n_quick": 1500},
    "C07": {"profiles": ["struct-flat", "tree", "enum"], "n_quick": 1500},
    "C08": {"profiles": ["trait-params", "tree"], "n_quick": 1500},
    "C09": {"profiles": ["enum-prim"], "n_quick": 1200},
    "C10": {"profiles": ["expr"], "n_quick": 1500},
    "C11": {"profiles": ["generics"], "n_quick": 1500},
    "C12": {"profiles": ["traits", "member-instrs", "enum"], "n_quick": 1500},
    "C13": {"profiles": ["struct-flat", "enum", "tree", "trait-params"], "n_quick": 1200, "backends": ["s1", "s2"]},
    "C14": {"profiles": ["repeat"], "n_quick": 1500},
    "C15": {"profiles": ["faults", "hostile"], "n_quick": 1500},
    "C16": {"profiles": ["hostile", "enum-prim", "tree", "faults"], "n_quick": 2000},
    "C17": {"profiles": ["struct-flat", "enum", "tree", "trait-params", "generics"], "n_quick": 1500},
    "C18": {"profiles": ["hostile", "struct-flat", "enum", "tree"], "n_quick": 1600, "backends": ["s1", "s2"]},
    "C19": {"profiles": ["faults", "hostile", "multi-counterpart"], "n_quick": 1500},
    "C20": {"profiles": ["expr", "struct-flat", "enum", "tree"], "n_quick": 1500},
}

RULES = {
    "default": "corpus = every #[derive(o2o)] input of o2o-tests, o2o-impl/src/tests.rs and README (read from the working tree) + cases from tools/gen.py "
               "(one random.Random(VERIF_SEED) per profile). A case counts as non-trivial when it carries at least one member-level instruction or a "
               "trait-instruction parameter; distinct = structural hash (instruction names, punctuation, shapes kept; other identifiers and literals normalised).",
    "C03": "as default, and the case must contain a child / child_parents / parent instruction",
    "C09": "as default, and the case must contain a literal or pattern instruction",
    "C11": "as default, and the item must be generic or the counterpart path must carry generic arguments",
    "C14": "as default, and the case must contain repeat / skip_repeat / stop_repeat",
    "C16": "every case counts (the property quantifies over arbitrary inputs); distinct by structural hash",
    "C18": "every case counts; distinct by structural hash; each case is expanded by both back-ends",
    "C19": "every case counts; distinct by structural hash; each case is expanded twice in-process and once more in a second process",
}

ASSUMPTIONS = {
    "all": [
        "the theorems are about the Lean model (lean/O2oModel); the model is tied to /repo by the translator (tables, quote! skeletons, inventories "
        "regenerated each run) and by the correspondence check on the cases counted above",
        "syn / quote / proc-macro2 behaviour (Path, Member, Punctuated parsing and printing, Display of token streams) is modelled in Syn.lean, not verified",
        "the in-process harness uses proc-macro2's fallback implementation, not rustc's proc_macro bridge",
    ],
    "C01": ["runtime values are not modelled: the theorems show which tokens are emitted for which slot/source; that rustc evaluates `T { a: e }` by storing e in a is rustc's semantics"],
    "C02": ["as C01; `match` semantics (first matching arm) is rustc's"],
    "C03": ["the once-construction theorem for arbitrary interleavings is not proved yet; the sort is proved a stable permutation ordered by group index"],
    "C07": ["agreement is proved syntactically (same plumbing tokens); equality of runtime values follows only under rustc's semantics of those tokens"],
    "C09": ["pattern matching semantics is rustc's"],
    "C11": ["'type-checks' is rustc's judgement: the header construction is proved, acceptance by rustc is not modelled"],
    "C18": ["the two syn versions are library code: compared by running both builds on every case, not proved"],
    "C20": ["the actual #![no_std] build is not part of this check"],
}


def nontrivial(prop, s):
    body = s
    if prop in ("C16", "C18", "C19"):
        return True
    if prop == "C03":
        return bool(re.search(r"\b(child|child_parents|parent)\b", s))
    if prop == "C09":
        return bool(re.search(r"\b(literal|pattern)\b", s))
    if prop == "C11":
        return bool(re.search(r"(struct|enum)\s+\w+\s*<", s)) or bool(re.search(r"\(\s*[\w:]+\s*(::)?\s*<", s))
    if prop == "C14":
        return bool(re.search(r"\b(repeat|skip_repeat|stop_repeat)\b", s))
    m = re.search(r"(struct|enum)\s+\w+", s)
    inner = s[m.end():] if m else s
    return "#" in inner or "|" in s[: m.start()] if m else "#" in s


def extra_cases(prop, seed, thorough):
    """property-specific additions to the correspondence cases"""
    out = []
    r = random.Random(seed * 7919 + 13)
    if prop == "C13":
        # respelled variants of structured items
        for k, prof in enumerate(["struct-flat", "enum", "tree", "trait-params"]):
            for it in gen.gen_items(prof, seed * 1000 + 500 + k, 120 if not thorough else 1500):
                out.append((it.meta["id"] + "~sp", gen.render(it, gen.speller(r))))
    return out


# ------------------------------------------------------------------------------------------
# helpers for the metamorphic oracles

def expand(backend, sources):
    """sources: list of (id, src) -> {id: canonical impl outcome}"""
    _, outs, _ = L.run_harness(backend, sources, no_in=True)
    return {i: L.canon_impl(outs.get(i, "?")) for i, _ in sources}


def split_impls(tokens):
    """split an OK token string into impl items (top-level `iimpl` boundaries, attributes attached to the next impl)"""
    toks = tokens.split()
    items, cur, depth = [], [], 0
    start_positions = []
    k = 0
    # an item ends with its top-level brace group
    while k < len(toks):
        t = toks[k]
        cur.append(t)
        if t in ("(", "[", "{", "N("):
            depth += 1
        elif t in (")", "]", "}", "N)"):
            depth -= 1
            if depth == 0 and t == "}" and "iimpl" in cur:
                items.append(" ".join(cur))
                cur = []
        k += 1
    if cur:
        items.append(" ".join(cur))
    return items


# ------------------------------------------------------------------------------------------
# oracles. Each returns a list of failures: {"source":…, "what":…, "detail":…}

def oracle_c16(cases, results):
    fails = []
    res = results.get("s1") or next(iter(results.values()), None)
    if not res:
        return fails
    src = dict(cases)
    for i, line in res["outs"].items():
        if line.startswith("PANIC"):
            site = None
            m = res["mod"].get(i, "")
            if m.startswith("PANIC"):
                site = L.unesc(m[6:])
            fails.append({"source": src.get(i, ""), "what": "derive panicked: " + L.unesc(line[6:])[:120], "site": site, "detail": {"model": m[:200]}})
    return fails


def oracle_c19(cases, results, seed, thorough):
    fails = []
    src = dict(cases)
    sub = cases if thorough else cases[: 1500]
    _, outs1, nondet = L.run_harness("s1", sub, no_in=True, repeat=2)
    for i in nondet:
        fails.append({"source": src[i], "what": "two expansions in one process differ", "shrinkable": False})
    procs = 4 if thorough else 1
    for p in range(procs):
        _, outs2, _ = L.run_harness("s1", sub, no_in=True)
        for i, _ in sub:
            if outs1.get(i) != outs2.get(i):
                fails.append({"source": src[i], "what": "expansions in two processes differ", "detail": {"a": outs1.get(i, "")[:400], "b": outs2.get(i, "")[:400]}, "shrinkable": False})
    return fails


def oracle_c18(cases, results):
    fails = []
    if "s1" not in results or "s2" not in results:
        return fails
    src = dict(cases)
    for i, _ in cases:
        a = L.canon_impl(results["s1"]["outs"].get(i, "?"))
        b = L.canon_impl(results["s2"]["outs"].get(i, "?"))
        if a[0] == "SKIP" or b[0] == "SKIP":
            continue
        if a != b:
            fails.append({"source": src[i], "what": "syn1 and syn2 builds disagree", "detail": {"syn1": str(a)[:600], "syn2": str(b)[:600]}})
    return fails


def oracle_c13(cases, results, seed, thorough):
    """respell: bare / o2o(single) / grouped spellings of the same structured item must expand identically"""
    fails = []
    r = random.Random(seed + 99)
    items = []
    for k, prof in enumerate(["struct-flat", "enum", "tree", "trait-params", "repeat"]):
        items += gen.gen_items(prof, seed * 1000 + 700 + k, 150 if not thorough else 2000)
    base, resp = [], []
    for it in items:
        # all instructions of these profiles have a bare form or are rendered inside o2o(..) in both spellings
        base.append((it.meta["id"], gen.render(it)))
        resp.append((it.meta["id"], gen.render(it, gen.speller(r))))
    for b in ("s1",):
        a = expand(b, base)
        c = expand(b, resp)
        for (i, s1), (_, s2) in zip(base, resp):
            x, y = a[i], c[i]
            if x[0] == "OK" and y[0] == "OK":
                if x != y:
                    fails.append({"source": s2, "what": "respelled input expands differently", "detail": {"bare": s1}})
            elif (x[0] == "OK") != (y[0] == "OK"):
                # accept/reject must agree, except for names that are not instructions at that level (bare: may belong to
                # another macro) — our generator only emits real instructions, so any difference counts
                fails.append({"source": s2, "what": "respelled input is accepted/rejected differently", "detail": {"bare": s1, "bare_outcome": str(x)[:300], "respelled_outcome": str(y)[:300]}})
    return fails, len(base)


def desugar_item(it, r):
    """write shortcuts out (type level and member level), preserving order"""
    it2 = copy.deepcopy(it)

    def expand_list(attrs):
        out = []
        for a in attrs:
            base = gen.UNTRY.get(a.name, a.name)
            fall = a.name in gen.UNTRY
            if base in gen.SHORT and r.random() < 0.8:
                for b in gen.SHORT[base]:
                    nm = gen.try_name(b) if fall else b
                    out.append(gen.Instr(nm, a.args, a.tag))
            elif a.name in ("ghost", "ghosts") and r.random() < 0.8:
                out.append(gen.Instr(a.name + "_owned", a.args, a.tag))
                out.append(gen.Instr(a.name + "_ref", a.args, a.tag))
            else:
                out.append(a)
        return out
    it2.attrs = expand_list(it2.attrs)
    for f in it2.fields:
        f.attrs = expand_list(f.attrs)
    for v in it2.variants:
        v.attrs = expand_list(v.attrs)
        for f in v.fields:
            f.attrs = expand_list(f.attrs)
    return it2


def oracle_c12(cases, results, seed, thorough):
    fails = []
    r = random.Random(seed + 12)
    items = []
    for k, prof in enumerate(["traits", "member-instrs", "enum", "struct-flat"]):
        items += gen.gen_items(prof, seed * 1000 + 800 + k, 150 if not thorough else 2000)
    # C12 is stated "absent repeat() parameters"
    items = [it for it in items if "repeat" not in gen.render(it)]
    base = [(it.meta["id"], gen.render(it)) for it in items]
    des = [(it.meta["id"], gen.render(desugar_item(it, r))) for it in items]
    a = expand("s1", base)
    c = expand("s1", des)
    for (i, s1), (_, s2) in zip(base, des):
        x, y = a[i], c[i]
        if x[0] == "OK" and y[0] == "OK":
            if sorted(split_impls(x[1])) != sorted(split_impls(y[1])):
                fails.append({"source": s1, "what": "shortcut and written-out form generate different impls", "detail": {"written_out": s2}})
        elif (x[0] == "OK") != (y[0] == "OK"):
            fails.append({"source": s1, "what": "shortcut and written-out form are accepted/rejected differently", "detail": {"written_out": s2, "a": str(x)[:300], "b": str(y)[:300]}})
    return fails, len(base)


def counterpart_of_impl(item_tokens, self_name):
    """the counterpart type text of an impl item: generic argument of the trait"""
    m = re.search(r"i(?:From|TryFrom|Into|TryInto|IntoExisting|TryIntoExisting) p< (.*?) ifor ", item_tokens)
    return m.group(1) if m else None


def project_item(it, keep):
    """remove every instruction that concerns a counterpart other than `keep`"""
    it2 = copy.deepcopy(it)

    def relevant(a):
        if a.tag and a.tag[0] == "trait":
            return a.tag[1] == keep
        if a.args and "|" in a.args:
            head = a.args.split("|", 1)[0].strip()
            # dedicated form `Type| …`
            if re.fullmatch(r"[A-Za-z_][\w:<>', ]*", head) and head in it.meta.get("cparts", []) and head != keep:
                return False
        if a.tag and a.tag[0] == "ghost" and a.args and a.args.strip() in it.meta.get("cparts", []) and a.args.strip() != keep:
            return False
        return True
    it2.attrs = [a for a in it2.attrs if relevant(a)]
    for f in it2.fields:
        f.attrs = [a for a in f.attrs if relevant(a)]
    for v in it2.variants:
        v.attrs = [a for a in v.attrs if relevant(a)]
        for f in v.fields:
            f.attrs = [a for a in f.attrs if relevant(a)]
    return it2


def oracle_c06(cases, results, seed, thorough):
    fails = []
    items = []
    for k, prof in enumerate(["multi-counterpart", "tree", "enum"]):
        items += gen.gen_items(prof, seed * 1000 + 900 + k, 200 if not thorough else 2500)
    items = [it for it in items if len(it.meta.get("cparts", [])) >= 2 and not any(c.startswith("(") for c in it.meta["cparts"])]
    full = [(it.meta["id"], gen.render(it)) for it in items]
    a = expand("s1", full)
    proj, keepers = [], {}
    for it in items:
        keep = it.meta["cparts"][0]
        keepers[it.meta["id"]] = keep
        proj.append((it.meta["id"], gen.render(project_item(it, keep))))
    c = expand("s1", proj)
    n = 0
    for (i, s1), (_, s2) in zip(full, proj):
        x, y = a[i], c[i]
        if x[0] != "OK" or y[0] != "OK":
            continue
        n += 1
        keep = keepers[i]
        # impls for `keep` in the full expansion = all impls of the projection
        enc_keep = None
        want = split_impls(y[1])
        got_all = split_impls(x[1])
        got = [g for g in got_all if g in want]
        if sorted(got) != sorted(want) or len(got_all) < len(want):
            fails.append({"source": s1, "what": f"impls for counterpart {keep} change when the instructions for the other counterparts are removed", "detail": {"projected": s2}})
    return fails, n


def run_oracle(prop, cases, results, seed, thorough, disagreements):
    out = {"name": None, "evaluated": 0, "failures": []}
    try:
        if prop == "C16":
            out["name"] = "catch_unwind on the real derive for every case"
            out["failures"] = oracle_c16(cases, results)
            out["evaluated"] = len(cases)
        elif prop == "C19":
            out["name"] = "byte comparison of repeated expansions (same process, fresh processes)"
            out["failures"] = oracle_c19(cases, results, seed, thorough)
            out["evaluated"] = len(cases)
        elif prop == "C18":
            out["name"] = "direct diff of the syn1 and syn2 builds"
            out["failures"] = oracle_c18(cases, results)
            out["evaluated"] = len(cases)
        elif prop == "C13":
            out["name"] = "metamorphic: random respelling (bare / o2o(x) / grouped) on the real derive"
            out["failures"], out["evaluated"] = oracle_c13(cases, results, seed, thorough)
        elif prop == "C12":
            out["name"] = "metamorphic: shortcuts written out (type, member, variant level) on the real derive"
            out["failures"], out["evaluated"] = oracle_c12(cases, results, seed, thorough)
        elif prop == "C06":
            out["name"] = "metamorphic: projection onto one counterpart on the real derive"
            out["failures"], out["evaluated"] = oracle_c06(cases, results, seed, thorough)
        else:
            out["name"] = "none beyond the correspondence (a broken tie is reported without a failing input)"
    except Exception as e:  # an oracle that cannot run must not hide a result
        out["error"] = repr(e)[:500]
    # a disagreement between model and implementation is itself a candidate failing input for properties whose
    # statement is "the implementation behaves like X" — it is reported through `broken`, not here
    return out


def classify_failure(prop, f, known):
    """returns the known finding this failure belongs to, or None"""
    for k in known:
        cls = k.get("class", {})
        if "panic_site" in cls and f.get("site") == cls["panic_site"]:
            return k
        if "source_regex" in cls and re.search(cls["source_regex"], f.get("source", "")) and cls.get("what", "") in f.get("what", ""):
            return k
    return None


def replay_finding(prop, k):
    """replays a listed witness on the real code. returns 'fails' | 'passes' | 'n/a'"""
    w = k.get("witness")
    if not w:
        return "n/a"
    exp = k.get("expect", {})
    b = exp.get("backend", "s1")
    o = expand(b, [("w", w)])["w"]
    if exp.get("outcome") == "panic":
        return "fails" if o[0] == "PANIC" else "passes"
    if exp.get("outcome") == "err-contains":
        return "fails" if o[0] in ("ERR", "LIBERR") and any(exp["text"] in m for m in (o[1] if len(o) > 1 else [])) else "passes"
    if exp.get("outcome") == "ok-contains":
        return "fails" if o[0] == "OK" and exp["text"] in o[1] else "passes"
    return "n/a"


def oracle_fails(prop, source, first):
    """used by the shrinker: does `source` still exhibit the failure `first`?"""
    if prop == "C16":
        return expand("s1", [("x", source)])["x"][0] == "PANIC"
    if prop == "C18":
        return L.canon_impl(L.run_harness("s1", [("x", source)], no_in=True)[1].get("x", "?")) != L.canon_impl(L.run_harness("s2", [("x", source)], no_in=True)[1].get("x", "?"))
    return False


def replay(prop, path):
    d = json.load(open(path))
    print(json.dumps({k: d[k] for k in d if k in ("property", "kind", "what", "source")}, indent=1))
    if d.get("kind") == "failing-input":
        for b in ("s1", "s2"):
            try:
                print(b, expand(b, [("r", d["source"])])["r"])
            except Exception as e:
                print(b, "error", e)
        ins, outs, _ = L.run_harness("s1", [("r", d["source"])])
        print("model:", L.run_model("s1", ins).get("r"))
        return 1
    return 1
