import O2oModel.Expand
import O2oModel.WF
open O2o

def outcomeLine : Outcome → String
  | .ok ts => "OK " ++ writeTS ts
  | .err msgs => "ERR " ++ toString msgs.length ++ String.join (msgs.map fun m => " " ++ esc m)
  | .libErr => "LIBERR"
  | .panic site => "PANIC " ++ esc site
  | .unsupported why => "UNSUPPORTED " ++ esc why

/-- the lines answered for one input: the outcome, preceded by `FLAG id COLLISION` when names collide in the parsed input
    (the zone outside which `C16_derive_panics_only_at_todo_without_collision` leaves one panic site) -/
def handle (b : Back) (line : String) : Option String :=
  match line.splitOn " " with
  | "IN" :: id :: rest =>
    match rest with
    | "SKIP" :: _ => some ("MOD " ++ id ++ " SKIP")
    | _ =>
      match readAtoms (rest.filter (· ≠ "")) [] [] with
      | none => some ("MOD " ++ id ++ " BADINPUT")
      | some ts =>
        match decodeInput ts with
        | none => some ("MOD " ++ id ++ " BADINPUT")
        | some inp =>
          -- the hypotheses of C16_validated_only_findings / C16_validated_no_collision_only_todo, tested on every parsed input
          match parseInput b inp with
          | some dt =>
            if dt.pathsWF && (dt.shapeWF || !inp.shapeWF) then
              some ((if dt.noKeyCollision then "" else "FLAG " ++ id ++ " COLLISION\n") ++ "MOD " ++ id ++ " " ++ outcomeLine (derive b inp))
            else some ("MOD " ++ id ++ " WFVIOLATION")
          | none => some ("MOD " ++ id ++ " " ++ outcomeLine (derive b inp))
  | _ => none

partial def loop (b : Back) (h : IO.FS.Stream) (out : IO.FS.Stream) : IO Unit := do
  let line ← h.getLine
  if line.isEmpty then return ()
  let line := line.trimAsciiEnd.toString
  match handle b line with
  | some o => out.putStrLn o
  | none => pure ()
  loop b h out

def main (args : List String) : IO Unit := do
  let b := if args.contains "syn2" then Back.syn2 else Back.syn1
  let out ← IO.getStdout
  loop b (← IO.getStdin) out
