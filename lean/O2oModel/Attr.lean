/-
Model of o2o-impl/src/attr.rs: parsed instruction types, their parsers, and the lookup functions
of `DataTypeAttrs` / `MemberAttrs`. Mirrors the Rust function by function.
-/
import O2oModel.Syn
import O2oModel.Generated
namespace O2o

inductive Kind | ownedInto | refInto | fromOwned | fromRef | ownedIntoExisting | refIntoExisting
  deriving DecidableEq, Repr, Inhabited

def Kind.all : List Kind := [.ownedInto, .refInto, .fromOwned, .fromRef, .ownedIntoExisting, .refIntoExisting]

def Kind.rustName : Kind → String
  | .ownedInto => "OwnedInto" | .refInto => "RefInto" | .fromOwned => "FromOwned"
  | .fromRef => "FromRef" | .ownedIntoExisting => "OwnedIntoExisting" | .refIntoExisting => "RefIntoExisting"

def Kind.isRef (k : Kind) : Bool := k == .fromRef || k == .refInto || k == .refIntoExisting
def Kind.isFrom (k : Kind) : Bool := k == .fromOwned || k == .fromRef
def Kind.isIntoExisting (k : Kind) : Bool := k == .ownedIntoExisting || k == .refIntoExisting

/-- `FallibleKind` Display, through the regenerated table -/
def fallibleKindName (k : Kind) (fallible : Bool) : String :=
  match Gen.fallibleKindName.find? (fun e => e.1 == (k.rustName, fallible)) with
  | some e => e.2
  | none => "?"

/-- `ApplicableTo = [bool; 6]` -/
abbrev Appl := List Bool

/-- `impl Index<&Kind> for ApplicableTo`, through the regenerated index table -/
def Appl.get (a : Appl) (k : Kind) : Bool :=
  match Gen.kindIndex.find? (fun e => e.1 == k.rustName) with
  | some e => a.getD e.2 false
  | none => false

def applFn (fn : String) (instr : String) : Bool :=
  match fn with
  | "appl_owned_into" => Gen.applOwnedInto.contains instr
  | "appl_ref_into" => Gen.applRefInto.contains instr
  | "appl_from_owned" => Gen.applFromOwned.contains instr
  | "appl_from_ref" => Gen.applFromRef.contains instr
  | "appl_owned_into_existing" => Gen.applOwnedIntoExisting.contains instr
  | "appl_ref_into_existing" => Gen.applRefIntoExisting.contains instr
  | "appl_ghosts_owned" => Gen.applGhostsOwned.contains instr
  | "appl_ghosts_ref" => Gen.applGhostsRef.contains instr
  | "appl_ghost_owned" => Gen.applGhostOwned.contains instr
  | "appl_ghost_ref" => Gen.applGhostRef.contains instr
  | _ => false

def applOf (fns : List String) (instr : String) : Appl := fns.map (applFn · instr)

/-! ### parsed instruction data -/

structure TypePath where
  path : TS
  pathStr : String
  generics : Option GenArgs
  namelessTuple : Bool
  deriving Repr, Inhabited

instance : BEq TypePath := ⟨fun a b => a.pathStr == b.pathStr⟩

def Path.dropLastArgs (pth : Path) : Path :=
  match pth.segs.reverse with
  | last :: init => { pth with segs := (({ last with args := none }) :: init).reverse }
  | [] => pth

/-- `impl From<syn::Path> for TypePath` -/
def TypePath.ofPath (pth : Path) : TypePath :=
  match pth.segs.getLast? with
  | some { args := some g, .. } =>
    { path := pth.dropLastArgs.toTS, pathStr := display pth.toTS, generics := some g, namelessTuple := false }
  | _ => { path := pth.toTS, pathStr := display pth.toTS, generics := none, namelessTuple := false }

/-- `impl From<TokenStream> for TypePath` -/
def TypePath.ofTokens (ts : TS) : TypePath :=
  { path := ts, pathStr := display ts, generics := none, namelessTuple := true }

inductive TypeHint | unit | struct | tuple | unspecified
  deriving DecidableEq, Repr, Inhabited

def TypeHint.maybe (h m : TypeHint) : Bool := h == m || h == .unspecified

structure InitData where
  ident : String
  action : TS
  deriving Repr, Inhabited

structure TraitAttrCore where
  ty : TypePath
  errTy : Option TypePath
  typeHint : TypeHint
  initData : Option (List InitData) := none
  update : Option TS := none
  quickReturn : Option TS := none
  defaultCase : Option TS := none
  /-- `[vars, update, quick_return, default_case]` -/
  repeat_ : Option (List Bool) := none
  skipRepeat : Bool := false
  stopRepeat : Bool := false
  fnAttr : Option TS := none
  implAttr : Option TS := none
  innerAttr : Option TS := none
  deriving Repr, Inhabited

structure TraitAttr where
  core : TraitAttrCore
  fallible : Bool
  appl : Appl
  deriving Repr, Inhabited

structure ChildPath where
  path : List Member
  strs : List String
  deriving Repr, Inhabited

/-- `build_child_path_str` -/
def buildChildPathStr : List Member → List String → List String
  | [], acc => acc.reverse
  | m :: ms, [] => buildChildPathStr ms [m.str]
  | m :: ms, last :: acc => buildChildPathStr ms ((last ++ "." ++ m.str) :: last :: acc)

def ChildPath.ofMembers (ms : List Member) : ChildPath := { path := ms, strs := buildChildPathStr ms [] }

/-- `ChildPath::get_child_path_str`; indexing out of range is a panic in the code -/
def ChildPath.getStr (c : ChildPath) : Option Nat → Except PErr String
  | none => .ok (c.strs.getLast?.getD "")
  | some d => match c.strs[d]? with
    | some s => .ok s
    | none => .error (.panic "attr.rs:ChildPath::get_child_path_str:index")

inductive GhostIdent
  | member (m : Member)
  | destruction (ts : TS)
  deriving Repr, Inhabited

structure GhostData where
  childPath : Option ChildPath
  ghostIdent : GhostIdent
  action : TS
  deriving Repr, Inhabited

/-- `GhostIdent::get_ident` -/
def GhostIdent.getIdent : GhostIdent → Except PErr Member
  | .member m => .ok m
  | .destruction _ => .error (.panic "attr.rs:GhostIdent::get_ident:unreachable(16)")

def GhostData.getChildPathStr (g : GhostData) (depth : Option Nat) : Except PErr String :=
  match g.childPath with
  | some c => c.getStr depth
  | none => .ok ""

structure StructGhostAttrCore where
  containerTy : Option TypePath
  ghostData : List GhostData
  deriving Repr, Inhabited

structure GhostsAttr where
  attr : StructGhostAttrCore
  appl : Appl
  deriving Repr, Inhabited

structure WhereAttr where
  containerTy : Option TypePath
  /-- printed `Punctuated<WherePredicate, Token![,]>` -/
  whereClause : TS
  deriving Repr, Inhabited

structure ChildParentData where
  ty : TS
  typeHint : TypeHint
  fieldPath : List Member
  fieldPathStr : String
  deriving Repr, Inhabited

structure ChildParentsAttr where
  containerTy : Option TypePath
  childParents : List ChildParentData
  deriving Repr, Inhabited

structure MemberAttrCore where
  containerTy : Option TypePath
  member : Option Member
  action : Option TS
  deriving Repr, Inhabited

structure MemberAttr where
  attr : MemberAttrCore
  fallible : Bool
  originalInstr : String
  appl : Appl
  deriving Repr, Inhabited

structure ParentChildFieldAttr where
  thatMember : Option Member
  action : Option TS
  appl : Appl
  deriving Repr, Inhabited

structure ParentChildField where
  thisMember : Member
  attrs : List ParentChildFieldAttr
  /-- (member, printed type path if given) -/
  subPath : List (Member × Option TS)
  subPathTokens : TS
  deriving Repr, Inhabited

structure ParentAttr where
  containerTy : Option TypePath
  childFields : Option (List ParentChildField)
  deriving Repr, Inhabited

structure FieldGhostAttrCore where
  containerTy : Option TypePath
  action : Option TS
  deriving Repr, Inhabited

structure GhostAttr where
  attr : FieldGhostAttrCore
  appl : Appl
  deriving Repr, Inhabited

structure ChildAttr where
  containerTy : Option TypePath
  childPath : ChildPath
  deriving Repr, Inhabited

structure AsAttr where
  containerTy : Option TypePath
  member : Option Member
  tokens : TS
  deriving Repr, Inhabited

structure LitAttr where
  containerTy : Option TypePath
  tokens : TS
  deriving Repr, Inhabited

structure PatAttr where
  containerTy : Option TypePath
  tokens : TS
  deriving Repr, Inhabited

structure VariantTypeHintAttr where
  containerTy : Option TypePath
  typeHint : TypeHint
  deriving Repr, Inhabited

structure MemberRepeatAttr where
  permeate : Bool
  /-- `[map, child, parent, ghost, type_hint]` -/
  repeatFor : List Bool
  deriving Repr, Inhabited

/-- the error-carrying instruction variants (`Misplaced`, `Misnamed`, `UnrecognizedWithError`) -/
inductive ErrInstr
  | misplaced (instr : String) (own : Bool)
  | misnamed (instr guess : String) (own : Bool)
  | unrecognizedWithError (instr : String)
  deriving Repr, Inhabited

inductive DataTypeInstruction
  | map (a : TraitAttr) | ghosts (a : GhostsAttr) | where_ (a : WhereAttr) | childParents (a : ChildParentsAttr)
  | allowUnknown | err (e : ErrInstr) | unrecognized
  deriving Repr, Inhabited

inductive MemberInstruction
  | map (a : MemberAttr) | ghost (a : GhostAttr) | ghosts (a : GhostsAttr) | child (a : ChildAttr)
  | parent (a : ParentAttr) | as_ (a : AsAttr) | lit (a : LitAttr) | pat (a : PatAttr)
  | variantTypeHint (a : VariantTypeHintAttr) | repeat_ (a : MemberRepeatAttr) | skipRepeat | stopRepeat
  | err (e : ErrInstr) | unrecognized
  deriving Repr, Inhabited

structure DataTypeAttrs where
  attrs : List TraitAttr := []
  ghostsAttrs : List GhostsAttr := []
  whereAttrs : List WhereAttr := []
  childParentsAttrs : List ChildParentsAttr := []
  errorInstrs : List ErrInstr := []
  deriving Repr, Inhabited

structure MemberAttrs where
  attrs : List MemberAttr := []
  childAttrs : List ChildAttr := []
  parentAttrs : List ParentAttr := []
  ghostAttrs : List GhostAttr := []
  ghostsAttrs : List GhostsAttr := []
  litAttrs : List LitAttr := []
  patAttrs : List PatAttr := []
  repeat_ : Option MemberRepeatAttr := none
  skipRepeat : Bool := false
  stopRepeat : Bool := false
  typeHintAttrs : List VariantTypeHintAttr := []
  errorInstrs : List ErrInstr := []
  deriving Repr, Inhabited

/-! ### lookups (`impl DataTypeAttrs`, `impl MemberAttrs`) -/

def isSomeEq (c : Option TypePath) (ty : TypePath) : Bool :=
  match c with
  | some t => t == ty
  | none => false

/-- the recurring "dedicated to `ty`, else default" search -/
def findDedicatedOrDefault {α} (xs : List α) (ok : α → Bool) (cty : α → Option TypePath) (ty : TypePath) : Option α :=
  (xs.find? fun x => ok x && isSomeEq (cty x) ty) <|> (xs.find? fun x => ok x && (cty x).isNone)

def DataTypeAttrs.iterForKind (a : DataTypeAttrs) (k : Kind) (fallible : Bool) : List TraitAttr :=
  a.attrs.filter fun x => x.fallible == fallible && x.appl.get k

def DataTypeAttrs.iterForKindCore (a : DataTypeAttrs) (k : Kind) (fallible : Bool) : List TraitAttrCore :=
  (a.iterForKind k fallible).map (·.core)

def DataTypeAttrs.ghostsAttr (a : DataTypeAttrs) (ty : TypePath) (k : Kind) : Option StructGhostAttrCore :=
  (findDedicatedOrDefault a.ghostsAttrs (·.appl.get k) (·.attr.containerTy) ty).map (·.attr)

def DataTypeAttrs.whereAttr (a : DataTypeAttrs) (ty : TypePath) : Option WhereAttr :=
  findDedicatedOrDefault a.whereAttrs (fun _ => true) (·.containerTy) ty

def DataTypeAttrs.childParentsAttr (a : DataTypeAttrs) (ty : TypePath) : Option ChildParentsAttr :=
  findDedicatedOrDefault a.childParentsAttrs (fun _ => true) (·.containerTy) ty

def MemberAttrs.iterForKind (a : MemberAttrs) (k : Kind) (fallible : Bool) : List MemberAttr :=
  a.attrs.filter fun x => x.fallible == fallible && x.appl.get k

def MemberAttrs.fieldAttr (a : MemberAttrs) (k : Kind) (fallible : Bool) (ty : TypePath) : Option MemberAttr :=
  findDedicatedOrDefault (a.iterForKind k fallible) (fun _ => true) (·.attr.containerTy) ty

def MemberAttrs.fieldAttrCore (a : MemberAttrs) (k : Kind) (fallible : Bool) (ty : TypePath) : Option MemberAttrCore :=
  (a.fieldAttr k fallible ty).map (·.attr)

def MemberAttrs.ghost (a : MemberAttrs) (ty : TypePath) (k : Kind) : Option FieldGhostAttrCore :=
  (findDedicatedOrDefault a.ghostAttrs (·.appl.get k) (·.attr.containerTy) ty).map (·.attr)

def MemberAttrs.child (a : MemberAttrs) (ty : TypePath) : Option ChildAttr :=
  findDedicatedOrDefault a.childAttrs (fun _ => true) (·.containerTy) ty

def MemberAttrs.lit (a : MemberAttrs) (ty : TypePath) : Option LitAttr :=
  findDedicatedOrDefault a.litAttrs (fun _ => true) (·.containerTy) ty

def MemberAttrs.pat (a : MemberAttrs) (ty : TypePath) : Option PatAttr :=
  findDedicatedOrDefault a.patAttrs (fun _ => true) (·.containerTy) ty

def MemberAttrs.typeHint (a : MemberAttrs) (ty : TypePath) : Option VariantTypeHintAttr :=
  findDedicatedOrDefault a.typeHintAttrs (fun _ => true) (·.containerTy) ty

def MemberAttrs.hasParentAttr (a : MemberAttrs) (ty : TypePath) : Bool :=
  a.parentAttrs.any fun x => x.containerTy.isNone || isSomeEq x.containerTy ty

def MemberAttrs.hasParameterlessParentAttr (a : MemberAttrs) (ty : TypePath) : Bool :=
  a.parentAttrs.any fun x => x.childFields.isNone && (x.containerTy.isNone || isSomeEq x.containerTy ty)

def MemberAttrs.parameterizedParentAttr (a : MemberAttrs) (ty : TypePath) : Option ParentAttr :=
  findDedicatedOrDefault a.parentAttrs (·.childFields.isSome) (·.containerTy) ty

inductive ApplicableAttr
  | field (a : MemberAttrCore)
  | ghost (a : FieldGhostAttrCore)
  | parentChildField (p : ParentChildField) (k : Kind)
  deriving Repr, Inhabited

/-- `MemberAttrs::applicable_attr` -/
def MemberAttrs.applicableAttr (a : MemberAttrs) (k : Kind) (fallible : Bool) (ty : TypePath) : Option ApplicableAttr :=
  ((a.ghost ty k).map ApplicableAttr.ghost) <|>
    (((a.fieldAttrCore k fallible ty)
      <|> (if fallible then a.fieldAttrCore k false ty else none)
      <|> (if k == .ownedIntoExisting then a.fieldAttrCore .ownedInto fallible ty else none)
      <|> (if k == .ownedIntoExisting && fallible then a.fieldAttrCore .ownedInto false ty else none)
      <|> (if k == .refIntoExisting then a.fieldAttrCore .refInto fallible ty else none)
      <|> (if k == .refIntoExisting && fallible then a.fieldAttrCore .refInto false ty else none)).map ApplicableAttr.field)

/-- `MemberAttrs::applicable_field_attr` (the validator's view) -/
def MemberAttrs.applicableFieldAttr (a : MemberAttrs) (k : Kind) (fallible : Bool) (ty : TypePath) : Option MemberAttr :=
  (a.fieldAttr k fallible ty)
    <|> (if fallible then a.fieldAttr k false ty else none)
    <|> (if k == .ownedIntoExisting then a.fieldAttr .ownedInto fallible ty else none)
    <|> (if k == .ownedIntoExisting && fallible then a.fieldAttr .ownedInto false ty else none)
    <|> (if k == .refIntoExisting then a.fieldAttr .refInto fallible ty else none)
    <|> (if k == .refIntoExisting && fallible then a.fieldAttr .refInto false ty else none)

/-- `ParentChildField::get_for_kind` -/
def ParentChildField.getForKind (pc : ParentChildField) (k : Kind) : Option ParentChildFieldAttr :=
  (pc.attrs.find? (·.appl.get k))
    <|> (if k == .ownedIntoExisting then pc.attrs.find? (·.appl.get .ownedInto) else none)
    <|> (if k == .refIntoExisting then pc.attrs.find? (·.appl.get .refInto) else none)

def ParentChildField.namedFields (pc : ParentChildField) : Bool := pc.thisMember.isNamed

/-- `ApplicableAttr::has_action` -/
def ApplicableAttr.hasAction : ApplicableAttr → Bool
  | .field a => a.action.isSome
  | .ghost g => g.action.isSome
  | .parentChildField pc k => match pc.getForKind k with
    | some a => a.action.isSome
    | none => false


/-- `MemberAttrs::merge` -/
def MemberAttrs.merge (self other : MemberAttrs) : MemberAttrs :=
  if self.skipRepeat then self else
  match other.repeat_ with
  | none => self
  | some r =>
    let g (n : Nat) := r.repeatFor.getD n false
    { self with
      attrs := if g 0 then self.attrs ++ other.attrs else self.attrs
      childAttrs := if g 1 then self.childAttrs ++ other.childAttrs else self.childAttrs
      parentAttrs := if g 2 then self.parentAttrs ++ other.parentAttrs else self.parentAttrs
      ghostAttrs := if g 3 then self.ghostAttrs ++ other.ghostAttrs else self.ghostAttrs
      typeHintAttrs := if g 4 then self.typeHintAttrs ++ other.typeHintAttrs else self.typeHintAttrs }

/-- `TraitAttrCore::merge` -/
def TraitAttrCore.merge (self other : TraitAttrCore) : Except PErr TraitAttrCore :=
  if self.skipRepeat then .ok self else
  match other.repeat_ with
  | none => .ok self
  | some r =>
    let g (n : Nat) := r.getD n false
    if g 0 && self.initData.isSome then .error (.o2o "Vars will be overriden. Did you forget to use 'skip_repeat'?") else
    let s1 := if g 0 then { self with initData := other.initData } else self
    if g 1 && s1.update.isSome then .error (.o2o "Update statement will be overriden. Did you forget to use 'skip_repeat'?") else
    let s2 := if g 1 then { s1 with update := other.update } else s1
    if g 2 && s2.quickReturn.isSome then .error (.o2o "Quick Return statement will be overriden. Did you forget to use 'skip_repeat'?") else
    let s3 := if g 2 then { s2 with quickReturn := other.quickReturn } else s2
    if g 3 && s3.defaultCase.isSome then .error (.o2o "Default Case statement will be overriden. Did you forget to use 'skip_repeat'?") else
    let s4 := if g 3 then { s3 with defaultCase := other.defaultCase } else s3
    .ok s4

/-! ### parsers -/

section Parsers
variable (b : Back)

/-- `try_parse_action` -/
def tryParseAction (allowBraceless : Bool) : P (Option TS) := do
  if (← isEmpty) then return none
  else if (← peekPuncts "@") || (← peekPuncts "~") then return some (← takeAll)
  else if allowBraceless && !(← peekGroup .brace) then return some (← takeAll)
  else do
    let c ← enterGroup .brace
    return some (← withContent c takeAll)

/-- `try_parse_braced_action` -/
def tryParseBracedAction : P TS := do
  let c ← enterGroup .brace
  withContent c takeAll

/-- `try_parse_type_hint` -/
def tryParseTypeHint : P TypeHint := do
  if !(← peekKw "as") then return .unspecified
  parseKw "as"
  if (← peekGroup .brace) then do enterGroupIgnored .brace; return .struct
  if (← peekGroup .paren) then do enterGroupIgnored .paren; return .tuple
  if (← peekKw "Unit") then do parseKw "Unit"; return .unit
  -- `input.error(..)`: at the end of the buffer syn prefixes the message
  if (← isEmpty) then failO2o "unexpected end of input, Only '()', '{}', and 'Unit' are supported type hints."
  failO2o "Only '()', '{}', and 'Unit' are supported type hints."

/-- `peek_container_path` -/
def peekContainerPath (canBeEmpty : Bool) : P Bool := do
  match (← onFork (parsePath b)) with
  | .ok (_, rest) => return (canBeEmpty && rest.isEmpty) || headIsPuncts ['|'] rest
  | .error (.unsupported w) => failUnsup w
  | .error _ => return false

/-- `try_parse_container_ident` -/
def tryParseContainerIdent (canBeEmptyAfter : Bool) : P (Option TypePath) := do
  if (← peekContainerPath b canBeEmptyAfter) then do
    let pth ← parsePath b
    if (← peekPuncts "|") then parsePuncts "|"
    return some (TypePath.ofPath pth)
  return none

/-- `try_parse_optional_ident` -/
def tryParseOptionalIdent : P (Option Member) := do
  if (← peekMember b) && (← peek2 (headIsPuncts [','])) then do
    let m ← parseMember b
    parsePuncts ","
    return some m
  if (← peekMember b) then do
    match (← onFork (parseMember b)) with
    | .ok (_, rest) => if rest.isEmpty then return some (← parseMember b)
    | .error e => throw e
  return none

/-- `peek_ghost_field_name` -/
def peekGhostFieldName : P Bool := do
  return (← peekMember b) && ((← peek2 (headIsPuncts [':'])) || (← peek2 (headIsGroup .brace)) || (← peek2 (headIsGroup .paren)))

/-- `Punctuated::parse_terminated` for an element parser -/
def parseTerminatedAux {α} (elem : P α) : Nat → List α → P (List α)
  | 0, acc => return acc.reverse
  | f + 1, acc => do
    if (← isEmpty) then return acc.reverse
    let x ← elem
    if (← isEmpty) then return (x :: acc).reverse
    parsePuncts ","
    parseTerminatedAux elem f (x :: acc)

def parseTerminated {α} (elem : P α) : P (List α) := do
  parseTerminatedAux elem ((← toks).length + 1) []

/-- `Punctuated::parse_separated_nonempty` with `,` -/
def parseSeparatedNonemptyAux {α} (elem : P α) : Nat → List α → P (List α)
  | 0, acc => return acc.reverse
  | f + 1, acc => do
    let x ← elem
    if (← peekPuncts ",") then do
      parsePuncts ","
      parseSeparatedNonemptyAux elem f (x :: acc)
    else return (x :: acc).reverse

def parseSeparatedNonempty {α} (elem : P α) : P (List α) := do
  parseSeparatedNonemptyAux elem ((← toks).length + 1) []

def parseInitData : P InitData := do
  let id ← parseIdent b
  parsePuncts ":"
  let a ← tryParseBracedAction
  return { ident := id, action := a }

/-- `TraitRepeatForWrap::parse` / the tail of `MemberRepeatAttr::parse` -/
def parseRepeatTypes (names : List String) : P (List Bool) := do
  let tys ← parseTerminated (parseIdent b)
  if tys.isEmpty then return names.map fun _ => true
  match tys.find? (fun t => !names.contains t) with
  | some bad => failO2o ("#[repeat] of instruction type '" ++ bad ++ "' is not supported. Supported types are: " ++ ", ".intercalate names)
  | none => return names.map fun n => tys.contains n

def alreadySet (name : String) : String := "Instruction parameter '" ++ name ++ "' was already set."

/-- one round of `parse_trait_instruction_param`; `true` = keep looping -/
def parseTraitInstructionParam (attr : TraitAttrCore) : P (TraitAttrCore × Bool) := do
  let inner1 (kw : String) (cond : Bool) (set : TraitAttrCore) : P (TraitAttrCore × Bool) := do
    parseKw kw
    if (← peekPuncts ",") then parsePuncts ","
    if cond then failO2o (alreadySet kw) else return (set, true)
  let inner2 {β} (kw : String) (parser : P β) (cond : Bool) (set : β → TraitAttrCore) : P (TraitAttrCore × Bool) := do
    parseKw kw
    let c ← enterGroup .paren
    let v ← withContent c parser
    if (← peekPuncts ",") then parsePuncts ","
    if cond then failO2o (alreadySet kw) else return (set v, true)
  if (← peekKw "stop_repeat") then inner1 "stop_repeat" attr.stopRepeat { attr with stopRepeat := true }
  else if (← peekKw "skip_repeat") then inner1 "skip_repeat" attr.skipRepeat { attr with skipRepeat := true }
  else if (← peekKw "repeat") then
    inner2 "repeat" (parseRepeatTypes b Gen.traitRepeatTypes) attr.repeat_.isSome (fun x => { attr with repeat_ := some x })
  else if (← peekKw "vars") then
    inner2 "vars" (parseSeparatedNonempty (parseInitData b)) attr.initData.isSome (fun x => { attr with initData := some x })
  else if (← peekPuncts "..") then do
    parsePuncts ".."
    let a ← tryParseAction true
    return ({ attr with update := a }, false)
  else if (← peekKw "return") then do
    parseKw "return"
    let a ← tryParseAction true
    return ({ attr with quickReturn := a }, false)
  else if (← peekKw "_") then do
    parseKw "_"
    let a ← tryParseAction true
    return ({ attr with defaultCase := a }, false)
  else if (← peekKw "attribute") then
    inner2 "attribute" takeAll attr.fnAttr.isSome (fun x => { attr with fnAttr := some [p '#', bracket x] })
  else if (← peekKw "impl_attribute") then
    inner2 "impl_attribute" takeAll attr.implAttr.isSome (fun x => { attr with implAttr := some [p '#', bracket x] })
  else if (← peekKw "inner_attribute") then
    inner2 "inner_attribute" takeAll attr.innerAttr.isSome (fun x => { attr with innerAttr := some [p '#', p '!', bracket x] })
  else return (attr, false)

def parseTraitParamsLoop : Nat → TraitAttrCore → P TraitAttrCore
  | 0, attr => return attr
  | f + 1, attr => do
    let (attr', again) ← parseTraitInstructionParam b attr
    if again then parseTraitParamsLoop f attr' else return attr'

/-- `impl Parse for TraitAttrCore` -/
def parseTraitAttrCore : P TraitAttrCore := do
  let ty ← (do
    if (← peekGroup .paren) then do
      let c ← enterGroup .paren
      let cs ← withContent c takeAll
      pure (TypePath.ofTokens [paren cs])
    else do
      let pth ← parsePath b
      pure (TypePath.ofPath pth))
  let hint ← (do if ty.namelessTuple then pure TypeHint.tuple else tryParseTypeHint)
  let errTy ← (do
    if (← peekPuncts ",") then do
      parsePuncts ","
      let pth ← parsePath b
      pure (some (TypePath.ofPath pth))
    else pure none)
  let attr : TraitAttrCore := { ty := ty, errTy := errTy, typeHint := hint }
  if !(← peekPuncts "|") then return attr
  parsePuncts "|"
  parseTraitParamsLoop b ((← toks).length + 2) attr

/-- `impl Parse for GhostData` -/
def parseGhostData : P GhostData := do
  let childPath ← (do
    if !(← peekGhostFieldName b) then do
      let ms ← parseMemberPath b
      parsePuncts "@"
      pure (some (ChildPath.ofMembers ms))
    else pure none)
  let ghostIdent ← (do
    if (← peek2 (headIsPuncts [':'])) then do
      pure (GhostIdent.member (← parseMember b))
    else if (← peek2 (headIsGroup .brace)) then do
      let id ← parseIdent b
      let c ← enterGroup .brace
      let d ← withContent c takeAll
      pure (GhostIdent.destruction [.ident id, brace d])
    else do
      let id ← parseIdent b
      let c ← enterGroup .paren
      let d ← withContent c takeAll
      pure (GhostIdent.destruction [.ident id, paren d]))
  parsePuncts ":"
  let a ← tryParseBracedAction
  return { childPath := childPath, ghostIdent := ghostIdent, action := a }

/-- `impl Parse for StructGhostAttrCore` -/
def parseStructGhostAttrCore : P StructGhostAttrCore := do
  let c ← tryParseContainerIdent b false
  let gd ← parseTerminated (parseGhostData b)
  return { containerTy := c, ghostData := gd }

/-- `TypeParamBound`s separated by `+` (lifetime, `?`-path, path), printed -/
def parseBoundsF : Nat → TS → P TS
  | 0, acc => return acc
  | f + 1, acc => do
    let ts ← toks
    if ts.isEmpty || headIsPuncts [','] ts then return acc
    let bound ← (do
      if headIsLifetime ts then
        match ts with
        | _ :: .ident n :: r => do setToks r; pure [j '\'', Tok.ident n]
        | _ => failLib
      else if headIsIdentEq "for" ts || headIsIdentEq "dyn" ts || headIsIdentEq "impl" ts || headIsGroup .paren ts || headIsPuncts ['~'] ts then
        failUnsup "where bound outside the modelled fragment"
      else do
        let q ← (do if (← peekPuncts "?") then do parsePuncts "?"; pure [p '?'] else pure [])
        let pth ← parsePath b
        pure (q ++ pth.toTS))
    if (← peekPuncts "+") then do
      parsePuncts "+"
      parseBoundsF f (acc ++ bound ++ [p '+'])
    else return acc ++ bound

/-- one `WherePredicate` of the modelled fragment, printed -/
def parseWherePredicate : P TS := do
  let ts ← toks
  let lhs ← (do
    if headIsLifetime ts then
      match ts with
      | _ :: .ident n :: r => do setToks r; pure [j '\'', Tok.ident n]
      | _ => failLib
    else if headIsIdentEq "for" ts then failUnsup "higher-ranked where predicate"
    else parseType b)
  parsePuncts ":"
  let bounds ← parseBoundsF b ((← toks).length + 1) []
  return lhs ++ [p ':'] ++ bounds

def joinComma : List TS → TS
  | [] => []
  | [x] => x
  | x :: xs => x ++ [p ','] ++ joinComma xs

/-- `impl Parse for WhereAttr` -/
def parseWhereAttr : P WhereAttr := do
  let c ← tryParseContainerIdent b false
  let preds ← parseSeparatedNonempty (parseWherePredicate b)
  return { containerTy := c, whereClause := joinComma preds }

/-- `try_parse_child_parents` (both cfg copies are the same function) -/
def parseChildParentData : P ChildParentData := do
  let ms ← parseMemberPath b
  parsePuncts ":"
  let ty ← parsePath b
  let hint ← tryParseTypeHint
  return { ty := ty.toTS, typeHint := hint, fieldPath := ms, fieldPathStr := noWs (display (memberPathTS ms)) }

/-- `impl Parse for ChildParentsAttr` -/
def parseChildParentsAttr : P ChildParentsAttr := do
  let c ← tryParseContainerIdent b false
  let cps ← parseTerminated (parseChildParentData b)
  return { containerTy := c, childParents := cps }

/-- `impl Parse for MemberAttrCore` -/
def parseMemberAttrCore : P MemberAttrCore := do
  let c ← tryParseContainerIdent b false
  let m ← tryParseOptionalIdent b
  let a ← tryParseAction true
  return { containerTy := c, member := m, action := a }

/-- `ParentChildFieldAsParsed`, nested through `[parent(...)]` -/
structure PCFParsed where
  thisMember : Member
  ty : Option TS
  attrs : List ParentChildFieldAttr
  parentAttr : Option (List PCFParsed)
  deriving Inhabited

mutual
def parsePCFInstrsF : Nat → List ParentChildFieldAttr → Option (List PCFParsed) → P (List ParentChildFieldAttr × Option (List PCFParsed))
  | 0, _, _ => failUnsup "nested parent too deep"
  | f + 1, attrs, parentAttr => do
    if !(← peekGroup .bracket) then return (attrs.reverse, parentAttr)
    let content ← enterGroup .bracket
    let (attrs', parentAttr') ← withContent content (do
      let instr ← parseIdent b
      let inner ← enterGroup .paren
      withContent inner (do
        if Gen.nestedMapNames.contains instr then do
          let that ← tryParseOptionalIdent b
          let act ← tryParseAction true
          pure ({ thatMember := that, action := act, appl := applOf Gen.nestedAppl instr } :: attrs, parentAttr)
        else if instr == "parent" then do
          match parentAttr with
          | none => do
            let sub ← parsePCFListF f ((← toks).length + 1) []
            pure (attrs, some sub)
          | some _ => failO2o "Cannot have more than one [parent(...)] instruction here"
        else failO2o ("Instruction '" ++ instr ++ "' is not recognized in this context")))
    parsePCFInstrsF f attrs' parentAttr'

def parsePCFF : Nat → P PCFParsed
  | 0 => failUnsup "nested parent too deep"
  | f + 1 => do
    let (attrs, parentAttr) ← parsePCFInstrsF f [] none
    let m ← parseMember b
    let ty ← (do
      if (← peekPuncts ":") then do
        parsePuncts ":"
        let pth ← parsePath b
        pure (some pth.toTS)
      else pure none)
    return { thisMember := m, ty := ty, attrs := attrs, parentAttr := parentAttr }

/-- `Punctuated::parse_terminated` of nested fields; second fuel bounds the list length -/
def parsePCFListF : Nat → Nat → List PCFParsed → P (List PCFParsed)
  | 0, _, _ => failUnsup "nested parent too deep"
  | _, 0, acc => return acc.reverse
  | f + 1, n + 1, acc => do
    if (← isEmpty) then return acc.reverse
    let x ← parsePCFF f
    if (← isEmpty) then return (x :: acc).reverse
    parsePuncts ","
    parsePCFListF f n (x :: acc)
end

mutual
/-- `convert_parent_child_field` -/
def convertPCF : Nat → List PCFParsed → List (Member × Option TS) → List ParentChildField
  | 0, _, _ => []
  | _, [], _ => []
  | f + 1, cf :: rest, subPath =>
    (match cf.parentAttr with
     | some sub => convertPCF f sub (subPath ++ [(cf.thisMember, cf.ty)])
     | none =>
       [{ thisMember := cf.thisMember, attrs := cf.attrs, subPath := subPath,
          subPathTokens := subPath.flatMap fun x => p '.' :: x.1.toTS }])
    ++ convertPCF f rest subPath
end

/-- `impl Parse for ParentAttr` -/
def parseParentAttr : P ParentAttr := do
  let c ← tryParseContainerIdent b true
  if (← isEmpty) then return { containerTy := c, childFields := none }
  let n := Tok.sizeList (← toks)
  let fs ← parsePCFListF b (2 * n + 4) (n + 1) []
  return { containerTy := c, childFields := some (convertPCF (4 * n + 8) fs []) }

/-- `impl Parse for FieldGhostAttrCore` -/
def parseFieldGhostAttrCore : P FieldGhostAttrCore := do
  let c ← tryParseContainerIdent b true
  let a ← tryParseAction true
  return { containerTy := c, action := a }

/-- `impl Parse for ChildAttr` -/
def parseChildAttr : P ChildAttr := do
  let c ← tryParseContainerIdent b false
  let ms ← parseMemberPath b
  return { containerTy := c, childPath := ChildPath.ofMembers ms }

/-- `impl Parse for AsAttr` -/
def parseAsAttr : P AsAttr := do
  let c ← tryParseContainerIdent b false
  if (← peekMember b) && (← peek2 (headIsPuncts [','])) then do
    let m ← parseMember b
    parsePuncts ","
    return { containerTy := c, member := some m, tokens := (← takeAll) }
  return { containerTy := c, member := none, tokens := (← takeAll) }

def parseLitAttr : P LitAttr := do
  let c ← tryParseContainerIdent b false
  return { containerTy := c, tokens := (← takeAll) }

def parsePatAttr : P PatAttr := do
  let c ← tryParseContainerIdent b false
  return { containerTy := c, tokens := (← takeAll) }

def parseVariantTypeHintAttr : P VariantTypeHintAttr := do
  let c ← tryParseContainerIdent b false
  let h ← tryParseTypeHint
  return { containerTy := c, typeHint := h }

/-- `impl Parse for MemberRepeatAttr` -/
def parseMemberRepeatAttr : P MemberRepeatAttr := do
  let permeate ← peekKw "permeate"
  if permeate then do
    parseKw "permeate"
    enterGroupIgnored .paren
  if permeate && !(← isEmpty) then parsePuncts ","
  let rf ← parseRepeatTypes b Gen.memberRepeatTypes
  return { permeate := permeate, repeatFor := rf }

/-! ### instruction dispatch, driven by the regenerated arm tables -/

def guardOk (g : Gen.Guard) (own bark : Bool) : Bool :=
  match g with
  | .none => true
  | .own => own
  | .bark => bark

def findArm (arms : List Gen.Arm) (instr : String) (own bark : Bool) : Option Gen.Arm :=
  arms.find? fun a => (a.names.isEmpty || a.names.contains instr) && guardOk a.guard own bark

/-- `parse_data_type_instruction` -/
def parseDataTypeInstruction (instr : String) (input : TS) (own bark : Bool) : Except PErr DataTypeInstruction :=
  match findArm Gen.typeArms instr own bark with
  | none => .error (.panic "attr.rs:parse_data_type_instruction:no arm")
  | some arm =>
    match arm.kind with
    | .allowUnknown => .ok .allowUnknown
    | .map fallible => do
      let core ← parse2 (parseTraitAttrCore b) input
      return .map { core := core, fallible := fallible, appl := applOf arm.appl instr }
    | .ghosts => do
      let a ← parse2 (parseStructGhostAttrCore b) input
      return .ghosts { attr := a, appl := applOf arm.appl instr }
    | .childParents => do return .childParents (← parse2 (parseChildParentsAttr b) input)
    | .whereClause => do return .where_ (← parse2 (parseWhereAttr b) input)
    | .misnamed guess => .ok (.err (.misnamed instr guess own))
    | .misplaced => .ok (.err (.misplaced instr own))
    | .unrecognizedWithError => .ok (.err (.unrecognizedWithError instr))
    | .unrecognized => .ok .unrecognized
    | _ => .error (.unsupported "type-level arm kind not modelled")

/-- `parse_member_instruction` -/
def parseMemberInstruction (instr : String) (input : TS) (own bark : Bool) : Except PErr MemberInstruction :=
  match findArm Gen.memberArms instr own bark with
  | none => .error (.panic "attr.rs:parse_member_instruction:no arm")
  | some arm =>
    match arm.kind with
    | .map fallible => do
      let a ← parse2 (parseMemberAttrCore b) input
      return .map { attr := a, fallible := fallible, originalInstr := instr, appl := applOf arm.appl instr }
    | .ghost => do
      let a ← parse2 (parseFieldGhostAttrCore b) input
      return .ghost { attr := a, appl := applOf arm.appl instr }
    | .ghosts => do
      let a ← parse2 (parseStructGhostAttrCore b) input
      return .ghosts { attr := a, appl := applOf arm.appl instr }
    | .child => do return .child (← parse2 (parseChildAttr b) input)
    | .parent => do return .parent (← parse2 (parseParentAttr b) input)
    | .asType => do return .as_ (← parse2 (parseAsAttr b) input)
    | .lit => do return .lit (← parse2 (parseLitAttr b) input)
    | .pat => do return .pat (← parse2 (parsePatAttr b) input)
    | .repeat_ => do return .repeat_ (← parse2 (parseMemberRepeatAttr b) input)
    | .skipRepeat => .ok .skipRepeat
    | .stopRepeat => .ok .stopRepeat
    | .typeHint => do return .variantTypeHint (← parse2 (parseVariantTypeHintAttr b) input)
    | .misnamed guess => .ok (.err (.misnamed instr guess own))
    | .misplaced => .ok (.err (.misplaced instr own))
    | .unrecognizedWithError => .ok (.err (.unrecognizedWithError instr))
    | .unrecognized => .ok .unrecognized
    | _ => .error (.unsupported "member-level arm kind not modelled")

end Parsers

end O2o
