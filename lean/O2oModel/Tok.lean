/-
Token trees (proc_macro2::TokenTree), their line encoding, and proc_macro2's fallback `Display`.
No imports: this file is part of the executable model and of the compiled driver.
-/
namespace O2o

inductive Delim | paren | brace | bracket | none
  deriving DecidableEq, Repr, Inhabited

inductive Tok
  | ident (s : String)
  | punct (c : Char) (joint : Bool)
  | lit (s : String)
  | group (d : Delim) (ts : List Tok)
  deriving Repr, Inhabited

abbrev TS := List Tok

mutual
def Tok.decEq : (x y : Tok) → Decidable (x = y)
  | .ident a, .ident b => if h : a = b then isTrue (by rw [h]) else isFalse (by intro e; cases e; exact h rfl)
  | .lit a, .lit b => if h : a = b then isTrue (by rw [h]) else isFalse (by intro e; cases e; exact h rfl)
  | .punct c ja, .punct c' jb =>
    if h : c = c' then
      if h2 : ja = jb then isTrue (by rw [h, h2]) else isFalse (by intro e; cases e; exact h2 rfl)
    else isFalse (by intro e; cases e; exact h rfl)
  | .group d a, .group e b =>
    if h : d = e then
      match Tok.decEqList a b with
      | isTrue h2 => isTrue (by rw [h, h2])
      | isFalse h2 => isFalse (by intro e'; cases e'; exact h2 rfl)
    else isFalse (by intro e'; cases e'; exact h rfl)
  | .ident a, .punct c' jb => isFalse (by intro h; cases h)
  | .ident a, .lit b => isFalse (by intro h; cases h)
  | .ident a, .group e b => isFalse (by intro h; cases h)
  | .punct c ja, .ident b => isFalse (by intro h; cases h)
  | .punct c ja, .lit b => isFalse (by intro h; cases h)
  | .punct c ja, .group e b => isFalse (by intro h; cases h)
  | .lit a, .ident b => isFalse (by intro h; cases h)
  | .lit a, .punct c' jb => isFalse (by intro h; cases h)
  | .lit a, .group e b => isFalse (by intro h; cases h)
  | .group d a, .ident b => isFalse (by intro h; cases h)
  | .group d a, .punct c' jb => isFalse (by intro h; cases h)
  | .group d a, .lit b => isFalse (by intro h; cases h)
def Tok.decEqList : (x y : List Tok) → Decidable (x = y)
  | [], [] => isTrue rfl
  | [], _ :: _ => isFalse (by intro h; cases h)
  | _ :: _, [] => isFalse (by intro h; cases h)
  | a :: as, b :: bs =>
    match Tok.decEq a b with
    | isTrue h =>
      match Tok.decEqList as bs with
      | isTrue h2 => isTrue (by rw [h, h2])
      | isFalse h2 => isFalse (by intro e; cases e; exact h2 rfl)
    | isFalse h => isFalse (by intro e; cases e; exact h rfl)
end

instance : DecidableEq Tok := Tok.decEq

mutual
def Tok.beq : Tok → Tok → Bool
  | .ident a, .ident b => a == b
  | .punct a ja, .punct b jb => a == b && ja == jb
  | .lit a, .lit b => a == b
  | .group d a, .group e b => d == e && Tok.beqList a b
  | _, _ => false
def Tok.beqList : List Tok → List Tok → Bool
  | [], [] => true
  | a :: as, b :: bs => Tok.beq a b && Tok.beqList as bs
  | _, _ => false
end

instance : BEq Tok := ⟨Tok.beq⟩

/-- punct, spacing Alone -/
abbrev p (c : Char) : Tok := .punct c false
/-- punct, spacing Joint -/
abbrev j (c : Char) : Tok := .punct c true
abbrev i (s : String) : Tok := .ident s
abbrev paren (ts : TS) : Tok := .group .paren ts
abbrev brace (ts : TS) : Tok := .group .brace ts
abbrev bracket (ts : TS) : Tok := .group .bracket ts

/-! ### percent escaping used by the line protocol -/

def hexVal (c : Char) : Nat :=
  if '0' ≤ c ∧ c ≤ '9' then c.toNat - '0'.toNat
  else if 'A' ≤ c ∧ c ≤ 'F' then c.toNat - 'A'.toNat + 10
  else if 'a' ≤ c ∧ c ≤ 'f' then c.toNat - 'a'.toNat + 10 else 0

def unescChars : List Char → List Char
  | '%' :: a :: b :: rest => Char.ofNat (hexVal a * 16 + hexVal b) :: unescChars rest
  | c :: rest => c :: unescChars rest
  | [] => []

def unesc (s : String) : String := String.ofList (unescChars s.toList)

def escChars : List Char → List Char
  | [] => []
  | ' ' :: r => '%' :: '2' :: '0' :: escChars r
  | '%' :: r => '%' :: '2' :: '5' :: escChars r
  | '\n' :: r => '%' :: '0' :: 'A' :: escChars r
  | '\r' :: r => '%' :: '0' :: 'D' :: escChars r
  | '\t' :: r => '%' :: '0' :: '9' :: escChars r
  | c :: r => c :: escChars r

def esc (s : String) : String := String.ofList (escChars s.toList)

/-! ### reader: atoms → token trees -/

def delimOfOpen : String → Option Delim
  | "(" => some .paren | "{" => some .brace | "[" => some .bracket | "N(" => some .none | _ => none

def isClose (a : String) : Bool := a == ")" || a == "}" || a == "]" || a == "N)"

/-- stack of open groups: (delimiter, tokens so far reversed) -/
def readAtoms : List String → List (Delim × List Tok) → List Tok → Option (List Tok)
  | [], [], acc => some acc.reverse
  | [], _ :: _, _ => none
  | a :: rest, stack, acc =>
    match delimOfOpen a with
    | some d => readAtoms rest ((d, acc) :: stack) []
    | none =>
      if isClose a then
        match stack with
        | (d, outer) :: stack' => readAtoms rest stack' (Tok.group d acc.reverse :: outer)
        | [] => none
      else
        match a.toList with
        | 'i' :: cs => readAtoms rest stack (.ident (String.ofList cs) :: acc)
        | 'p' :: c :: [] => readAtoms rest stack (.punct c false :: acc)
        | 'j' :: c :: [] => readAtoms rest stack (.punct c true :: acc)
        | 'l' :: cs => readAtoms rest stack (.lit (String.ofList (unescChars cs)) :: acc)
        | _ => none

def readTS (s : String) : Option TS :=
  readAtoms ((s.splitOn " ").filter (· ≠ "")) [] []

/-! ### writer -/

mutual
def Tok.write : Tok → List String
  | .ident s => ["i" ++ s]
  | .punct c jn => [(if jn then "j" else "p") ++ c.toString]
  | .lit s => ["l" ++ esc s]
  | .group d ts =>
    let (o, c) := match d with
      | .paren => ("(", ")") | .brace => ("{", "}") | .bracket => ("[", "]") | .none => ("N(", "N)")
    o :: (Tok.writeList ts ++ [c])
def Tok.writeList : List Tok → List String
  | [] => []
  | t :: ts => Tok.write t ++ Tok.writeList ts
end

def writeTS (ts : TS) : String := " ".intercalate (Tok.writeList ts)

/-! ### proc_macro2 fallback `Display` (used by the code for `path_str`, member strings, messages) -/

mutual
def Tok.display : Tok → String
  | .ident s => s
  | .punct c _ => c.toString
  | .lit s => s
  | .group d ts =>
    match d with
    | .paren => "(" ++ Tok.displayList ts true false ++ ")"
    | .bracket => "[" ++ Tok.displayList ts true false ++ "]"
    | .none => Tok.displayList ts true false
    | .brace => "{ " ++ Tok.displayList ts true false ++ (if ts.isEmpty then "" else " ") ++ "}"
/-- `first`: no separator before the first token; `joint`: previous token was a Joint punct -/
def Tok.displayList : List Tok → Bool → Bool → String
  | [], _, _ => ""
  | t :: ts, first, joint =>
    (if !first && !joint then " " else "") ++ Tok.display t ++
      Tok.displayList ts false (match t with | .punct _ jn => jn | _ => false)
end

def display (ts : TS) : String := Tok.displayList ts true false

def noWs (s : String) : String := String.ofList (s.toList.filter (fun c => !c.isWhitespace))

end O2o
