/-
Types of the regenerated tables (`Generated.lean` is rewritten by the translator on every run).
-/
import O2oModel.Tok
namespace O2o.Gen

/-- what a match arm of `parse_data_type_instruction` / `parse_member_instruction` builds -/
inductive ArmKind
  | allowUnknown | map (fallible : Bool) | ghosts | ghost | childParents | whereClause | child | parent
  | asType | lit | pat | repeat_ | skipRepeat | stopRepeat | typeHint
  | misnamed (guess : String) | misplaced | unrecognizedWithError | unrecognized
  deriving Repr, DecidableEq, Inhabited

inductive Guard | none | own | bark
  deriving Repr, DecidableEq, Inhabited

structure Arm where
  /-- string patterns of the arm; empty = wildcard `_` -/
  names : List String
  guard : Guard
  kind : ArmKind
  /-- the `appl_*` functions in `applicable_to: [..]`, in order -/
  appl : List String
  deriving Repr, DecidableEq, Inhabited

/-- one token of a translated `quote!` body -/
inductive Tm
  | t (tok : Tok)
  | h (name : String)
  | g (d : Delim) (ts : List Tm)
  deriving Repr, Inhabited

mutual
def Tm.beq : Tm → Tm → Bool
  | .t a, .t b => a == b
  | .h a, .h b => a == b
  | .g d a, .g e b => d == e && Tm.beqList a b
  | _, _ => false
def Tm.beqList : List Tm → List Tm → Bool
  | [], [] => true
  | a :: as, b :: bs => Tm.beq a b && Tm.beqList as bs
  | _, _ => false
end

instance : BEq Tm := ⟨Tm.beq⟩

mutual
/-- instantiate a template: holes are looked up in `env` (missing hole = nothing, like `Option::None`) -/
def Tm.inst (env : List (String × TS)) : Tm → TS
  | .t tok => [tok]
  | .h name => match env.find? (·.1 == name) with
    | some e => e.2
    | none => []
  | .g d ts => [.group d (Tm.instList env ts)]
def Tm.instList (env : List (String × TS)) : List Tm → TS
  | [] => []
  | x :: xs => Tm.inst env x ++ Tm.instList env xs
end

mutual
/-- identifiers occurring literally in a template -/
def Tm.idents : Tm → List String
  | .t (.ident s) => [s]
  | .t _ => []
  | .h _ => []
  | .g _ ts => Tm.identsList ts
def Tm.identsList : List Tm → List String
  | [] => []
  | x :: xs => Tm.idents x ++ Tm.identsList xs
end

mutual
def Tm.holes : Tm → List String
  | .t _ => []
  | .h n => [n]
  | .g _ ts => Tm.holesList ts
def Tm.holesList : List Tm → List String
  | [] => []
  | x :: xs => Tm.holes x ++ Tm.holesList xs
end

/-- a panic-capable site of the Rust sources: file, enclosing fn, what -/
structure Site where
  file : String
  fn : String
  what : String
  deriving Repr, DecidableEq, Inhabited

/-- a hash container binding: fn, variable, methods called on it ("for-in" = iterated) -/
structure HashUse where
  fn : String
  var : String
  methods : List String
  deriving Repr, DecidableEq, Inhabited

/-- a `#[cfg(feature = ..)]`-split piece of code -/
structure CfgSplit where
  file : String
  owner : String
  feature : String
  text : String
  deriving Repr, DecidableEq, Inhabited

end O2o.Gen
