/-
A hypothesis of the validated inventory of C16 (`C16_validated_only_findings`), as an executable test: the child paths of a
parsed input are as the parser builds them (`ChildPath.ofMembers` on a non-empty member path: one printed prefix per
level, at least one level). The driver evaluates it on every parsed input of the correspondence run and answers
`WFVIOLATION` where it fails, so the hypothesis is checked on everything the tie sees.
-/
import O2oModel.Expand
namespace O2o

def ChildPath.wf (cp : ChildPath) : Bool := cp.strs.length == cp.path.length && !cp.path.isEmpty

def MemberAttrs.pathsWF (a : MemberAttrs) : Bool := a.childAttrs.all (·.childPath.wf)

def ghostsPathsWF (gas : List GhostsAttr) : Bool :=
  gas.all fun ga => ga.attr.ghostData.all fun g => match g.childPath with | some cp => cp.wf | none => true

def DataType.pathsWF (d : DataType) : Bool :=
  ghostsPathsWF d.attrs.ghostsAttrs &&
  d.members.all fun m => match m with
    | .field f => f.attrs.pathsWF
    | .variant v => ghostsPathsWF v.attrs.ghostsAttrs && v.fields.all (·.attrs.pathsWF)

/-- the parsed input of a derive run, when parsing succeeds -/
def parseInput (b : Back) (node : RawInput) : Option DataType :=
  match node.body with
  | .struct data => match Struct.fromSyn b node data with | .ok s => some (.struct s) | .error _ => none
  | .enum vs => match Enum.fromSyn b node vs with | .ok e => some (.enum e) | .error _ => none
  | .union => none

end O2o
