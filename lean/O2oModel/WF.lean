/-
A hypothesis of the validated inventory of C16 (`C16_validated_only_findings`), as an executable test: the child paths of a
parsed input are as the parser builds them (`ChildPath.ofMembers` on a non-empty member path: one printed prefix per
level, at least one level). The driver evaluates it on every parsed input of the correspondence run and answers
`WFVIOLATION` where it fails, so the hypothesis is checked on everything the tie sees.
-/
import O2oModel.Expand
namespace O2o

def ChildPath.wf (cp : ChildPath) : Bool := cp.strs.length == cp.path.length && !cp.path.isEmpty

def MemberAttrs.pathsWF (a : MemberAttrs) : Bool := a.childAttrs.all (·.childPath.wf)

def ghostsPathsWF (gas : List GhostsAttr) : Bool :=
  gas.all fun ga => ga.attr.ghostData.all fun g => match g.childPath with | some cp => cp.wf | none => true

def DataType.pathsWF (d : DataType) : Bool :=
  ghostsPathsWF d.attrs.ghostsAttrs &&
  d.members.all fun m => match m with
    | .field f => f.attrs.pathsWF
    | .variant v => ghostsPathsWF v.attrs.ghostsAttrs && v.fields.all (·.attrs.pathsWF)

/-- the parsed input of a derive run, when parsing succeeds -/
def parseInput (b : Back) (node : RawInput) : Option DataType :=
  match node.body with
  | .struct data => match Struct.fromSyn b node data with | .ok s => some (.struct s) | .error _ => none
  | .enum vs => match Enum.fromSyn b node vs with | .ok e => some (.enum e) | .error _ => none
  | .union => none

/-- members of a named-field struct / variant carry names (what `syn` hands over: `Fields::Named`) -/
def DataType.shapeWF (d : DataType) : Bool :=
  match d with
  | .struct s => !s.namedFields || s.fields.all (·.member.isNamed)
  | .enum e => e.variants.all fun v => !v.namedFields || v.fields.all (·.member.isNamed)

/-- .. as a property of what `syn` hands over: the fields of `Fields::Named` have names -/
def RawFields.shapeWF (r : RawFields) : Bool := r.kind != .named || r.fields.all (·.name.isSome)

def RawInput.shapeWF (n : RawInput) : Bool :=
  match n.body with
  | .struct d => d.shapeWF
  | .enum vs => vs.all (·.fields.shapeWF)
  | .union => true

/-- the child path for which an entry of the grouped member list opens nested levels -/
def containerPath (ctx : ImplContext) (fc : FieldContainer) : Option ChildPath :=
  match fc.fieldData with
  | .field f => (f.attrs.child ctx.ty).map (·.childPath)
  | .ghostData g => g.childPath
  | .parentChildField _ _ => none

/-- no *collision of names* in one conversion of a struct: among the entries of the grouped member list,
    * the key of a plain member, and of a nested field of a `#[parent(..)]` list, matches no level of the child path of
      another member or ghost (it is not drawn into that nested struct);
    * the key of a flattened member matches a level at or below the end of its own path only when it *is* that level's
      key (levels are told apart by their keys — true of any path whose segments contain no `.`). -/
def noCollisionAt (input : Struct) (ctx : ImplContext) : Bool :=
  let G := groupedMembers input ctx
  let L := G.filterMap (containerPath ctx)
  G.all fun fc =>
    match fc.fieldData with
    | .field f =>
      match f.attrs.child ctx.ty with
      | none => L.all fun cp => cp.strs.all fun key => !pathMatches fc.path key
      | some ca => L.all fun cp => (List.range cp.strs.length).all fun d =>
          match cp.strs[d]? with
          | some key => !pathMatches fc.path key || decide (d < ca.childPath.strs.length - 1) || key == ca.childPath.strs.getLast?.getD ""
          | none => true
    | .ghostData _ => true
    | .parentChildField _ _ => L.all fun cp => cp.strs.all fun key => !pathMatches fc.path key

/-- no collision of names in any Into / IntoExisting conversion of the input (variants have no nested structs) -/
def DataType.noKeyCollision (d : DataType) : Bool :=
  match d with
  | .struct s => (implContexts d).all fun ctx => ctx.kind.isFrom || noCollisionAt s ctx
  | .enum _ => true

end O2o
