/-
Modelled library code: the fragment of `syn`'s parsing API that attr.rs uses
(ParseBuffer with the "unexpected token" tracking, Ident / Member / Index / Path / Lifetime,
a small type grammar for generic arguments) and the token printers of those nodes.
These definitions are in the trusted base ("modelled, not verified"); the correspondence
check exercises them through the real code on every run.
-/
import O2oModel.Tok
namespace O2o

inductive Back | syn1 | syn2
  deriving DecidableEq, Repr, Inhabited

/-- Origin of a parse error. `lib` = message produced by syn itself (wording not compared). -/
inductive PErr
  | lib
  | o2o (msg : String)
  | unsupported (why : String)
  /-- a `panic!` / `unreachable!` / `todo!` / `unwrap()` site of the Rust code was reached -/
  | panic (site : String)
  deriving Repr, Inhabited

structure PS where
  toks : TS
  /-- a nested content buffer was dropped with tokens left: parse2 reports "unexpected token" -/
  unexp : Bool := false
  deriving Inhabited

abbrev P := StateT PS (Except PErr)

def failLib {α} : P α := throw .lib
def failO2o {α} (m : String) : P α := throw (.o2o m)
def failUnsup {α} (m : String) : P α := throw (.unsupported m)

def keywords (b : Back) : List String :=
  ["_", "abstract", "as", "become", "box", "break", "const", "continue", "crate", "do", "else", "enum",
   "extern", "false", "final", "fn", "for", "if", "impl", "in", "let", "loop", "macro", "match", "mod",
   "move", "mut", "override", "priv", "pub", "ref", "return", "Self", "self", "static", "struct", "super",
   "trait", "true", "type", "typeof", "unsafe", "unsized", "use", "virtual", "where", "while", "yield"]
  ++ (match b with | .syn1 => [] | .syn2 => ["async", "await", "dyn", "try"])

def isKeyword (b : Back) (s : String) : Bool := (keywords b).contains s

/-! ### cursor-level helpers on plain token lists -/

/-- `Cursor::skip`: one token tree, a lifetime counting as one -/
def skipTT : TS → Option TS
  | [] => none
  | .punct '\'' true :: .ident _ :: r => some r
  | _ :: r => some r

def headIsGroup (d : Delim) : TS → Bool
  | .group d' _ :: _ => d == d'
  | _ => false

/-- `peek` of a punctuation token given as its characters (syn `peek_punct`) -/
def headIsPuncts : List Char → TS → Bool
  | [], _ => true
  | [c], .punct c' _ :: _ => c == c'
  | c :: cs, .punct c' jn :: r => c == c' && jn && headIsPuncts cs r
  | _, _ => false

def headIsIdentEq (s : String) : TS → Bool
  | .ident s' :: _ => s == s'
  | _ => false

def headIsIdent (b : Back) : TS → Bool
  | .ident s :: _ => !isKeyword b s
  | _ => false

def headIsLifetime : TS → Bool
  | .punct '\'' true :: .ident _ :: _ => true
  | _ => false

def isPlainInt (s : String) : Bool := !s.isEmpty && s.toList.all Char.isDigit

/-- decimal digits followed by an alphabetic suffix (`1u8`, `0usize`): an integer literal, but not a valid tuple index -/
def isSuffixedInt (s : String) : Bool :=
  let cs := s.toList
  let digits := cs.takeWhile Char.isDigit
  let rest := cs.dropWhile Char.isDigit
  !digits.isEmpty && !rest.isEmpty && rest.all (fun c => c.isAlphanum) && (rest.head?.map Char.isAlpha).getD false
    && !(rest.head? == some 'e') && !(rest.head? == some 'E') && !(digits == ['0'] && (rest.head? == some 'x' || rest.head? == some 'o' || rest.head? == some 'b'))

/-- literal starting with a digit that the model cannot classify (radix literal with a suffix, …) -/
def isOddInt (s : String) : Bool :=
  match s.toList with
  | c :: _ => c.isDigit && !isPlainInt s && !isSuffixedInt s && !s.toList.contains '.' && !(s.toList.any fun c => c == 'e' || c == 'E')
  | [] => false

/-- value of an unsuffixed integer literal in any radix, `_` separators allowed (`LitInt::base10_digits`) -/
def radixIntValue (s : String) : Option Nat :=
  let cs := s.toList.filter (· != '_')
  let digitsVal (base : Nat) (ds : List Char) : Option Nat :=
    if ds.isEmpty then none else
    ds.foldl (fun acc c =>
      match acc with
      | none => none
      | some a =>
        let v := if c.isDigit then c.toNat - '0'.toNat
                 else if 'a' ≤ c ∧ c ≤ 'f' then c.toNat - 'a'.toNat + 10
                 else if 'A' ≤ c ∧ c ≤ 'F' then c.toNat - 'A'.toNat + 10 else 99
        if v < base then some (a * base + v) else none) (some 0)
  match cs with
  | '0' :: 'x' :: r => digitsVal 16 r
  | '0' :: 'o' :: r => digitsVal 8 r
  | '0' :: 'b' :: r => digitsVal 2 r
  | r => if r.all Char.isDigit then digitsVal 10 r else none

/-- `Index::parse` succeeds: unsuffixed integer literal whose value fits `u32` -/
def isIndexLit (s : String) : Bool :=
  match radixIntValue s with
  | some v => v < 4294967296
  | none => false

def indexValue (s : String) : Nat := (radixIntValue s).getD 0

/-! ### ParseBuffer operations -/

def toks : P TS := do return (← get).toks
def setToks (ts : TS) : P Unit := modify fun s => { s with toks := ts }
def isEmpty : P Bool := do return (← toks).isEmpty
def peekGroup (d : Delim) : P Bool := do return headIsGroup d (← toks)
def peekPuncts (s : String) : P Bool := do return headIsPuncts s.toList (← toks)
def peekKw (s : String) : P Bool := do return headIsIdentEq s (← toks)
def peekIdent (b : Back) : P Bool := do return headIsIdent b (← toks)
def peek2 (f : TS → Bool) : P Bool := do
  match skipTT (← toks) with
  | some r => return f r
  | none => return false
def peek3 (f : TS → Bool) : P Bool := do
  match skipTT (← toks) with
  | some r => match skipTT r with
    | some r' => return f r'
    | none => return false
  | none => return false

/-- `input.parse::<TokenStream>()` -/
def takeAll : P TS := do
  let ts ← toks
  setToks []
  return ts

def parsePuncts (s : String) : P Unit := do
  let ts ← toks
  if headIsPuncts s.toList ts then setToks (ts.drop s.length) else failLib

def parseKw (s : String) : P Unit := do
  match (← toks) with
  | .ident s' :: r => if s == s' then setToks r else failLib
  | _ => failLib

def parseIdent (b : Back) : P String := do
  match (← toks) with
  | .ident s :: r => if isKeyword b s then failLib else do setToks r; return s
  | _ => failLib

/-- `parenthesized!` / `braced!` / `bracketed!`: step into a group, returning its content -/
def enterGroup (d : Delim) : P TS := do
  match (← toks) with
  | .group d' c :: r => if d == d' then do setToks r; return c else failLib
  | _ => failLib

/-- run `q` on a nested content buffer; tokens left when it is dropped poison the enclosing parse -/
def withContent {α} (content : TS) (q : P α) : P α := fun s =>
  match q { toks := content, unexp := false } with
  | .error e => .error e
  | .ok (a, s') => .ok (a, { s with unexp := s.unexp || s'.unexp || !s'.toks.isEmpty })

/-- the group is entered and its content buffer dropped unread (`let _content; parenthesized!(..)`) -/
def enterGroupIgnored (d : Delim) : P Unit := do
  let c ← enterGroup d
  withContent c (pure ())

/-- `syn::parse2::<T>(tokens)` -/
def parse2 {α} (q : P α) (ts : TS) : Except PErr α :=
  match q { toks := ts, unexp := false } with
  | .error e => .error e
  | .ok (a, s) => if s.unexp || !s.toks.isEmpty then .error .lib else .ok a

/-- run on a fork; the real buffer is untouched -/
def onFork {α} (q : P α) : P (Except PErr (α × TS)) := do
  let s ← get
  match q { toks := s.toks, unexp := false } with
  | .error e => return .error e
  | .ok (a, s') => return .ok (a, s'.toks)

/-! ### Member / Index -/

inductive Member
  | named (s : String)
  | unnamed (idx : Nat)
  deriving DecidableEq, Repr, Inhabited

def Member.toTS : Member → TS
  | .named s => [.ident s]
  | .unnamed n => [.lit (toString n)]

def Member.str : Member → String
  | .named s => s
  | .unnamed n => toString n

def Member.isNamed : Member → Bool
  | .named _ => true
  | .unnamed _ => false

/-- `fork.parse::<syn::Index>().is_ok()` on the head of a token list -/
def headIsIndex : TS → Except PErr Bool
  | .lit s :: _ => if isIndexLit s then .ok true else if isOddInt s then .error (.unsupported "non-decimal integer literal") else .ok false
  | _ => .ok false

def peekMember (b : Back) : P Bool := do
  let ts ← toks
  if headIsIdent b ts then return true
  match headIsIndex ts with
  | .ok r => return r
  | .error e => throw e

def parseMember (b : Back) : P Member := do
  match (← toks) with
  | .ident s :: r => if isKeyword b s then failLib else do setToks r; return .named s
  | .lit s :: r =>
    if isIndexLit s then do setToks r; return .unnamed (indexValue s)
    else if isOddInt s then failUnsup "non-decimal integer literal" else failLib
  | _ => failLib

/-- `Punctuated::<Member, Token![.]>::parse_separated_nonempty` -/
def parseMemberPathAux (b : Back) : Nat → List Member → P (List Member)
  | 0, acc => return acc.reverse
  | fuel + 1, acc => do
    let m ← parseMember b
    if (← peekPuncts ".") then do
      parsePuncts "."
      parseMemberPathAux b fuel (m :: acc)
    else return (m :: acc).reverse

def parseMemberPath (b : Back) : P (List Member) := do
  parseMemberPathAux b ((← toks).length + 1) []

/-- `Punctuated<Member, Token![.]>::to_token_stream()` -/
def memberPathTS : List Member → TS
  | [] => []
  | [m] => m.toTS
  | m :: ms => m.toTS ++ [p '.'] ++ memberPathTS ms

/-! ### types, generic arguments, paths (a fragment; outside it the model answers `unsupported`) -/

inductive GArg
  | lifetime (name : String)
  | other (ts : TS)
  deriving Repr, Inhabited

structure GenArgs where
  colon2 : Bool
  /-- argument, followed by a comma? -/
  args : List (GArg × Bool)
  deriving Repr, Inhabited

structure Seg where
  ident : String
  args : Option GenArgs
  deriving Repr, Inhabited

structure Path where
  leading : Bool
  segs : List Seg
  deriving Repr, Inhabited

def colon2TS : TS := [j ':', p ':']

def GArg.toTS : GArg → TS
  | .lifetime n => [j '\'', .ident n]
  | .other ts => ts

def GenArgs.toTS (g : GenArgs) : TS :=
  (if g.colon2 then colon2TS else []) ++ [p '<'] ++
    (g.args.flatMap fun (a, c) => a.toTS ++ (if c then [p ','] else [])) ++ [p '>']

def Seg.toTS (s : Seg) : TS := [.ident s.ident] ++ (match s.args with | some g => g.toTS | none => [])

def segsTS : List Seg → TS
  | [] => []
  | [s] => s.toTS
  | s :: ss => s.toTS ++ colon2TS ++ segsTS ss

def Path.toTS (pth : Path) : TS := (if pth.leading then colon2TS else []) ++ segsTS pth.segs

/-- canonical spacing that syn's printers give to the punctuation of a type -/
def respace : Nat → TS → TS
  | 0, ts => ts
  | _, [] => []
  | f + 1, .punct ':' _ :: .punct ':' _ :: r => j ':' :: p ':' :: respace f r
  | f + 1, .punct '-' _ :: .punct '>' _ :: r => j '-' :: p '>' :: respace f r
  | f + 1, .punct '\'' _ :: r => j '\'' :: respace f r
  | f + 1, .punct c _ :: r => p c :: respace f r
  | f + 1, .group d ts :: r => .group d (respace f ts) :: respace f r
  | f + 1, t :: r => t :: respace f r

mutual
def Tok.size : Tok → Nat
  | .group _ ts => 1 + Tok.sizeList ts
  | _ => 1
def Tok.sizeList : List Tok → Nat
  | [] => 0
  | t :: ts => Tok.size t + Tok.sizeList ts
end

def respaceTS (ts : TS) : TS := respace (Tok.sizeList ts + 1) ts

def pathSegKeywords : List String := ["super", "self", "crate", "Self"]

mutual
/-- a type of the supported fragment; returns the tokens syn would print for it -/
def parseTypeF (b : Back) : Nat → P TS
  | 0 => failUnsup "type too deep"
  | f + 1 => do
    match (← toks) with
    | .punct '&' _ :: r => do
      setToks r
      let lt ← (do
        if headIsLifetime (← toks) then
          match (← toks) with
          | _ :: .ident n :: r' => do setToks r'; pure [j '\'', Tok.ident n]
          | _ => pure []
        else pure [])
      let mt ← (do if (← peekKw "mut") then do parseKw "mut"; pure [Tok.ident "mut"] else pure [])
      let t ← parseTypeF b f
      return [p '&'] ++ lt ++ mt ++ t
    | .group .paren c :: r => do setToks r; return [.group .paren (respaceTS c)]
    | .group .bracket c :: r => do setToks r; return [.group .bracket (respaceTS c)]
    | .punct ':' _ :: _ => do let pth ← parsePathF b f; return pth.toTS
    | .ident s :: _ =>
      if s == "_" then do setToks ((← toks).drop 1); return [.ident "_"]
      else if ["dyn", "impl", "fn", "unsafe", "extern", "for"].contains s then failUnsup ("type starting with " ++ s)
      else do
        let pth ← parsePathF b f
        if (← peekPuncts "!") then failUnsup "macro in type position"
        return pth.toTS
    | [] => failLib
    | _ => failUnsup "type form outside the modelled fragment"

def parseGenericArgF (b : Back) : Nat → P GArg
  | 0 => failUnsup "type too deep"
  | f + 1 => do
    let ts ← toks
    if headIsLifetime ts then
      match ts with
      | _ :: .ident n :: r =>
        if headIsPuncts ['+'] r then failUnsup "lifetime bound as generic argument"
        else do setToks r; return .lifetime n
      | _ => failLib
    else match ts with
      | .lit s :: r => do setToks r; return .other [.lit s]
      | .group .brace _ :: _ => failUnsup "const block generic argument"
      | .punct '-' _ :: .lit s :: r => do setToks r; return .other [p '-', .lit s]
      | _ => do
        let t ← parseTypeF b f
        let ts' ← toks
        if headIsPuncts ['='] ts' || (headIsPuncts [':'] ts' && !headIsPuncts [':', ':'] ts') then
          failUnsup "associated type binding / constraint"
        return .other t

def parseGenericArgsLoopF (b : Back) : Nat → List (GArg × Bool) → P (List (GArg × Bool))
  | 0, _ => failUnsup "type too deep"
  | f + 1, acc => do
    if (← peekPuncts ">") then return acc.reverse
    let a ← parseGenericArgF b f
    if (← peekPuncts ">") then return ((a, false) :: acc).reverse
    parsePuncts ","
    parseGenericArgsLoopF b f ((a, true) :: acc)

def parseAngleF (b : Back) : Nat → P GenArgs
  | 0 => failUnsup "type too deep"
  | f + 1 => do
    let c2 ← (do if (← peekPuncts "::") then do parsePuncts "::"; pure true else pure false)
    parsePuncts "<"
    let args ← parseGenericArgsLoopF b f []
    parsePuncts ">"
    return { colon2 := c2, args := args }

def parseSegF (b : Back) : Nat → P Seg
  | 0 => failUnsup "type too deep"
  | f + 1 => do
    match (← toks) with
    | .ident s :: r =>
      if s == "try" then failUnsup "path segment `try`" else
      if ["super", "self", "crate"].contains s then do setToks r; return { ident := s, args := none }
      else if s != "Self" && isKeyword b s then failLib
      else do
        setToks r
        let ts ← toks
        let lt := headIsPuncts ['<'] ts
        if lt && (headIsPuncts ['<', '='] ts) then
          -- `peek(Token![<=])` only succeeds when `<` is Joint; keep clear of the corner
          failUnsup "`<=` after path segment"
        else if lt || (headIsPuncts [':', ':'] ts && (match skipTT ts with
              | some r1 => (match skipTT r1 with | some r2 => headIsPuncts ['<'] r2 | none => false)
              | none => false)) then do
          let g ← parseAngleF b f
          return { ident := s, args := some g }
        else return { ident := s, args := none }
    | _ => failLib

def parsePathRestF (b : Back) : Nat → List Seg → P (List Seg)
  | 0, _ => failUnsup "type too deep"
  | f + 1, acc => do
    let ts ← toks
    let p3paren := match skipTT ts with
      | some r1 => (match skipTT r1 with | some r2 => headIsGroup .paren r2 | none => false)
      | none => false
    if headIsPuncts [':', ':'] ts && !p3paren then do
      parsePuncts "::"
      let s ← parseSegF b f
      parsePathRestF b f (s :: acc)
    else return acc.reverse

def parsePathF (b : Back) : Nat → P Path
  | 0 => failUnsup "type too deep"
  | f + 1 => do
    let lead ← (do if (← peekPuncts "::") then do parsePuncts "::"; pure true else pure false)
    let s ← parseSegF b f
    let segs ← parsePathRestF b f [s]
    return { leading := lead, segs := segs }
end

/-- `input.parse::<syn::Path>()` -/
def parsePath (b : Back) : P Path := do
  parsePathF b (2 * Tok.sizeList (← toks) + 8)

/-- `input.parse::<syn::Type>()` restricted to the modelled fragment -/
def parseType (b : Back) : P TS := do
  parseTypeF b (2 * Tok.sizeList (← toks) + 8)

/-- split a token list at top-level commas, `<`/`>` nesting respected (used for where-predicates) -/
def splitTopCommas : TS → Nat → TS → List TS → List TS
  | [], _, cur, acc => (cur.reverse :: acc).reverse
  | .punct ',' _ :: r, 0, cur, acc => splitTopCommas r 0 [] (cur.reverse :: acc)
  | .punct '<' jn :: r, d, cur, acc => splitTopCommas r (d + 1) (.punct '<' jn :: cur) acc
  | .punct '>' jn :: r, d, cur, acc => splitTopCommas r (d - 1) (.punct '>' jn :: cur) acc
  | t :: r, d, cur, acc => splitTopCommas r d (t :: cur) acc

end O2o
