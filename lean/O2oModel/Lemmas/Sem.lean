/-
Lemmas tying the emitted member lines of a plain struct conversion to the record semantics of `O2oModel/Sem.lean`.
-/
import O2oModel.Sem
import O2oModel.Lemmas.Blocks
namespace O2o
open Sem

/-- tokens of one initialiser line -/
def tokLine (slot obj m : String) : TS :=
  [.ident slot, .punct ':' false, .ident obj, .punct '.' false, .ident m, .punct ',' false]

theorem srcIdent_from {k : Kind} (h : k.isFrom = true) : srcIdent k = [Tok.ident "value"] := by
  simp [srcIdent, h]; rfl
theorem srcIdent_into {k : Kind} (h : k.isFrom = false) : srcIdent k = [Tok.ident "self"] := by
  simp [srcIdent, h]; rfl

theorem cls_from_isFrom {k : Kind} (h : k.cls = .from_) : k.isFrom = true := by
  unfold Kind.cls at h
  cases hf : k.isFrom
  · simp [hf] at h; split at h <;> cases h
  · rfl

theorem cls_into_isFrom {k : Kind} (h : k.cls = .into) : k.isFrom = false := by
  unfold Kind.cls at h
  cases hf : k.isFrom
  · rfl
  · simp [hf] at h

/-- member `f`, named `n`, is mapped plainly to the counterpart member `x`: no instruction applies (then `x = n`) or a
    rename without expression applies; it is not flattened and takes part in this conversion -/
structure Simple (ctx : ImplContext) (f : Field) (n x : String) : Prop where
  named : f.member = .named n
  noChild : f.attrs.child ctx.ty = none
  notSkipped : fieldSkipped ctx f = false
  how : (f.attrs.applicableAttr ctx.kind ctx.fallible ctx.ty = none ∧ f.attrs.hasParentAttr ctx.ty = false ∧ x = n) ∨
        (∃ c, f.attrs.applicableAttr ctx.kind ctx.fallible ctx.ty = some (.field c) ∧ c.member = some (.named x) ∧ c.action = none)

theorem simple_line_from (ctx : ImplContext) (f : Field) (n x : String) (idx : Nat) (h : Simple ctx f n x)
    (hk : ctx.kind.cls = .from_) (hv : ctx.isVariant = false) :
    renderStructLine f ctx .unspecified idx none = .ok (tokLine n "value" x) := by
  have hs := srcIdent_from (cls_from_isFrom hk)
  rcases h.how with ⟨ha, hp, hx⟩ | ⟨c, ha, hc, hact⟩
  · subst hx
    unfold renderStructLine
    simp [h.named, hk, ha, hp, h.noChild, hv, hs, tokLine, pure, Except.pure, Member.toTS, i, dot, colon, comma]
  · unfold renderStructLine
    simp [h.named, hk, ha, hc, hact, h.noChild, hv, hs, tokLine, ApplicableAttr.getStuff, getStuffInner, bind, Except.bind, pure, Except.pure,
      Member.toTS, i, dot, colon, comma]

theorem simple_line_into (ctx : ImplContext) (f : Field) (n x : String) (idx : Nat) (h : Simple ctx f n x)
    (hk : ctx.kind.cls = .into) (hv : ctx.isVariant = false) (hpost : ctx.hasPostInit = false) :
    renderStructLine f ctx .unspecified idx none = .ok (tokLine x "self" n) := by
  have hs := srcIdent_into (cls_into_isFrom hk)
  rcases h.how with ⟨ha, _, hx⟩ | ⟨c, ha, hc, hact⟩
  · subst hx
    unfold renderStructLine
    simp [h.named, hk, ha, hv, hpost, hs, tokLine, pure, Except.pure, Member.toTS, i, dot, colon, comma]
  · unfold renderStructLine
    simp [h.named, hk, ha, hc, hact, hv, hpost, hs, tokLine, ApplicableAttr.getFieldNameOr, ApplicableAttr.getActionOr, bind, Except.bind,
      pure, Except.pure, Member.toTS, i, dot, colon, comma]

/-- when every member is rendered and its line does not depend on the running position, the body is the concatenation -/
theorem flatLines_of_lines (ctx : ImplContext) (hint : TypeHint) :
    ∀ (ts : List (Field × TS)) (idx : Nat),
      (∀ t ∈ ts, fieldSkipped ctx t.1 = false ∧ ∀ k, renderStructLine t.1 ctx hint k none = .ok t.2) →
      flatLines ctx hint (ts.map (·.1)) idx = .ok (ts.flatMap (·.2))
  | [], _, _ => by simp [flatLines]
  | t :: ts, idx, h => by
    have hf := h t List.mem_cons_self
    have ih := flatLines_of_lines ctx hint ts (idx + 1) (fun g hg => h g (List.mem_cons_of_mem _ hg))
    simp [flatLines, hf.1, hf.2 idx, ih, bind, Except.bind, pure, Except.pure]

theorem parseLines_tokLines : ∀ (ls : List Line) (fuel : Nat), ls.length ≤ fuel →
    parseLines fuel (ls.flatMap fun l => tokLine l.slot l.obj l.member) = some ls
  | [], fuel, _ => by cases fuel <;> simp [parseLines]
  | l :: ls, fuel, h => by
    cases fuel with
    | zero => simp at h
    | succ n =>
      have ih := parseLines_tokLines ls n (by simpa using h)
      simp only [List.flatMap_cons, tokLine, List.cons_append, List.nil_append, parseLines] at ih ⊢
      rw [ih]; rfl

theorem evalLines_map (obj : String) (src : Rec) : ∀ (ps : List (String × String)),
    evalLines obj src (ps.map fun p => { slot := p.1, obj := obj, member := p.2 }) =
      ps.mapM (fun p => (src.get? p.2).map fun v => (p.1, v))
  | [] => by simp [evalLines, List.mapM_nil, pure]
  | p :: ps => by
    have ih := evalLines_map obj src ps
    simp only [List.map_cons, evalLines, beq_self_eq_true, ↓reduceIte, List.mapM_cons, ih]
    cases src.get? p.2 <;> cases (ps.mapM fun p => (src.get? p.2).map fun v => (p.1, v)) <;> simp [bind, Option.bind, pure]

theorem flatMap_tokLine_length (ls : List Line) : ls.length ≤ (ls.flatMap fun l => tokLine l.slot l.obj l.member).length := by
  induction ls with
  | nil => simp
  | cons l ls ih =>
    rw [List.flatMap_cons, List.length_append, List.length_cons]
    have : (tokLine l.slot l.obj l.member).length = 6 := rfl
    omega

/-- the reading of a body made of plain lines -/
theorem evalInit_tokLines (obj : String) (src : Rec) (ps : List (String × String)) :
    evalInit obj src (ps.flatMap fun p => tokLine p.1 obj p.2) = ps.mapM (fun p => (src.get? p.2).map fun v => (p.1, v)) := by
  have hmap : (ps.flatMap fun p => tokLine p.1 obj p.2) =
      ((ps.map fun p => ({ slot := p.1, obj := obj, member := p.2 } : Line)).flatMap fun l => tokLine l.slot l.obj l.member) := by
    simp [List.flatMap_map]
  unfold evalInit
  rw [hmap, parseLines_tokLines _ _ (by have := flatMap_tokLine_length (ps.map fun p => ({ slot := p.1, obj := obj, member := p.2 } : Line)); omega)]
  simp [Option.bind, evalLines_map]

theorem mapM_option_congr {α β : Type} (f g : α → Option β) : ∀ (l : List α), (∀ a ∈ l, f a = g a) → l.mapM f = l.mapM g
  | [], _ => rfl
  | a :: l, h => by
    rw [List.mapM_cons, List.mapM_cons, h a List.mem_cons_self, mapM_option_congr f g l (fun b hb => h b (List.mem_cons_of_mem _ hb))]

theorem recGet_cons_self (k : String) (v : Val) (r : Rec) : Rec.get? ((k, v) :: r) k = some v := by
  simp [Rec.get?, List.find?]

theorem recGet_cons_ne (k k' : String) (v : Val) (r : Rec) (h : k ≠ k') : Rec.get? ((k, v) :: r) k' = Rec.get? r k' := by
  have hb : (k == k') = false := by simpa using h
  simp [Rec.get?, List.find?, hb]

/-- Into followed by From gives every member its own value back, whenever no two members designate the same counterpart
    member: `from (into s) = s` on the mapped members -/
theorem roundtrip_pairs : ∀ (ps : List (String × String)) (s : Rec), (ps.map (·.2)).Nodup → (∀ p ∈ ps, (s.get? p.1).isSome) →
    ∃ r, ps.mapM (fun p => (s.get? p.1).map fun v => (p.2, v)) = some r ∧
      ps.mapM (fun p => (Rec.get? r p.2).map fun v => (p.1, v)) = ps.mapM (fun p => (s.get? p.1).map fun v => (p.1, v))
  | [], _, _, _ => ⟨[], rfl, rfl⟩
  | p :: ps, s, hnd, hdef => by
    have hnd' : (ps.map (·.2)).Nodup := (List.nodup_cons.mp (by simpa using hnd)).2
    have hnot : p.2 ∉ ps.map (·.2) := (List.nodup_cons.mp (by simpa using hnd)).1
    obtain ⟨r, hr, hback⟩ := roundtrip_pairs ps s hnd' (fun q hq => hdef q (List.mem_cons_of_mem _ hq))
    obtain ⟨v, hv⟩ := Option.isSome_iff_exists.mp (hdef p List.mem_cons_self)
    refine ⟨(p.2, v) :: r, ?_, ?_⟩
    · simp [List.mapM_cons, hv, hr, bind, Option.bind, pure]
    · have hcongr : ps.mapM (fun q => (Rec.get? ((p.2, v) :: r) q.2).map fun w => (q.1, w)) =
          ps.mapM (fun q => (Rec.get? r q.2).map fun w => (q.1, w)) := by
        apply mapM_option_congr
        intro q hq
        have : p.2 ≠ q.2 := fun e => hnot (List.mem_map.mpr ⟨q, hq, e.symm⟩)
        rw [recGet_cons_ne _ _ _ _ this]
      rw [List.mapM_cons, List.mapM_cons, recGet_cons_self, hcongr, hback, hv]

/-! ### into_existing -/

def tokAssign (slot obj m : String) : TS :=
  [.ident "other", .punct '.' false, .ident slot, .punct '=' false, .ident obj, .punct '.' false, .ident m, .punct ';' false]

theorem cls_existing_isFrom {k : Kind} (h : k.cls = .existing) : k.isFrom = false := by
  unfold Kind.cls at h
  cases hf : k.isFrom
  · rfl
  · simp [hf] at h

theorem simple_line_existing (ctx : ImplContext) (f : Field) (n x : String) (idx : Nat) (h : Simple ctx f n x)
    (hk : ctx.kind.cls = .existing) (hv : ctx.isVariant = false) :
    renderStructLine f ctx .unspecified idx none = .ok (tokAssign x "self" n) := by
  have hs := srcIdent_into (cls_existing_isFrom hk)
  rcases h.how with ⟨ha, _, hx⟩ | ⟨c, ha, hc, hact⟩
  · subst hx
    unfold renderStructLine
    simp [h.named, hk, ha, hv, h.noChild, hs, tokAssign, pure, Except.pure, Member.toTS, i, dot, eq, semi]
  · unfold renderStructLine
    simp [h.named, hk, ha, hc, hact, hv, h.noChild, hs, tokAssign, ApplicableAttr.getFieldNameOr, ApplicableAttr.getActionOr, bind, Except.bind,
      pure, Except.pure, Member.toTS, i, dot, eq, semi]

theorem parseAssigns_tok : ∀ (as : List Assign) (fuel : Nat), as.length ≤ fuel →
    parseAssigns fuel (as.flatMap fun a => tokAssign a.slot a.obj a.member) = some as
  | [], fuel, _ => by cases fuel <;> simp [parseAssigns]
  | a :: as, fuel, h => by
    cases fuel with
    | zero => simp at h
    | succ n =>
      have ih := parseAssigns_tok as n (by simpa using h)
      simp only [List.flatMap_cons, tokAssign, List.cons_append, List.nil_append, parseAssigns] at ih ⊢
      rw [ih]; rfl

theorem flatMap_tokAssign_length (as : List Assign) : as.length ≤ (as.flatMap fun a => tokAssign a.slot a.obj a.member).length := by
  induction as with
  | nil => simp
  | cons a as ih =>
    rw [List.flatMap_cons, List.length_append, List.length_cons]
    have : (tokAssign a.slot a.obj a.member).length = 8 := rfl
    omega

/-- the record after running the assignments `x_i := src[n_i]` (all `n_i` present): every designated member holds the
    value of the last assignment to it, every other member of `other` is untouched -/
theorem execAssigns_spec (obj : String) (src : Rec) : ∀ (ps : List (String × String)) (other : Rec),
    (∀ p ∈ ps, (src.get? p.1).isSome) →
    ∃ r, execAssigns obj src (ps.map fun p => { slot := p.2, obj := obj, member := p.1 }) other = some r ∧
      (∀ k, k ∉ ps.map (·.2) → Rec.get? r k = Rec.get? other k) ∧
      ((ps.map (·.2)).Nodup → ∀ p ∈ ps, Rec.get? r p.2 = src.get? p.1)
  | [], other, _ => ⟨other, rfl, fun _ _ => rfl, fun _ _ h => by simp at h⟩
  | p :: ps, other, hdef => by
    obtain ⟨v, hv⟩ := Option.isSome_iff_exists.mp (hdef p List.mem_cons_self)
    obtain ⟨r, hr, hout, hin⟩ := execAssigns_spec obj src ps (Rec.set other p.2 v) (fun q hq => hdef q (List.mem_cons_of_mem _ hq))
    refine ⟨r, ?_, ?_, ?_⟩
    · simp [execAssigns, hv, hr]
    · intro k hk
      have hk1 : k ≠ p.2 := fun e => hk (by simp [e])
      have hk2 : k ∉ ps.map (·.2) := fun e => hk (by simp at e ⊢; exact Or.inr e)
      rw [hout k hk2, Rec.set, recGet_cons_ne _ _ _ _ (Ne.symm hk1)]
    · intro hnd q hq
      have hnd' : (ps.map (·.2)).Nodup := (List.nodup_cons.mp (by simpa using hnd)).2
      have hnot : p.2 ∉ ps.map (·.2) := (List.nodup_cons.mp (by simpa using hnd)).1
      rcases List.mem_cons.mp hq with rfl | hq'
      · rw [hout _ hnot, Rec.set, recGet_cons_self, hv]
      · exact hin hnd' q hq'

/-- reading the freshly built record back: each designated member holds the value of its source member -/
theorem mapM_get (s : Rec) : ∀ (ps : List (String × String)) (r : Rec),
    ps.mapM (fun p => (s.get? p.1).map fun v => (p.2, v)) = some r → (ps.map (·.2)).Nodup →
    ∀ p ∈ ps, Rec.get? r p.2 = s.get? p.1
  | [], _, _, _, p, hp => by simp at hp
  | q :: ps, r, hr, hnd, p, hp => by
    have hnd' : (ps.map (·.2)).Nodup := (List.nodup_cons.mp (by simpa using hnd)).2
    have hnot : q.2 ∉ ps.map (·.2) := (List.nodup_cons.mp (by simpa using hnd)).1
    rw [List.mapM_cons] at hr
    cases hq : s.get? q.1 with
    | none => simp [hq, bind, Option.bind] at hr
    | some v =>
      cases hrest : ps.mapM (fun p => (s.get? p.1).map fun v => (p.2, v)) with
      | none => simp [hq, hrest, bind, Option.bind] at hr
      | some r' =>
        simp [hq, hrest, bind, Option.bind, pure] at hr
        subst hr
        rcases List.mem_cons.mp hp with rfl | hp'
        · rw [recGet_cons_self, hq]
        · have : q.2 ≠ p.2 := fun e => hnot (List.mem_map.mpr ⟨p, hp', e.symm⟩)
          rw [recGet_cons_ne _ _ _ _ this]
          exact mapM_get s ps r' hrest hnd' p hp'

theorem execBody_tok (obj : String) (src : Rec) (ps : List (String × String)) (other : Rec) :
    execBody obj src (ps.flatMap fun p => tokAssign p.2 obj p.1) other =
      execAssigns obj src (ps.map fun p => { slot := p.2, obj := obj, member := p.1 }) other := by
  have hmap : (ps.flatMap fun p => tokAssign p.2 obj p.1) =
      ((ps.map fun p => ({ slot := p.2, obj := obj, member := p.1 } : Assign)).flatMap fun a => tokAssign a.slot a.obj a.member) := by
    simp [List.flatMap_map]
  unfold execBody
  rw [hmap, parseAssigns_tok _ _ (by have := flatMap_tokAssign_length (ps.map fun p => ({ slot := p.2, obj := obj, member := p.1 } : Assign)); omega)]
  simp [Option.bind]

/-! ### the three bodies -/

theorem value_from (ctx : ImplContext) (fs : List (Field × String × String))
    (hk : ctx.kind.cls = .from_) (hv : ctx.isVariant = false) (hs : ∀ t ∈ fs, Simple ctx t.1 t.2.1 t.2.2) :
    ∃ body, flatLines ctx .unspecified (fs.map (·.1)) 0 = .ok body ∧
      ∀ src : Rec, evalInit "value" src body = fs.mapM (fun t => (src.get? t.2.2).map fun v => (t.2.1, v)) := by
  refine ⟨fs.flatMap fun t => tokLine t.2.1 "value" t.2.2, ?_, ?_⟩
  · have := flatLines_of_lines ctx .unspecified (fs.map fun t => (t.1, tokLine t.2.1 "value" t.2.2)) 0 (by
      intro t ht
      obtain ⟨u, hu, rfl⟩ := List.mem_map.mp ht
      exact ⟨(hs u hu).notSkipped, fun k => simple_line_from ctx u.1 u.2.1 u.2.2 k (hs u hu) hk hv⟩)
    simpa [List.map_map, List.flatMap_map, Function.comp_def] using this
  · intro src
    have := evalInit_tokLines "value" src (fs.map fun t => (t.2.1, t.2.2))
    simpa [List.flatMap_map, List.mapM_map, Function.comp_def] using this


theorem value_into (ctx : ImplContext) (fs : List (Field × String × String))
    (hk : ctx.kind.cls = .into) (hv : ctx.isVariant = false) (hpost : ctx.hasPostInit = false)
    (hs : ∀ t ∈ fs, Simple ctx t.1 t.2.1 t.2.2) :
    ∃ body, flatLines ctx .unspecified (fs.map (·.1)) 0 = .ok body ∧
      ∀ s : Rec, evalInit "self" s body = fs.mapM (fun t => (s.get? t.2.1).map fun v => (t.2.2, v)) := by
  refine ⟨fs.flatMap fun t => tokLine t.2.2 "self" t.2.1, ?_, ?_⟩
  · have := flatLines_of_lines ctx .unspecified (fs.map fun t => (t.1, tokLine t.2.2 "self" t.2.1)) 0 (by
      intro t ht
      obtain ⟨u, hu, rfl⟩ := List.mem_map.mp ht
      exact ⟨(hs u hu).notSkipped, fun k => simple_line_into ctx u.1 u.2.1 u.2.2 k (hs u hu) hk hv hpost⟩)
    simpa [List.map_map, List.flatMap_map, Function.comp_def] using this
  · intro s
    have := evalInit_tokLines "self" s (fs.map fun t => (t.2.2, t.2.1))
    simpa [List.flatMap_map, List.mapM_map, Function.comp_def] using this


theorem value_existing (ctx : ImplContext) (fs : List (Field × String × String))
    (hk : ctx.kind.cls = .existing) (hv : ctx.isVariant = false) (hs : ∀ t ∈ fs, Simple ctx t.1 t.2.1 t.2.2) :
    ∃ body, flatLines ctx .unspecified (fs.map (·.1)) 0 = .ok body ∧
      ∀ (s other : Rec), (∀ t ∈ fs, (s.get? t.2.1).isSome) →
        ∃ r, execBody "self" s body other = some r ∧
          (∀ k, k ∉ fs.map (·.2.2) → Rec.get? r k = Rec.get? other k) ∧
          ((fs.map (·.2.2)).Nodup → ∀ t ∈ fs, Rec.get? r t.2.2 = s.get? t.2.1) := by
  refine ⟨fs.flatMap fun t => tokAssign t.2.2 "self" t.2.1, ?_, ?_⟩
  · have := flatLines_of_lines ctx .unspecified (fs.map fun t => (t.1, tokAssign t.2.2 "self" t.2.1)) 0 (by
      intro t ht
      obtain ⟨u, hu, rfl⟩ := List.mem_map.mp ht
      exact ⟨(hs u hu).notSkipped, fun k => simple_line_existing ctx u.1 u.2.1 u.2.2 k (hs u hu) hk hv⟩)
    simpa [List.map_map, List.flatMap_map, Function.comp_def] using this
  · intro s other hdef
    have hb := execBody_tok "self" s (fs.map fun t => (t.2.1, t.2.2)) other
    simp only [List.flatMap_map, List.map_map, Function.comp_def] at hb
    obtain ⟨r, hr, hout, hin⟩ := execAssigns_spec "self" s (fs.map fun t => (t.2.1, t.2.2)) other (by
      intro p hp
      obtain ⟨u, hu, rfl⟩ := List.mem_map.mp hp
      exact hdef u hu)
    simp only [List.map_map, Function.comp_def] at hr hout hin
    refine ⟨r, by rw [hb]; exact hr, hout, ?_⟩
    intro hnd t ht
    exact hin hnd (t.2.1, t.2.2) (List.mem_map.mpr ⟨t, ht, rfl⟩)


end O2o
