/-
Block-level lemmas: the loops of the expander (`foldlM` with append, the cursor loop of
`struct_init_block_inner`) equal "render each member, concatenate in order".
-/
import O2oModel.Expand
namespace O2o

/-- `foldlM` that appends one rendered piece per element = `mapM` then `flatten` -/
theorem foldlM_append_eq_mapM {α} (xs : List α) (f : α → E TS) (acc : TS) :
    xs.foldlM (fun (acc : TS) x => do return acc ++ (← f x)) acc = (do return acc ++ (← xs.mapM f).flatten) := by
  induction xs generalizing acc with
  | nil => simp [List.foldlM, pure, Except.pure, bind, Except.bind]
  | cons x xs ih =>
    simp only [List.foldlM_cons, List.mapM_cons]
    cases hx : f x with
    | error e => simp [bind, Except.bind]
    | ok t =>
      simp only [bind, Except.bind, pure, Except.pure]
      have := ih (acc ++ t)
      simp only [bind, Except.bind, pure, Except.pure] at this
      rw [this]
      cases xs.mapM f with
      | error e => rfl
      | ok ts => simp [List.flatten, List.append_assoc]

theorem enum_variant_fold (vs : List Variant) (ctx : ImplContext) (acc : TS) :
    vs.foldlM (enumArmStep ctx) acc
      = (do return acc ++ (← (vs.filter (variantContributes ctx)).mapM (renderEnumLine · ctx)).flatten) := by
  induction vs generalizing acc with
  | nil => simp [List.foldlM, pure, Except.pure, bind, Except.bind]
  | cons v vs ih =>
    simp only [List.foldlM_cons, List.filter_cons, enumArmStep]
    by_cases hc : variantContributes ctx v = true
    · simp only [hc, if_true, List.mapM_cons, bind, Except.bind, pure, Except.pure]
      cases hx : renderEnumLine v ctx with
      | error e => rfl
      | ok t =>
        simp only
        have := ih (acc ++ t)
        simp only [bind, Except.bind, pure, Except.pure] at this
        rw [this]
        cases (vs.filter (variantContributes ctx)).mapM (renderEnumLine · ctx) with
        | error e => rfl
        | ok ts => simp [List.flatten, List.append_assoc]
    · have hc' : variantContributes ctx v = false := by simpa using hc
      simp only [hc', Bool.false_eq_true, if_false, bind, Except.bind, pure, Except.pure]
      have := ih acc
      simp only [bind, Except.bind, pure, Except.pure] at this
      exact this

/-- `enum_init_block` = one arm per contributing variant **in declaration order**, then the `#[ghosts]` arms of the
    instruction selected for this counterpart and kind, then the default arm; wrapped in braces -/
theorem enumInitBlock_eq (input : Enum) (ctx : ImplContext) :
    enumInitBlock input ctx = (do
      let arms ← (input.variants.filter (variantContributes ctx)).mapM (renderEnumLine · ctx)
      let ghostArms ← (enumGhostData input ctx).mapM (renderEnumGhostLine · ctx)
      return [brace (arms.flatten ++ ghostArms.flatten ++ defaultArm input ctx)]) := by
  unfold enumInitBlock
  rw [enum_variant_fold]
  simp only [List.nil_append]
  cases h1 : (input.variants.filter (variantContributes ctx)).mapM (renderEnumLine · ctx) with
  | error e => simp [bind, Except.bind]
  | ok arms =>
    simp only [bind, Except.bind, pure, Except.pure]
    have := foldlM_append_eq_mapM (enumGhostData input ctx) (renderEnumGhostLine · ctx) arms.flatten
    simp only [bind, Except.bind, pure, Except.pure] at this
    rw [this]
    cases h2 : (enumGhostData input ctx).mapM (renderEnumGhostLine · ctx) with
    | error e => rfl
    | ok gs => simp [List.append_assoc]

theorem mapM_ok_length {α β : Type} {f : α → E β} : ∀ {xs : List α} {ys : List β}, xs.mapM f = .ok ys → ys.length = xs.length
  | [], ys, h => by simp [List.mapM_nil, pure, Except.pure] at h; subst h; rfl
  | x :: xs, ys, h => by
    rw [List.mapM_cons] at h
    cases hx : f x with
    | error e => simp [hx, bind, Except.bind] at h
    | ok y =>
      cases hxs : xs.mapM f with
      | error e => simp [hx, hxs, bind, Except.bind] at h
      | ok ys' =>
        simp [hx, hxs, bind, Except.bind, pure, Except.pure] at h
        subst h
        simp [mapM_ok_length hxs]
theorem mapM_ok_getElem {α β : Type} {f : α → E β} : ∀ {xs : List α} {ys : List β}, xs.mapM f = .ok ys →
    ∀ n (hx : n < xs.length) (hy : n < ys.length), f xs[n] = .ok ys[n]
  | [], ys, h, n, hx, _ => by simp at hx
  | x :: xs, ys, h, n, hx, hy => by
    rw [List.mapM_cons] at h
    cases hfx : f x with
    | error e => simp [hfx, bind, Except.bind] at h
    | ok y =>
      cases hxs : xs.mapM f with
      | error e => simp [hfx, hxs, bind, Except.bind] at h
      | ok ys' =>
        simp [hfx, hxs, bind, Except.bind, pure, Except.pure] at h
        subst h
        cases n with
        | zero => simpa using hfx
        | succ n =>
          simp only [List.getElem_cons_succ]
          exact mapM_ok_getElem hxs n (by simpa using hx) (by simpa using hy)


end O2o

namespace O2o

/-- specification of a flat struct body: one line per contributing member, in declaration order, the running
    position `idx` counting only contributing members -/
def flatLines (ctx : ImplContext) (hint : TypeHint) : List Field → Nat → E TS
  | [], _ => .ok []
  | f :: fs, idx =>
    if fieldSkipped ctx f then flatLines ctx hint fs idx
    else do
      let l ← renderStructLine f ctx hint idx none
      let r ← flatLines ctx hint fs (idx + 1)
      return l ++ r

def flatContainers (l : List (Nat × String × Field)) : List FieldContainer :=
  l.map fun t => { grIdx := t.1, path := t.2.1, fieldData := .field t.2.2 }

/-- the cursor loop of `struct_init_block_inner` over members that are not flattened (no `#[child]` for this
    counterpart), at top level: it is the flat specification, for every number of members -/
theorem structInitLoop_flat (ctx : ImplContext) (named : Bool) (hint : TypeHint) :
    ∀ (l : List (Nat × String × Field)) (fuel : Nat) (frags : TS) (idx : Nat),
      l.length < fuel → (∀ t ∈ l, t.2.2.attrs.child ctx.ty = none) →
      structInitLoop fuel (flatContainers l) named ctx none hint frags idx =
        (match flatLines ctx hint (l.map (·.2.2)) idx with
         | .ok ls => .ok (frags ++ ls, [])
         | .error e => .error e)
  | [], fuel, frags, idx, hf, _ => by
    cases fuel with
    | zero => simp at hf
    | succ n => simp [flatContainers, structInitLoop, flatLines, levelBreak]
  | t :: rest, fuel, frags, idx, hf, hc => by
    cases fuel with
    | zero => simp at hf
    | succ n =>
      have hrest : rest.length < n := by simpa using hf
      have hc' : ∀ t' ∈ rest, t'.2.2.attrs.child ctx.ty = none := fun t' ht => hc t' (List.mem_cons_of_mem _ ht)
      have hchild : t.2.2.attrs.child ctx.ty = none := hc t (List.mem_cons_self)
      simp only [flatContainers, List.map_cons, flatLines]
      unfold structInitLoop
      simp only [levelBreak, bind, Except.bind, pure, Except.pure, Option.map_none, hchild]
      have ih := structInitLoop_flat ctx named hint rest n
      simp only [flatContainers] at ih
      by_cases hs : fieldSkipped ctx t.2.2 = true
      · simp only [hs, ↓reduceIte]
        exact ih frags idx hrest hc'
      · have hs' : fieldSkipped ctx t.2.2 = false := by simpa using hs
        simp only [hs', Bool.false_eq_true, ↓reduceIte]
        cases hl : renderStructLine t.2.2 ctx hint idx none with
        | error e => rfl
        | ok line =>
          simp only
          rw [ih (frags ++ line) (idx + 1) hrest hc']
          cases flatLines ctx hint (rest.map (·.2.2)) (idx + 1) with
          | error e => rfl
          | ok ls => simp [List.append_assoc]

end O2o

namespace O2o

/-- **flat struct body**: for a struct whose members are not flattened, `struct_init_block_inner` at top level emits
    exactly one line per contributing member in declaration order (`flatLines`), then the struct-level ghost lines,
    then `..update`, wrapped by `wrapInit` — for every number of members -/
theorem structInitBlockInner_flat (ctx : ImplContext) (named : Bool) (l : List (Nat × String × Field)) (fuel : Nat)
    (out : TS) (rest : List FieldContainer)
    (hf : l.length + 1 < fuel) (hc : ∀ t ∈ l, t.2.2.attrs.child ctx.ty = none)
    (h : structInitBlockInner fuel (flatContainers l) named ctx none = .ok (out, rest)) :
    ∃ ls g, flatLines ctx ctx.structAttr.typeHint (l.map (·.2.2)) 0 = .ok ls ∧ structGhostLines ctx none = .ok g ∧
      wrapInit ctx ctx.structAttr.typeHint named (ls ++ g ++ updateToks ctx) = .ok out ∧ rest = [] := by
  cases fuel with
  | zero => simp at hf
  | succ n =>
    have hn : l.length < n := by omega
    unfold structInitBlockInner at h
    simp only [bind, Except.bind] at h
    rw [structInitLoop_flat ctx named ctx.structAttr.typeHint l n [] 0 hn hc] at h
    cases hl : flatLines ctx ctx.structAttr.typeHint (l.map (·.2.2)) 0 with
    | error e => simp [hl] at h
    | ok ls =>
      simp only [hl, List.nil_append] at h
      cases hg : structGhostLines ctx none with
      | error e => simp [hg] at h
      | ok g =>
        simp only [hg] at h
        cases hw : wrapInit ctx ctx.structAttr.typeHint named (ls ++ g ++ updateToks ctx) with
        | error e => rw [hw] at h; cases h
        | ok o =>
          rw [hw] at h
          simp only [pure, Except.pure, Except.ok.injEq, Prod.mk.injEq] at h
          exact ⟨ls, g, rfl, rfl, by rw [← h.1]; exact hw, h.2.symm⟩

end O2o
