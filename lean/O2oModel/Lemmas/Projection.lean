/-
C06 at the level of the whole descent: projecting every member's instructions onto one counterpart does not change
what `struct_init_block_inner` (and everything it calls) emits for that counterpart.
-/
import O2oModel.Props.C06
namespace O2o

def projField (ty : TypePath) (f : Field) : Field := { f with attrs := f.attrs.project ty }

def projFD (ty : TypePath) : FieldData → FieldData
  | .field f => .field (projField ty f)
  | .ghostData g => .ghostData g
  | .parentChildField f pc => .parentChildField (projField ty f) pc

def projFC (ty : TypePath) (fc : FieldContainer) : FieldContainer := { fc with fieldData := projFD ty fc.fieldData }

/-- the result of a descent step with the remaining cursor projected -/
def mapRest (ty : TypePath) (r : E (TS × List FieldContainer)) : E (TS × List FieldContainer) :=
  match r with
  | .ok (ts, l) => .ok (ts, l.map (projFC ty))
  | .error e => .error e

theorem mapRest_bind (ty : TypePath) (x : E (TS × List FieldContainer)) (k k' : TS × List FieldContainer → E (TS × List FieldContainer))
    (h : ∀ ts l, k (ts, l.map (projFC ty)) = mapRest ty (k' (ts, l))) :
    (mapRest ty x >>= k) = mapRest ty (x >>= k') := by
  cases x with
  | error e => rfl
  | ok v => obtain ⟨ts, l⟩ := v; simp only [mapRest, bind, Except.bind]; exact h ts l

/-- the six functions of the descent, at one fuel level, commute with the projection of the member list -/
structure Sim (ty : TypePath) (n : Nat) : Prop where
  inner : ∀ l named ctx lvl, ctx.ty = ty →
    structInitBlockInner n (l.map (projFC ty)) named ctx lvl = mapRest ty (structInitBlockInner n l named ctx lvl)
  loop : ∀ l named ctx lvl hint frags idx, ctx.ty = ty →
    structInitLoop n (l.map (projFC ty)) named ctx lvl hint frags idx = mapRest ty (structInitLoop n l named ctx lvl hint frags idx)
  frag : ∀ cp l ctx depth hint line, ctx.ty = ty →
    renderChildFragment n cp (l.map (projFC ty)) ctx depth hint line = mapRest ty (renderChildFragment n cp l ctx depth hint line)
  pfrag : ∀ f pc l nf ctx depth th idx, ctx.ty = ty →
    renderParentChildFragment n (projField ty f) pc (l.map (projFC ty)) nf ctx depth th idx
      = mapRest ty (renderParentChildFragment n f pc l nf ctx depth th idx)
  child : ∀ cd l named ctx cp d hint, ctx.ty = ty →
    renderChild n cd (l.map (projFC ty)) named ctx cp d hint = mapRest ty (renderChild n cd l named ctx cp d hint)
  echild : ∀ l named ctx cp d, ctx.ty = ty →
    renderExistingChild n (l.map (projFC ty)) named ctx cp d = mapRest ty (renderExistingChild n l named ctx cp d)

theorem sim_zero (ty : TypePath) : Sim ty 0 := by
  constructor <;> intros <;> simp [structInitBlockInner, structInitLoop, renderChildFragment, renderParentChildFragment, renderChild,
    renderExistingChild, mapRest]

theorem sim_succ (ty : TypePath) (n : Nat) (ih : Sim ty n) : Sim ty (n + 1) := by
  constructor
  · -- struct_init_block_inner
    intro l named ctx lvl h
    unfold structInitBlockInner
    simp only [bind, Except.bind, ih.loop _ _ _ _ _ _ _ h]
    cases structInitLoop n l named ctx lvl _ [] 0 with
    | error e => rfl
    | ok v =>
      obtain ⟨ts, r⟩ := v
      simp only [mapRest]
      cases structGhostLines ctx lvl with
      | error e => rfl
      | ok g =>
        simp only
        cases wrapInit ctx _ named (ts ++ g ++ updateToks ctx) with
        | error e => rfl
        | ok o => rfl
  · -- the loop
    intro l named ctx lvl hint frags idx h
    subst h
    cases l with
    | nil => simp [structInitLoop, mapRest]
    | cons fc rest =>
      simp only [List.map_cons]
      unfold structInitLoop
      simp only [bind, Except.bind, projFC]
      cases levelBreak lvl fc.path with
      | error e => rfl
      | ok b =>
        simp only
        cases b with
        | true => simp [mapRest, pure, Except.pure, projFC]
        | false =>
          simp only [Bool.false_eq_true, ↓reduceIte]
          cases hfd : fc.fieldData with
          | field f =>
            simp only [projFD, projField]
            have hsk := C06_field_skipped f ctx
            have hch := C06_child f.attrs ctx.ty
            simp only [hsk, hch]
            by_cases hs : fieldSkipped ctx f = true
            · simp only [hs, ↓reduceIte]
              exact ih.loop rest named ctx lvl hint frags idx rfl
            · have hs' : fieldSkipped ctx f = false := by simpa using hs
              simp only [hs', Bool.false_eq_true, ↓reduceIte]
              have hline : ∀ hh k, renderStructLine { f with attrs := f.attrs.project ctx.ty } ctx hh k none = renderStructLine f ctx hh k none := by
                intro hh k
                exact C06_line_projection f ctx hh k none
              cases f.attrs.child ctx.ty with
              | none =>
                simp only [hline]
                cases renderStructLine f ctx hint idx none with
                | error e => rfl
                | ok line => exact ih.loop rest named ctx lvl hint (frags ++ line) (idx + 1) rfl
              | some ca =>
                simp only [hline]
                have := ih.frag ca.childPath (fc :: rest) ctx (Option.map (fun x => x.2.2) lvl) hint
                  (fun _ => renderStructLine f ctx (childLineHint ctx ca hint) idx none) rfl
                simp only [List.map_cons, projFC, hfd, projFD, projField] at this
                rw [this]
                cases renderChildFragment n ca.childPath (fc :: rest) ctx _ hint _ with
                | error e => rfl
                | ok v =>
                  obtain ⟨fr, r⟩ := v
                  simp only [mapRest]
                  exact ih.loop r named ctx lvl hint (frags ++ fr) (idx + 1) rfl
          | ghostData g =>
            simp only [projFD]
            cases g.childPath with
            | none => rfl
            | some cp =>
              simp only
              have := ih.frag cp (fc :: rest) ctx (Option.map (fun x => x.2.2) lvl) hint (fun _ => .ok []) rfl
              simp only [List.map_cons, projFC, hfd, projFD] at this
              rw [this]
              cases renderChildFragment n cp (fc :: rest) ctx _ hint _ with
              | error e => rfl
              | ok v =>
                obtain ⟨fr, r⟩ := v
                simp only [mapRest]
                exact ih.loop r named ctx lvl hint (frags ++ fr) (idx + 1) rfl
          | parentChildField f pc =>
            simp only [projFD]
            cases parentChildHint ctx hint with
          | error e => rfl
          | ok th =>
              simp only
              have := ih.pfrag f pc (fc :: rest) pc.namedFields ctx (Option.map (fun x => x.2.2) lvl) th idx rfl
              simp only [List.map_cons, projFC, hfd, projFD] at this
              rw [this]
              cases renderParentChildFragment n f pc (fc :: rest) pc.namedFields ctx _ th idx with
              | error e => rfl
              | ok v =>
                obtain ⟨fr, r⟩ := v
                simp only [mapRest]
                exact ih.loop r named ctx lvl hint (frags ++ fr) (idx + 1) rfl
  · -- render_child_fragment
    intro cp l ctx depth hint line h
    subst h
    unfold renderChildFragment
    have hdrop : (l.map (projFC ctx.ty)).drop 1 = (l.drop 1).map (projFC ctx.ty) := by simp [List.map_drop]
    cases deeperThan depth (cp.strs.length - 1) with
    | true =>
      simp only [↓reduceIte]
      cases ctx.kind.cls with
      | into =>
        simp only [bind, Except.bind]
        cases ctx.input.attrs.childParentsAttr ctx.ty with
        | none => rfl
        | some cpa =>
          simp only
          cases cp.getStr (some (nextDepth depth)) with
          | error e => rfl
          | ok key =>
            simp only
            cases cpa.childParents.find? (fun cd => cd.fieldPathStr == key) with
            | none => rfl
            | some cd =>
              simp only
              cases ctx.input.namedFields with
              | error e => rfl
              | ok named => exact ih.child _ l named ctx cp _ hint rfl
      | existing =>
        simp only [bind, Except.bind]
        cases ctx.input.namedFields with
        | error e => rfl
        | ok named => exact ih.echild l named ctx cp _ rfl
      | from_ =>
        simp only [bind, Except.bind, pure, Except.pure, hdrop]
        cases line () <;> rfl
    | false =>
      simp only [Bool.false_eq_true, ↓reduceIte, bind, Except.bind, pure, Except.pure, hdrop]
      cases line () <;> rfl
  · -- render_parent_child_fragment
    intro f pc l nf ctx depth th idx h
    subst h
    unfold renderParentChildFragment
    have hdrop : (l.map (projFC ctx.ty)).drop 1 = (l.drop 1).map (projFC ctx.ty) := by simp [List.map_drop]
    have hline : renderStructLine (projField ctx.ty f) ctx th idx (some pc) = renderStructLine f ctx th idx (some pc) :=
      C06_line_projection f ctx th idx (some pc)
    cases (deeperThan depth pc.subPath.length && ctx.kind.isFrom) with
    | true =>
      simp only [↓reduceIte, bind, Except.bind, projField]
      cases depth with
      | none =>
        simp only
        cases f.ty with
        | none => rfl
        | some t =>
          simp only [pure, Except.pure]
          cases ctx.input.namedFields with
          | error e => rfl
          | ok named => exact ih.child _ l nf ctx _ _ _ rfl
      | some d =>
        simp only
        cases pc.subPath[d]? with
        | none => rfl
        | some e =>
          obtain ⟨m, ot⟩ := e
          cases ot with
          | none => rfl
          | some t =>
            simp only [pure, Except.pure]
            cases ctx.input.namedFields with
            | error e => rfl
            | ok named => exact ih.child _ l nf ctx _ _ _ rfl
    | false =>
      simp only [Bool.false_eq_true, ↓reduceIte, bind, Except.bind, hline, hdrop]
      cases renderStructLine f ctx th idx (some pc) <;> rfl
  · -- render_child
    intro cd l named ctx cp d hint h
    subst h
    unfold renderChild
    simp only [bind, Except.bind, ih.inner _ _ _ _ rfl]
    cases cp.path[d]? with
    | none => rfl
    | some m =>
      simp only [pure, Except.pure]
      cases structInitBlockInner n l named ctx (some (cp, some cd, d)) with
      | error e => rfl
      | ok v =>
        obtain ⟨init, r⟩ := v
        simp only [mapRest]
        cases ctx.input.namedFields with
        | error e => rfl
        | ok nr => cases nr <;> cases hint <;> rfl
  · -- render_existing_child
    intro l named ctx cp d h
    subst h
    unfold renderExistingChild
    simp only [bind, Except.bind]
    cases cp.getStr (some d) with
    | error e => rfl
    | ok path => exact ih.inner _ _ _ _ rfl

/-- the descent commutes with the projection at every fuel level -/
theorem sim_all (ty : TypePath) : ∀ n, Sim ty n
  | 0 => sim_zero ty
  | n + 1 => sim_succ ty n (sim_all ty n)

/-! ### the grouped member list and the whole `struct_init_block` -/

theorem makeTuple_proj (ty : TypePath) (gp : GroupPaths) (path : String) (fd : FieldData) :
    makeTuple gp path (projFD ty fd) = ((makeTuple gp path fd).1, projFC ty (makeTuple gp path fd).2.1, (makeTuple gp path fd).2.2) := by
  unfold makeTuple
  cases gp.find? (·.1 == path) with
  | none => rfl
  | some e => obtain ⟨_, g⟩ := e; rfl

theorem insertByGr_proj (ty : TypePath) (x : FieldContainer) : ∀ (l : List FieldContainer),
    insertByGr (projFC ty x) (l.map (projFC ty)) = (insertByGr x l).map (projFC ty)
  | [] => rfl
  | y :: ys => by
    simp only [List.map_cons, insertByGr, projFC]
    split
    · rfl
    · simp only [List.map_cons, projFC]
      congr 1
      exact insertByGr_proj ty x ys

theorem sortByGr_proj (ty : TypePath) : ∀ (l : List FieldContainer), sortByGr (l.map (projFC ty)) = (sortByGr l).map (projFC ty)
  | [] => rfl
  | x :: l => by
    simp only [sortByGr, List.map_cons, List.foldr_cons]
    have := sortByGr_proj ty l
    simp only [sortByGr] at this
    rw [this, insertByGr_proj]

theorem makeTuple_fd (gp : GroupPaths) (path : String) (fd : FieldData) : (makeTuple gp path fd).2.1.fieldData = fd := by
  unfold makeTuple
  cases gp.find? (·.1 == path) with
  | none => rfl
  | some e => obtain ⟨_, g⟩ := e; rfl

theorem projFC_ghost (ty : TypePath) (fc : FieldContainer) (g : GhostData) (h : fc.fieldData = .ghostData g) : projFC ty fc = fc := by
  cases fc with
  | mk gi pa fd => simp only at h; subst h; rfl

theorem ghostGroupStep_proj (ty : TypePath) (gp : GroupPaths) (l : List FieldContainer) (g : GhostData) :
    ghostGroupStep (gp, l.map (projFC ty)) g = ((ghostGroupStep (gp, l) g).1, (ghostGroupStep (gp, l) g).2.map (projFC ty)) := by
  unfold ghostGroupStep
  simp only
  have hfd := makeTuple_fd gp (ghostPathKey g) (.ghostData g)
  cases (makeTuple gp (ghostPathKey g) (.ghostData g)).2.2
  · simp
  · simp [projFC_ghost ty _ g hfd]

theorem parentChildGroupStep_proj (ty : TypePath) (x : Field) (gp : GroupPaths) (l : List FieldContainer) (pc : ParentChildField) :
    parentChildGroupStep (projField ty x) (gp, l.map (projFC ty)) pc
      = ((parentChildGroupStep x (gp, l) pc).1, (parentChildGroupStep x (gp, l) pc).2.map (projFC ty)) := by
  unfold parentChildGroupStep
  simp only [projField]
  have := makeTuple_proj ty gp (x.memberStr ++ noSpaces (display pc.subPathTokens)) (.parentChildField x pc)
  simp only [projFD, projField] at this
  rw [this]
  simp

theorem foldl_parentChild_proj (ty : TypePath) (x : Field) : ∀ (ps : List ParentChildField) (gp : GroupPaths) (l : List FieldContainer),
    ps.foldl (parentChildGroupStep (projField ty x)) (gp, l.map (projFC ty))
      = ((ps.foldl (parentChildGroupStep x) (gp, l)).1, (ps.foldl (parentChildGroupStep x) (gp, l)).2.map (projFC ty))
  | [], _, _ => rfl
  | pc :: ps, gp, l => by
    simp only [List.foldl_cons]
    rw [parentChildGroupStep_proj]
    exact foldl_parentChild_proj ty x ps _ _

theorem fieldPathKey_proj (ctx : ImplContext) (x : Field) : fieldPathKey ctx (projField ctx.ty x) = fieldPathKey ctx x := by
  unfold fieldPathKey
  simp only [projField, C06_child]

theorem fieldGroupStep_proj (ctx : ImplContext) (gp : GroupPaths) (l : List FieldContainer) (x : Field) :
    fieldGroupStep ctx (gp, l.map (projFC ctx.ty)) (projField ctx.ty x)
      = ((fieldGroupStep ctx (gp, l) x).1, (fieldGroupStep ctx (gp, l) x).2.map (projFC ctx.ty)) := by
  unfold fieldGroupStep
  rw [fieldPathKey_proj]
  have hpp : (projField ctx.ty x).attrs.parameterizedParentAttr ctx.ty = x.attrs.parameterizedParentAttr ctx.ty := by
    simp only [projField, C06_parameterized_parent]
  rw [hpp]
  cases (x.attrs.parameterizedParentAttr ctx.ty).bind (·.childFields) with
  | some ps => exact foldl_parentChild_proj ctx.ty x ps gp l
  | none =>
    simp only
    have := makeTuple_proj ctx.ty gp (fieldPathKey ctx x) (.field x)
    simp only [projFD] at this
    rw [this]
    simp

theorem foldl_fieldGroup_proj (ctx : ImplContext) : ∀ (fs : List Field) (gp : GroupPaths) (l : List FieldContainer),
    (fs.map (projField ctx.ty)).foldl (fieldGroupStep ctx) (gp, l.map (projFC ctx.ty))
      = ((fs.foldl (fieldGroupStep ctx) (gp, l)).1, (fs.foldl (fieldGroupStep ctx) (gp, l)).2.map (projFC ctx.ty))
  | [], _, _ => rfl
  | x :: fs, gp, l => by
    simp only [List.map_cons, List.foldl_cons]
    rw [fieldGroupStep_proj]
    exact foldl_fieldGroup_proj ctx fs _ _

theorem foldl_ghostGroup_proj (ty : TypePath) : ∀ (gs : List GhostData) (gp : GroupPaths) (l : List FieldContainer),
    gs.foldl ghostGroupStep (gp, l.map (projFC ty))
      = ((gs.foldl ghostGroupStep (gp, l)).1, (gs.foldl ghostGroupStep (gp, l)).2.map (projFC ty))
  | [], _, _ => rfl
  | g :: gs, gp, l => by
    simp only [List.foldl_cons]
    rw [ghostGroupStep_proj]
    exact foldl_ghostGroup_proj ty gs _ _

/-- members with their instructions projected onto the counterpart of the conversion -/
def Struct.projectMembers (s : Struct) (ty : TypePath) : Struct := { s with fields := s.fields.map (projField ty) }

theorem groupedMembers_proj (s : Struct) (ctx : ImplContext) :
    groupedMembers (s.projectMembers ctx.ty) ctx = (groupedMembers s ctx).map (projFC ctx.ty) := by
  unfold groupedMembers Struct.projectMembers
  simp only
  have h1 := foldl_fieldGroup_proj ctx s.fields [("", 0)] []
  simp only [List.map_nil] at h1
  rw [h1]
  have h2 := foldl_ghostGroup_proj ctx.ty ((s.attrs.ghostsAttr ctx.ty ctx.kind).toList.flatMap (·.ghostData))
    (s.fields.foldl (fieldGroupStep ctx) ([("", 0)], [])).1 (s.fields.foldl (fieldGroupStep ctx) ([("", 0)], [])).2
  rw [h2]
  exact sortByGr_proj ctx.ty _

/-- **C06, whole struct conversion**: the body generated for counterpart `ctx.ty` is the same whether or not the members
    carry instructions dedicated to other counterparts — grouping, ordering and the whole recursive descent included,
    for every conversion kind, any number of members and any nesting -/
theorem structInitBlock_proj (s : Struct) (ctx : ImplContext) :
    structInitBlock (s.projectMembers ctx.ty) ctx = structInitBlock s ctx := by
  unfold structInitBlock
  have hu : (s.projectMembers ctx.ty).unit = s.unit := rfl
  have hn : (s.projectMembers ctx.ty).namedFields = s.namedFields := rfl
  simp only [hu, hn, groupedMembers_proj, List.length_map]
  split
  · rfl
  · simp only [bind, Except.bind]
    rw [(sim_all ctx.ty _).inner _ _ _ _ rfl]
    cases structInitBlockInner _ (groupedMembers s ctx) s.namedFields ctx none with
    | error e => rfl
    | ok v => obtain ⟨o, r⟩ := v; rfl

end O2o
