/-
`render_struct_line` and the running line counter: the counter (`idx`, the number of lines written so far) only ever
names the *slot that is written* in the default-value dialect of a positional counterpart; what is *read* — and every
line of a From conversion and of an initialiser expression — is determined by the member itself (its name / its
declaration index) and the instructions.
-/
import O2oModel.Expand
namespace O2o

theorem renderStructLine_from_ignores_counter (f : Field) (ctx : ImplContext) (hint : TypeHint) (idx idx' : Nat)
    (pc : Option ParentChildField) (h : ctx.kind.cls = .from_) :
    renderStructLine f ctx hint idx pc = renderStructLine f ctx hint idx' pc := by
  unfold renderStructLine
  simp only [h]
  split <;> first | rfl | simp_all

theorem renderStructLine_into_ignores_counter (f : Field) (ctx : ImplContext) (hint : TypeHint) (idx idx' : Nat)
    (pc : Option ParentChildField) (h : ctx.kind.cls = .into) (hp : ctx.hasPostInit = false) :
    renderStructLine f ctx hint idx pc = renderStructLine f ctx hint idx' pc := by
  unfold renderStructLine
  simp only [h, hp]
  split <;> first | rfl | simp_all

end O2o
