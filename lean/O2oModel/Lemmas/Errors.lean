/-
The validator only ever adds diagnostics: every pass is extensive on the error collection.
-/
import O2oModel.Validate
namespace O2o

/-- `f` never drops a diagnostic -/
def Ext (f : Errors → Errors) : Prop := ∀ es m, m ∈ es → m ∈ f es

theorem mem_insert_self (es : Errors) (m : String) : m ∈ es.insert m := by
  unfold Errors.insert
  split
  · rename_i h; simpa using h
  · simp

theorem mem_insert_of_mem (es : Errors) (m m' : String) (h : m ∈ es) : m ∈ es.insert m' := by
  unfold Errors.insert
  split
  · exact h
  · simp [h]

theorem ext_id : Ext id := fun _ _ h => h
theorem ext_insert (m' : String) : Ext (fun es => es.insert m') := fun es m h => mem_insert_of_mem es m m' h
theorem ext_comp {f g : Errors → Errors} (hf : Ext f) (hg : Ext g) : Ext (g ∘ f) := fun es m h => hg _ _ (hf es m h)
theorem ext_ite (c : Bool) {f g : Errors → Errors} (hf : Ext f) (hg : Ext g) : Ext (fun es => if c then f es else g es) := by
  intro es m h; cases c <;> simp [hf es m h, hg es m h]

theorem ext_foldl {α} (xs : List α) (step : Errors → α → Errors) (h : ∀ x, Ext (fun es => step es x)) :
    Ext (fun es => xs.foldl step es) := by
  induction xs with
  | nil => exact fun _ _ h => h
  | cons x xs ih =>
    intro es m hm
    simp only [List.foldl_cons]
    exact ih _ _ (h x es m hm)

/-- membership survives a fold whose step never drops the message -/
theorem mem_foldl_of_mem {α} (xs : List α) (step : Errors → α → Errors) (es : Errors) (m : String)
    (h : ∀ x es, m ∈ es → m ∈ step es x) (hm : m ∈ es) : m ∈ xs.foldl step es := by
  induction xs generalizing es with
  | nil => exact hm
  | cons x xs ih => exact ih _ (h x es hm)

/-- folds that thread an auxiliary state next to the error collection -/
theorem ext_foldl_snd {α σ} (xs : List α) (step : σ × Errors → α → σ × Errors)
    (h : ∀ x s es m, m ∈ es → m ∈ (step (s, es) x).2) :
    ∀ s es m, m ∈ es → m ∈ (xs.foldl step (s, es)).2 := by
  induction xs with
  | nil => intro s es m hm; exact hm
  | cons x xs ih =>
    intro s es m hm
    simp only [List.foldl_cons]
    have := h x s es m hm
    cases hstep : step (s, es) x with
    | mk s' es' =>
      rw [hstep] at this
      exact ih s' es' m this

/-- closes `m ∈ (…).insert _ …` goals from an assumption `m ∈ es` -/
macro "ext_tac" : tactic => `(tactic| repeat (first | assumption | apply mem_insert_of_mem))

/-- closes `msg ∈ (…).insert msg …` goals -/
macro "self_tac" : tactic => `(tactic| repeat (first | apply mem_insert_self | apply mem_insert_of_mem))

theorem foldl_snd_mem_of_step {α σ} (pre post : List α) (a : α) (step : σ × Errors → α → σ × Errors) (s0 : σ) (es0 : Errors) (msg : String)
    (hext : ∀ x s es m, m ∈ es → m ∈ (step (s, es) x).2)
    (ha : ∀ s es, msg ∈ (step (s, es) a).2) :
    msg ∈ ((pre ++ a :: post).foldl step (s0, es0)).2 := by
  rw [List.foldl_append, List.foldl_cons]
  cases hpre : List.foldl step (s0, es0) pre with
  | mk s1 es1 =>
    have h1 := ha s1 es1
    cases hstep : step (s1, es1) a with
    | mk s2 es2 =>
      rw [hstep] at h1
      exact ext_foldl_snd post step hext s2 es2 msg h1

end O2o
