/-
`#[o2o(a(..), b, c(..))]`: the list parser run on a comma-separated sequence of `name` / `name(args)` elements
yields the instruction parser's result for each element, in order (C13, grouping clause).
-/
import O2oModel.Expand
namespace O2o

/-- one element of an `#[o2o(..)]` list as tokens: `name` or `name(args)` -/
def elemTokens (e : String × Option TS) : TS :=
  match e.2 with
  | some c => [.ident e.1, .group .paren c]
  | none => [.ident e.1]

/-- a comma-separated list of elements (no trailing comma) -/
def o2oTokens : List (String × Option TS) → TS
  | [] => []
  | [e] => elemTokens e
  | e :: rest => elemTokens e ++ [p ','] ++ o2oTokens rest

section
variable {α : Type} (b : Back) (f : String → TS → Except PErr α)

theorem o2oElem_run_paren (n : String) (c rest : TS) (u : Bool) (hk : isKeyword b n = false) :
    (o2oElem b f) { toks := .ident n :: .group .paren c :: rest, unexp := u } =
      (match f n c with
       | .ok x => .ok (x, { toks := rest, unexp := u })
       | .error e => .error e) := by
  simp [o2oElem, parseIdent, toks, setToks, peekGroup, headIsGroup, enterGroup, withContent, takeAll, liftE, hk,
    bind, StateT.bind, StateT.get, get, getThe, MonadStateOf.get, StateT.modifyGet, modify, modifyGet, MonadStateOf.modifyGet,
    MonadState.modifyGet, pure, StateT.pure, Except.pure, Except.bind, throw, throwThe, MonadExceptOf.throw, set, StateT.set]
  cases f n c <;> simp [pure, StateT.pure, Except.pure, throw, throwThe, MonadExceptOf.throw, StateT.lift, Except.bind, bind, liftM, monadLift, MonadLift.monadLift]

/-- `name` followed by a comma or by the end of the list: no arguments -/
theorem o2oElem_run_bare (n : String) (rest : TS) (u : Bool) (hk : isKeyword b n = false)
    (hr : headIsGroup .paren rest = false) :
    (o2oElem b f) { toks := .ident n :: rest, unexp := u } =
      (match f n [] with
       | .ok x => .ok (x, { toks := rest, unexp := u })
       | .error e => .error e) := by
  simp [o2oElem, parseIdent, toks, setToks, peekGroup, hr, liftE, hk,
    bind, StateT.bind, StateT.get, get, getThe, MonadStateOf.get, StateT.modifyGet, modify, modifyGet, MonadStateOf.modifyGet,
    MonadState.modifyGet, pure, StateT.pure, Except.pure, Except.bind, throw, throwThe, MonadExceptOf.throw, set, StateT.set]
  cases f n [] <;> simp [pure, StateT.pure, Except.pure, throw, throwThe, MonadExceptOf.throw, StateT.lift, Except.bind, bind, liftM, monadLift, MonadLift.monadLift]

/-- the instruction parser's view of an element -/
def elemResult (e : String × Option TS) : Except PErr α := f e.1 (e.2.getD [])

theorem o2oElem_run (e : String × Option TS) (rest : TS) (u : Bool) (hk : isKeyword b e.1 = false)
    (hr : headIsGroup .paren rest = false) :
    (o2oElem b f) { toks := elemTokens e ++ rest, unexp := u } =
      (match elemResult f e with
       | .ok x => .ok (x, { toks := rest, unexp := u })
       | .error err => .error err) := by
  obtain ⟨n, c⟩ := e
  cases c with
  | some c => simpa [elemTokens, elemResult] using o2oElem_run_paren b f n c rest u hk
  | none => simpa [elemTokens, elemResult] using o2oElem_run_bare b f n rest u hk hr

/-- results of all elements, in order; the first failing element's error -/
def allResults : List (String × Option TS) → Except PErr (List α)
  | [] => .ok []
  | e :: rest =>
    match elemResult f e with
    | .error err => .error err
    | .ok x => match allResults rest with
      | .error err => .error err
      | .ok xs => .ok (x :: xs)

theorem headIsGroup_o2oTokens_comma (rest : List (String × Option TS)) :
    headIsGroup .paren ([p ','] ++ o2oTokens rest) = false := rfl

theorem parseTerminatedAux_o2o (items : List (String × Option TS)) (hk : ∀ e ∈ items, isKeyword b e.1 = false) :
    ∀ (fuel : Nat) (acc : List α) (u : Bool), items.length < fuel →
      parseTerminatedAux (o2oElem b f) fuel acc { toks := o2oTokens items, unexp := u } =
        (match allResults f items with
         | .ok xs => .ok (acc.reverse ++ xs, { toks := [], unexp := u })
         | .error err => .error err) := by
  induction items with
  | nil =>
    intro fuel acc u hf
    cases fuel with
    | zero => simp at hf
    | succ n =>
      simp [parseTerminatedAux, o2oTokens, allResults, isEmpty, toks, bind, StateT.bind, StateT.get, get, getThe, MonadStateOf.get,
        pure, StateT.pure, Except.pure, Except.bind]
  | cons e rest ih =>
    intro fuel acc u hf
    cases fuel with
    | zero => simp at hf
    | succ n =>
      have hke : isKeyword b e.1 = false := hk e (List.mem_cons_self)
      have hkr : ∀ e' ∈ rest, isKeyword b e'.1 = false := fun e' h => hk e' (List.mem_cons_of_mem _ h)
      have hn : rest.length < n := by simpa using hf
      cases rest with
      | nil =>
        -- last element: no comma follows
        have hrun := o2oElem_run b f e [] u hke rfl
        simp only [List.append_nil] at hrun
        have hne : (elemTokens e).isEmpty = false := by
          obtain ⟨n', c⟩ := e; cases c <;> rfl
        unfold parseTerminatedAux
        simp only [o2oTokens, allResults, isEmpty, toks, bind, StateT.bind, StateT.get, get, getThe, MonadStateOf.get, pure, StateT.pure,
          Except.pure, Except.bind, hne, Bool.false_eq_true, ↓reduceIte, hrun]
        cases elemResult f e with
        | error err => rfl
        | ok x => simp [StateT.pure, pure, Except.pure]
      | cons e2 rest2 =>
        have hrun := o2oElem_run b f e ([p ','] ++ o2oTokens (e2 :: rest2)) u hke rfl
        have hne : (elemTokens e ++ [p ','] ++ o2oTokens (e2 :: rest2)).isEmpty = false := by
          obtain ⟨n', c⟩ := e; cases c <;> rfl
        have htoks : o2oTokens (e :: e2 :: rest2) = elemTokens e ++ ([p ','] ++ o2oTokens (e2 :: rest2)) := by
          simp [o2oTokens, List.append_assoc]
        unfold parseTerminatedAux
        rw [htoks]
        have hne' : (elemTokens e ++ ([p ','] ++ o2oTokens (e2 :: rest2))).isEmpty = false := by
          obtain ⟨n', c⟩ := e; cases c <;> rfl
        simp only [allResults, isEmpty, toks, bind, StateT.bind, StateT.get, get, getThe, MonadStateOf.get, pure, StateT.pure,
          Except.pure, Except.bind, hne', Bool.false_eq_true, ↓reduceIte, hrun]
        cases hres : elemResult f e with
        | error err => rfl
        | ok x =>
          simp only [List.singleton_append, List.isEmpty_cons, Bool.false_eq_true, ↓reduceIte, parsePuncts, toks, headIsPuncts,
            bind, StateT.bind, StateT.get, get, getThe, MonadStateOf.get, pure, StateT.pure, Except.pure, Except.bind, setToks,
            modify, modifyGet, MonadStateOf.modifyGet, StateT.modifyGet, beq_self_eq_true, String.length, List.drop]
          have hcomma : ",".toList = [','] := by decide
          have := ih hkr n (x :: acc) u hn
          simp only [List.reverse_cons, List.append_assoc, List.singleton_append] at this
          simp only [hcomma, headIsPuncts, p, beq_self_eq_true, ↓reduceIte, StateT.modifyGet, pure, Except.pure, List.length_singleton,
            List.drop_succ_cons, List.drop_zero, this]
          rw [allResults]
          cases elemResult f e2 with
          | error err => rfl
          | ok y =>
            simp only
            cases allResults f rest2 with
            | error err => rfl
            | ok ys => rfl


/-- `syn::parse2` of the whole `#[o2o(..)]` list: exactly the per-element results, in order, first error wins -/
theorem parse2_o2o_list (items : List (String × Option TS)) (hk : ∀ e ∈ items, isKeyword b e.1 = false) :
    parse2 (parseTerminated (o2oElem b f)) (o2oTokens items) = allResults f items := by
  unfold parse2 parseTerminated
  simp only [toks, bind, StateT.bind, StateT.get, get, getThe, MonadStateOf.get, pure, StateT.pure, Except.pure, Except.bind]
  have hlen : items.length < (o2oTokens items).length + 1 := by
    have : ∀ l : List (String × Option TS), l.length ≤ (o2oTokens l).length := by
      intro l
      induction l with
      | nil => simp [o2oTokens]
      | cons e rest ih =>
        cases rest with
        | nil => obtain ⟨n, c⟩ := e; cases c <;> simp [o2oTokens, elemTokens]
        | cons e2 r2 =>
          obtain ⟨n, c⟩ := e
          cases c <;> simp [o2oTokens, elemTokens] at ih ⊢ <;> omega
    have := this items
    omega
  rw [parseTerminatedAux_o2o b f items hk _ [] false hlen]
  cases allResults f items with
  | error err => rfl
  | ok xs => simp

end
/-! ### the attribute loop of `get_data_type_attrs` -/

/-- the bare spelling `#[name(args)]` / `#[name]` of one list element -/
def bareAttr (e : String × Option TS) : RawAttr :=
  ⟨[.ident e.1], match e.2 with | some ts => .list .paren ts | none => .path⟩

/-- the grouped spelling `#[o2o(e1, e2, ..)]` -/
def groupAttr (items : List (String × Option TS)) : RawAttr := ⟨[.ident "o2o"], .list .paren (o2oTokens items)⟩

def DataTypeInstruction.isAllowUnknown : DataTypeInstruction → Bool
  | .allowUnknown => true
  | _ => false

/-- the loop is a left fold over the attributes: what an attribute contributes depends only on what came before it -/
theorem collect_append (b : Back) (xs ys : List RawAttr) (acc : DTAcc) :
    collectDataTypeInstrs b (xs ++ ys) acc = (collectDataTypeInstrs b xs acc).bind (collectDataTypeInstrs b ys) := by
  induction xs generalizing acc with
  | nil => rfl
  | cons x rest ih =>
    simp only [List.cons_append]
    unfold collectDataTypeInstrs
    split
    · exact ih acc
    · simp only [bind, Except.bind]
      split
      · rfl
      · split
        · rfl
        · exact ih _
    · simp only [bind, Except.bind]
      split
      · rfl
      · split
        · rfl
        · exact ih _
    · exact ih acc

/-- the grouped attribute appends the whole parsed list — every element, in the written order — and turns the
    `allow_unknown` switch off for the attributes that follow when (and only when) one of its elements is the switch -/
theorem collect_group (b : Back) (items : List (String × Option TS)) (rest : List RawAttr) (acc : DTAcc)
    (hk : ∀ e ∈ items, isKeyword b e.1 = false) :
    collectDataTypeInstrs b (groupAttr items :: rest) acc =
      (match allResults (fun instr c => parseDataTypeInstruction b instr c true true) items with
       | .ok xs => collectDataTypeInstrs b rest
           { instrs := acc.instrs ++ xs, bark := if xs.any DataTypeInstruction.isAllowUnknown then false else acc.bark }
       | .error e => .error e) := by
  rw [collectDataTypeInstrs]
  have hid : (groupAttr items).ident? = some "o2o" := rfl
  rw [hid]
  simp only [bind, Except.bind]
  have htok : o2oArgTokens (groupAttr items) = .ok (o2oTokens items) := rfl
  rw [htok]
  simp only []
  rw [parse2_o2o_list b _ items hk]
  cases allResults (fun instr c => parseDataTypeInstruction b instr c true true) items with
  | error err => rfl
  | ok xs =>
    simp only []
    have key : ∀ (f : DataTypeInstruction → Bool), (∀ i, f i = i.isAllowUnknown) →
        xs.any f = xs.any DataTypeInstruction.isAllowUnknown := by
      intro f hf
      congr
      funext i
      exact hf i
    rw [key _ (fun i => by cases i <;> rfl)]

/-- nothing is dropped from a list: the result has one instruction per element, the k-th one built from the k-th element -/
theorem allResults_get {α : Type} (f : String → TS → Except PErr α) (items : List (String × Option TS)) (xs : List α)
    (h : allResults f items = .ok xs) :
    xs.length = items.length ∧ ∀ k (hk : k < items.length) (hk' : k < xs.length), elemResult f items[k] = .ok xs[k] := by
  induction items generalizing xs with
  | nil => simp [allResults] at h; subst h; simp
  | cons e rest ih =>
    simp only [allResults] at h
    cases he : elemResult f e with
    | error err => simp [he] at h
    | ok x =>
      simp only [he] at h
      cases hr : allResults f rest with
      | error err => simp [hr] at h
      | ok ys =>
        simp only [hr] at h
        cases h
        obtain ⟨hl, hg⟩ := ih ys hr
        refine ⟨by simp [hl], ?_⟩
        intro k hk hk'
        cases k with
        | zero => simpa using he
        | succ k => simpa using hg k (by simpa using hk) (by simpa using hk')

end O2o
