/-
C03 at arbitrary depth: the recursive descent of `struct_init_block_inner` over a sorted member list that forms a
*tree* (every nested struct's members contiguous) builds every nested struct exactly once, with all and only its own
members — Into direction, any depth, any number of members.
-/
import O2oModel.Lemmas.Tree
namespace O2o

mutual
/-- the sorted member list seen as a tree: a member rendered at the current level, or a nested struct holding a
    (non-empty) list of nodes one level deeper -/
inductive Node
  | leaf (fc : FieldContainer) (f : Field)
  | sub (kids : NodeList) (cdata : ChildParentData)
inductive NodeList
  | nil
  | cons (n : Node) (ns : NodeList)
end

mutual
def Node.flatten : Node → List FieldContainer
  | .leaf fc _ => [fc]
  | .sub kids _ => kids.flatten
def NodeList.flatten : NodeList → List FieldContainer
  | .nil => []
  | .cons n ns => n.flatten ++ ns.flatten
end

mutual
/-- the first member (in list order) of a node -/
def Node.first : Node → Option (FieldContainer × Field)
  | .leaf fc f => some (fc, f)
  | .sub kids _ => kids.first
def NodeList.first : NodeList → Option (FieldContainer × Field)
  | .nil => none
  | .cons n _ => n.first
end

mutual
def Node.weight : Node → Nat
  | .leaf _ _ => 1
  | .sub kids _ => kids.weight + 5
def NodeList.weight : NodeList → Nat
  | .nil => 0
  | .cons n ns => n.weight + ns.weight
end

/-- depth at which the nested struct opened from level `lvl` sits -/
def newDepthOf (lvl : FieldCtx) : Nat := match lvl with | none => 0 | some (_, _, d) => d + 1

@[simp] theorem newDepthOf_none : newDepthOf none = 0 := rfl
@[simp] theorem newDepthOf_some (cp : ChildPath) (crc : Option ChildRenderContext) (d : Nat) : newDepthOf (some (cp, crc, d)) = d + 1 := rfl

/-- the level inside a nested struct: its path is the path of the struct's first member -/
def subLevel (ctx : ImplContext) (lvl : FieldCtx) (kids : NodeList) (cdata : ChildParentData) : FieldCtx :=
  match kids.first with
  | some p => match p.2.attrs.child ctx.ty with
    | some ca => some (ca.childPath, some { ty := cdata.ty, typeHint := cdata.typeHint }, newDepthOf lvl)
    | none => none
  | none => none

mutual
/-- what one nested struct must be rendered as: named once, built once, holding the fragments of its own nodes in
    order, then the ghosts addressed to exactly this struct, then `..update` -/
def Node.subSpec (ctx : ImplContext) (nr : Bool) (lvl : FieldCtx) (hint : TypeHint) (kids : NodeList) (cdata : ChildParentData) : E TS := do
  match subLevel ctx lvl kids cdata with
  | some (cp, crc, d) =>
    let childName ← (match cp.path[d]? with
      | some m => pure m.toTS
      | none => panicAt "expand.rs:render_child:child_path index")
    let lines ← NodeList.spec ctx nr (some (cp, crc, d)) cdata.typeHint kids 0
    let g ← structGhostLines ctx (some (cp, crc, d))
    let init ← wrapInit ctx cdata.typeHint nr (lines ++ g ++ updateToks ctx)
    match nr, hint with
    | true, .struct | true, .unspecified => return childName ++ [colon] ++ exprPath cdata.ty ++ init ++ [comma]
    | true, .tuple => return exprPath cdata.ty ++ init ++ [comma]
    | false, .tuple | false, .unspecified => return exprPath cdata.ty ++ init ++ [comma]
    | false, .struct => return childName ++ [colon] ++ exprPath cdata.ty ++ init ++ [comma]
    | _, .unit => panicAt "expand.rs:render_child:unreachable(15)"
  | none => .error (.unsupported "ill-formed tree")
/-- the body of one level: one fragment per node, in order; the running position counts contributing nodes -/
def NodeList.spec (ctx : ImplContext) (nr : Bool) (lvl : FieldCtx) (hint : TypeHint) : NodeList → Nat → E TS
  | .nil, _ => .ok []
  | .cons (.leaf _ f) ns, idx =>
    if fieldSkipped ctx f then NodeList.spec ctx nr lvl hint ns idx
    else do
      let l ← renderStructLine f ctx hint idx none
      let r ← NodeList.spec ctx nr lvl hint ns (idx + 1)
      return l ++ r
  | .cons (.sub kids cdata) ns, idx => do
    let frag ← Node.subSpec ctx nr lvl hint kids cdata
    let r ← NodeList.spec ctx nr lvl hint ns (idx + 1)
    return frag ++ r
end

/-- the member that follows, if any, does not belong to the nested struct whose key is `key` -/
def notMatching (key : String) (after : Option FieldContainer) : Prop :=
  ∀ fc, after = some fc → pathMatches fc.path key = false

/-- what follows a node inside a list: the first member of the following nodes, else what follows the list -/
def afterOf (ns : NodeList) (after : Option FieldContainer) : Option FieldContainer :=
  match ns.flatten.head? with
  | some fc => some fc
  | none => after

mutual
/-- side conditions: every leaf sits exactly at its level, every nested struct starts with a contributing member whose
    child path goes deeper, is listed in `#[child_parents]`, holds nodes of its own level, and is followed by a member
    that does not belong to it (contiguity) -/
def Node.WF (ctx : ImplContext) (cpa : ChildParentsAttr) : FieldCtx → Option FieldContainer → Node → Prop
  | lvl, _, .leaf fc f =>
    fc.fieldData = .field f ∧
    (match lvl with
     | none => f.attrs.child ctx.ty = none
     | some (cp, _, d) => ∃ pfx ca, cp.getStr (some d) = .ok pfx ∧ fc.path = pfx ∧ f.attrs.child ctx.ty = some ca ∧ ca.childPath.strs.length = d + 1)
  | lvl, after, .sub kids cdata =>
    ∃ p0 ca0 key, kids.first = some p0 ∧ p0.1.fieldData = .field p0.2 ∧ p0.2.attrs.child ctx.ty = some ca0 ∧ fieldSkipped ctx p0.2 = false ∧
      (match lvl with | none => True | some (_, _, d) => d < ca0.childPath.strs.length - 1) ∧
      ca0.childPath.getStr (some (newDepthOf lvl)) = .ok key ∧
      cpa.childParents.find? (fun cd => cd.fieldPathStr == key) = some cdata ∧
      notMatching key after ∧
      NodeList.WF ctx cpa (some (ca0.childPath, some { ty := cdata.ty, typeHint := cdata.typeHint }, newDepthOf lvl)) after kids
def NodeList.WF (ctx : ImplContext) (cpa : ChildParentsAttr) : FieldCtx → Option FieldContainer → NodeList → Prop
  | _, _, .nil => True
  | lvl, after, .cons n ns =>
    (match lvl with
     | none => True
     | some (cp, _, d) => ∃ pfx p, cp.getStr (some d) = .ok pfx ∧ n.first = some p ∧ pathMatches p.1.path pfx = true) ∧
    Node.WF ctx cpa lvl (afterOf ns after) n ∧
    NodeList.WF ctx cpa lvl after ns
end

/-- where the loop of a level stops: the top level runs to the end of the list, a nested level stops at the first
    member that does not belong to it -/
def endOk (lvl : FieldCtx) (rest : List FieldContainer) : Prop :=
  match lvl with
  | none => rest = []
  | some (cp, _, d) => ∃ pfx, cp.getStr (some d) = .ok pfx ∧ (rest = [] ∨ ∃ fc rs, rest = fc :: rs ∧ pathMatches fc.path pfx = false)

mutual
theorem Node.flatten_of_first : ∀ (n : Node) (p : FieldContainer × Field), n.first = some p → ∃ tl, n.flatten = p.1 :: tl
  | .leaf fc f, p, h => by simp [Node.first] at h; subst h; exact ⟨[], rfl⟩
  | .sub kids _, p, h => by simpa [Node.flatten] using NodeList.flatten_of_first kids p (by simpa [Node.first] using h)
theorem NodeList.flatten_of_first : ∀ (ns : NodeList) (p : FieldContainer × Field), ns.first = some p → ∃ tl, ns.flatten = p.1 :: tl
  | .nil, p, h => by simp [NodeList.first] at h
  | .cons n ns, p, h => by
    obtain ⟨tl, htl⟩ := Node.flatten_of_first n p (by simpa [NodeList.first] using h)
    exact ⟨tl ++ ns.flatten, by simp [NodeList.flatten, htl]⟩
end

theorem afterOf_head (ns : NodeList) (rest : List FieldContainer) : afterOf ns rest.head? = (ns.flatten ++ rest).head? := by
  unfold afterOf
  cases h : ns.flatten with
  | nil => simp
  | cons a l => simp

theorem subLevel_eq (ctx : ImplContext) (lvl : FieldCtx) (kids : NodeList) (cdata : ChildParentData)
    (p0 : FieldContainer × Field) (ca0 : ChildAttr) (h1 : kids.first = some p0) (h2 : p0.2.attrs.child ctx.ty = some ca0) :
    subLevel ctx lvl kids cdata = some (ca0.childPath, some { ty := cdata.ty, typeHint := cdata.typeHint }, newDepthOf lvl) := by
  simp [subLevel, h1, h2]

set_option hygiene false in
/-- the part of the nested-struct case that is the same at the top level and inside a nested struct; `nd` is the depth
    of the nested struct -/
macro "sub_tail" nd:term : tactic => `(tactic| (
  unfold renderChild
  simp only [bind, Except.bind, pure, Except.pure]
  rw [Node.subSpec, subLevel_eq ctx _ kids cdata p0 ca0 hfirst hca0]
  simp only [bind, Except.bind, pure, Except.pure, newDepthOf]
  cases hm : ca0.childPath.path[$nd]? with
  | none => rfl
  | some m =>
    simp only
    unfold structInitBlockInner
    simp only [bind, Except.bind, pure, Except.pure]
    rw [ihkids]
    cases hl : NodeList.spec ctx nr (some (ca0.childPath, some { ty := cdata.ty, typeHint := cdata.typeHint }, $nd)) cdata.typeHint kids 0 with
    | error e => rfl
    | ok lines =>
      simp only [List.nil_append]
      cases hg : structGhostLines ctx (some (ca0.childPath, some { ty := cdata.ty, typeHint := cdata.typeHint }, $nd)) with
      | error e => rfl
      | ok g =>
        simp only
        cases hw : wrapInit ctx cdata.typeHint nr (lines ++ g ++ updateToks ctx) with
        | error e => rfl
        | ok init =>
          simp only [hnr]
          cases nr <;> cases hint <;> simp only [] <;>
            first
            | rfl
            | (rw [ihns _ (idx + 1) hn hwf' hend]
               cases NodeList.spec ctx _ _ _ ns (idx + 1) <;> simp [List.append_assoc])))

/-- **C03, any depth**: the cursor loop over a member list that forms a well-formed tree produces exactly the
    specification — one fragment per node, each nested struct named once and built once from all and only its nodes -/
theorem loop_nodes (ctx : ImplContext) (hk : ctx.kind.cls = .into)
    (cpa : ChildParentsAttr) (hcpa : ctx.input.attrs.childParentsAttr ctx.ty = some cpa)
    (nr : Bool) (hnr : ctx.input.namedFields = .ok nr) :
    ∀ (ns : NodeList) (named : Bool) (lvl : FieldCtx) (hint : TypeHint) (rest : List FieldContainer) (fuel : Nat) (frags : TS) (idx : Nat),
      ns.weight + 1 < fuel → NodeList.WF ctx cpa lvl rest.head? ns → endOk lvl rest →
      structInitLoop fuel (ns.flatten ++ rest) named ctx lvl hint frags idx =
        (match NodeList.spec ctx nr lvl hint ns idx with
         | .ok ts => .ok (frags ++ ts, rest)
         | .error e => .error e)
  | .nil, named, lvl, hint, rest, fuel, frags, idx, hf, _, hend => by
    cases fuel with
    | zero => simp at hf
    | succ n =>
      simp only [NodeList.flatten, List.nil_append, NodeList.spec, List.append_nil]
      cases lvl with
      | none =>
        simp only [endOk] at hend
        subst hend
        simp [structInitLoop, levelBreak]
      | some l =>
        obtain ⟨cp, crc, d⟩ := l
        obtain ⟨pfx, hpfx, hr⟩ := hend
        cases hr with
        | inl h => subst h; simp [structInitLoop, levelBreak]
        | inr h =>
          obtain ⟨fc, rs, hr, hm⟩ := h
          subst hr
          unfold structInitLoop
          simp [levelBreak, hpfx, hm, bind, Except.bind, pure, Except.pure]
  | .cons (.leaf fc f) ns, named, lvl, hint, rest, fuel, frags, idx, hf, hwf, hend => by
    cases fuel with
    | zero => simp at hf
    | succ n =>
      obtain ⟨hhead, hleaf, hwf'⟩ := hwf
      obtain ⟨hfd, hlvl⟩ := hleaf
      have hn : ns.weight + 1 < n := by simp [NodeList.weight, Node.weight] at hf; omega
      have ih := loop_nodes ctx hk cpa hcpa nr hnr ns named lvl hint rest n
      simp only [NodeList.flatten, Node.flatten, List.singleton_append, List.cons_append, List.nil_append, NodeList.spec]
      cases lvl with
      | none =>
        simp only at hlvl
        conv => lhs; unfold structInitLoop
        simp only [levelBreak, levelBreak, bind, Except.bind, pure, Except.pure, Bool.false_eq_true, ↓reduceIte, hfd, hlvl, Option.map_none]
        by_cases hs : fieldSkipped ctx f = true
        · simp only [hs, ↓reduceIte]
          exact ih frags idx hn hwf' hend
        · have hs' : fieldSkipped ctx f = false := by simpa using hs
          simp only [hs', Bool.false_eq_true, ↓reduceIte]
          cases hl : renderStructLine f ctx hint idx none with
          | error e => rfl
          | ok line =>
            simp only
            rw [ih (frags ++ line) (idx + 1) hn hwf' hend]
            cases NodeList.spec ctx nr none hint ns (idx + 1) with
            | error e => rfl
            | ok ts => simp [List.append_assoc]
      | some l =>
        obtain ⟨cp, crc, d⟩ := l
        obtain ⟨pfx, ca, hpfx, hpath, hca, hlen⟩ := hlvl
        conv => lhs; unfold structInitLoop
        simp only [levelBreak, levelBreak, hpfx, hpath, pathMatches_self, bind, Except.bind, pure, Except.pure, Bool.not_true, Bool.false_eq_true,
          ↓reduceIte, hfd, Option.map_some, hca]
        by_cases hs : fieldSkipped ctx f = true
        · simp only [hs, ↓reduceIte]
          exact ih frags idx hn hwf' hend
        · have hs' : fieldSkipped ctx f = false := by simpa using hs
          simp only [hs', Bool.false_eq_true, ↓reduceIte]
          cases n with
          | zero => simp at hn
          | succ n' =>
            unfold renderChildFragment
            simp only [deeperThan, nextDepth, Option.map_none, Option.map_some]
            have hdeep : (d < ca.childPath.strs.length - 1) = False := by simp [hlen]
            simp only [hdeep, decide_false, Bool.false_eq_true, ↓reduceIte, List.drop_one, List.tail_cons, bind, Except.bind, pure, Except.pure,
              childLineHint_not_from ctx ca hint (cls_into_not_from hk)]
            cases hl : renderStructLine f ctx hint idx none with
            | error e => rfl
            | ok line =>
              simp only
              rw [ih (frags ++ line) (idx + 1) hn hwf' hend]
              cases NodeList.spec ctx nr (some (cp, crc, d)) hint ns (idx + 1) with
              | error e => rfl
              | ok ts => simp [List.append_assoc]
  | .cons (.sub kids cdata) ns, named, lvl, hint, rest, fuel, frags, idx, hf, hwf, hend => by
    cases fuel with
    | zero => simp at hf
    | succ n =>
      obtain ⟨hhead, hsub, hwf'⟩ := hwf
      obtain ⟨p0, ca0, key, hfirst, hfd, hca0, hns, hdeep, hkey, hfind, hnot, hkids⟩ := hsub
      obtain ⟨tl, htl⟩ := NodeList.flatten_of_first kids p0 hfirst
      have hw : kids.weight + 5 + ns.weight + 1 < n + 1 := by simpa [NodeList.weight, Node.weight] using hf
      have hn : ns.weight + 1 < n := by omega
      have ihns := loop_nodes ctx hk cpa hcpa nr hnr ns named lvl hint rest n
      -- the loop of the nested struct, three calls down
      obtain ⟨n3, hn3⟩ : ∃ n3, n = n3 + 3 := ⟨n - 3, by omega⟩
      subst hn3
      have hk3 : kids.weight + 1 < n3 := by omega
      have hkids' : NodeList.WF ctx cpa (some (ca0.childPath, some { ty := cdata.ty, typeHint := cdata.typeHint }, newDepthOf lvl))
          (ns.flatten ++ rest).head? kids := by rw [← afterOf_head]; exact hkids
      have hend' : endOk (some (ca0.childPath, some { ty := cdata.ty, typeHint := cdata.typeHint }, newDepthOf lvl)) (ns.flatten ++ rest) := by
        refine ⟨key, hkey, ?_⟩
        cases hr : ns.flatten ++ rest with
        | nil => exact Or.inl rfl
        | cons fc rs =>
          refine Or.inr ⟨fc, rs, rfl, hnot fc ?_⟩
          rw [afterOf_head, hr]; rfl
      have ihkids := loop_nodes ctx hk cpa hcpa nr hnr kids nr
        (some (ca0.childPath, some { ty := cdata.ty, typeHint := cdata.typeHint }, newDepthOf lvl)) cdata.typeHint (ns.flatten ++ rest) n3 [] 0
        hk3 hkids' hend'
      simp only [NodeList.flatten, Node.flatten, List.append_assoc, NodeList.spec]
      rw [htl] at ihkids ⊢
      simp only [List.cons_append] at ihkids ⊢
      -- this level's test and the member that opens the nested struct
      cases lvl with
      | none =>
        conv => lhs; unfold structInitLoop
        simp only [levelBreak, levelBreak, bind, Except.bind, pure, Except.pure, Bool.false_eq_true, ↓reduceIte, hfd, hns, hca0, Option.map_none]
        unfold renderChildFragment
        simp only [deeperThan, nextDepth, Option.map_none, Option.map_some]
        simp only [↓reduceIte, hk, hcpa, hkey, hfind, hnr, bind, Except.bind, pure, Except.pure, newDepthOf] at hkey ihkids ⊢
        sub_tail 0
      | some l =>
        obtain ⟨cp, crc, d⟩ := l
        obtain ⟨pfx, p, hpfx, hp, hm⟩ := hhead
        have hp0 : p = p0 := by
          have : (Node.sub kids cdata).first = some p0 := by simpa [Node.first] using hfirst
          rw [this] at hp; exact (Option.some.inj hp).symm
        rw [hp0] at hm
        have hdeepB : decide (d < ca0.childPath.strs.length - 1) = true := by simpa using hdeep
        conv => lhs; unfold structInitLoop
        simp only [levelBreak, levelBreak, hpfx, hm, bind, Except.bind, pure, Except.pure, Bool.not_true, Bool.false_eq_true, ↓reduceIte, hfd, hns, hca0, Option.map_some]
        unfold renderChildFragment
        simp only [deeperThan, nextDepth, Option.map_none, Option.map_some]
        simp only [hdeepB, ↓reduceIte, hk, hcpa, hkey, hfind, hnr, bind, Except.bind, pure, Except.pure, newDepthOf] at hkey ihkids ⊢
        sub_tail (d + 1)

mutual
/-- IntoExisting: a nested struct contributes the assignments of its own nodes, then its ghost assignments (and the
    `..update` tokens the code appends at every level) — no wrapper -/
def Node.subSpecE (ctx : ImplContext) (nr : Bool) (lvl : FieldCtx) (kids : NodeList) (cdata : ChildParentData) : E TS := do
  match subLevel ctx lvl kids cdata with
  | some (cp, crc, d) =>
    let lines ← NodeList.specE ctx nr (some (cp, crc, d)) cdata.typeHint kids 0
    let g ← structGhostLines ctx (some (cp, crc, d))
    wrapInit ctx cdata.typeHint nr (lines ++ g ++ updateToks ctx)
  | none => .error (.unsupported "ill-formed tree")
def NodeList.specE (ctx : ImplContext) (nr : Bool) (lvl : FieldCtx) (hint : TypeHint) : NodeList → Nat → E TS
  | .nil, _ => .ok []
  | .cons (.leaf _ f) ns, idx =>
    if fieldSkipped ctx f then NodeList.specE ctx nr lvl hint ns idx
    else do
      let l ← renderStructLine f ctx hint idx none
      let r ← NodeList.specE ctx nr lvl hint ns (idx + 1)
      return l ++ r
  | .cons (.sub kids cdata) ns, idx => do
    let frag ← Node.subSpecE ctx nr lvl kids cdata
    let r ← NodeList.specE ctx nr lvl hint ns (idx + 1)
    return frag ++ r
end

theorem cls_existing_not_from {k : Kind} (h : k.cls = .existing) : k.isFrom = false := by
  unfold Kind.cls at h
  cases hf : k.isFrom
  · rfl
  · simp [hf] at h

set_option hygiene false in
macro "sub_tail_e" nd:term : tactic => `(tactic| (
  unfold renderExistingChild
  simp only [bind, Except.bind, pure, Except.pure, hkey, hcpa, hfind, Option.bind, Option.map]
  rw [Node.subSpecE, subLevel_eq ctx _ kids cdata p0 ca0 hfirst hca0]
  simp only [bind, Except.bind, pure, Except.pure, newDepthOf]
  unfold structInitBlockInner
  simp only [bind, Except.bind, pure, Except.pure]
  rw [ihkids]
  cases hl : NodeList.specE ctx nr (some (ca0.childPath, some { ty := cdata.ty, typeHint := cdata.typeHint }, $nd)) cdata.typeHint kids 0 with
  | error e => rfl
  | ok lines =>
    simp only [List.nil_append]
    cases hg : structGhostLines ctx (some (ca0.childPath, some { ty := cdata.ty, typeHint := cdata.typeHint }, $nd)) with
    | error e => rfl
    | ok g =>
      simp only
      cases hw : wrapInit ctx cdata.typeHint nr (lines ++ g ++ updateToks ctx) with
      | error e => rfl
      | ok init =>
        simp only
        rw [ihns _ (idx + 1) hn hwf' hend]
        cases NodeList.specE ctx _ _ _ ns (idx + 1) <;> simp [List.append_assoc]))

/-- **C03, any depth, IntoExisting**: over a well-formed tree the loop emits exactly one assignment per contributing
    member, in list order, each nested struct's ghost assignments right after its own members -/
theorem loop_nodes_existing (ctx : ImplContext) (hk : ctx.kind.cls = .existing)
    (cpa : ChildParentsAttr) (hcpa : ctx.input.attrs.childParentsAttr ctx.ty = some cpa)
    (nr : Bool) (hnr : ctx.input.namedFields = .ok nr) :
    ∀ (ns : NodeList) (named : Bool) (lvl : FieldCtx) (hint : TypeHint) (rest : List FieldContainer) (fuel : Nat) (frags : TS) (idx : Nat),
      ns.weight + 1 < fuel → NodeList.WF ctx cpa lvl rest.head? ns → endOk lvl rest →
      structInitLoop fuel (ns.flatten ++ rest) named ctx lvl hint frags idx =
        (match NodeList.specE ctx nr lvl hint ns idx with
         | .ok ts => .ok (frags ++ ts, rest)
         | .error e => .error e)
  | .nil, named, lvl, hint, rest, fuel, frags, idx, hf, _, hend => by
    cases fuel with
    | zero => simp at hf
    | succ n =>
      simp only [NodeList.flatten, List.nil_append, NodeList.specE, List.append_nil]
      cases lvl with
      | none =>
        simp only [endOk] at hend
        subst hend
        simp [structInitLoop, levelBreak]
      | some l =>
        obtain ⟨cp, crc, d⟩ := l
        obtain ⟨pfx, hpfx, hr⟩ := hend
        cases hr with
        | inl h => subst h; simp [structInitLoop, levelBreak]
        | inr h =>
          obtain ⟨fc, rs, hr, hm⟩ := h
          subst hr
          unfold structInitLoop
          simp [levelBreak, hpfx, hm, bind, Except.bind, pure, Except.pure]
  | .cons (.leaf fc f) ns, named, lvl, hint, rest, fuel, frags, idx, hf, hwf, hend => by
    cases fuel with
    | zero => simp at hf
    | succ n =>
      obtain ⟨hhead, hleaf, hwf'⟩ := hwf
      obtain ⟨hfd, hlvl⟩ := hleaf
      have hn : ns.weight + 1 < n := by simp [NodeList.weight, Node.weight] at hf; omega
      have ih := loop_nodes_existing ctx hk cpa hcpa nr hnr ns named lvl hint rest n
      simp only [NodeList.flatten, Node.flatten, List.singleton_append, List.cons_append, List.nil_append, NodeList.specE]
      cases lvl with
      | none =>
        simp only at hlvl
        conv => lhs; unfold structInitLoop
        simp only [levelBreak, levelBreak, bind, Except.bind, pure, Except.pure, Bool.false_eq_true, ↓reduceIte, hfd, hlvl, Option.map_none]
        by_cases hs : fieldSkipped ctx f = true
        · simp only [hs, ↓reduceIte]
          exact ih frags idx hn hwf' hend
        · have hs' : fieldSkipped ctx f = false := by simpa using hs
          simp only [hs', Bool.false_eq_true, ↓reduceIte]
          cases hl : renderStructLine f ctx hint idx none with
          | error e => rfl
          | ok line =>
            simp only
            rw [ih (frags ++ line) (idx + 1) hn hwf' hend]
            cases NodeList.specE ctx nr none hint ns (idx + 1) with
            | error e => rfl
            | ok ts => simp [List.append_assoc]
      | some l =>
        obtain ⟨cp, crc, d⟩ := l
        obtain ⟨pfx, ca, hpfx, hpath, hca, hlen⟩ := hlvl
        conv => lhs; unfold structInitLoop
        simp only [levelBreak, levelBreak, hpfx, hpath, pathMatches_self, bind, Except.bind, pure, Except.pure, Bool.not_true, Bool.false_eq_true,
          ↓reduceIte, hfd, Option.map_some, hca]
        by_cases hs : fieldSkipped ctx f = true
        · simp only [hs, ↓reduceIte]
          exact ih frags idx hn hwf' hend
        · have hs' : fieldSkipped ctx f = false := by simpa using hs
          simp only [hs', Bool.false_eq_true, ↓reduceIte]
          cases n with
          | zero => simp at hn
          | succ n' =>
            unfold renderChildFragment
            simp only [deeperThan, nextDepth, Option.map_none, Option.map_some]
            have hdeep : (d < ca.childPath.strs.length - 1) = False := by simp [hlen]
            simp only [hdeep, decide_false, Bool.false_eq_true, ↓reduceIte, List.drop_one, List.tail_cons, bind, Except.bind, pure, Except.pure,
              childLineHint_not_from ctx ca hint (cls_existing_not_from hk)]
            cases hl : renderStructLine f ctx hint idx none with
            | error e => rfl
            | ok line =>
              simp only
              rw [ih (frags ++ line) (idx + 1) hn hwf' hend]
              cases NodeList.specE ctx nr (some (cp, crc, d)) hint ns (idx + 1) with
              | error e => rfl
              | ok ts => simp [List.append_assoc]
  | .cons (.sub kids cdata) ns, named, lvl, hint, rest, fuel, frags, idx, hf, hwf, hend => by
    cases fuel with
    | zero => simp at hf
    | succ n =>
      obtain ⟨hhead, hsub, hwf'⟩ := hwf
      obtain ⟨p0, ca0, key, hfirst, hfd, hca0, hns, hdeep, hkey, hfind, hnot, hkids⟩ := hsub
      obtain ⟨tl, htl⟩ := NodeList.flatten_of_first kids p0 hfirst
      have hw : kids.weight + 5 + ns.weight + 1 < n + 1 := by simpa [NodeList.weight, Node.weight] using hf
      have hn : ns.weight + 1 < n := by omega
      have ihns := loop_nodes_existing ctx hk cpa hcpa nr hnr ns named lvl hint rest n
      -- the loop of the nested struct, three calls down
      obtain ⟨n3, hn3⟩ : ∃ n3, n = n3 + 3 := ⟨n - 3, by omega⟩
      subst hn3
      have hk3 : kids.weight + 1 < n3 := by omega
      have hkids' : NodeList.WF ctx cpa (some (ca0.childPath, some { ty := cdata.ty, typeHint := cdata.typeHint }, newDepthOf lvl))
          (ns.flatten ++ rest).head? kids := by rw [← afterOf_head]; exact hkids
      have hend' : endOk (some (ca0.childPath, some { ty := cdata.ty, typeHint := cdata.typeHint }, newDepthOf lvl)) (ns.flatten ++ rest) := by
        refine ⟨key, hkey, ?_⟩
        cases hr : ns.flatten ++ rest with
        | nil => exact Or.inl rfl
        | cons fc rs =>
          refine Or.inr ⟨fc, rs, rfl, hnot fc ?_⟩
          rw [afterOf_head, hr]; rfl
      have ihkids := loop_nodes_existing ctx hk cpa hcpa nr hnr kids nr
        (some (ca0.childPath, some { ty := cdata.ty, typeHint := cdata.typeHint }, newDepthOf lvl)) cdata.typeHint (ns.flatten ++ rest) n3 [] 0
        hk3 hkids' hend'
      simp only [NodeList.flatten, Node.flatten, List.append_assoc, NodeList.specE]
      rw [htl] at ihkids ⊢
      simp only [List.cons_append] at ihkids ⊢
      -- this level's test and the member that opens the nested struct
      cases lvl with
      | none =>
        conv => lhs; unfold structInitLoop
        simp only [levelBreak, levelBreak, bind, Except.bind, pure, Except.pure, Bool.false_eq_true, ↓reduceIte, hfd, hns, hca0, Option.map_none]
        unfold renderChildFragment
        simp only [deeperThan, nextDepth, Option.map_none, Option.map_some]
        simp only [↓reduceIte, hk, hcpa, hkey, hfind, hnr, bind, Except.bind, pure, Except.pure, newDepthOf] at hkey ihkids ⊢
        sub_tail_e 0
      | some l =>
        obtain ⟨cp, crc, d⟩ := l
        obtain ⟨pfx, p, hpfx, hp, hm⟩ := hhead
        have hp0 : p = p0 := by
          have : (Node.sub kids cdata).first = some p0 := by simpa [Node.first] using hfirst
          rw [this] at hp; exact (Option.some.inj hp).symm
        rw [hp0] at hm
        have hdeepB : decide (d < ca0.childPath.strs.length - 1) = true := by simpa using hdeep
        conv => lhs; unfold structInitLoop
        simp only [levelBreak, levelBreak, hpfx, hm, bind, Except.bind, pure, Except.pure, Bool.not_true, Bool.false_eq_true, ↓reduceIte, hfd, hns, hca0, Option.map_some]
        unfold renderChildFragment
        simp only [deeperThan, nextDepth, Option.map_none, Option.map_some]
        simp only [hdeepB, ↓reduceIte, hk, hcpa, hkey, hfind, hnr, bind, Except.bind, pure, Except.pure, newDepthOf] at hkey ihkids ⊢
        sub_tail_e (d + 1)

end O2o
