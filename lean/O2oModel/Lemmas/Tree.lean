/-
The recursive descent of `struct_init_block_inner` over flattened members (C03): block lemmas.
-/
import O2oModel.Lemmas.Blocks
namespace O2o

/-- `p` sits exactly at the child path whose rendered prefix is `pfx` (depth `d`), for counterpart `ctx.ty` -/
def AtLeaf (ctx : ImplContext) (pfx : String) (d : Nat) (p : FieldContainer × Field) : Prop :=
  p.1.fieldData = .field p.2 ∧ p.1.path = pfx ∧
  ∃ ca, p.2.attrs.child ctx.ty = some ca ∧ ca.childPath.strs.length = d + 1

theorem pathMatches_self (s : String) : pathMatches s s = true := by
  simp [pathMatches]

theorem childLineHint_not_from (ctx : ImplContext) (ca : ChildAttr) (h : TypeHint) (hk : ctx.kind.isFrom = false) :
    childLineHint ctx ca h = h := by simp [childLineHint, hk]

theorem cls_into_not_from {k : Kind} (h : k.cls = .into) : k.isFrom = false := by
  unfold Kind.cls at h
  cases hf : k.isFrom
  · rfl
  · simp [hf] at h

/-- inside the initialiser of a child (depth `d`), a run of members that sit exactly at that child is consumed
    member by member — one line each, in order — and the loop stops at the first member that does not belong to the
    child (or at the end), leaving it for the enclosing level -/
theorem loop_leaf_block (ctx : ImplContext) (named : Bool) (cp : ChildPath) (crc : Option ChildRenderContext) (d : Nat)
    (pfx : String) (hpfx : cp.getStr (some d) = .ok pfx) (hint : TypeHint) (hk : ctx.kind.isFrom = false) :
    ∀ (block : List (FieldContainer × Field)) (rest : List FieldContainer) (fuel : Nat) (frags : TS) (idx : Nat),
      block.length + 1 < fuel →
      (∀ p ∈ block, AtLeaf ctx pfx d p) →
      (rest = [] ∨ ∃ fc rs, rest = fc :: rs ∧ pathMatches fc.path pfx = false) →
      structInitLoop fuel (block.map (·.1) ++ rest) named ctx (some (cp, crc, d)) hint frags idx =
        (match flatLines ctx hint (block.map (·.2)) idx with
         | .ok ls => .ok (frags ++ ls, rest)
         | .error e => .error e)
  | [], rest, fuel, frags, idx, hf, _, hrest => by
    cases fuel with
    | zero => simp at hf
    | succ n =>
      simp only [List.map_nil, List.nil_append, flatLines, List.append_nil]
      cases hrest with
      | inl h => subst h; simp [structInitLoop, levelBreak]
      | inr h =>
        obtain ⟨fc, rs, hr, hm⟩ := h
        subst hr
        unfold structInitLoop
        simp [levelBreak, hpfx, hm, bind, Except.bind, pure, Except.pure]
  | p :: block, rest, fuel, frags, idx, hf, hb, hrest => by
    cases fuel with
    | zero => simp at hf
    | succ n =>
      have hn : block.length + 1 < n := by simpa using hf
      have hb' : ∀ q ∈ block, AtLeaf ctx pfx d q := fun q hq => hb q (List.mem_cons_of_mem _ hq)
      obtain ⟨hfd, hpath, ca, hca, hlen⟩ := hb p (List.mem_cons_self)
      have ih := loop_leaf_block ctx named cp crc d pfx hpfx hint hk block rest n
      simp only [List.map_cons, List.cons_append, flatLines]
      unfold structInitLoop
      simp only [levelBreak, hpfx, hpath, pathMatches_self, bind, Except.bind, pure, Except.pure, Bool.not_true, Bool.false_eq_true,
        ↓reduceIte, hfd, Option.map_some, hca]
      by_cases hs : fieldSkipped ctx p.2 = true
      · simp only [hs, ↓reduceIte]
        exact ih frags idx hn hb' hrest
      · have hs' : fieldSkipped ctx p.2 = false := by simpa using hs
        simp only [hs', Bool.false_eq_true, ↓reduceIte]
        -- the member is the deepest level of its own child path: `render_child_fragment` renders its line
        cases n with
        | zero => simp at hn
        | succ n' =>
          unfold renderChildFragment
          simp only [deeperThan, nextDepth, Option.map_none, Option.map_some]
          have hdeep : (d < ca.childPath.strs.length - 1) = False := by simp [hlen]
          simp only [hdeep, decide_false, Bool.false_eq_true, ↓reduceIte, List.drop_one, List.tail_cons, bind, Except.bind, pure, Except.pure,
            childLineHint_not_from ctx ca hint hk]
          cases hl : renderStructLine p.2 ctx hint idx none with
          | error e => rfl
          | ok line =>
            simp only
            have := ih (frags ++ line) (idx + 1) hn hb' hrest
            rw [this]
            cases flatLines ctx hint (block.map (·.2)) (idx + 1) with
            | error e => rfl
            | ok ls => simp [List.append_assoc]

end O2o

namespace O2o

/-- what `render_child` must produce for a child whose members are `fs`: the nested struct is named once, built once,
    and holds one line per member (in order), the ghosts addressed to exactly this child, and `..update` -/
def childFragmentSpec (ctx : ImplContext) (named : Bool) (cp : ChildPath) (d : Nat) (cd : ChildRenderContext) (hint : TypeHint)
    (fs : List Field) : E TS := do
  let childName ← (match cp.path[d]? with
    | some m => pure m.toTS
    | none => panicAt "expand.rs:render_child:child_path index")
  let lines ← flatLines ctx cd.typeHint fs 0
  let g ← structGhostLines ctx (some (cp, some cd, d))
  let init ← wrapInit ctx cd.typeHint named (lines ++ g ++ updateToks ctx)
  let nr ← ctx.input.namedFields
  match nr, hint with
  | true, .struct | true, .unspecified => return childName ++ [colon] ++ exprPath cd.ty ++ init ++ [comma]
  | true, .tuple => return exprPath cd.ty ++ init ++ [comma]
  | false, .tuple | false, .unspecified => return exprPath cd.ty ++ init ++ [comma]
  | false, .struct => return childName ++ [colon] ++ exprPath cd.ty ++ init ++ [comma]
  | _, .unit => panicAt "expand.rs:render_child:unreachable(15)"

/-- `render_child` over a run of members sitting exactly at that child: one construction, all and only those members,
    the cursor is left at the first foreign member -/
theorem renderChild_leaf_block (ctx : ImplContext) (named : Bool) (cp : ChildPath) (d : Nat) (pfx : String)
    (hpfx : cp.getStr (some d) = .ok pfx) (cd : ChildRenderContext) (hint : TypeHint) (hk : ctx.kind.isFrom = false)
    (block : List (FieldContainer × Field)) (rest : List FieldContainer) (fuel : Nat)
    (hf : block.length + 3 < fuel) (hb : ∀ p ∈ block, AtLeaf ctx pfx d p)
    (hrest : rest = [] ∨ ∃ fc rs, rest = fc :: rs ∧ pathMatches fc.path pfx = false) :
    renderChild fuel cd (block.map (·.1) ++ rest) named ctx cp d hint =
      (match childFragmentSpec ctx named cp d cd hint (block.map (·.2)) with
       | .ok ts => .ok (ts, rest)
       | .error e => .error e) := by
  cases fuel with
  | zero => simp at hf
  | succ n =>
    cases n with
    | zero => simp at hf
    | succ n' =>
      have hn : block.length + 1 < n' := by omega
      unfold renderChild childFragmentSpec
      simp only [bind, Except.bind, pure, Except.pure]
      cases hm : cp.path[d]? with
      | none => rfl
      | some m =>
        simp only
        unfold structInitBlockInner
        simp only [bind, Except.bind, pure, Except.pure]
        rw [loop_leaf_block ctx named cp (some cd) d pfx hpfx cd.typeHint hk block rest n' [] 0 hn hb hrest]
        cases hl : flatLines ctx cd.typeHint (block.map (·.2)) 0 with
        | error e => rfl
        | ok lines =>
          simp only [List.nil_append]
          cases hg : structGhostLines ctx (some (cp, some cd, d)) with
          | error e => rfl
          | ok g =>
            simp only
            cases hw : wrapInit ctx cd.typeHint named (lines ++ g ++ updateToks ctx) with
            | error e => rfl
            | ok init =>
              simp only
              cases hnr : ctx.input.namedFields with
              | error e => rfl
              | ok nr =>
                simp only
                cases nr <;> cases hint <;> rfl

end O2o

namespace O2o

/-- top level of an Into conversion: a run of members of one depth-1 child produces exactly one fragment — the child's
    construction — and the loop continues with the member after the run -/
theorem loop_top_child_block (ctx : ImplContext) (named : Bool) (hint : TypeHint)
    (hk : ctx.kind.cls = .into) (cpa : ChildParentsAttr) (hcpa : ctx.input.attrs.childParentsAttr ctx.ty = some cpa)
    (nr : Bool) (hnr : ctx.input.namedFields = .ok nr)
    (p0 : FieldContainer × Field) (block : List (FieldContainer × Field)) (rest : List FieldContainer)
    (ca : ChildAttr) (hca0 : p0.2.attrs.child ctx.ty = some ca) (pfx : String) (hstrs : ca.childPath.strs = [pfx])
    (cdata : ChildParentData) (hfind : cpa.childParents.find? (fun cd => cd.fieldPathStr == pfx) = some cdata)
    (hall : ∀ p ∈ p0 :: block, AtLeaf ctx pfx 0 p) (hns : fieldSkipped ctx p0.2 = false)
    (hrest : rest = [] ∨ ∃ fc rs, rest = fc :: rs ∧ pathMatches fc.path pfx = false)
    (fuel : Nat) (hf : block.length + 6 < fuel) (frags : TS) (idx : Nat) :
    structInitLoop (fuel + 1) ((p0 :: block).map (·.1) ++ rest) named ctx none hint frags idx =
      (match childFragmentSpec ctx nr ca.childPath 0 { ty := cdata.ty, typeHint := cdata.typeHint } hint ((p0 :: block).map (·.2)) with
       | .ok frag => structInitLoop fuel rest named ctx none hint (frags ++ frag) (idx + 1)
       | .error e => .error e) := by
  obtain ⟨hfd, _, _⟩ := hall p0 (List.mem_cons_self)
  have hget : ca.childPath.getStr (some 0) = .ok pfx := by simp [ChildPath.getStr, hstrs]
  simp only [List.map_cons, List.cons_append]
  conv => lhs; unfold structInitLoop
  simp only [levelBreak, levelBreak, bind, Except.bind, pure, Except.pure, Bool.false_eq_true, ↓reduceIte, hfd, hns, hca0, Option.map_none]
  cases fuel with
  | zero => simp at hf
  | succ n =>
    unfold renderChildFragment
    simp only [deeperThan, nextDepth, Option.map_none, Option.map_some]
    simp only [↓reduceIte, hk, hcpa, hget, hfind, hnr, bind, Except.bind, pure, Except.pure]
    have := renderChild_leaf_block ctx nr ca.childPath 0 pfx hget { ty := cdata.ty, typeHint := cdata.typeHint } hint (cls_into_not_from hk)
      (p0 :: block) rest n (by simp; omega) hall hrest
    simp only [List.map_cons, List.cons_append] at this
    rw [this]
    cases childFragmentSpec ctx nr ca.childPath 0 { ty := cdata.ty, typeHint := cdata.typeHint } hint (p0.2 :: block.map (·.2)) with
    | error e => rfl
    | ok frag => rfl

end O2o

namespace O2o

/-- a maximal run of the sorted member list: a member that is not flattened, or all members of one depth-1 child -/
inductive Segment
  | flat (fc : FieldContainer) (f : Field)
  | child (p0 : FieldContainer × Field) (block : List (FieldContainer × Field)) (ca : ChildAttr) (pfx : String) (cdata : ChildParentData)

def Segment.containers : Segment → List FieldContainer
  | .flat fc _ => [fc]
  | .child p0 block _ _ _ => (p0 :: block).map (·.1)

def Segment.headPath : Segment → String
  | .flat fc _ => fc.path
  | .child p0 _ _ _ _ => p0.1.path

def Segment.size : Segment → Nat
  | .flat _ _ => 1
  | .child _ block _ _ _ => block.length + 1

/-- side conditions of one segment -/
def Segment.ok (ctx : ImplContext) (cpa : ChildParentsAttr) : Segment → Prop
  | .flat fc f => fc.fieldData = .field f ∧ f.attrs.child ctx.ty = none
  | .child p0 block ca pfx cdata =>
    p0.2.attrs.child ctx.ty = some ca ∧ ca.childPath.strs = [pfx] ∧
    cpa.childParents.find? (fun cd => cd.fieldPathStr == pfx) = some cdata ∧
    (∀ p ∈ p0 :: block, AtLeaf ctx pfx 0 p) ∧ fieldSkipped ctx p0.2 = false

/-- segments are well formed and a child's run ends where a foreign member begins -/
def segmentsWf (ctx : ImplContext) (cpa : ChildParentsAttr) : List Segment → Prop
  | [] => True
  | s :: rest =>
    s.ok ctx cpa ∧
    (match s, rest with
     | .child _ _ _ pfx _, s' :: _ => pathMatches s'.headPath pfx = false
     | _, _ => True) ∧
    segmentsWf ctx cpa rest

/-- the specification of a whole (depth ≤ 1) body: one fragment per segment, in order; a child segment is one
    construction holding exactly its own members -/
def segmentsSpec (ctx : ImplContext) (nr : Bool) (hint : TypeHint) : List Segment → Nat → E TS
  | [], _ => .ok []
  | .flat _ f :: rest, idx =>
    if fieldSkipped ctx f then segmentsSpec ctx nr hint rest idx
    else do
      let l ← renderStructLine f ctx hint idx none
      let r ← segmentsSpec ctx nr hint rest (idx + 1)
      return l ++ r
  | .child p0 block ca _ cdata :: rest, idx => do
    let frag ← childFragmentSpec ctx nr ca.childPath 0 { ty := cdata.ty, typeHint := cdata.typeHint } hint ((p0 :: block).map (·.2))
    let r ← segmentsSpec ctx nr hint rest (idx + 1)
    return frag ++ r

def totalSize : List Segment → Nat
  | [] => 0
  | s :: rest => s.size + totalSize rest

theorem head_of_flatMap (s : Segment) (rest : List Segment) :
    ∃ rs, (s :: rest).flatMap Segment.containers = (match s with | .flat fc _ => fc | .child p0 _ _ _ _ => p0.1) :: rs := by
  cases s with
  | flat fc f => exact ⟨rest.flatMap Segment.containers, by simp [Segment.containers]⟩
  | child p0 block ca pfx cdata => exact ⟨block.map (·.1) ++ rest.flatMap Segment.containers, by simp [Segment.containers]⟩

/-- **C03, depth ≤ 1, any number of members and children**: the cursor loop over a sorted member list that is a sequence
    of well-formed segments produces exactly `segmentsSpec` — in particular every child struct is constructed exactly
    once and receives all and only its own members -/
theorem structInitLoop_segments (ctx : ImplContext) (named : Bool) (hint : TypeHint)
    (hk : ctx.kind.cls = .into) (cpa : ChildParentsAttr) (hcpa : ctx.input.attrs.childParentsAttr ctx.ty = some cpa)
    (nr : Bool) (hnr : ctx.input.namedFields = .ok nr) :
    ∀ (segs : List Segment) (fuel : Nat) (frags : TS) (idx : Nat),
      totalSize segs + 8 < fuel → segmentsWf ctx cpa segs →
      structInitLoop fuel (segs.flatMap Segment.containers) named ctx none hint frags idx =
        (match segmentsSpec ctx nr hint segs idx with
         | .ok ts => .ok (frags ++ ts, [])
         | .error e => .error e)
  | [], fuel, frags, idx, hf, _ => by
    cases fuel with
    | zero => simp at hf
    | succ n => simp [structInitLoop, segmentsSpec]
  | .flat fc f :: rest, fuel, frags, idx, hf, hwf => by
    cases fuel with
    | zero => simp at hf
    | succ n =>
      obtain ⟨⟨hfd, hch⟩, _, hwf'⟩ := hwf
      have hn : totalSize rest + 8 < n := by simp [totalSize, Segment.size] at hf; omega
      have ih := structInitLoop_segments ctx named hint hk cpa hcpa nr hnr rest n
      simp only [List.flatMap_cons, Segment.containers, List.singleton_append, segmentsSpec]
      conv => lhs; unfold structInitLoop
      simp only [levelBreak, levelBreak, bind, Except.bind, pure, Except.pure, Bool.false_eq_true, ↓reduceIte, hfd, hch, Option.map_none]
      by_cases hs : fieldSkipped ctx f = true
      · simp only [hs, ↓reduceIte]
        exact ih frags idx hn hwf'
      · have hs' : fieldSkipped ctx f = false := by simpa using hs
        simp only [hs', Bool.false_eq_true, ↓reduceIte]
        cases hl : renderStructLine f ctx hint idx none with
        | error e => rfl
        | ok line =>
          simp only
          rw [ih (frags ++ line) (idx + 1) hn hwf']
          cases segmentsSpec ctx nr hint rest (idx + 1) with
          | error e => rfl
          | ok ts => simp [List.append_assoc]
  | .child p0 block ca pfx cdata :: rest, fuel, frags, idx, hf, hwf => by
    cases fuel with
    | zero => simp at hf
    | succ n =>
      obtain ⟨⟨hca0, hstrs, hfind, hall, hns⟩, hsep, hwf'⟩ := hwf
      have hn : totalSize rest + 8 < n := by simp [totalSize, Segment.size] at hf; omega
      have hb : block.length + 6 < n := by simp [totalSize, Segment.size] at hf; omega
      have hrest : rest.flatMap Segment.containers = [] ∨
          ∃ fc rs, rest.flatMap Segment.containers = fc :: rs ∧ pathMatches fc.path pfx = false := by
        cases rest with
        | nil => exact Or.inl rfl
        | cons s' rest' =>
          obtain ⟨rs, hrs⟩ := head_of_flatMap s' rest'
          refine Or.inr ⟨_, rs, hrs, ?_⟩
          cases s' <;> simpa [Segment.headPath] using hsep
      have ih := structInitLoop_segments ctx named hint hk cpa hcpa nr hnr rest n
      simp only [List.flatMap_cons, Segment.containers, segmentsSpec]
      rw [loop_top_child_block ctx named hint hk cpa hcpa nr hnr p0 block (rest.flatMap Segment.containers) ca hca0 pfx hstrs cdata hfind hall hns hrest n hb frags idx]
      simp only [bind, Except.bind, pure, Except.pure]
      cases childFragmentSpec ctx nr ca.childPath 0 { ty := cdata.ty, typeHint := cdata.typeHint } hint ((p0 :: block).map (·.2)) with
      | error e => rfl
      | ok frag =>
        simp only
        rw [ih (frags ++ frag) (idx + 1) hn hwf']
        cases segmentsSpec ctx nr hint rest (idx + 1) with
        | error e => rfl
        | ok ts => simp [List.append_assoc]

end O2o
