/-
`==` on tokens and token streams is equality (the `BEq Tok` instance is a hand-written structural comparison).
-/
import O2oModel.Tok
namespace O2o

mutual
theorem Tok.beq_iff : ∀ (a b : Tok), Tok.beq a b = true ↔ a = b
  | .ident a, .ident b => by simp [Tok.beq]
  | .lit a, .lit b => by simp [Tok.beq]
  | .punct a ja, .punct b jb => by simp [Tok.beq]
  | .group d a, .group e b => by
    simp only [Tok.beq, Bool.and_eq_true, Tok.group.injEq]
    rw [Tok.beqList_iff a b]
    constructor
    · intro ⟨h1, h2⟩; exact ⟨by simpa using h1, h2⟩
    · intro ⟨h1, h2⟩; exact ⟨by simpa using h1, h2⟩
  | .ident _, .punct _ _ => by simp [Tok.beq]
  | .ident _, .lit _ => by simp [Tok.beq]
  | .ident _, .group _ _ => by simp [Tok.beq]
  | .punct _ _, .ident _ => by simp [Tok.beq]
  | .punct _ _, .lit _ => by simp [Tok.beq]
  | .punct _ _, .group _ _ => by simp [Tok.beq]
  | .lit _, .ident _ => by simp [Tok.beq]
  | .lit _, .punct _ _ => by simp [Tok.beq]
  | .lit _, .group _ _ => by simp [Tok.beq]
  | .group _ _, .ident _ => by simp [Tok.beq]
  | .group _ _, .punct _ _ => by simp [Tok.beq]
  | .group _ _, .lit _ => by simp [Tok.beq]
theorem Tok.beqList_iff : ∀ (a b : List Tok), Tok.beqList a b = true ↔ a = b
  | [], [] => by simp [Tok.beqList]
  | [], _ :: _ => by simp [Tok.beqList]
  | _ :: _, [] => by simp [Tok.beqList]
  | a :: as, b :: bs => by
    simp only [Tok.beqList, Bool.and_eq_true, List.cons.injEq]
    rw [Tok.beq_iff a b, Tok.beqList_iff as bs]
end

instance : LawfulBEq Tok where
  eq_of_beq {a b} h := (Tok.beq_iff a b).mp h
  rfl {a} := (Tok.beq_iff a a).mpr rfl

end O2o
