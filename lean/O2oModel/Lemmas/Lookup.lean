/-
Helper lemmas about the "dedicated to `ty`, else default" search used by every lookup of attr.rs.
-/
import O2oModel.Attr
namespace O2o

/-- an instruction is relevant to counterpart `ty` when it is a default one or dedicated to `ty` -/
def relevantTo (ty : TypePath) (c : Option TypePath) : Bool := c.isNone || isSomeEq c ty

theorem find_filter_and {α} (xs : List α) (p q : α → Bool) :
    (xs.filter p).find? q = xs.find? (fun x => p x && q x) := by
  induction xs with
  | nil => rfl
  | cons x xs ih =>
    simp only [List.filter_cons, List.find?_cons]
    by_cases hp : p x = true
    · simp only [hp, if_true, List.find?_cons, Bool.true_and]
      cases q x <;> simp [ih]
    · have hp' : p x = false := by simpa using hp
      simp only [hp', Bool.false_eq_true, if_false, Bool.false_and]
      exact ih

/-- projection lemma: dropping the instructions dedicated to *other* counterparts never changes a lookup for `ty` -/
theorem findDedicatedOrDefault_filter {α} (xs : List α) (ok : α → Bool) (cty : α → Option TypePath) (ty : TypePath) :
    findDedicatedOrDefault (xs.filter fun x => relevantTo ty (cty x)) ok cty ty = findDedicatedOrDefault xs ok cty ty := by
  unfold findDedicatedOrDefault
  rw [find_filter_and, find_filter_and]
  have e1 : (fun x => relevantTo ty (cty x) && (ok x && isSomeEq (cty x) ty)) = (fun x => ok x && isSomeEq (cty x) ty) := by
    funext x
    unfold relevantTo
    cases ok x <;> cases isSomeEq (cty x) ty <;> simp
  have e2 : (fun x => relevantTo ty (cty x) && (ok x && (cty x).isNone)) = (fun x => ok x && (cty x).isNone) := by
    funext x
    unfold relevantTo
    cases ok x <;> cases (cty x).isNone <;> simp
  rw [e1, e2]

/-- non-interference: an element that is not applicable (`ok y = false`) or dedicated to another counterpart can be
    inserted anywhere without changing the result -/
theorem findDedicatedOrDefault_insert_irrelevant {α} (pre post : List α) (y : α) (ok : α → Bool) (cty : α → Option TypePath)
    (ty : TypePath) (h : (ok y && relevantTo ty (cty y)) = false) :
    findDedicatedOrDefault (pre ++ y :: post) ok cty ty = findDedicatedOrDefault (pre ++ post) ok cty ty := by
  unfold findDedicatedOrDefault
  have h1 : (ok y && isSomeEq (cty y) ty) = false := by
    unfold relevantTo at h
    cases hok : ok y <;> simp_all
  have h2 : (ok y && (cty y).isNone) = false := by
    unfold relevantTo at h
    cases hok : ok y <;> simp_all
  simp only [List.find?_append, List.find?_cons, h1, h2]

/-- a dedicated instruction beats every default one, wherever they stand -/
theorem findDedicatedOrDefault_dedicated_wins {α} (xs : List α) (ok : α → Bool) (cty : α → Option TypePath) (ty : TypePath)
    (x : α) (hx : x ∈ xs) (hok : ok x = true) (hd : isSomeEq (cty x) ty = true) :
    ∃ r, findDedicatedOrDefault xs ok cty ty = some r ∧ ok r = true ∧ isSomeEq (cty r) ty = true := by
  unfold findDedicatedOrDefault
  have hsome : (xs.find? fun x => ok x && isSomeEq (cty x) ty).isSome = true := by
    rw [List.find?_isSome]
    exact ⟨x, hx, by simp [hok, hd]⟩
  cases hf : xs.find? (fun x => ok x && isSomeEq (cty x) ty) with
  | none => simp [hf] at hsome
  | some r =>
    have hr := List.find?_some hf
    simp only [Bool.and_eq_true] at hr
    exact ⟨r, by simp, hr.1, hr.2⟩

/-- without a dedicated instruction the first applicable default is taken -/
theorem findDedicatedOrDefault_default {α} (xs : List α) (ok : α → Bool) (cty : α → Option TypePath) (ty : TypePath)
    (hnone : ∀ x ∈ xs, (ok x && isSomeEq (cty x) ty) = false) :
    findDedicatedOrDefault xs ok cty ty = xs.find? (fun x => ok x && (cty x).isNone) := by
  unfold findDedicatedOrDefault
  have : xs.find? (fun x => ok x && isSomeEq (cty x) ty) = none := by
    rw [List.find?_eq_none]
    intro x hx
    simp [hnone x hx]
  simp [this]

end O2o
