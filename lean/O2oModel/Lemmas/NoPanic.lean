/-
"This function never answers with the panic at site s": a small calculus for `Except PErr` programs, used by the
per-site unreachability theorems of C16.
-/
import O2oModel.Expand
namespace O2o

/-- `r` is not the panic at `site` -/
def NP {α : Type} (site : String) (r : E α) : Prop := r ≠ .error (.panic site)

theorem NP.ok {α : Type} (s : String) (a : α) : NP s (.ok a : E α) := by intro h; cases h
theorem NP.pure {α : Type} (s : String) (a : α) : NP s (pure a : E α) := by intro h; cases h

theorem NP.panicAt {α : Type} (s s' : String) (h : s' ≠ s) : NP s (panicAt s' : E α) := by
  intro e
  simp only [O2o.panicAt] at e
  exact h (by injection e with e; injection e)

theorem NP.error_o2o {α : Type} (s m : String) : NP s (.error (.o2o m) : E α) := by intro h; cases h
theorem NP.error_unsupported {α : Type} (s m : String) : NP s (.error (.unsupported m) : E α) := by intro h; cases h
theorem NP.error_lib {α : Type} (s : String) : NP s (.error .lib : E α) := by intro h; cases h

theorem NP.bind {α β : Type} (s : String) (x : E α) (f : α → E β) (hx : NP s x) (hf : ∀ a, NP s (f a)) : NP s (x >>= f) := by
  cases x with
  | error e =>
    intro h
    have h' : (Except.error e : E β) = .error (.panic s) := h
    exact hx (by injection h' with h'; rw [h'])
  | ok a => exact hf a

theorem NP.foldlM {α β : Type} (s : String) (f : β → α → E β) (hf : ∀ b a, NP s (f b a)) :
    ∀ (l : List α) (init : β), NP s (l.foldlM f init) := by
  intro l
  induction l with
  | nil => intro init; exact NP.pure s init
  | cons a rest ih =>
    intro init
    simp only [List.foldlM_cons]
    exact NP.bind s _ _ (hf init a) (fun b => ih b)

theorem NP.bind' {α β : Type} (s : String) (x : E α) (f : α → E β) (hx : NP s x) (hf : ∀ a, x = .ok a → NP s (f a)) : NP s (x >>= f) := by
  cases x with
  | error e =>
    intro h
    have h' : (Except.error e : E β) = .error (.panic s) := h
    exact hx (by injection h' with h'; rw [h'])
  | ok a => exact hf a rfl

theorem NP.foldlM_mem {α β : Type} (s : String) (f : β → α → E β) :
    ∀ (l : List α) (init : β), (∀ b a, a ∈ l → NP s (f b a)) → NP s (l.foldlM f init) := by
  intro l
  induction l with
  | nil => intro init _; exact NP.pure s init
  | cons a rest ih =>
    intro init hf
    simp only [List.foldlM_cons]
    exact NP.bind s _ _ (hf init a List.mem_cons_self) (fun b => ih b (fun b' a' ha' => hf b' a' (List.mem_cons_of_mem _ ha')))

/-! ### postconditions -/

/-- every value `r` can return satisfies `Q` -/
def Post {α : Type} (Q : α → Prop) (r : E α) : Prop := ∀ a, r = .ok a → Q a

theorem Post.ok {α : Type} (Q : α → Prop) (a : α) (h : Q a) : Post Q (.ok a : E α) := by
  intro b hb; cases hb; exact h
theorem Post.pure {α : Type} (Q : α → Prop) (a : α) (h : Q a) : Post Q (pure a : E α) := by
  intro b hb; cases hb; exact h
theorem Post.error {α : Type} (Q : α → Prop) (e : PErr) : Post Q (.error e : E α) := by
  intro b hb; cases hb
theorem Post.panicAt {α : Type} (Q : α → Prop) (s : String) : Post Q (panicAt s : E α) := by
  intro b hb; cases hb

theorem Post.bind {α β : Type} (P : α → Prop) (Q : β → Prop) (x : E α) (f : α → E β)
    (hx : Post P x) (hf : ∀ a, P a → Post Q (f a)) : Post Q (x >>= f) := by
  cases x with
  | error e => intro b hb; cases hb
  | ok a => exact hf a (hx a rfl)

theorem Post.bind_any {α β : Type} (Q : β → Prop) (x : E α) (f : α → E β) (hf : ∀ a, Post Q (f a)) : Post Q (x >>= f) :=
  Post.bind (fun _ => True) Q x f (fun _ _ => trivial) (fun a _ => hf a)

theorem Post.mono {α : Type} (P Q : α → Prop) (r : E α) (h : Post P r) (hpq : ∀ a, P a → Q a) : Post Q r :=
  fun a ha => hpq a (h a ha)

/-- `NP` through a bind whose continuation may rely on a postcondition of the first computation -/
theorem NP.bind_post {α β : Type} (s : String) (P : α → Prop) (x : E α) (f : α → E β)
    (hx : NP s x) (hp : Post P x) (hf : ∀ a, P a → NP s (f a)) : NP s (x >>= f) := by
  cases x with
  | error e =>
    intro h
    have h' : (Except.error e : E β) = .error (.panic s) := h
    exact hx (by injection h' with h'; rw [h'])
  | ok a => exact hf a (hp a rfl)

macro "np_step" : tactic => `(tactic| first
  | exact NP.pure _ _
  | exact NP.ok _ _
  | exact NP.panicAt _ _ (by decide)
  | exact NP.error_o2o _ _
  | exact NP.error_unsupported _ _
  | exact NP.error_lib _
  | (apply NP.foldlM; intro _ _)
  | (apply NP.bind _ _ _ ?_ (fun _ => ?_))
  | split)

theorem getFieldNameOr_np (s : String) (h : "expand.rs:ApplicableAttr::get_field_name_or:unreachable(10)" ≠ s)
    (a : ApplicableAttr) (m : Member) : NP s (a.getFieldNameOr m) := by
  unfold ApplicableAttr.getFieldNameOr
  repeat' np_step
  exact NP.panicAt _ _ h

theorem ghostIdent_np (s : String) (h : "attr.rs:GhostIdent::get_ident:unreachable(16)" ≠ s) (g : GhostIdent) : NP s (g.getIdent) := by
  unfold GhostIdent.getIdent
  split
  · exact NP.ok _ _
  · intro e; injection e with e; injection e with e; exact h e

theorem first_hint (sc c : Bool) (X : E TS) (t ids : TS) (hint : TypeHint)
    (h : (if sc = true then (do let ids ← X; pure (ids, TypeHint.struct)) else
            if c = true then pure ([], TypeHint.unit) else pure (t, TypeHint.tuple) : E (TS × TypeHint)) = .ok (ids, hint)) :
    hint ≠ .unspecified := by
  cases sc <;> cases c <;> cases X <;> simp [bind, Except.bind, pure, Except.pure] at h <;> (intro hu; simp [hu] at h)

theorem vdb_np4 (input : Struct) (ctx : ImplContext) : NP "expand.rs:variant_destruct_block:unreachable(4)" (variantDestructBlock input ctx) := by
  unfold variantDestructBlock
  simp only []
  apply NP.bind'
  · repeat' np_step
    all_goals first | exact getFieldNameOr_np _ (by decide) _ _ | skip
  · intro a ha
    obtain ⟨ids, hint⟩ := a
    have hh : hint ≠ .unspecified := first_hint _ _ _ _ _ _ ha
    apply NP.bind
    · repeat' np_step
      all_goals first | exact ghostIdent_np _ (by decide) _ | skip
    · intro ids2
      cases hint with
      | unspecified => exact absurd rfl hh
      | struct => exact NP.pure _ _
      | tuple => exact NP.pure _ _
      | unit => exact NP.pure _ _
theorem getStuffInner_np (s : String) (m : Option Member) (a : Option TS) (obj : TS) (fp : Member → TS) (ctx : ImplContext) (or : Member) :
    NP s (getStuffInner m a obj fp ctx or) := by
  unfold getStuffInner
  repeat' np_step

theorem getStuff_np (s : String) (h : "expand.rs:ApplicableAttr::get_stuff:ghost action unwrap" ≠ s)
    (a : ApplicableAttr) (obj : TS) (fp : Member → TS) (ctx : ImplContext) (or : Member) : NP s (a.getStuff obj fp ctx or) := by
  unfold ApplicableAttr.getStuff
  repeat' (first | exact getStuffInner_np _ _ _ _ _ _ _ | np_step)
  exact NP.panicAt _ _ h

theorem getActionOr_np (s : String) (a : ApplicableAttr) (fp : Option TS) (ctx : ImplContext) (or : TS) : NP s (a.getActionOr fp ctx or) := by
  unfold ApplicableAttr.getActionOr
  repeat' np_step

theorem getIdent_np9 (a : ApplicableAttr) (h : ∀ g, a ≠ .ghost g) : NP "expand.rs:ApplicableAttr::get_ident:unreachable(9)" a.getIdent := by
  unfold ApplicableAttr.getIdent
  repeat' np_step
  exact absurd rfl (h _)


end O2o
