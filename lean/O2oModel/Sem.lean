/-
A small value semantics for the fragment of Rust that plain struct conversions emit (C01, C07):
a *record* is a finite map from member names to values; a struct initialiser whose lines are
`slot: <object>.member,` builds the record that holds, at `slot`, the value found at `member` of the object.
This is the reading of `T { a: value.x, b: value.y, }` (struct expression: each field initialised from its
expression; a place expression `value.x` evaluates to the value of that field). Nothing else of Rust is modelled.
-/
import O2oModel.Expand
namespace O2o.Sem

/-- values are opaque; integers are enough to tell members apart -/
abbrev Val := Int
/-- a record value: member name ↦ value (first binding wins, like a struct has one field per name) -/
abbrev Rec := List (String × Val)

def Rec.get? (r : Rec) (n : String) : Option Val := (r.find? (·.1 == n)).map (·.2)

/-- one initialiser line `slot: obj.member,` -/
structure Line where
  slot : String
  obj : String
  member : String
  deriving Repr, DecidableEq

/-- reads the initialiser lines off the emitted tokens; `none` when the tokens are not of that form -/
def parseLines : Nat → TS → Option (List Line)
  | _, [] => some []
  | 0, _ :: _ => none
  | fuel + 1, .ident slot :: .punct ':' false :: .ident obj :: .punct '.' false :: .ident m :: .punct ',' false :: rest =>
    (parseLines fuel rest).map ({ slot := slot, obj := obj, member := m } :: ·)
  | _ + 1, _ => none

/-- evaluation of the initialiser on an object named `obj` bound to `src`: every line must read a member that exists -/
def evalLines (obj : String) (src : Rec) : List Line → Option Rec
  | [] => some []
  | l :: ls =>
    if l.obj == obj then
      match src.get? l.member, evalLines obj src ls with
      | some v, some r => some ((l.slot, v) :: r)
      | _, _ => none
    else none

/-- the whole reading: emitted member lines ↦ the record they build from `src` -/
def evalInit (obj : String) (src : Rec) (body : TS) : Option Rec :=
  (parseLines (body.length + 1) body).bind (evalLines obj src)

/-! ### assignments (`into_existing` bodies): `other.slot = obj.member;` -/

structure Assign where
  slot : String
  obj : String
  member : String
  deriving Repr, DecidableEq

def parseAssigns : Nat → TS → Option (List Assign)
  | _, [] => some []
  | 0, _ :: _ => none
  | fuel + 1, .ident "other" :: .punct '.' false :: .ident slot :: .punct '=' false :: .ident obj :: .punct '.' false :: .ident m ::
      .punct ';' false :: rest =>
    (parseAssigns fuel rest).map ({ slot := slot, obj := obj, member := m } :: ·)
  | _ + 1, _ => none

/-- storing into a member of `other`: the new binding shadows the old one (`Rec.get?` finds the first) -/
def Rec.set (r : Rec) (k : String) (v : Val) : Rec := (k, v) :: r

/-- the statements run in order against the record `other` -/
def execAssigns (obj : String) (src : Rec) : List Assign → Rec → Option Rec
  | [], other => some other
  | a :: as, other =>
    if a.obj == obj then
      match src.get? a.member with
      | some v => execAssigns obj src as (other.set a.slot v)
      | none => none
    else none

def execBody (obj : String) (src : Rec) (body : TS) (other : Rec) : Option Rec :=
  (parseAssigns (body.length + 1) body).bind fun as => execAssigns obj src as other

end O2o.Sem
