/-
C18 — the syn 1 and syn 2 back-ends behave identically.
What differs between the two builds is (a) the cfg-split code of attr.rs, modelled in Ast.lean
(`bareAttrTokens`, one definition per back-end) and proved equal here, and (b) the two versions of the
parsing library, which no model of mine can prove equal: (b) is compared by running both builds
(correspondence against the same model under both back-ends + direct diff, see DESIGN.md).
-/
import O2oModel.Expand
namespace O2o

/-- the cfg-split code the model was written against -/
def cfgTable : List Gen.CfgSplit := [
  ⟨"attr.rs", "use", "syn2", "use syn2 as syn ;"⟩,
  ⟨"attr.rs", "get_data_type_attrs:let path", "syn", "let path = & x . path ;"⟩,
  ⟨"attr.rs", "get_data_type_attrs:let path", "syn2", "let path = x . meta . path () ;"⟩,
  ⟨"attr.rs", "get_data_type_attrs:let tokens", "syn", "let tokens = syn :: parse2 (x . tokens . clone ()) . map (| x : OptionalParenthesizedTokenStream | x . content ()) ? ;"⟩,
  ⟨"attr.rs", "get_data_type_attrs:let tokens", "syn2", "let tokens = match & x . meta { syn2 :: Meta :: Path (_) => TokenStream :: new () , syn2 :: Meta :: List (l) => match l . delimiter { syn2 :: MacroDelimiter :: Paren (_) => l . tokens . clone () , _ => Err (syn :: Error :: new (x . span () , \"unexpected token\")) ? , } , syn2 :: Meta :: NameValue (_) => Err (syn :: Error :: new (x . span () , \"#[name = \\\"Value\\\"] syntax is not supported.\")) ? , } ;"⟩,
  ⟨"attr.rs", "get_member_attrs:let path", "syn", "let path = & x . path ;"⟩,
  ⟨"attr.rs", "get_member_attrs:let path", "syn2", "let path = x . meta . path () ;"⟩,
  ⟨"attr.rs", "get_member_attrs:let tokens", "syn", "let tokens = syn :: parse2 (x . tokens . clone ()) . map (| x : OptionalParenthesizedTokenStream | x . content ()) ? ;"⟩,
  ⟨"attr.rs", "get_member_attrs:let tokens", "syn2", "let tokens = match & x . meta { syn2 :: Meta :: Path (_) => TokenStream :: new () , syn2 :: Meta :: List (l) => match l . delimiter { syn2 :: MacroDelimiter :: Paren (_) => l . tokens . clone () , _ => Err (syn :: Error :: new (x . span () , \"unexpected token\")) ? , } , syn2 :: Meta :: NameValue (_) => Err (syn :: Error :: new (x . span () , \"#[name = \\\"Value\\\"] syntax is not supported.\")) ? , } ;"⟩,
  ⟨"attr.rs", "try_parse_child_parents", "syn", "fn try_parse_child_parents (input : ParseStream) -> Result < Punctuated < ChildParentData , Token ! [,] > > { input . parse_terminated (| x | { let child_path : Punctuated < Member , Token ! [.] > = Punctuated :: parse_separated_nonempty (x) ? ; x . parse :: < Token ! [:] > () ? ; let ty = x . parse :: < syn :: Path > () ? ; Ok (ChildParentData { ty , type_hint : try_parse_type_hint (x) ? , field_path : child_path . clone () , field_path_str : child_path . to_token_stream () . to_string () . chars () . filter (| c | ! c . is_whitespace ()) . collect () , }) }) }"⟩,
  ⟨"attr.rs", "try_parse_child_parents", "syn2", "fn try_parse_child_parents (input : ParseStream) -> Result < Punctuated < ChildParentData , Token ! [,] > > { input . parse_terminated (| x | { let child_path : Punctuated < Member , Token ! [.] > = Punctuated :: parse_separated_nonempty (x) ? ; x . parse :: < Token ! [:] > () ? ; let ty = x . parse :: < syn :: Path > () ? ; Ok (ChildParentData { ty , type_hint : try_parse_type_hint (x) ? , field_path : child_path . clone () , field_path_str : child_path . to_token_stream () . to_string () . chars () . filter (| c | ! c . is_whitespace ()) . collect () , }) } , Token ! [,]) }"⟩,
  ⟨"ast.rs", "use", "syn2", "use syn2 as syn ;"⟩,
  ⟨"validate.rs", "use", "syn2", "use syn2 as syn ;"⟩,
  ⟨"expand.rs", "use", "syn2", "use syn2 as syn ;"⟩]
/-- C18-1: the set (and text) of `#[cfg(feature = "syn" | "syn2")]` items and statements in the sources is exactly
    the one the model splits on. New or edited cfg-split code breaks this obligation. -/
theorem C18_inventory : Gen.cfgSplits = cfgTable := by decide +kernel

/-- C18-2: the tokens handed to the instruction parser for a bare `#[instr …]` attribute are the same under both
    back-ends, for every attribute shape (path only, parenthesised / braced / bracketed list, name = value) -/
theorem C18_extraction (a : RawAttr) : bareAttrTokens .syn1 a = bareAttrTokens .syn2 a := by
  cases a with
  | mk path shape =>
    cases shape with
    | path => rfl
    | list d ts => cases d <;> rfl
    | nameValue ts => rfl

/-- the only other place the model consults the back-end: the reserved-word list of `Ident::parse` / `peek(Ident)` -/
theorem C18_keywords (s : String) (h : s ∉ ["async", "await", "dyn", "try"]) : isKeyword .syn1 s = isKeyword .syn2 s := by
  unfold isKeyword keywords
  apply Bool.eq_iff_iff.mpr
  simp only [List.append_nil, List.contains_iff_mem, List.mem_append]
  constructor
  · intro h1; exact Or.inl h1
  · intro h1
    cases h1 with
    | inl h1 => exact h1
    | inr h2 => exact absurd h2 h

/-- non-vacuity of C18-2 on the shape that used to differ (brace-delimited bare instruction): both reject -/
example : bareAttrTokens .syn1 ⟨[.ident "map"], .list .brace [.ident "A"]⟩ = .error .lib ∧
          bareAttrTokens .syn2 ⟨[.ident "map"], .list .brace [.ident "A"]⟩ = .error .lib := ⟨rfl, rfl⟩

end O2o
