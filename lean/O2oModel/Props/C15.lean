/-
C15 — documented misuse is reported as a compile error, completely, in any context.
Completeness is proved rule by rule: if the input breaks the rule (the offending instruction sits *anywhere*, the
surrounding instructions are arbitrary), the rule's message is among the diagnostics `validate` returns. The
key structural fact is that the validator only ever adds to its error collection.
-/
import O2oModel.Lemmas.Errors
namespace O2o

theorem ext_validateErrorInstrs (isEnum : Bool) (instrs : List ErrInstr) : Ext (validateErrorInstrs isEnum instrs) := by
  unfold validateErrorInstrs
  apply ext_foldl
  intro e es m hm
  cases e <;> simp only <;> (repeat' split) <;> exact mem_insert_of_mem _ _ _ hm

theorem ext_validateMemberErrorInstrs (isEnum : Bool) (instrs : List ErrInstr) : Ext (validateMemberErrorInstrs isEnum instrs) := by
  unfold validateMemberErrorInstrs
  apply ext_foldl
  intro e es m hm
  cases e <;> simp only <;> (repeat' split) <;> exact mem_insert_of_mem _ _ _ hm

theorem ext_validateStructAttrs (attrs : List TraitAttrCore) (f : Bool) : Ext (validateStructAttrs attrs f) := by
  intro es m hm
  unfold validateStructAttrs
  apply ext_foldl_snd attrs _ _ [] es m hm
  intro x s es m hm
  simp only
  repeat' split
  all_goals ext_tac

theorem ext_dedicatedLoop (tps typePaths : List TypePath) (dup : Option (TypePath → String)) : Ext (dedicatedLoop tps typePaths dup) := by
  intro es m hm
  unfold dedicatedLoop
  apply ext_foldl_snd tps _ _ [] es m hm
  intro x s es m hm
  simp only
  repeat' split
  all_goals ext_tac

theorem ext_validateGhostAttrs (k : Kind) (ga : List GhostsAttr) (tps : List TypePath) : Ext (validateGhostAttrs k ga tps) := by
  intro es m hm
  unfold validateGhostAttrs
  apply ext_dedicatedLoop
  split
  · exact mem_insert_of_mem _ _ _ hm
  · exact hm

theorem ext_validateWhereAttrs (was : List WhereAttr) (tps : List TypePath) : Ext (validateWhereAttrs was tps) := by
  intro es m hm
  unfold validateWhereAttrs
  apply ext_dedicatedLoop
  split
  · exact mem_insert_of_mem _ _ _ hm
  · exact hm

theorem ext_validateDedicatedMemberAttrs (ctys : List (Option TypePath)) (n : Option String) (tps : List TypePath) :
    Ext (validateDedicatedMemberAttrs ctys n tps) := by
  intro es m hm
  unfold validateDedicatedMemberAttrs
  apply ext_dedicatedLoop
  split
  · split
    · exact mem_insert_of_mem _ _ _ hm
    · exact hm
  · exact hm

theorem ext_barkAtMemberAttr (n : Nat) (name : String) : Ext (barkAtMemberAttr n name) := by
  intro es m hm
  unfold barkAtMemberAttr
  split
  · exact mem_insert_of_mem _ _ _ hm
  · exact hm

/-- R1 — "no trait instruction": reported whatever else the input contains -/
theorem C15_complete_R1_stage (input : DataType) (h : input.attrs.attrs = []) :
    "At least one trait instruction is expected." ∈
      validateErrorInstrs input.isEnum input.attrs.errorInstrs
        (if input.attrs.attrs.isEmpty then ["At least one trait instruction is expected."] else []) := by
  apply ext_validateErrorInstrs
  simp [h]

/-- R3a — a fallible instruction without an error type is reported by the pass for its kind, wherever it stands in
    the instruction list and whatever precedes it in the error collection -/
theorem C15_complete_R3a (pre post : List TraitAttrCore) (a : TraitAttrCore) (es : Errors) (h : a.errTy = none) :
    "Error type should be specified for fallible instruction." ∈ validateStructAttrs (pre ++ a :: post) true es := by
  unfold validateStructAttrs
  apply foldl_snd_mem_of_step
  · intro x s es m hm
    simp only
    repeat' split
    all_goals ext_tac
  · intro s es
    simp only [h, Option.isNone_none, Bool.and_true, Option.isSome_none, Bool.and_false, Bool.true_and, if_true, Bool.false_eq_true, if_false]
    repeat' split
    all_goals self_tac

/-- R3b — an infallible instruction with an error type -/
theorem C15_complete_R3b (pre post : List TraitAttrCore) (a : TraitAttrCore) (es : Errors) (t : TypePath) (h : a.errTy = some t) :
    "Error type should not be specified for infallible instruction." ∈ validateStructAttrs (pre ++ a :: post) false es := by
  unfold validateStructAttrs
  apply foldl_snd_mem_of_step
  · intro x s es m hm
    simp only
    repeat' split
    all_goals ext_tac
  · intro s es
    simp only [h, Option.isNone_some, Option.isSome_some, Bool.and_true, Bool.and_false, Bool.not_false, Bool.true_and, if_true, Bool.false_eq_true, if_false]
    repeat' split
    all_goals self_tac

/-- R2 — the same counterpart twice for one conversion kind and fallibility: reported at the second occurrence,
    whatever stands before, between or after the two -/
theorem C15_complete_R2 (pre mid post : List TraitAttrCore) (a a' : TraitAttrCore) (es : Errors) (f : Bool) (h : (a'.ty == a.ty) = true) :
    "Ident here must be unique." ∈ validateStructAttrs (pre ++ a :: (mid ++ a' :: post)) f es := by
  unfold validateStructAttrs
  rw [List.foldl_append, List.foldl_cons]
  cases hpre : List.foldl _ ([], es) pre with
  | mk s1 es1 =>
    -- after `a` the seen list contains a.ty; it stays there
    suffices hgen : ∀ (xs : List TraitAttrCore) (seen : List TypePath) (es : Errors), seen.contains a'.ty = true →
        "Ident here must be unique." ∈ (List.foldl (fun (st : List TypePath × Errors) attr =>
          let (seen, es) := st
          let es := if seen.contains attr.ty then es.insert "Ident here must be unique." else es
          let es := if f && attr.errTy.isNone then es.insert "Error type should be specified for fallible instruction." else es
          let es := if !f && attr.errTy.isSome then es.insert "Error type should not be specified for infallible instruction." else es
          (attr.ty :: seen, es)) (seen, es) (xs ++ a' :: post)).2 by
      apply hgen
      simp only [List.contains_cons]
      simp [h]
    intro xs
    induction xs with
    | nil =>
      intro seen es hs
      simp only [List.nil_append, List.foldl_cons]
      apply ext_foldl_snd post
      · intro x s es m hm
        simp only
        repeat' split
        all_goals ext_tac
      · simp only [hs, if_true]
        repeat' split
        all_goals self_tac
    | cons x xs ih =>
      intro seen es hs
      simp only [List.cons_append, List.foldl_cons]
      apply ih
      simp only [List.contains_cons]
      simp [hs]

/-- R6 — misplaced / misnamed / unknown-in-`o2o(..)` type-level instructions: every recorded error instruction yields
    its message, wherever it sits among the others -/
theorem C15_complete_R6_unrecognized (isEnum : Bool) (pre post : List ErrInstr) (instr : String) (es : Errors) :
    ("Struct instruction '" ++ instr ++ "' is not supported.") ∈
      validateErrorInstrs isEnum (pre ++ .unrecognizedWithError instr :: post) es := by
  unfold validateErrorInstrs
  rw [List.foldl_append, List.foldl_cons]
  apply ext_foldl post
  · intro e es m hm
    cases e <;> simp only <;> (repeat' split) <;> exact mem_insert_of_mem _ _ _ hm
  · exact mem_insert_self _ _

/-- C15-2 (all reported): whatever was reported before a pass is still reported after it — so two broken rules
    yield both messages in the same expansion. Instances for the passes of `validate`. -/
theorem C15_all_reported_passes :
    (∀ isEnum instrs, Ext (validateErrorInstrs isEnum instrs)) ∧ (∀ attrs f, Ext (validateStructAttrs attrs f)) ∧
    (∀ k ga tps, Ext (validateGhostAttrs k ga tps)) ∧ (∀ was tps, Ext (validateWhereAttrs was tps)) ∧
    (∀ ctys n tps, Ext (validateDedicatedMemberAttrs ctys n tps)) ∧ (∀ isEnum instrs, Ext (validateMemberErrorInstrs isEnum instrs)) ∧
    (∀ n name, Ext (barkAtMemberAttr n name)) :=
  ⟨ext_validateErrorInstrs, ext_validateStructAttrs, ext_validateGhostAttrs, ext_validateWhereAttrs,
   ext_validateDedicatedMemberAttrs, ext_validateMemberErrorInstrs, ext_barkAtMemberAttr⟩

/-- accepted ⇔ no diagnostic: `derive` turns any non-empty collection into an error -/
theorem C15_rejected_iff (input : DataType) : (validate input ≠ []) ↔ ∃ m, m ∈ validate input := by
  constructor
  · intro h
    cases hv : validate input with
    | nil => exact absurd hv h
    | cons m ms => exact ⟨m, by simp⟩
  · intro ⟨m, hm⟩ h
    rw [h] at hm
    simp at hm

end O2o

namespace O2o

theorem ext_validateChildParentsAttrs (cas : List ChildParentsAttr) (tps : List TypePath) : Ext (validateChildParentsAttrs cas tps) := by
  intro es m hm
  unfold validateChildParentsAttrs
  apply ext_foldl_snd cas
  · intro ca s es m hm
    simp only
    apply ext_foldl_snd ca.childParents
    · intro cd s es m hm
      simp only
      have h1 : m ∈ (if s.contains cd.fieldPathStr then es.insert "Ident here must be unique." else es) := by
        split
        · exact mem_insert_of_mem _ _ _ hm
        · exact hm
      split
      · exact mem_insert_of_mem _ _ _ h1
      · exact h1
    · split
      · simp only
        repeat' split
        all_goals ext_tac
      · exact hm
  · split
    · exact mem_insert_of_mem _ _ _ hm
    · exact hm

theorem ext_nestedNamePass (named : Bool) (pas : List ParentAttr) (x : TraitAttrCore × Kind × TypeHint) :
    Ext (fun es => nestedNamePass named pas es x) := by
  intro es m hm
  simp only [nestedNamePass]
  split
  · exact mem_foldl_of_mem _ _ _ _ (fun f es hm => mem_insert_of_mem _ _ _ hm) hm
  · exact hm

theorem ext_validateParentAttrs (named : Bool) (wa : List (TraitAttrCore × Kind × TypeHint)) (pas : List ParentAttr) (byKind : List (TraitAttrCore × Kind)) :
    Ext (validateParentAttrs named wa pas byKind) := by
  intro es m hm
  unfold validateParentAttrs
  have hm : m ∈ (wa.filter fun x => !x.2.1.isFrom && x.1.quickReturn.isNone).foldl (nestedNamePass named pas) es :=
    mem_foldl_of_mem _ _ _ _ (fun x es hm => ext_nestedNamePass named pas x es m hm) hm
  refine mem_foldl_of_mem _ _ _ _ (fun pa es hm => ?_) hm
  simp only
  refine mem_foldl_of_mem _ _ _ _ (fun x es hm => ?_) ?_
  · split
    · refine mem_foldl_of_mem _ _ _ _ (fun f es hm => ?_) hm
      refine mem_foldl_of_mem _ _ _ _ (fun i es hm => ?_) hm
      split
      · exact mem_insert_of_mem _ _ _ hm
      · exact hm
    · exact hm
  · refine mem_foldl_of_mem _ _ _ _ (fun x es hm => ?_) hm
    split
    · refine mem_foldl_of_mem _ _ _ _ (fun f es hm => ?_) hm
      split
      · exact mem_insert_of_mem _ _ _ hm
      · exact hm
    · exact hm

theorem ext_checkChildPathErrors (cp : ChildPath) (sa : DataTypeAttrs) (tp : TypePath) : Ext (checkChildPathErrors cp sa tp) := by
  intro es m hm
  unfold checkChildPathErrors
  refine mem_foldl_of_mem _ _ _ _ (fun path es hm => ?_) hm
  split
  · split
    · exact mem_insert_of_mem _ _ _ hm
    · exact hm
  · exact mem_insert_of_mem _ _ _ hm

theorem ext_checkChildErrors (ca : ChildAttr) (sa : DataTypeAttrs) (tp : TypePath) : Ext (checkChildErrors ca sa tp) :=
  ext_checkChildPathErrors ca.childPath sa tp

theorem ext_ghostChildPass (dta : DataTypeAttrs) (x : TraitAttrCore × Kind) : Ext (fun es => ghostChildPass dta es x) := by
  intro es m hm
  unfold ghostChildPass
  simp only
  split
  · split
    · exact mem_foldl_of_mem _ _ _ m (fun cp es hm => ext_checkChildPathErrors cp dta x.1.ty es m hm) hm
    · exact hm
  · exact hm

theorem ext_ghostPatternPass (msg : String) (g : GhostData) : Ext (ghostPatternPass msg g) := by
  intro es m hm
  unfold ghostPatternPass
  split
  · exact mem_insert_of_mem _ _ _ hm
  · exact hm

theorem ext_variantGhostChildPass (g : GhostData) : Ext (variantGhostChildPass g) := by
  intro es m hm
  unfold variantGhostChildPass
  split
  · exact mem_insert_of_mem _ _ _ hm
  · exact hm

theorem ext_memberNameCheck (f : Field) (ty : TypePath) (k : Kind) (fl : Bool) (msg : String) : Ext (memberNameCheck f ty k fl msg) := by
  intro es m hm
  unfold memberNameCheck
  repeat' split
  all_goals ext_tac

theorem ext_ghostDefaultPass (fromTps : List TypePath) (field : Field) : Ext (ghostDefaultPass fromTps field) := by
  intro es m hm
  unfold ghostDefaultPass
  simp only
  have hg : m ∈ field.attrs.ghostAttrs.foldl (fun es ga =>
      if ga.attr.action.isSome then es else
      match ga.attr.containerTy with
      | some tp => if fromTps.contains tp then es.insert
          ("Member instruction #[ghost(...)] for member '" ++ field.member.str ++ "' should provide default value for type " ++ tp.pathStr) else es
      | none => fromTps.foldl (fun es tp => es.insert
          ("Member instruction #[ghost(...)] for member '" ++ field.member.str ++ "' should provide default value for type " ++ tp.pathStr)) es) es := by
    refine mem_foldl_of_mem _ _ _ _ (fun ga es hm => ?_) hm
    split
    · exact hm
    · split
      · split
        · exact mem_insert_of_mem _ _ _ hm
        · exact hm
      · refine mem_foldl_of_mem _ _ _ _ (fun tp es hm => ?_) hm
        exact mem_insert_of_mem _ _ _ hm
  split
  · split
    · exact mem_insert_of_mem _ _ _ hg
    · exact hg
  · exact hg

theorem ext_childPass (sa : DataTypeAttrs) (tps into : List TypePath) (ca : ChildAttr) : Ext (childPass sa tps into ca) := by
  intro es m hm
  unfold childPass
  split
  · simp only
    split
    · apply ext_checkChildErrors
      split
      · exact mem_insert_of_mem _ _ _ hm
      · exact hm
    · split
      · exact mem_insert_of_mem _ _ _ hm
      · exact hm
  · refine mem_foldl_of_mem _ _ _ _ (fun tp es hm => ?_) hm
    exact ext_checkChildErrors _ _ _ _ _ hm

theorem ext_namePass (input : Struct) (dta : TraitAttrCore) (k : Kind) (fl : Bool) : Ext (namePass input dta k fl) := by
  intro es m hm
  unfold namePass
  split
  · refine mem_foldl_of_mem _ _ _ _ (fun field es hm => ?_) hm
    split
    · exact hm
    · exact ext_memberNameCheck _ _ _ _ _ _ _ hm
  · exact hm

theorem ext_childBareParentPass (input : Struct) (x : TraitAttrCore × Kind) : Ext (fun es => childBareParentPass input es x) := by
  intro es m hm
  simp only [childBareParentPass]
  split
  · refine mem_foldl_of_mem _ _ _ m (fun p es hm => mem_insert_of_mem _ _ _ hm) ?_
    exact mem_foldl_of_mem _ _ _ m (fun f es hm => mem_insert_of_mem _ _ _ hm) hm
  · exact hm

theorem ext_validateFields (input : Struct) (byKind : List (TraitAttrCore × Kind)) (tps : List TypePath) :
    Ext (validateFields input byKind tps) := by
  intro es m hm
  unfold validateFields
  simp only
  split
  · refine mem_foldl_of_mem _ _ _ m (fun x es hm => ext_namePass input x.1.core x.2 x.1.fallible es m hm) ?_
    refine mem_foldl_of_mem _ _ _ m (fun x es hm => ext_childBareParentPass input x es m hm) ?_
    refine mem_foldl_of_mem _ _ _ m (fun x es hm => ext_ghostChildPass input.attrs x es m hm) ?_
    refine mem_foldl_of_mem _ _ _ m (fun ca es hm => ext_childPass _ _ _ ca es m hm) ?_
    exact mem_foldl_of_mem _ _ _ m (fun field es hm => ext_ghostDefaultPass _ field es m hm) hm
  · refine mem_foldl_of_mem _ _ _ m (fun x es hm => ext_childBareParentPass input x es m hm) ?_
    refine mem_foldl_of_mem _ _ _ m (fun x es hm => ext_ghostChildPass input.attrs x es m hm) ?_
    refine mem_foldl_of_mem _ _ _ m (fun ca es hm => ext_childPass _ _ _ ca es m hm) ?_
    exact mem_foldl_of_mem _ _ _ m (fun field es hm => ext_ghostDefaultPass _ field es m hm) hm

theorem ext_variantNamePass (v : Variant) (a : TraitAttr) (k : Kind) : Ext (variantNamePass v a k) := by
  intro es m hm
  unfold variantNamePass
  split
  · refine mem_foldl_of_mem _ _ _ _ (fun field es hm => ?_) hm
    exact ext_memberNameCheck _ _ _ _ _ _ _ hm
  · exact hm

theorem ext_validateVariantFields (v : Variant) (dta : DataTypeAttrs) : Ext (validateVariantFields v dta) := by
  intro es m hm
  unfold validateVariantFields
  split
  · exact mem_foldl_of_mem _ _ _ m (fun x es hm => ext_variantNamePass v x.1 x.2 es m hm) hm
  · exact hm

end O2o

namespace O2o

theorem ext_parentTypePass (f : Field) (byKind : List (TraitAttrCore × Kind)) : Ext (parentTypePass f byKind) := by
  intro es m hm
  unfold parentTypePass
  split
  · exact mem_insert_of_mem _ _ _ hm
  · exact hm

theorem ext_validateMember (input : DataType) (isEnum : Bool) (tps : List TypePath) (byKind : List (TraitAttrCore × Kind))
    (member : DataTypeMember) : Ext (fun es => validateMember input isEnum tps byKind es member) := by
  intro es m hm
  unfold validateMember
  simp only
  apply ext_validateMemberErrorInstrs
  have h2 : m ∈ validateDedicatedMemberAttrs (member.attrs.ghostAttrs.map (·.attr.containerTy)) none tps
      (validateDedicatedMemberAttrs (member.attrs.attrs.map (·.attr.containerTy)) none tps es) :=
    ext_validateDedicatedMemberAttrs _ _ _ _ _ (ext_validateDedicatedMemberAttrs _ _ _ _ _ hm)
  cases member with
  | field f =>
    simp only
    apply ext_parentTypePass
    apply ext_validateParentAttrs
    apply ext_validateDedicatedMemberAttrs
    apply ext_barkAtMemberAttr
    apply ext_barkAtMemberAttr
    apply ext_barkAtMemberAttr
    apply ext_barkAtMemberAttr
    apply ext_barkAtMemberAttr
    apply ext_barkAtMemberAttr
    exact h2
  | variant v =>
    simp only
    refine mem_foldl_of_mem _ _ _ m (fun f es hm => ?_) ?_
    · apply ext_validateMemberErrorInstrs
      apply ext_validateDedicatedMemberAttrs
      apply ext_validateDedicatedMemberAttrs
      apply ext_parentTypePass
      apply ext_validateParentAttrs
      apply ext_barkAtMemberAttr
      exact hm
    · apply ext_validateDedicatedMemberAttrs
      apply ext_validateDedicatedMemberAttrs
      apply ext_validateDedicatedMemberAttrs
      refine mem_foldl_of_mem _ _ _ m (fun g es hm => ext_variantGhostChildPass g _ m (ext_ghostPatternPass _ g es m hm)) ?_
      apply ext_barkAtMemberAttr
      exact h2

theorem ext_validateEnd (input : DataType) (byKind : List (TraitAttrCore × Kind)) (tps : List TypePath) :
    Ext (validateEnd input byKind tps) := by
  intro es m hm
  unfold validateEnd
  cases input with
  | struct s =>
    simp only
    apply ext_validateFields
    exact mem_foldl_of_mem _ _ _ m (fun g es hm => ext_ghostPatternPass _ g es m hm) hm
  | enum e =>
    simp only
    refine mem_foldl_of_mem _ _ _ m (fun v es hm => ext_validateVariantFields v _ es m hm) ?_
    exact mem_foldl_of_mem _ _ _ m (fun g es hm => by
      unfold enumGhostIdentPass
      repeat' split
      all_goals first | exact mem_insert_of_mem _ _ _ hm | exact hm) hm

theorem ext_updatePass (input : DataType) (x : TraitAttrCore × Kind) (es : Errors) (m : String) (hm : m ∈ es) :
    m ∈ updatePass input es x := by
  unfold updatePass
  repeat' split
  all_goals first | exact mem_insert_of_mem _ _ _ hm | exact hm

/-- everything that happens in `validate` after the two struct-attribute stages only adds diagnostics -/
theorem validate_tail_ext (input : DataType) (es : Errors) (m : String) (hm : m ∈ es) :
    m ∈ (let attrs := input.attrs
         let isEnum := input.isEnum
         let typePaths := attrs.attrs.map (·.core.ty)
         let es := validateKinds.foldl (fun es k => validateGhostAttrs k attrs.ghostsAttrs typePaths es) es
         let es := validateChildParentsAttrs attrs.childParentsAttrs typePaths es
         let es := validateWhereAttrs attrs.whereAttrs typePaths es
         let byKind := attrsByKind attrs
         let es := byKind.foldl (updatePass input) es
         let es := input.members.foldl (validateMember input isEnum typePaths byKind) es
         validateEnd input byKind typePaths es) := by
  simp only
  have h1 := mem_foldl_of_mem validateKinds (fun es k => validateGhostAttrs k input.attrs.ghostsAttrs (input.attrs.attrs.map (·.core.ty)) es) es m
    (fun k es hm => ext_validateGhostAttrs _ _ _ es m hm) hm
  have h2 := ext_validateChildParentsAttrs input.attrs.childParentsAttrs (input.attrs.attrs.map (·.core.ty)) _ m h1
  have h3 := ext_validateWhereAttrs input.attrs.whereAttrs (input.attrs.attrs.map (·.core.ty)) _ m h2
  have h3' := mem_foldl_of_mem (attrsByKind input.attrs) (updatePass input) _ m (fun x es hm => ext_updatePass input x es m hm) h3
  have h4 := mem_foldl_of_mem input.members
    (validateMember input input.isEnum (input.attrs.attrs.map (·.core.ty)) (attrsByKind input.attrs)) _ m
    (fun member es hm => ext_validateMember _ _ _ _ member es m hm) h3'
  exact ext_validateEnd input _ _ _ m h4

theorem mem_foldl_of_step {α} (xs : List α) (step : Errors → α → Errors) (es : Errors) (m : String) (x : α) (hx : x ∈ xs)
    (hext : ∀ y es, m ∈ es → m ∈ step es y) (hstep : ∀ es, m ∈ step es x) : m ∈ xs.foldl step es := by
  induction xs generalizing es with
  | nil => cases hx
  | cons y ys ih =>
    simp only [List.foldl_cons]
    cases hx with
    | head => exact mem_foldl_of_mem _ _ _ _ hext (hstep es)
    | tail _ h => exact ih _ h

/-- C15 (R3a, end to end): a fallible trait instruction without an error type — for any kind it applies to, anywhere
    among the trait instructions, whatever else the input contains — makes `validate` report it -/
theorem C15_complete_R3a_validate (input : DataType) (k : Kind) (a : TraitAttrCore)
    (hk : k ∈ validateKinds) (ha : a ∈ input.attrs.iterForKindCore k true) (herr : a.errTy = none) :
    "Error type should be specified for fallible instruction." ∈ validate input := by
  unfold validate
  apply validate_tail_ext
  refine mem_foldl_of_step _ _ _ _ k hk (fun y es hm => ext_validateStructAttrs _ _ es _ hm) (fun es => ?_)
  obtain ⟨pre, post, hsplit⟩ := List.append_of_mem ha
  rw [hsplit]
  exact C15_complete_R3a pre post a es herr

/-- C15 (R3b, end to end): an infallible trait instruction that carries an error type is reported by `validate` -/
theorem C15_complete_R3b_validate (input : DataType) (k : Kind) (a : TraitAttrCore) (t : TypePath)
    (hk : k ∈ validateKinds) (ha : a ∈ input.attrs.iterForKindCore k false) (herr : a.errTy = some t) :
    "Error type should not be specified for infallible instruction." ∈ validate input := by
  unfold validate
  apply validate_tail_ext
  apply mem_foldl_of_mem _ _ _ _ (fun y es hm => ext_validateStructAttrs _ _ es _ hm)
  refine mem_foldl_of_step _ _ _ _ k hk (fun y es hm => ext_validateStructAttrs _ _ es _ hm) (fun es => ?_)
  obtain ⟨pre, post, hsplit⟩ := List.append_of_mem ha
  rw [hsplit]
  exact C15_complete_R3b pre post a es t herr

/-- C15 (R2, end to end): two trait instructions of one kind and fallibility for the same counterpart — anywhere in the
    list, whatever stands between them — are reported by `validate` -/
theorem C15_complete_R2_validate (input : DataType) (k : Kind) (f : Bool) (pre mid post : List TraitAttrCore) (a a' : TraitAttrCore)
    (hk : k ∈ validateKinds) (hl : input.attrs.iterForKindCore k f = pre ++ a :: (mid ++ a' :: post)) (h : (a'.ty == a.ty) = true) :
    "Ident here must be unique." ∈ validate input := by
  unfold validate
  apply validate_tail_ext
  cases f with
  | true =>
    refine mem_foldl_of_step _ _ _ _ k hk (fun y es hm => ext_validateStructAttrs _ _ es _ hm) (fun es => ?_)
    rw [hl]
    exact C15_complete_R2 pre mid post a a' es true h
  | false =>
    apply mem_foldl_of_mem _ _ _ _ (fun y es hm => ext_validateStructAttrs _ _ es _ hm)
    refine mem_foldl_of_step _ _ _ _ k hk (fun y es hm => ext_validateStructAttrs _ _ es _ hm) (fun es => ?_)
    rw [hl]
    exact C15_complete_R2 pre mid post a a' es false h

/-- C15 (R1, end to end): an input without any trait instruction is reported by `validate` -/
theorem C15_complete_R1_validate (input : DataType) (h : input.attrs.attrs = []) :
    "At least one trait instruction is expected." ∈ validate input := by
  unfold validate
  apply validate_tail_ext
  apply mem_foldl_of_mem _ _ _ _ (fun y es hm => ext_validateStructAttrs _ _ es _ hm)
  apply mem_foldl_of_mem _ _ _ _ (fun y es hm => ext_validateStructAttrs _ _ es _ hm)
  apply ext_validateErrorInstrs
  simp [h]

/-- C15 (R6, end to end): an unknown name inside a type-level `#[o2o(..)]` is reported by `validate` -/
theorem C15_complete_R6_validate (input : DataType) (pre post : List ErrInstr) (instr : String)
    (h : input.attrs.errorInstrs = pre ++ .unrecognizedWithError instr :: post) :
    ("Struct instruction '" ++ instr ++ "' is not supported.") ∈ validate input := by
  unfold validate
  apply validate_tail_ext
  apply mem_foldl_of_mem _ _ _ _ (fun y es hm => ext_validateStructAttrs _ _ es _ hm)
  apply mem_foldl_of_mem _ _ _ _ (fun y es hm => ext_validateStructAttrs _ _ es _ hm)
  rw [h]
  exact C15_complete_R6_unrecognized _ pre post instr _

/-- the dedicated-instruction loop reports a counterpart that no trait instruction names, wherever it stands -/
theorem dedicatedLoop_reports_unknown (pre post : List TypePath) (tp : TypePath) (typePaths : List TypePath)
    (dup : Option (TypePath → String)) (es : Errors) (h : typePaths.contains tp = false) :
    noMatch tp ∈ dedicatedLoop (pre ++ tp :: post) typePaths dup es := by
  unfold dedicatedLoop
  apply foldl_snd_mem_of_step
  · intro x s es m hm
    simp only
    repeat' split
    all_goals ext_tac
  · intro s es
    simp only [h, Bool.not_false, if_true]
    repeat' split
    all_goals self_tac

/-- C15 (R4, end to end, `where_clause`): a `#[where_clause(Type| ..)]` dedicated to a type that no trait instruction
    names is reported by `validate`, wherever it stands among the where-clauses -/
theorem C15_complete_R4_where_validate (input : DataType) (wa : WhereAttr) (tp : TypePath)
    (hwa : wa ∈ input.attrs.whereAttrs) (hty : wa.containerTy = some tp)
    (hunk : (input.attrs.attrs.map (·.core.ty)).contains tp = false) :
    noMatch tp ∈ validate input := by
  have hmem : tp ∈ input.attrs.whereAttrs.filterMap (·.containerTy) := List.mem_filterMap.mpr ⟨wa, hwa, hty⟩
  obtain ⟨pre, post, hsplit⟩ := List.append_of_mem hmem
  unfold validate
  simp only
  have hw : ∀ es, noMatch tp ∈ validateWhereAttrs input.attrs.whereAttrs (input.attrs.attrs.map (·.core.ty)) es := by
    intro es
    unfold validateWhereAttrs
    simp only
    rw [hsplit]
    exact dedicatedLoop_reports_unknown pre post tp _ _ _ hunk
  have h3 := hw (validateChildParentsAttrs input.attrs.childParentsAttrs (input.attrs.attrs.map (·.core.ty))
    (validateKinds.foldl (fun es k => validateGhostAttrs k input.attrs.ghostsAttrs (input.attrs.attrs.map (·.core.ty)) es)
      (validateKinds.foldl (fun es k => validateStructAttrs (input.attrs.iterForKindCore k true) true es)
        (validateKinds.foldl (fun es k => validateStructAttrs (input.attrs.iterForKindCore k false) false es)
          (validateErrorInstrs input.isEnum input.attrs.errorInstrs
            (if input.attrs.attrs.isEmpty then ["At least one trait instruction is expected."] else []))))))
  have h3' := mem_foldl_of_mem (attrsByKind input.attrs) (updatePass input) _ _ (fun x es hm => ext_updatePass input x es _ hm) h3
  have h4 := mem_foldl_of_mem input.members
    (validateMember input input.isEnum (input.attrs.attrs.map (·.core.ty)) (attrsByKind input.attrs)) _ _
    (fun member es hm => ext_validateMember _ _ _ _ member es _ hm) h3'
  exact ext_validateEnd input _ _ _ _ h4

/-- whatever the update stage reports for one (instruction, kind) pair is in the final list -/
theorem update_stage_reported (input : DataType) (x : TraitAttrCore × Kind) (hx : x ∈ attrsByKind input.attrs) (m : String)
    (hstep : ∀ es, m ∈ updatePass input es x) : m ∈ validate input := by
  unfold validate
  simp only
  have h3' := mem_foldl_of_step (attrsByKind input.attrs) (updatePass input)
    (validateWhereAttrs input.attrs.whereAttrs (input.attrs.attrs.map (·.core.ty))
      (validateChildParentsAttrs input.attrs.childParentsAttrs (input.attrs.attrs.map (·.core.ty))
        (validateKinds.foldl (fun es k => validateGhostAttrs k input.attrs.ghostsAttrs (input.attrs.attrs.map (·.core.ty)) es)
          (validateKinds.foldl (fun es k => validateStructAttrs (input.attrs.iterForKindCore k true) true es)
            (validateKinds.foldl (fun es k => validateStructAttrs (input.attrs.iterForKindCore k false) false es)
              (validateErrorInstrs input.isEnum input.attrs.errorInstrs
                (if input.attrs.attrs.isEmpty then ["At least one trait instruction is expected."] else [])))))))
    m x hx (fun y es hm => ext_updatePass input y es m hm) hstep
  have h4 := mem_foldl_of_mem input.members
    (validateMember input input.isEnum (input.attrs.attrs.map (·.core.ty)) (attrsByKind input.attrs)) _ _
    (fun member es hm => ext_validateMember _ _ _ _ member es _ hm) h3'
  exact ext_validateEnd input _ _ _ _ h4

/-- C15 (struct update syntax outside a struct expression, end to end): `..expr` on an instruction that requests an
    into_existing conversion is reported, whichever of the instructions it is and whatever else the input holds -/
theorem C15_update_into_existing_reported (input : DataType) (a : TraitAttrCore) (k : Kind) (u : TS)
    (hx : (a, k) ∈ attrsByKind input.attrs) (hu : a.update = some u) (hk : k.isIntoExisting = true) :
    "Struct update syntax '..' is not applicable to 'into_existing' instructions: there is no struct expression to complete." ∈ validate input := by
  apply update_stage_reported input (a, k) hx
  intro es
  have hf : k.isFrom = false := by cases k <;> simp_all [Kind.isFrom, Kind.isIntoExisting]
  simp only [updatePass, hu, hk, hf, Option.isSome_some, Bool.not_false, Bool.and_self, if_true]
  exact mem_insert_self _ _

/-- … and so is `..expr` on an Into instruction whose counterpart is built from its default value (a parameterless
    `#[parent]` member) -/
theorem C15_update_next_to_parent_reported (input : DataType) (a : TraitAttrCore) (k : Kind) (u : TS)
    (hx : (a, k) ∈ attrsByKind input.attrs) (hu : a.update = some u) (hf : k.isFrom = false) (hk : k.isIntoExisting = false)
    (hp : input.members.any (fun m => m.attrs.hasParameterlessParentAttr a.ty) = true) :
    ("Struct update syntax '..' is not applicable next to a parameterless #[parent] member: " ++ a.ty.pathStr ++ " is built from its default value.") ∈ validate input := by
  apply update_stage_reported input (a, k) hx
  intro es
  simp only [updatePass, hu, hk, hf, hp, Option.isSome_some, Bool.not_false, Bool.and_self, if_true, Bool.false_eq_true, if_false]
  exact mem_insert_self _ _

/-- C17 / C08 consequence: in an accepted input `..expr` only ever meets a struct expression — a From conversion, or an
    Into conversion in the plain dialect -/
theorem C15_accepted_update_has_struct_expression (input : DataType) (hv : validate input = [])
    (a : TraitAttrCore) (k : Kind) (u : TS) (hx : (a, k) ∈ attrsByKind input.attrs) (hu : a.update = some u) :
    k.isFrom = true ∨ (k.isIntoExisting = false ∧ input.members.any (fun m => m.attrs.hasParameterlessParentAttr a.ty) = false) := by
  cases hf : k.isFrom with
  | true => exact Or.inl rfl
  | false =>
    right
    cases hk : k.isIntoExisting with
    | true =>
      have := C15_update_into_existing_reported input a k u hx hu hk
      rw [hv] at this; cases this
    | false =>
      refine ⟨rfl, ?_⟩
      cases hp : input.members.any (fun m => m.attrs.hasParameterlessParentAttr a.ty) with
      | false => rfl
      | true =>
        have := C15_update_next_to_parent_reported input a k u hx hu hf hk hp
        rw [hv] at this; cases this

/-! ### level dispatch (*tables*, regenerated): which names are instructions at which level, and what a name written at
the wrong level is answered with -/

def armKindOf (arms : List Gen.Arm) (n : String) (own bark : Bool) : Option Gen.ArmKind := (findArm arms n own bark).map (·.kind)

/-- names that are instructions only at member / variant level -/
def memberOnlyNames : List String := ["parent", "as_type", "literal", "pattern", "repeat", "skip_repeat", "stop_repeat", "type_hint"]
/-- names that are instructions only at type level -/
def typeOnlyNames : List String := ["where_clause", "allow_unknown"]

/-- C15 (R5/R6, dispatch): (1) a member-level name written at type level, and a type-level name written on a member, is
    answered with the *misplaced* diagnostic whenever diagnostics are on (`bark`), in the bare spelling and inside
    `#[o2o(..)]` alike, and is ignored as a foreign attribute only when written bare after `allow_unknown`;
    (2) the near-miss names get the documented suggestion (`children`/`child` → `child_parents` and `ghost*` → `ghosts*`
    at type level, `children`/`child_parents` → `child` at member level); (3) every real instruction is accepted in every
    spelling, `allow_unknown` only inside `#[o2o(..)]`; (4) any other name is an error inside `#[o2o(..)]` and a foreign
    attribute when bare -/
theorem C15_level_dispatch :
    (memberOnlyNames.all (fun n => [true, false].all fun own =>
        armKindOf Gen.typeArms n own true == some .misplaced && armKindOf Gen.typeArms n false false == some .unrecognized)
     && typeOnlyNames.all (fun n => [true, false].all fun own =>
        armKindOf Gen.memberArms n own true == some .misplaced && armKindOf Gen.memberArms n false false == some .unrecognized)
     && [("children", "child_parents"), ("child", "child_parents"), ("ghost", "ghosts"), ("ghost_ref", "ghosts_ref"), ("ghost_owned", "ghosts_owned")].all
          (fun (n, g) => [true, false].all fun own => armKindOf Gen.typeArms n own true == some (.misnamed g))
     && [("children", "child"), ("child_parents", "child")].all
          (fun (n, g) => [true, false].all fun own => armKindOf Gen.memberArms n own true == some (.misnamed g))
     && [("child_parents", Gen.ArmKind.childParents), ("where_clause", .whereClause), ("ghosts", .ghosts), ("ghosts_owned", .ghosts), ("ghosts_ref", .ghosts)].all
          (fun (n, k) => [true, false].all fun own => [true, false].all fun bark => armKindOf Gen.typeArms n own bark == some k)
     && [("child", Gen.ArmKind.child), ("parent", .parent), ("as_type", .asType), ("literal", .lit), ("pattern", .pat), ("repeat", .repeat_),
         ("skip_repeat", .skipRepeat), ("stop_repeat", .stopRepeat), ("type_hint", .typeHint), ("ghost", .ghost), ("ghost_owned", .ghost),
         ("ghost_ref", .ghost), ("ghosts", .ghosts), ("ghosts_owned", .ghosts), ("ghosts_ref", .ghosts)].all
          (fun (n, k) => [true, false].all fun own => [true, false].all fun bark => armKindOf Gen.memberArms n own bark == some k)
     && [true, false].all (fun bark => armKindOf Gen.typeArms "allow_unknown" true bark == some .allowUnknown
          && armKindOf Gen.typeArms "allow_unknown" false bark == some .unrecognized)
     && [Gen.typeArms, Gen.memberArms].all (fun arms => [true, false].all fun bark =>
          armKindOf arms "zq_no_such_instruction" true bark == some .unrecognizedWithError
          && armKindOf arms "zq_no_such_instruction" false bark == some .unrecognized)) = true := by decide

end O2o
