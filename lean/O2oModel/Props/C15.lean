/-
C15 — documented misuse is reported as a compile error, completely, in any context.
Completeness is proved rule by rule: if the input breaks the rule (the offending instruction sits *anywhere*, the
surrounding instructions are arbitrary), the rule's message is among the diagnostics `validate` returns. The
key structural fact is that the validator only ever adds to its error collection.
-/
import O2oModel.Lemmas.Errors
namespace O2o

theorem ext_validateErrorInstrs (isEnum : Bool) (instrs : List ErrInstr) : Ext (validateErrorInstrs isEnum instrs) := by
  unfold validateErrorInstrs
  apply ext_foldl
  intro e es m hm
  cases e <;> simp only <;> (repeat' split) <;> exact mem_insert_of_mem _ _ _ hm

theorem ext_validateMemberErrorInstrs (isEnum : Bool) (instrs : List ErrInstr) : Ext (validateMemberErrorInstrs isEnum instrs) := by
  unfold validateMemberErrorInstrs
  apply ext_foldl
  intro e es m hm
  cases e <;> simp only <;> (repeat' split) <;> exact mem_insert_of_mem _ _ _ hm

theorem ext_validateStructAttrs (attrs : List TraitAttrCore) (f : Bool) : Ext (validateStructAttrs attrs f) := by
  intro es m hm
  unfold validateStructAttrs
  apply ext_foldl_snd attrs _ _ [] es m hm
  intro x s es m hm
  simp only
  repeat' split
  all_goals ext_tac

theorem ext_dedicatedLoop (tps typePaths : List TypePath) (dup : Option (TypePath → String)) : Ext (dedicatedLoop tps typePaths dup) := by
  intro es m hm
  unfold dedicatedLoop
  apply ext_foldl_snd tps _ _ [] es m hm
  intro x s es m hm
  simp only
  repeat' split
  all_goals ext_tac

theorem ext_validateGhostAttrs (k : Kind) (ga : List GhostsAttr) (tps : List TypePath) : Ext (validateGhostAttrs k ga tps) := by
  intro es m hm
  unfold validateGhostAttrs
  apply ext_dedicatedLoop
  split
  · exact mem_insert_of_mem _ _ _ hm
  · exact hm

theorem ext_validateWhereAttrs (was : List WhereAttr) (tps : List TypePath) : Ext (validateWhereAttrs was tps) := by
  intro es m hm
  unfold validateWhereAttrs
  apply ext_dedicatedLoop
  split
  · exact mem_insert_of_mem _ _ _ hm
  · exact hm

theorem ext_validateDedicatedMemberAttrs (ctys : List (Option TypePath)) (n : Option String) (tps : List TypePath) :
    Ext (validateDedicatedMemberAttrs ctys n tps) := by
  intro es m hm
  unfold validateDedicatedMemberAttrs
  apply ext_dedicatedLoop
  split
  · split
    · exact mem_insert_of_mem _ _ _ hm
    · exact hm
  · exact hm

theorem ext_barkAtMemberAttr (n : Nat) (name : String) : Ext (barkAtMemberAttr n name) := by
  intro es m hm
  unfold barkAtMemberAttr
  split
  · exact mem_insert_of_mem _ _ _ hm
  · exact hm

/-- R1 — "no trait instruction": reported whatever else the input contains -/
theorem C15_complete_R1_stage (input : DataType) (h : input.attrs.attrs = []) :
    "At least one trait instruction is expected." ∈
      validateErrorInstrs (match input with | .enum _ => true | .struct _ => false) input.attrs.errorInstrs
        (if input.attrs.attrs.isEmpty then ["At least one trait instruction is expected."] else []) := by
  apply ext_validateErrorInstrs
  simp [h]

/-- R3a — a fallible instruction without an error type is reported by the pass for its kind, wherever it stands in
    the instruction list and whatever precedes it in the error collection -/
theorem C15_complete_R3a (pre post : List TraitAttrCore) (a : TraitAttrCore) (es : Errors) (h : a.errTy = none) :
    "Error type should be specified for fallible instruction." ∈ validateStructAttrs (pre ++ a :: post) true es := by
  unfold validateStructAttrs
  apply foldl_snd_mem_of_step
  · intro x s es m hm
    simp only
    repeat' split
    all_goals ext_tac
  · intro s es
    simp only [h, Option.isNone_none, Bool.and_true, Option.isSome_none, Bool.and_false, Bool.true_and, if_true, Bool.false_eq_true, if_false]
    repeat' split
    all_goals self_tac

/-- R3b — an infallible instruction with an error type -/
theorem C15_complete_R3b (pre post : List TraitAttrCore) (a : TraitAttrCore) (es : Errors) (t : TypePath) (h : a.errTy = some t) :
    "Error type should not be specified for infallible instruction." ∈ validateStructAttrs (pre ++ a :: post) false es := by
  unfold validateStructAttrs
  apply foldl_snd_mem_of_step
  · intro x s es m hm
    simp only
    repeat' split
    all_goals ext_tac
  · intro s es
    simp only [h, Option.isNone_some, Option.isSome_some, Bool.and_true, Bool.and_false, Bool.not_false, Bool.true_and, if_true, Bool.false_eq_true, if_false]
    repeat' split
    all_goals self_tac

/-- R2 — the same counterpart twice for one conversion kind and fallibility: reported at the second occurrence,
    whatever stands before, between or after the two -/
theorem C15_complete_R2 (pre mid post : List TraitAttrCore) (a a' : TraitAttrCore) (es : Errors) (f : Bool) (h : (a'.ty == a.ty) = true) :
    "Ident here must be unique." ∈ validateStructAttrs (pre ++ a :: (mid ++ a' :: post)) f es := by
  unfold validateStructAttrs
  rw [List.foldl_append, List.foldl_cons]
  cases hpre : List.foldl _ ([], es) pre with
  | mk s1 es1 =>
    -- after `a` the seen list contains a.ty; it stays there
    suffices hgen : ∀ (xs : List TraitAttrCore) (seen : List TypePath) (es : Errors), seen.contains a'.ty = true →
        "Ident here must be unique." ∈ (List.foldl (fun (st : List TypePath × Errors) attr =>
          let (seen, es) := st
          let es := if seen.contains attr.ty then es.insert "Ident here must be unique." else es
          let es := if f && attr.errTy.isNone then es.insert "Error type should be specified for fallible instruction." else es
          let es := if !f && attr.errTy.isSome then es.insert "Error type should not be specified for infallible instruction." else es
          (attr.ty :: seen, es)) (seen, es) (xs ++ a' :: post)).2 by
      apply hgen
      simp only [List.contains_cons]
      simp [h]
    intro xs
    induction xs with
    | nil =>
      intro seen es hs
      simp only [List.nil_append, List.foldl_cons]
      apply ext_foldl_snd post
      · intro x s es m hm
        simp only
        repeat' split
        all_goals ext_tac
      · simp only [hs, if_true]
        repeat' split
        all_goals self_tac
    | cons x xs ih =>
      intro seen es hs
      simp only [List.cons_append, List.foldl_cons]
      apply ih
      simp only [List.contains_cons]
      simp [hs]

/-- R6 — misplaced / misnamed / unknown-in-`o2o(..)` type-level instructions: every recorded error instruction yields
    its message, wherever it sits among the others -/
theorem C15_complete_R6_unrecognized (isEnum : Bool) (pre post : List ErrInstr) (instr : String) (es : Errors) :
    ("Struct instruction '" ++ instr ++ "' is not supported.") ∈
      validateErrorInstrs isEnum (pre ++ .unrecognizedWithError instr :: post) es := by
  unfold validateErrorInstrs
  rw [List.foldl_append, List.foldl_cons]
  apply ext_foldl post
  · intro e es m hm
    cases e <;> simp only <;> (repeat' split) <;> exact mem_insert_of_mem _ _ _ hm
  · exact mem_insert_self _ _

/-- C15-2 (all reported): whatever was reported before a pass is still reported after it — so two broken rules
    yield both messages in the same expansion. Instances for the passes of `validate`. -/
theorem C15_all_reported_passes :
    (∀ isEnum instrs, Ext (validateErrorInstrs isEnum instrs)) ∧ (∀ attrs f, Ext (validateStructAttrs attrs f)) ∧
    (∀ k ga tps, Ext (validateGhostAttrs k ga tps)) ∧ (∀ was tps, Ext (validateWhereAttrs was tps)) ∧
    (∀ ctys n tps, Ext (validateDedicatedMemberAttrs ctys n tps)) ∧ (∀ isEnum instrs, Ext (validateMemberErrorInstrs isEnum instrs)) ∧
    (∀ n name, Ext (barkAtMemberAttr n name)) :=
  ⟨ext_validateErrorInstrs, ext_validateStructAttrs, ext_validateGhostAttrs, ext_validateWhereAttrs,
   ext_validateDedicatedMemberAttrs, ext_validateMemberErrorInstrs, ext_barkAtMemberAttr⟩

/-- accepted ⇔ no diagnostic: `derive` turns any non-empty collection into an error -/
theorem C15_rejected_iff (input : DataType) : (validate input ≠ []) ↔ ∃ m, m ∈ validate input := by
  constructor
  · intro h
    cases hv : validate input with
    | nil => exact absurd hv h
    | cons m ms => exact ⟨m, by simp⟩
  · intro ⟨m, hm⟩ h
    rw [h] at hm
    simp at hm

end O2o
