/-
C09 — literal / pattern instructions map enum variants to primitive values both ways.
Arm construction on the model; the runtime meaning of `match` (first arm that matches wins) is rustc's.
-/
import O2oModel.Lemmas.Blocks
namespace O2o

/-- C09-1: a variant carrying `#[literal(x)]` (and nothing else) converts into `x`: the Into arm is `Src::V <destr> => x,` -/
theorem C09_into_literal (v : Variant) (ctx : ImplContext) (l : LitAttr) (out : TS)
    (hk : ctx.kind.cls = .into)
    (ha : v.attrs.applicableAttr ctx.kind ctx.fallible ctx.ty = none)
    (hl : v.attrs.lit ctx.ty = some l) (hp : v.attrs.pat ctx.ty = none)
    (h : renderEnumLine v ctx = .ok out) :
    ∃ destr, out = ctx.srcTy ++ cc ++ [Tok.ident v.ident] ++ destr ++ fatArrow ++ l.tokens ++ [comma] := by
  unfold renderEnumLine at h
  simp only [ha, hl, hp, hk] at h
  -- the two monadic sub-computations (destructuring block, init block) either fail or yield tokens
  simp only [bind, Except.bind] at h
  split at h
  · cases h
  · rename_i destr _
    split at h
    · cases h
    · simp only [pure, Except.pure, Except.ok.injEq] at h
      exact ⟨destr, h.symm⟩

/-- C09-2: the From arm of a `#[literal(x)]` variant is `x => Dst::V <init>,` and of a `#[pattern(p)]` variant
    `p => Dst::V <init>,` -/
theorem C09_from_literal (v : Variant) (ctx : ImplContext) (l : LitAttr) (out : TS)
    (hk : ctx.kind.cls = .from_)
    (ha : v.attrs.applicableAttr ctx.kind ctx.fallible ctx.ty = none)
    (hl : v.attrs.lit ctx.ty = some l) (hp : v.attrs.pat ctx.ty = none)
    (h : renderEnumLine v ctx = .ok out) :
    ∃ init, out = l.tokens ++ fatArrow ++ ctx.dstTy ++ cc ++ [Tok.ident v.ident] ++ init ++ [comma] := by
  unfold renderEnumLine at h
  simp only [ha, hl, hp, hk] at h
  simp only [bind, Except.bind] at h
  split at h
  · cases h
  · split at h
    · cases h
    · rename_i init _
      simp only [pure, Except.pure, Except.ok.injEq] at h
      exact ⟨init, h.symm⟩

theorem C09_from_pattern (v : Variant) (ctx : ImplContext) (pt : PatAttr) (out : TS)
    (hk : ctx.kind.cls = .from_)
    (ha : v.attrs.applicableAttr ctx.kind ctx.fallible ctx.ty = none)
    (hl : v.attrs.lit ctx.ty = none) (hp : v.attrs.pat ctx.ty = some pt)
    (h : renderEnumLine v ctx = .ok out) :
    ∃ init, out = pt.tokens ++ fatArrow ++ ctx.dstTy ++ cc ++ [Tok.ident v.ident] ++ init ++ [comma] := by
  unfold renderEnumLine at h
  simp only [ha, hl, hp, hk] at h
  simp only [bind, Except.bind] at h
  split at h
  · cases h
  · split at h
    · cases h
    · rename_i init _
      simp only [pure, Except.pure, Except.ok.injEq] at h
      exact ⟨init, h.symm⟩

/-- C09 (arms are tried in variant declaration order): the generated `match` lists one arm per contributing variant in
    declaration order, then the `#[ghosts]` arms, then the default arm — `rustc` tries them top to bottom -/
theorem C09_arms_in_declaration_order (input : Enum) (ctx : ImplContext) (out : TS) (h : enumInitBlock input ctx = .ok out) :
    ∃ arms ghostArms,
      (input.variants.filter (variantContributes ctx)).mapM (renderEnumLine · ctx) = .ok arms ∧
      (enumGhostData input ctx).mapM (renderEnumGhostLine · ctx) = .ok ghostArms ∧
      out = [Tok.group .brace (arms.flatten ++ ghostArms.flatten ++ defaultArm input ctx)] := by
  rw [enumInitBlock_eq] at h
  cases h1 : (input.variants.filter (variantContributes ctx)).mapM (renderEnumLine · ctx) with
  | error e => simp [h1, bind, Except.bind] at h
  | ok arms =>
    cases h2 : (enumGhostData input ctx).mapM (renderEnumGhostLine · ctx) with
    | error e => simp [h1, h2, bind, Except.bind] at h
    | ok gs =>
      simp only [h1, h2, bind, Except.bind, pure, Except.pure, Except.ok.injEq] at h
      exact ⟨arms, gs, rfl, rfl, h.symm⟩

/-- C09 (default case, From side): the `_ => …` arm is emitted, as the last arm, whenever some variant carries a
    literal or a pattern -/
theorem C09_default_case_emitted (input : Enum) (ctx : ImplContext) (dc : TS)
    (hk : ctx.kind.isFrom = true) (hd : ctx.structAttr.defaultCase = some dc)
    (hv : input.variants.any (fun v => (v.attrs.lit ctx.ty).isSome || (v.attrs.pat ctx.ty).isSome) = true) :
    defaultArm input ctx = [Tok.ident "_"] ++ quoteAction dc none ctx := by
  simp [defaultArm, hd, hk, hv, i]

/-- without a default case nothing is added -/
theorem C09_no_default_case (input : Enum) (ctx : ImplContext) (hd : ctx.structAttr.defaultCase = none) :
    defaultArm input ctx = [] := by
  simp [defaultArm, hd]

end O2o
