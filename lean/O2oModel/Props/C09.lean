/-
C09 — literal / pattern instructions map enum variants to primitive values both ways.
Arm construction on the model; the runtime meaning of `match` (first arm that matches wins) is rustc's.
-/
import O2oModel.Lemmas.Blocks
namespace O2o

/-- C09-1: a variant carrying `#[literal(x)]` (and nothing else) converts into `x`: the Into arm is `Src::V <destr> => x,` -/
theorem C09_into_literal (v : Variant) (ctx : ImplContext) (l : LitAttr) (out : TS)
    (hk : ctx.kind.cls = .into)
    (ha : v.attrs.applicableAttr ctx.kind ctx.fallible ctx.ty = none)
    (hl : v.attrs.lit ctx.ty = some l) (hp : v.attrs.pat ctx.ty = none)
    (h : renderEnumLine v ctx = .ok out) :
    ∃ destr, out = ctx.srcTy ++ cc ++ [Tok.ident v.ident] ++ destr ++ fatArrow ++ l.tokens ++ [comma] := by
  unfold renderEnumLine at h
  simp only [ha, hl, hp, hk] at h
  -- the two monadic sub-computations (destructuring block, init block) either fail or yield tokens
  simp only [bind, Except.bind] at h
  split at h
  · cases h
  · rename_i destr _
    split at h
    · cases h
    · simp only [pure, Except.pure, Except.ok.injEq] at h
      exact ⟨destr, h.symm⟩

/-- C09-2: the From arm of a `#[literal(x)]` variant is `x => Dst::V <init>,` and of a `#[pattern(p)]` variant
    `p => Dst::V <init>,` -/
theorem C09_from_literal (v : Variant) (ctx : ImplContext) (l : LitAttr) (out : TS)
    (hk : ctx.kind.cls = .from_)
    (ha : v.attrs.applicableAttr ctx.kind ctx.fallible ctx.ty = none)
    (hl : v.attrs.lit ctx.ty = some l) (hp : v.attrs.pat ctx.ty = none)
    (h : renderEnumLine v ctx = .ok out) :
    ∃ init, out = l.tokens ++ fatArrow ++ ctx.dstTy ++ cc ++ [Tok.ident v.ident] ++ init ++ [comma] := by
  unfold renderEnumLine at h
  simp only [ha, hl, hp, hk] at h
  simp only [bind, Except.bind] at h
  split at h
  · cases h
  · split at h
    · cases h
    · rename_i init _
      simp only [pure, Except.pure, Except.ok.injEq] at h
      exact ⟨init, h.symm⟩

theorem C09_from_pattern (v : Variant) (ctx : ImplContext) (pt : PatAttr) (out : TS)
    (hk : ctx.kind.cls = .from_)
    (ha : v.attrs.applicableAttr ctx.kind ctx.fallible ctx.ty = none)
    (hl : v.attrs.lit ctx.ty = none) (hp : v.attrs.pat ctx.ty = some pt)
    (h : renderEnumLine v ctx = .ok out) :
    ∃ init, out = pt.tokens ++ fatArrow ++ ctx.dstTy ++ cc ++ [Tok.ident v.ident] ++ init ++ [comma] := by
  unfold renderEnumLine at h
  simp only [ha, hl, hp, hk] at h
  simp only [bind, Except.bind] at h
  split at h
  · cases h
  · split at h
    · cases h
    · rename_i init _
      simp only [pure, Except.pure, Except.ok.injEq] at h
      exact ⟨init, h.symm⟩

/-- C09 (arms are tried in variant declaration order): the generated `match` lists one arm per contributing variant in
    declaration order, then the `#[ghosts]` arms, then the default arm — `rustc` tries them top to bottom -/
theorem C09_arms_in_declaration_order (input : Enum) (ctx : ImplContext) (out : TS) (h : enumInitBlock input ctx = .ok out) :
    ∃ arms ghostArms,
      (input.variants.filter (variantContributes ctx)).mapM (renderEnumLine · ctx) = .ok arms ∧
      (enumGhostData input ctx).mapM (renderEnumGhostLine · ctx) = .ok ghostArms ∧
      out = [Tok.group .brace (arms.flatten ++ ghostArms.flatten ++ defaultArm input ctx)] := by
  rw [enumInitBlock_eq] at h
  cases h1 : (input.variants.filter (variantContributes ctx)).mapM (renderEnumLine · ctx) with
  | error e => simp [h1, bind, Except.bind] at h
  | ok arms =>
    cases h2 : (enumGhostData input ctx).mapM (renderEnumGhostLine · ctx) with
    | error e => simp [h1, h2, bind, Except.bind] at h
    | ok gs =>
      simp only [h1, h2, bind, Except.bind, pure, Except.pure, Except.ok.injEq] at h
      exact ⟨arms, gs, rfl, rfl, h.symm⟩

/-- C09 (default case, From side): the `_ => …` arm is emitted, as the last arm, whenever some variant carries a
    literal or a pattern -/
theorem C09_default_case_emitted (input : Enum) (ctx : ImplContext) (dc : TS)
    (hk : ctx.kind.isFrom = true) (hd : ctx.structAttr.defaultCase = some dc)
    (hv : input.variants.any (fun v => (v.attrs.lit ctx.ty).isSome || (v.attrs.pat ctx.ty).isSome) = true) :
    defaultArm input ctx = [Tok.ident "_"] ++ quoteAction dc none ctx := by
  simp [defaultArm, hd, hk, hv, i]

/-- without a default case nothing is added -/
theorem C09_no_default_case (input : Enum) (ctx : ImplContext) (hd : ctx.structAttr.defaultCase = none) :
    defaultArm input ctx = [] := by
  simp [defaultArm, hd]

/-! ### whole `match`, any number of variants -/

/-- a variant that takes part through a `#[literal(..)]` only -/
def LiteralOnly (ctx : ImplContext) (v : Variant) : Prop :=
  v.attrs.applicableAttr ctx.kind ctx.fallible ctx.ty = none ∧ (v.attrs.lit ctx.ty).isSome ∧ v.attrs.pat ctx.ty = none

/-- the table the instructions designate: literal ↦ variant, in declaration order -/
def literalTable (ctx : ImplContext) (vs : List Variant) : List (TS × String) :=
  vs.filterMap fun v => (v.attrs.lit ctx.ty).map fun l => (l.tokens, v.ident)

/-- C09 (whole From `match`): for an enum whose contributing variants are all `#[literal]` variants, the k-th arm of
    the generated `match` is `literal_k => Dst::Variant_k <init>,` for the k-th contributing variant — the arm list *is*
    the designated table, in declaration order, for any number of variants -/
theorem C09_from_arm_table (input : Enum) (ctx : ImplContext) (arms : List TS)
    (hk : ctx.kind.cls = .from_)
    (hall : ∀ v ∈ input.variants.filter (variantContributes ctx), LiteralOnly ctx v)
    (h : (input.variants.filter (variantContributes ctx)).mapM (renderEnumLine · ctx) = .ok arms) :
    arms.length = (literalTable ctx (input.variants.filter (variantContributes ctx))).length ∧
    ∀ k (hk1 : k < arms.length) (hk2 : k < (literalTable ctx (input.variants.filter (variantContributes ctx))).length),
      ∃ init, arms[k] = (literalTable ctx (input.variants.filter (variantContributes ctx)))[k].1 ++ fatArrow ++ ctx.dstTy ++ cc ++
        [Tok.ident (literalTable ctx (input.variants.filter (variantContributes ctx)))[k].2] ++ init ++ [comma] := by
  generalize input.variants.filter (variantContributes ctx) = vs at hall h
  -- every variant contributes one table row
  have htab : ∀ (ws : List Variant), (∀ v ∈ ws, LiteralOnly ctx v) →
      literalTable ctx ws = ws.map fun v => (((v.attrs.lit ctx.ty).map (·.tokens)).getD [], v.ident) := by
    intro ws
    induction ws with
    | nil => intro _; rfl
    | cons v ws ih =>
      intro hws
      have hv := hws v List.mem_cons_self
      obtain ⟨l, hl⟩ := Option.isSome_iff_exists.mp hv.2.1
      have := ih (fun w hw => hws w (List.mem_cons_of_mem _ hw))
      unfold literalTable at this ⊢
      simp [List.filterMap_cons, hl, this]
  have htab := htab vs hall
  have hlen := mapM_ok_length h
  refine ⟨by rw [hlen, htab, List.length_map], ?_⟩
  intro k hk1 hk2
  have hkv : k < vs.length := by rw [← hlen]; exact hk1
  have harm := mapM_ok_getElem h k hkv hk1
  have hv := hall vs[k] (List.getElem_mem hkv)
  obtain ⟨l, hl⟩ := Option.isSome_iff_exists.mp hv.2.1
  obtain ⟨init, hinit⟩ := C09_from_literal vs[k] ctx l arms[k] hk hv.1 hl hv.2.2 harm
  refine ⟨init, ?_⟩
  simp only [htab, List.getElem_map, hl, Option.map_some, Option.getD_some]
  exact hinit

/-- reading of a `match` whose patterns are literals: the first arm whose literal equals the scrutinee is taken -/
def firstMatch (table : List (TS × String)) (x : TS) : Option String := (table.find? (fun r => decide (r.1 = x))).map (·.2)

/-- C09 (values): with pairwise distinct literals every literal selects exactly its own variant; with a repeated
    literal the variant declared first wins (declaration order = arm order, `C09_from_arm_table`) -/
theorem C09_value_first_declared : ∀ (table : List (TS × String)) (row : TS × String), row ∈ table →
    ∃ v, firstMatch table row.1 = some v ∧ ((table.map (·.1)).Nodup → v = row.2)
  | [], _, h => by simp at h
  | r :: table, row, h => by
    by_cases he : r.1 = row.1
    · refine ⟨r.2, by simp [firstMatch, List.find?, he], ?_⟩
      intro hnd
      rcases List.mem_cons.mp h with rfl | h'
      · rfl
      · have hnot : r.1 ∉ table.map (·.1) := (List.nodup_cons.mp (by simpa using hnd)).1
        exact absurd (List.mem_map.mpr ⟨row, h', he.symm⟩) hnot
    · have h' : row ∈ table := by
        rcases List.mem_cons.mp h with rfl | h'
        · exact absurd rfl he
        · exact h'
      obtain ⟨v, hv, hn⟩ := C09_value_first_declared table row h'
      refine ⟨v, by simpa [firstMatch, List.find?, he] using hv, fun hnd => hn (List.nodup_cons.mp (by simpa using hnd)).2⟩

end O2o
