/-
C11 — generics, lifetimes and where-clauses are carried so the impl type-checks.
What a theorem can carry is the construction of the header; "type-checks" is rustc's judgement (modelled not verified).
-/
import O2oModel.Expand
import O2oModel.Lemmas.TokEq
namespace O2o

/-- the deriving type's own parameters, as the impl declares them (`ImplGenerics`: bounds kept, defaults left off) -/
abbrev declaredParams (gens : List GParam) : List IParam := implFormParams gens

theorem pushParam_length (ps : List IParam) (x : IParam) : (pushParam ps x).length = ps.length + 1 := by
  unfold pushParam
  cases h : ps.reverse with
  | nil =>
    have : ps = [] := by simpa using h
    simp [this]
  | cons last init =>
    have : ps.length = init.length + 1 := by
      have := congrArg List.length h
      simpa using this
    simp [this]

/-- C11-1 (these_gens): the deriving type is followed by its own parameters *in argument form* — every one of them, in
    order, by its bare name (`'a`, `T`, `N`; lifetimes printed first as `TypeGenerics::to_tokens` does): no bound, no
    default, no `const` keyword is pasted after the type (fix 6f54c9a; the pinned tree printed the declaration form) -/
theorem C11_these_gens (input : DataType) (ctx : ImplContext) :
    (getQuoteTraitParams input ctx).theseGens = printGenerics (typeFormParams input.generics) := rfl

/-- every parameter printed after the type is exactly its name -/
theorem C11_these_gens_are_names (gens : List GParam) : ∀ p ∈ typeFormParams gens, p.full = p.name := by
  intro p hp
  simp only [typeFormParams, List.mem_map] at hp
  obtain ⟨g, _, rfl⟩ := hp
  rfl

/-- no generics ⇒ nothing is printed after the type, and nothing is declared on the impl unless a lifetime is added -/
theorem C11_no_generics : printGenerics [] = [] := rfl

/-- C11-2 (`r`): a by-reference conversion borrows with `&'o2o` exactly when there is a relevant lifetime to outlive
    (the deriving type's lifetimes for From-ref, the counterpart path's lifetimes for ref-Into), with plain `&` otherwise -/
theorem C11_r_forms (input : DataType) (ctx : ImplContext) :
    (getQuoteTraitParams input ctx).r =
      if ctx.kind.isRef then (if (refLifetimes input ctx).isEmpty then [Tok.punct '&' false] else [Tok.punct '&' false, .punct '\'' true, .ident "o2o"]) else [] := by
  rfl

/-- C11-2 (`'o2o`): when the borrow has lifetimes to outlive, a fresh `'o2o: l1 + … + ln` is declared last on the impl;
    otherwise nothing is added for it -/
theorem C11_o2o_declared (input : DataType) (ctx : ImplContext) (h : (refLifetimes input ctx).isEmpty = false) :
    (implParams input ctx).getLast? = some (o2oParam (refLifetimes input ctx)) ∧
    (o2oParam (refLifetimes input ctx)).full =
      [Tok.punct '\'' true, .ident "o2o", .punct ':' false] ++ joinPlus (refLifetimes input ctx) := by
  constructor
  · unfold implParams
    simp only [h, Bool.not_false, if_true]
    unfold pushParam
    split <;> simp
  · rfl

theorem C11_o2o_absent (input : DataType) (ctx : ImplContext) (h : (refLifetimes input ctx).isEmpty = true) :
    implParams input ctx = withMissingLifetimes (declaredParams input.generics) (thoseLifetimes ctx.structAttr.ty) := by
  unfold implParams
  simp [h, declaredParams, implFormParams]

/-- owned conversions never introduce `'o2o` -/
theorem C11_owned_no_o2o (input : DataType) (ctx : ImplContext) (h : ctx.kind.isRef = false) : refLifetimes input ctx = [] := by
  simp [refLifetimes, h]

/-- which lifetimes the borrow is tied to: the deriving type's for From<&T>, the counterpart path's for Into / IntoExisting on &Self -/
theorem C11_ref_lifetimes (input : DataType) (ctx : ImplContext) (h : ctx.kind.isRef = true) :
    refLifetimes input ctx = if ctx.kind.isFrom then theseLifetimes input.generics else thoseLifetimes ctx.structAttr.ty := by
  simp [refLifetimes, h]

/-- the type's own parameters are declared on the impl first and in order: the impl list extends them -/
theorem C11_declared_prefix_length (params0 : List IParam) (lts : List TS) :
    params0.length ≤ (withMissingLifetimes params0 lts).length := by
  unfold withMissingLifetimes
  induction lts generalizing params0 with
  | nil => simp
  | cons lt rest ih =>
    simp only [List.foldl_cons]
    split
    · exact Nat.le_trans (by rw [pushParam_length]; exact Nat.le_succ _) (ih _)
    · exact ih _

/-- C11-4 (where): the where-clause attached is `where` + the clause dedicated to (else defaulting for) this counterpart -/
theorem C11_where (input : DataType) (ctx : ImplContext) (w : WhereAttr) (h : input.attrs.whereAttr ctx.ty = some w) :
    (getQuoteTraitParams input ctx).whereClause = [Tok.ident "where"] ++ w.whereClause := by
  unfold getQuoteTraitParams
  simp [h]

theorem C11_no_where (input : DataType) (ctx : ImplContext) (h : input.attrs.whereAttr ctx.ty = none) :
    (getQuoteTraitParams input ctx).whereClause = [] := by
  unfold getQuoteTraitParams
  simp [h]

/-- C11-5 (counterpart split): a counterpart path is split into the path without the last segment's generic arguments
    and those arguments; printing both one after the other gives the path back -/
theorem C11_counterpart_split_noargs (pth : Path) (h : (pth.segs.getLast?.bind (·.args)) = none) :
    (TypePath.ofPath pth).path = pth.toTS ∧ (TypePath.ofPath pth).generics = none := by
  unfold TypePath.ofPath
  cases hl : pth.segs.getLast? with
  | none => simp
  | some last =>
    cases last with
    | mk ident args =>
      cases args with
      | none => simp
      | some g => simp [hl] at h

/-- what a declared parameter *is*, its trailing comma aside -/
def IParam.key (p : IParam) : Bool × TS × TS := (p.isLifetime, p.name, p.full)

theorem keys_pushParam (ps : List IParam) (x : IParam) : (pushParam ps x).map IParam.key = ps.map IParam.key ++ [x.key] := by
  unfold pushParam
  cases h : ps.reverse with
  | nil =>
    have : ps = [] := by simpa using h
    simp [this]
  | cons last init =>
    have : ps = init.reverse ++ [last] := by
      have := congrArg List.reverse h
      simpa using this
    simp [this, IParam.key]

/-- the lifetimes declared by a parameter list -/
def ltNames (ps : List IParam) : List TS := (ps.filter (·.isLifetime)).map (·.name)

theorem ltNames_eq (ps : List IParam) : ltNames ps = (ps.map IParam.key).filterMap (fun k => if k.1 then some k.2.1 else none) := by
  induction ps with
  | nil => rfl
  | cons p ps ih =>
    simp only [ltNames, List.filter_cons, List.map_cons, List.filterMap_cons, IParam.key] at *
    cases h : p.isLifetime <;> simp [ih]

theorem ltNames_pushParam (ps : List IParam) (x : IParam) (hx : x.isLifetime = true) : ltNames (pushParam ps x) = ltNames ps ++ [x.name] := by
  rw [ltNames_eq, ltNames_eq, keys_pushParam]
  simp [IParam.key, hx]

theorem missing_false_mem (ps : List IParam) (lt : TS)
    (h : (ps.all fun prm => if prm.isLifetime then !(prm.name == lt) else true) = false) : lt ∈ ltNames ps := by
  induction ps with
  | nil => simp at h
  | cons p ps ih =>
    simp only [List.all_cons, Bool.and_eq_false_iff] at h
    simp only [ltNames, List.filter_cons]
    cases hp : p.isLifetime with
    | true =>
      simp only [hp, if_true] at h
      cases h with
      | inl h =>
        have : p.name = lt := eq_of_beq (by simpa using h)
        simp [this]
      | inr h => simp only [if_true, List.map_cons, List.mem_cons]; exact Or.inr (ih h)
    | false =>
      simp only [hp] at h
      cases h with
      | inl h => simp at h
      | inr h => simpa [ltNames] using ih h

theorem missing_true_not_mem (ps : List IParam) (lt : TS)
    (h : (ps.all fun prm => if prm.isLifetime then !(prm.name == lt) else true) = true) : lt ∉ ltNames ps := by
  induction ps with
  | nil => simp [ltNames]
  | cons p ps ih =>
    simp only [List.all_cons, Bool.and_eq_true] at h
    simp only [ltNames, List.filter_cons]
    cases hp : p.isLifetime with
    | true =>
      simp only [hp, if_true] at h
      have hne : p.name ≠ lt := ne_of_beq_false (by simpa using h.1)
      simp only [if_true, List.map_cons, List.mem_cons, not_or]
      exact ⟨fun e => hne e.symm, ih h.2⟩
    | false => simpa [ltNames] using ih h.2

/-- one round of the `missing_lt` loop -/
def missingStep (ps : List IParam) (lt : TS) : List IParam :=
  let missing := ps.all fun prm => if prm.isLifetime then !(prm.name == lt) else true
  if missing then pushParam ps { isLifetime := true, name := lt, full := lt, punct := false } else ps

theorem withMissing_eq (ps : List IParam) (lts : List TS) : withMissingLifetimes ps lts = lts.foldl missingStep ps := rfl

theorem step_declares (ps : List IParam) (lt : TS) : lt ∈ ltNames (missingStep ps lt) := by
  unfold missingStep
  simp only
  split
  · rw [ltNames_pushParam _ _ rfl]; simp
  · rename_i h; exact missing_false_mem ps lt (by simpa using h)

theorem step_keeps (ps : List IParam) (lt x : TS) (hx : x ∈ ltNames ps) : x ∈ ltNames (missingStep ps lt) := by
  unfold missingStep
  simp only
  split
  · rw [ltNames_pushParam _ _ rfl]; simp [hx]
  · exact hx

theorem step_nodup (ps : List IParam) (lt : TS) (h : (ltNames ps).Nodup) : (ltNames (missingStep ps lt)).Nodup := by
  unfold missingStep
  simp only
  split
  · rename_i hm
    rw [ltNames_pushParam _ _ rfl]
    have := missing_true_not_mem ps lt hm
    exact List.nodup_append.mpr ⟨h, by simp, by intro a ha b hb; simp at hb; subst hb; intro e; exact this (e ▸ ha)⟩
  · exact h

/-- C11-3 (every lifetime of the counterpart is declared): after the `missing_lt` loop each lifetime argument of the
    counterpart path is among the lifetimes the impl declares — for any parameter list of the deriving type (lifetimes,
    type and const parameters in any order) and any list of counterpart lifetimes, repetitions included -/
theorem C11_every_counterpart_lifetime_declared (ps : List IParam) (lts : List TS) (lt : TS) (h : lt ∈ lts) :
    lt ∈ ltNames (withMissingLifetimes ps lts) := by
  rw [withMissing_eq]
  induction lts generalizing ps with
  | nil => cases h
  | cons l ls ih =>
    simp only [List.foldl_cons]
    cases h with
    | head =>
      have h0 := step_declares ps lt
      generalize missingStep ps lt = ps' at h0
      clear ih
      induction ls generalizing ps' with
      | nil => exact h0
      | cons l2 ls2 ih2 => exact ih2 _ (step_keeps ps' l2 lt h0)
    | tail _ h' => exact ih _ h'

/-- C11-3 (… and none twice): if the deriving type declares no lifetime twice, neither does the impl — a lifetime the
    counterpart shares with the type, or names several times, is not declared again -/
theorem C11_no_lifetime_declared_twice (ps : List IParam) (lts : List TS) (h : (ltNames ps).Nodup) :
    (ltNames (withMissingLifetimes ps lts)).Nodup := by
  rw [withMissing_eq]
  induction lts generalizing ps with
  | nil => exact h
  | cons l ls ih => exact ih _ (step_nodup ps l h)

/-- the deriving type's own parameters stay first, in order and unchanged (only a separating comma may be added) -/
theorem C11_own_params_first (ps : List IParam) (lts : List TS) :
    ∃ extra, (withMissingLifetimes ps lts).map IParam.key = ps.map IParam.key ++ extra := by
  rw [withMissing_eq]
  induction lts generalizing ps with
  | nil => exact ⟨[], by simp⟩
  | cons l ls ih =>
    obtain ⟨e, he⟩ := ih (missingStep ps l)
    simp only [List.foldl_cons]
    unfold missingStep at he ⊢
    simp only at he ⊢
    split at he
    · rename_i hm
      simp only [hm, if_true]
      rw [keys_pushParam] at he
      exact ⟨_, by rw [he, List.append_assoc]⟩
    · rename_i hm
      simp only [hm]
      exact ⟨e, he⟩


/-- C11-3 on the impl header itself: every lifetime argument of the counterpart is declared by `impl<..>` -/
theorem C11_impl_declares_counterpart_lifetimes (input : DataType) (ctx : ImplContext) (lt : TS)
    (h : lt ∈ thoseLifetimes ctx.structAttr.ty) : lt ∈ ltNames (implParams input ctx) := by
  unfold implParams
  simp only
  have h1 := C11_every_counterpart_lifetime_declared (declaredParams input.generics) _ lt h
  split
  · rw [ltNames_pushParam _ _ rfl]; exact List.mem_append_left _ h1
  · exact h1

/-- … and, as long as the input itself does not use the reserved name `'o2o`, no lifetime twice -/
theorem C11_impl_declares_no_lifetime_twice (input : DataType) (ctx : ImplContext)
    (h : (ltNames (declaredParams input.generics)).Nodup)
    (hres : lifetimeTS "o2o" ∉ ltNames (withMissingLifetimes (declaredParams input.generics) (thoseLifetimes ctx.structAttr.ty))) :
    (ltNames (implParams input ctx)).Nodup := by
  unfold implParams
  simp only
  have h1 := C11_no_lifetime_declared_twice (declaredParams input.generics) (thoseLifetimes ctx.structAttr.ty) h
  split
  · rw [ltNames_pushParam _ _ rfl]
    exact List.nodup_append.mpr ⟨h1, by simp, by
      intro a ha b hb; simp at hb; subst hb; intro e
      have e' : a = lifetimeTS "o2o" := e
      exact hres (e' ▸ ha)⟩
  · exact h1

/-- non-vacuity: `struct S<'a, T>` against `A<'b, 'a, 'b>` — `'b` is added once, `'a` not again -/
example : ltNames (withMissingLifetimes
      [{ isLifetime := true, name := lifetimeTS "a", full := lifetimeTS "a", punct := true }, { isLifetime := false, name := [], full := [Tok.ident "T"], punct := false }]
      [lifetimeTS "b", lifetimeTS "a", lifetimeTS "b"]) = [lifetimeTS "a", lifetimeTS "b"] := by decide

end O2o
