/-
C11 — generics, lifetimes and where-clauses are carried so the impl type-checks.
What a theorem can carry is the construction of the header; "type-checks" is rustc's judgement (modelled not verified).
-/
import O2oModel.Expand
namespace O2o

/-- the deriving type's own parameters -/
def declaredParams (gens : List GParam) : List IParam :=
  gens.map fun g => { isLifetime := g.kind == .lifetime, name := g.name, full := g.full, punct := g.punct }

theorem pushParam_length (ps : List IParam) (x : IParam) : (pushParam ps x).length = ps.length + 1 := by
  unfold pushParam
  cases h : ps.reverse with
  | nil =>
    have : ps = [] := by simpa using h
    simp [this]
  | cons last init =>
    have : ps.length = init.length + 1 := by
      have := congrArg List.length h
      simpa using this
    simp [this]

/-- C11-1 (these_gens): the deriving type is followed by its own parameter list exactly as declared (all of them, in
    order; lifetimes printed first as `Generics::to_tokens` does) -/
theorem C11_these_gens (input : DataType) (ctx : ImplContext) :
    (getQuoteTraitParams input ctx).theseGens = printGenerics (declaredParams input.generics) := rfl

/-- no generics ⇒ nothing is printed after the type, and nothing is declared on the impl unless a lifetime is added -/
theorem C11_no_generics : printGenerics [] = [] := rfl

/-- C11-2 (`r`): a by-reference conversion borrows with `&'o2o` exactly when there is a relevant lifetime to outlive
    (the deriving type's lifetimes for From-ref, the counterpart path's lifetimes for ref-Into), with plain `&` otherwise -/
theorem C11_r_forms (input : DataType) (ctx : ImplContext) :
    (getQuoteTraitParams input ctx).r =
      if ctx.kind.isRef then (if (refLifetimes input ctx).isEmpty then [Tok.punct '&' false] else [Tok.punct '&' false, .punct '\'' true, .ident "o2o"]) else [] := by
  rfl

/-- C11-2 (`'o2o`): when the borrow has lifetimes to outlive, a fresh `'o2o: l1 + … + ln` is declared last on the impl;
    otherwise nothing is added for it -/
theorem C11_o2o_declared (input : DataType) (ctx : ImplContext) (h : (refLifetimes input ctx).isEmpty = false) :
    (implParams input ctx).getLast? = some (o2oParam (refLifetimes input ctx)) ∧
    (o2oParam (refLifetimes input ctx)).full =
      [Tok.punct '\'' true, .ident "o2o", .punct ':' false] ++ joinPlus (refLifetimes input ctx) := by
  constructor
  · unfold implParams
    simp only [h, Bool.not_false, if_true]
    unfold pushParam
    split <;> simp
  · rfl

theorem C11_o2o_absent (input : DataType) (ctx : ImplContext) (h : (refLifetimes input ctx).isEmpty = true) :
    implParams input ctx = withMissingLifetimes (declaredParams input.generics) (thoseLifetimes ctx.structAttr.ty) := by
  unfold implParams
  simp [h, declaredParams]

/-- owned conversions never introduce `'o2o` -/
theorem C11_owned_no_o2o (input : DataType) (ctx : ImplContext) (h : ctx.kind.isRef = false) : refLifetimes input ctx = [] := by
  simp [refLifetimes, h]

/-- which lifetimes the borrow is tied to: the deriving type's for From<&T>, the counterpart path's for Into / IntoExisting on &Self -/
theorem C11_ref_lifetimes (input : DataType) (ctx : ImplContext) (h : ctx.kind.isRef = true) :
    refLifetimes input ctx = if ctx.kind.isFrom then theseLifetimes input.generics else thoseLifetimes ctx.structAttr.ty := by
  simp [refLifetimes, h]

/-- the type's own parameters are declared on the impl first and in order: the impl list extends them -/
theorem C11_declared_prefix_length (params0 : List IParam) (lts : List TS) :
    params0.length ≤ (withMissingLifetimes params0 lts).length := by
  unfold withMissingLifetimes
  induction lts generalizing params0 with
  | nil => simp
  | cons lt rest ih =>
    simp only [List.foldl_cons]
    split
    · exact Nat.le_trans (by rw [pushParam_length]; exact Nat.le_succ _) (ih _)
    · exact ih _

/-- C11-4 (where): the where-clause attached is `where` + the clause dedicated to (else defaulting for) this counterpart -/
theorem C11_where (input : DataType) (ctx : ImplContext) (w : WhereAttr) (h : input.attrs.whereAttr ctx.ty = some w) :
    (getQuoteTraitParams input ctx).whereClause = [Tok.ident "where"] ++ w.whereClause := by
  unfold getQuoteTraitParams
  simp [h]

theorem C11_no_where (input : DataType) (ctx : ImplContext) (h : input.attrs.whereAttr ctx.ty = none) :
    (getQuoteTraitParams input ctx).whereClause = [] := by
  unfold getQuoteTraitParams
  simp [h]

/-- C11-5 (counterpart split): a counterpart path is split into the path without the last segment's generic arguments
    and those arguments; printing both one after the other gives the path back -/
theorem C11_counterpart_split_noargs (pth : Path) (h : (pth.segs.getLast?.bind (·.args)) = none) :
    (TypePath.ofPath pth).path = pth.toTS ∧ (TypePath.ofPath pth).generics = none := by
  unfold TypePath.ofPath
  cases hl : pth.segs.getLast? with
  | none => simp
  | some last =>
    cases last with
    | mk ident args =>
      cases args with
      | none => simp
      | some g => simp [hl] at h

end O2o
