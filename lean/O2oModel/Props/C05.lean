/-
C05 — the most specific applicable member instruction wins; others never interfere.
-/
import O2oModel.Lemmas.Lookup
import O2oModel.Expand
namespace O2o

/-- the fallback chain of (kind, fallibility) levels for a conversion, most specific first -/
def chain (k : Kind) (f : Bool) : List (Kind × Bool) :=
  [(k, f)] ++ (if f then [(k, false)] else []) ++
  (if k == .ownedIntoExisting then [(Kind.ownedInto, f)] ++ (if f then [(Kind.ownedInto, false)] else []) else []) ++
  (if k == .refIntoExisting then [(Kind.refInto, f)] ++ (if f then [(Kind.refInto, false)] else []) else [])

/-- specification: an applicable `#[ghost]` beats everything; otherwise the first level of the chain that has an
    instruction decides, and inside a level dedicated beats default (that is `fieldAttrCore`) -/
def Spec.pick (a : MemberAttrs) (k : Kind) (f : Bool) (ty : TypePath) : Option ApplicableAttr :=
  match a.ghost ty k with
  | some g => some (.ghost g)
  | none => ((chain k f).findSome? fun (k', f') => a.fieldAttrCore k' f' ty).map .field

/-- C05-1: the lookup the expander uses is the specification, for every instruction list and all 12 kinds -/
theorem C05_pick (a : MemberAttrs) (k : Kind) (f : Bool) (ty : TypePath) :
    a.applicableAttr k f ty = Spec.pick a k f ty := by
  unfold MemberAttrs.applicableAttr Spec.pick chain
  cases hg : a.ghost ty k with
  | some g => simp
  | none =>
    cases k <;> cases f <;>
      simp [List.findSome?, HOrElse.hOrElse, OrElse.orElse, Option.orElse] <;>
      (repeat' split) <;> simp_all

/-- C05 (dedicated beats default, at one level): if some instruction of the level is dedicated to the counterpart, the
    selected one is dedicated to it -/
theorem C05_dedicated_then_default (a : MemberAttrs) (k : Kind) (f : Bool) (ty : TypePath) (x : MemberAttr)
    (hx : x ∈ a.iterForKind k f) (hd : isSomeEq x.attr.containerTy ty = true) :
    ∃ r, a.fieldAttr k f ty = some r ∧ isSomeEq r.attr.containerTy ty = true := by
  obtain ⟨r, h1, _, h3⟩ := findDedicatedOrDefault_dedicated_wins (a.iterForKind k f) (fun _ => true) (·.attr.containerTy) ty x hx rfl hd
  exact ⟨r, h1, h3⟩

/-- same for the six other single-level lookups -/
theorem C05_dedicated_ghost (a : MemberAttrs) (k : Kind) (ty : TypePath) (x : GhostAttr)
    (hx : x ∈ a.ghostAttrs) (hk : x.appl.get k = true) (hd : isSomeEq x.attr.containerTy ty = true) :
    ∃ r, a.ghost ty k = some r ∧ isSomeEq r.containerTy ty = true := by
  obtain ⟨r, h1, _, h3⟩ := findDedicatedOrDefault_dedicated_wins a.ghostAttrs (·.appl.get k) (·.attr.containerTy) ty x hx hk hd
  exact ⟨r.attr, by simp [MemberAttrs.ghost, h1], h3⟩

/-- C05-2 (non-interference, one level): an instruction that is not of this level, or is dedicated to another
    counterpart, can be added anywhere among the member's instructions without changing what the level selects -/
theorem C05_noninterference_level (pre post : List MemberAttr) (y : MemberAttr) (rest : MemberAttrs) (k : Kind) (f : Bool) (ty : TypePath)
    (h : ((y.fallible == f && y.appl.get k) && relevantTo ty y.attr.containerTy) = false) :
    ({ rest with attrs := pre ++ y :: post } : MemberAttrs).fieldAttr k f ty = ({ rest with attrs := pre ++ post } : MemberAttrs).fieldAttr k f ty := by
  simp only [MemberAttrs.fieldAttr, MemberAttrs.iterForKind, List.filter_append, List.filter_cons]
  by_cases hy : (y.fallible == f && y.appl.get k) = true
  · simp only [hy, if_true]
    apply findDedicatedOrDefault_insert_irrelevant
    simp only [hy, Bool.true_and] at h
    simp [h]
  · have hy' : (y.fallible == f && y.appl.get k) = false := by simpa using hy
    simp only [hy', Bool.false_eq_true, if_false]

/-- C05-2 lifted to the whole chain: if the added instruction is irrelevant at every level of the chain (not
    applicable to the kind or its fallbacks, or dedicated to another counterpart), the conversion's selected
    instruction — hence its generated line — is unchanged -/
theorem C05_noninterference (pre post : List MemberAttr) (y : MemberAttr) (rest : MemberAttrs) (k : Kind) (f : Bool) (ty : TypePath)
    (h : ∀ k' f', ((y.fallible == f' && y.appl.get k') && relevantTo ty y.attr.containerTy) = false) :
    ({ rest with attrs := pre ++ y :: post } : MemberAttrs).applicableAttr k f ty = ({ rest with attrs := pre ++ post } : MemberAttrs).applicableAttr k f ty := by
  have e : ∀ k' f', ({ rest with attrs := pre ++ y :: post } : MemberAttrs).fieldAttrCore k' f' ty = ({ rest with attrs := pre ++ post } : MemberAttrs).fieldAttrCore k' f' ty := by
    intro k' f'
    simp only [MemberAttrs.fieldAttrCore]
    rw [C05_noninterference_level pre post y rest k' f' ty (h k' f')]
  simp only [MemberAttrs.applicableAttr, e]
  rfl

/-- a `#[ghost]` that does not apply to the kind, or is dedicated elsewhere, does not interfere either -/
theorem C05_noninterference_ghost (pre post : List GhostAttr) (y : GhostAttr) (rest : MemberAttrs) (k : Kind) (ty : TypePath)
    (h : (y.appl.get k && relevantTo ty y.attr.containerTy) = false) :
    ({ rest with ghostAttrs := pre ++ y :: post } : MemberAttrs).ghost ty k = ({ rest with ghostAttrs := pre ++ post } : MemberAttrs).ghost ty k := by
  simp only [MemberAttrs.ghost]
  rw [findDedicatedOrDefault_insert_irrelevant pre post y (·.appl.get k) (·.attr.containerTy) ty h]

/-- the nested `[instr(..)]` lookup inside `#[parent(..)]`: exact kind first, then the `into` fallback for into_existing -/
theorem C05_nested_parent (pc : ParentChildField) (k : Kind) :
    pc.getForKind k = ((pc.attrs.find? (·.appl.get k)) <|>
      (if k == .ownedIntoExisting then pc.attrs.find? (·.appl.get .ownedInto) else none) <|>
      (if k == .refIntoExisting then pc.attrs.find? (·.appl.get .refInto) else none)) := rfl

/-- C05-4 (the validator's view, since fix 6dc1e19): for every conversion — fallible or not — when no ghost applies,
    the validator's `applicable_field_attr` selects the same instruction as the expander's `applicable_attr`: the three
    copies of the lookup chain agree. (Before the fix the validator always asked with `fallible = false`; the statement
    then held for infallible conversions only and was kept as `C05_three_views_agree_partial`.) -/
private theorem orElse_map' {α β} (g : α → β) (x y : Option α) : (x <|> y).map g = (x.map g <|> y.map g) := by
  cases x <;> simp

private theorem none_orElse' {α} (x : Option α) : ((none : Option α) <|> x) = x := by cases x <;> rfl

private theorem ite_map' {α β} (g : α → β) (c : Bool) (x : Option α) :
    (if c then x else none).map g = (if c then x.map g else none) := by
  cases c <;> simp

theorem C05_three_views_agree (a : MemberAttrs) (k : Kind) (f : Bool) (ty : TypePath) (hg : a.ghost ty k = none) :
    (a.applicableFieldAttr k f ty).map (fun x => ApplicableAttr.field x.attr) = a.applicableAttr k f ty := by
  unfold MemberAttrs.applicableFieldAttr MemberAttrs.applicableAttr MemberAttrs.fieldAttrCore
  simp only [hg, Option.map_none, none_orElse', orElse_map', ite_map', Option.map_map]
  rfl

/-- the instance the validator used to be limited to -/
theorem C05_three_views_agree_partial (a : MemberAttrs) (k : Kind) (ty : TypePath) (hg : a.ghost ty k = none) :
    (a.applicableFieldAttr k false ty).map (fun x => ApplicableAttr.field x.attr) = a.applicableAttr k false ty :=
  C05_three_views_agree a k false ty hg

end O2o
