/-
C04 — each trait instruction yields exactly the documented set of trait impls.
Tables on both sides are regenerated from /repo on every run (attr.rs, README.md, the quote!
skeletons of expand.rs); `decide` evaluates the *whole* 24 × 6 table.
-/
import O2oModel.Expand
namespace O2o

/-- the 24 trait-instruction names with the basic name they are the (fallible form of) -/
def traitNames : List (String × String × Bool) := [
  ("owned_into", "owned_into", false), ("ref_into", "ref_into", false), ("into", "into", false),
  ("from_owned", "from_owned", false), ("from_ref", "from_ref", false), ("from", "from", false),
  ("map_owned", "map_owned", false), ("map_ref", "map_ref", false), ("map", "map", false),
  ("owned_into_existing", "owned_into_existing", false), ("ref_into_existing", "ref_into_existing", false), ("into_existing", "into_existing", false),
  ("owned_try_into", "owned_into", true), ("ref_try_into", "ref_into", true), ("try_into", "into", true),
  ("try_from_owned", "from_owned", true), ("try_from_ref", "from_ref", true), ("try_from", "from", true),
  ("try_map_owned", "map_owned", true), ("try_map_ref", "map_ref", true), ("try_map", "map", true),
  ("owned_try_into_existing", "owned_into_existing", true), ("ref_try_into_existing", "ref_into_existing", true), ("try_into_existing", "into_existing", true)]

/-- name of the basic instruction of a conversion kind -/
def Kind.basicName : Kind → String
  | .ownedInto => "owned_into" | .refInto => "ref_into" | .fromOwned => "from_owned"
  | .fromRef => "from_ref" | .ownedIntoExisting => "owned_into_existing" | .refIntoExisting => "ref_into_existing"

/-- what the README documents: a basic instruction stands for itself, a shortcut for the ticked rows of its column -/
def documentedKinds (base : String) : List String :=
  match Gen.readmeShortcuts.find? (·.1 == base) with
  | some e => e.2
  | none => [base]

/-- C04-1: for all 24 names and all 6 kinds, the type-level parser marks the instruction applicable to the
    kind iff the README says so, and marks it fallible iff it is a `try_` form. -/
theorem C04_table :
    traitNames.all (fun (name, base, fall) =>
      match findArm Gen.typeArms name false true with
      | some arm => arm.kind == .map fall &&
          Kind.all.all (fun k => (applOf arm.appl name).get k == (documentedKinds base).contains k.basicName)
      | none => false) = true := by decide

/-- same for `#[o2o(name(..))]` spelling and with `allow_unknown` in force -/
theorem C04_table_all_flags :
    traitNames.all (fun (name, _, fall) =>
      [(false, false), (true, true), (true, false)].all fun (own, bark) =>
        match findArm Gen.typeArms name own bark, findArm Gen.typeArms name false true with
        | some a, some a' => a == a' && a.kind == .map fall
        | _, _ => false) = true := by decide

/-- the names registered as helper attributes include all 24 trait instructions -/
theorem C04_declared : traitNames.all (fun (name, _, _) => Gen.declaredAttrs.contains name) = true := by decide

/-! ### the skeleton used for each (kind, fallible) is the documented trait -/

/-- path segments between the `impl_gens` hole and the first `<` of a skeleton ("" = leading `::`) -/
def traitSegs : List Gen.Tm → List String
  | .h "impl_gens" :: rest => go rest
  | _ :: rest => traitSegs rest
  | [] => []
where
  go : List Gen.Tm → List String
    | .t (.punct ':' true) :: .t (.punct ':' false) :: .t (.ident s) :: rest => (match rest with | _ => s :: go rest)
    | .t (.ident s) :: rest => s :: go rest
    | _ => []

def leadingAbs : List Gen.Tm → Bool
  | .h "impl_gens" :: .t (.punct ':' true) :: _ => true
  | _ :: rest => leadingAbs rest
  | [] => false

def skeletonOf (k : Kind) (fallible : Bool) : List Gen.Tm :=
  match k.cls, fallible with
  | .from_, false => Gen.tmpl_quote_from_trait.getD 0 []
  | .from_, true => Gen.tmpl_quote_try_from_trait.getD 0 []
  | .into, false => Gen.tmpl_quote_into_trait.getD 2 []
  | .into, true => Gen.tmpl_quote_try_into_trait.getD 2 []
  | .existing, false => Gen.tmpl_quote_into_existing_trait.getD 0 []
  | .existing, true => Gen.tmpl_quote_try_into_existing_trait.getD 0 []

/-- tokens of the header: after the trait path `<`, is the `r` hole the first thing (From<&A>)? and does `r`
    directly follow `for` (impl … for &B)? -/
def argIsRefHole : List Gen.Tm → Bool
  | .t (.punct '<' false) :: .h "r" :: _ => true
  | .t (.punct '<' false) :: _ => false
  | _ :: rest => argIsRefHole rest
  | [] => false

def selfIsRefHole : List Gen.Tm → Bool
  | .t (.ident "for") :: .h "r" :: _ => true
  | .t (.ident "for") :: _ => false
  | _ :: rest => selfIsRefHole rest
  | [] => false

/-- C04-4: for each of the 12 documented impls the skeleton the model instantiates (regenerated from the
    `quote_*_trait` bodies) names the documented trait path, and borrows the documented side. -/
theorem C04_header_shape :
    Gen.readmeImpls.all (fun (base, fall, segs, argRef, selfRef) =>
      Kind.all.any (fun k => k.basicName == base &&
        (let sk := skeletonOf k fall
         (if leadingAbs sk then "" :: traitSegs sk else traitSegs sk) == segs &&
         -- the `r` hole is filled with `&`/`&'o2o` exactly for by-reference kinds (`getQuoteTraitParams`)
         (argIsRefHole sk == k.isFrom) && (selfIsRefHole sk == !k.isFrom) &&
         (argRef == (k.isFrom && k.isRef)) && (selfRef == (!k.isFrom && k.isRef))))) = true := by decide

/-- `type Error = #err_ty;` is present exactly in the fallible skeletons -/
def hasTypeError : List Gen.Tm → Bool
  | .g .brace (.t (.ident "type") :: .t (.ident "Error") :: .t (.punct '=' false) :: .h "err_ty" :: .t (.punct ';' false) :: _) :: _ => true
  | _ :: rest => hasTypeError rest
  | [] => false

theorem C04_error_type :
    Kind.all.all (fun k => hasTypeError (skeletonOf k true) && !hasTypeError (skeletonOf k false)) = true := by decide

theorem ite_ne_nil {c : Prop} [Decidable c] {a b : TS} (ha : a ≠ []) (hb : b ≠ []) : (if c then a else b) ≠ [] := by
  split <;> assumption

/-- the `r` hole is `&…` exactly for by-reference kinds -/
theorem C04_r_hole (input : DataType) (ctx : ImplContext) :
    ((getQuoteTraitParams input ctx).r = [] ↔ ctx.kind.isRef = false) := by
  unfold getQuoteTraitParams
  cases h : ctx.kind.isRef
  · simp
  · simp only [if_true]
    constructor
    · intro hh; exact absurd hh (ite_ne_nil (by simp) (by simp [lifetimeTS]))
    · intro hh; cases hh

/-! ### one impl per requested (kind, fallibility, counterpart): unbounded in the number of instructions -/

/-- what identifies an impl: kind, fallibility, counterpart type (as written) -/
def ImplContext.key (c : ImplContext) : Kind × Bool × String := (c.kind, c.fallible, c.structAttr.ty.pathStr)

/-- the impls an instruction list asks for, instruction by instruction -/
def requested (attrs : List TraitAttr) : List (Kind × Bool × String) :=
  attrs.flatMap fun a => (implPasses.filter fun (k, f) => a.fallible == f && a.appl.get k).map fun (k, f) => (k, f, a.core.ty.pathStr)

theorem flatMap_filter_swap {α β γ : Type} (ps : List β) (as : List α) (q : β → α → Bool) (g : β → α → γ) :
    List.Perm (ps.flatMap fun p => (as.filter (q p)).map (g p))
              (as.flatMap fun a => (ps.filter fun p => q p a).map fun p => g p a) := by
  induction as with
  | nil => simp
  | cons a as ih =>
    simp only [List.flatMap_cons]
    have h1 : List.Perm (ps.flatMap fun p => ((a :: as).filter (q p)).map (g p))
        ((ps.flatMap fun p => ([a].filter (q p)).map (g p)) ++ (ps.flatMap fun p => (as.filter (q p)).map (g p))) := by
      clear ih
      induction ps with
      | nil => simp
      | cons p ps ihp =>
        simp only [List.flatMap_cons]
        have : ((a :: as).filter (q p)).map (g p) = ([a].filter (q p)).map (g p) ++ (as.filter (q p)).map (g p) := by
          by_cases hq : q p a <;> simp [List.filter, hq]
        rw [this]
        refine List.Perm.trans (List.Perm.append_left _ ihp) ?_
        simp only [List.append_assoc]
        refine List.Perm.append_left _ ?_
        rw [← List.append_assoc, ← List.append_assoc]
        exact List.Perm.append_right _ List.perm_append_comm
    refine List.Perm.trans h1 (List.Perm.append ?_ ih)
    clear ih h1
    induction ps with
    | nil => simp
    | cons p ps ihp =>
      simp only [List.flatMap_cons, List.filter_cons] at ihp ⊢
      by_cases hq : q p a
      · simp only [hq, if_true, List.filter_nil, List.map_cons, List.map_nil, List.singleton_append]
        exact List.Perm.cons _ ihp
      · simp only [hq, Bool.false_eq_true, if_false, List.filter_nil, List.map_nil, List.nil_append]
        exact ihp

/-- C04-2: the impls generated are, up to order, exactly those the instructions request — none missing, none extra,
    for every number of instructions. -/
theorem C04_impl_set (input : DataType) :
    List.Perm ((implContexts input).map ImplContext.key) (requested input.attrs.attrs) := by
  unfold implContexts requested DataTypeAttrs.iterForKindCore DataTypeAttrs.iterForKind
  simp only [List.map_flatMap, List.map_map]
  have := flatMap_filter_swap implPasses input.attrs.attrs
    (fun (p : Kind × Bool) (a : TraitAttr) => a.fallible == p.2 && a.appl.get p.1)
    (fun (p : Kind × Bool) (a : TraitAttr) => ((p.1, p.2, a.core.ty.pathStr) : Kind × Bool × String))
  refine List.Perm.trans ?_ this
  apply List.Perm.of_eq
  congr 1

/-- C04-3: the set of impls does not depend on the order in which the instructions are written -/
theorem C04_order_irrelevant (attrs attrs' : List TraitAttr) (h : List.Perm attrs attrs') :
    List.Perm (requested attrs) (requested attrs') :=
  List.Perm.flatMap_right _ h

/-- non-vacuity: a `map` and a `try_into_existing` instruction request 4 + 2 impls -/
example : (requested [
    { core := { ty := TypePath.ofTokens [Tok.ident "A"], errTy := none, typeHint := .unspecified }, fallible := false, appl := applOf ["appl_owned_into", "appl_ref_into", "appl_from_owned", "appl_from_ref", "appl_owned_into_existing", "appl_ref_into_existing"] "map" },
    { core := { ty := TypePath.ofTokens [Tok.ident "B"], errTy := none, typeHint := .unspecified }, fallible := true, appl := applOf ["appl_owned_into", "appl_ref_into", "appl_from_owned", "appl_from_ref", "appl_owned_into_existing", "appl_ref_into_existing"] "try_into_existing" }]).length = 6 := by
  decide

end O2o
