/-
C17 — accepted inputs expand to syntactically valid impl items of the right shape.
The six impl skeletons are regenerated from the `quote_*_trait` bodies of expand.rs on every run; the
theorems below fix their shape: one `impl … for … { [type Error = …;] fn <name>(<signature>) [-> ret] { … } }`
with the method name and signature the trait requires.
-/
import O2oModel.Expand
namespace O2o
open Gen

def tk (s : String) : Tm := .t (.ident s)
def pn (c : Char) : Tm := .t (.punct c false)
def pj (c : Char) : Tm := .t (.punct c true)

def resultOf (okTy : List Tm) : List Tm :=
  [pj '-', pn '>', pj ':', pn ':', tk "core", pj ':', pn ':', tk "result", pj ':', pn ':', tk "Result", pn '<'] ++ okTy ++ [pn ',', .h "err_ty", pn '>']

structure SkelSpec where
  tmpl : List Tm
  traitPath : List Tm
  fallible : Bool
  fnName : String
  params : List Tm
  ret : List Tm
  /-- trait argument and self type -/
  arg : List Tm
  self_ : List Tm
  /-- what the fn body must end with, after the holes -/
  bodyHoles : List Tm

def corePath (n : String) : List Tm := [pj ':', pn ':', tk "core", pj ':', pn ':', tk "convert", pj ':', pn ':', tk n]
def o2oPath (n : String) : List Tm := [tk "o2o", pj ':', pn ':', tk "traits", pj ':', pn ':', tk n]

def srcArg : List Tm := [.h "r", .h "src", .h "those_gens"]
def dstThese : List Tm := [.h "dst", .h "these_gens"]
def dstThose : List Tm := [.h "dst", .h "those_gens"]
def srcSelf : List Tm := [.h "r", .h "src", .h "these_gens"]
def existingParams : List Tm := [tk "self", pn ',', tk "other", pn ':', pn '&', tk "mut", .h "dst", .h "those_gens"]

def skelSpecs : List SkelSpec := [
  ⟨tmpl_quote_from_trait.getD 0 [], corePath "From", false, "from", [tk "value", pn ':'] ++ srcArg, [pj '-', pn '>'] ++ dstThese, srcArg, dstThese,
    [.h "inner_attr", .h "pre_init", .h "init"]⟩,
  ⟨tmpl_quote_try_from_trait.getD 0 [], corePath "TryFrom", true, "try_from", [tk "value", pn ':'] ++ srcArg, resultOf dstThese, srcArg, dstThese,
    [.h "inner_attr", .h "pre_init", .h "init"]⟩,
  ⟨tmpl_quote_into_trait.getD 2 [], corePath "Into", false, "into", [tk "self"], [pj '-', pn '>'] ++ dstThose, dstThose, srcSelf,
    [.h "inner_attr", .h "body"]⟩,
  ⟨tmpl_quote_try_into_trait.getD 2 [], corePath "TryInto", true, "try_into", [tk "self"], resultOf dstThose, dstThose, srcSelf,
    [.h "inner_attr", .h "body"]⟩,
  ⟨tmpl_quote_into_existing_trait.getD 0 [], o2oPath "IntoExisting", false, "into_existing", existingParams, [], dstThose, srcSelf,
    [.h "inner_attr", .h "pre_init", .h "init", .h "post_init"]⟩,
  ⟨tmpl_quote_try_into_existing_trait.getD 0 [], o2oPath "TryIntoExisting", true, "try_into_existing", existingParams, resultOf [.g .paren []], dstThose, srcSelf,
    [.h "inner_attr", .h "pre_init", .h "init", .h "post_init", tk "Ok", .g .paren [.g .paren []]]⟩]

/-- the whole item a skeleton must be, written out from its spec -/
def SkelSpec.expected (s : SkelSpec) : List Tm :=
  [.h "impl_attr", tk "impl", .h "impl_gens"] ++ s.traitPath ++ [pn '<'] ++ s.arg ++ [pn '>', tk "for"] ++ s.self_ ++ [.h "where_clause",
    .g .brace ((if s.fallible then [tk "type", tk "Error", pn '=', .h "err_ty", pn ';'] else []) ++
      [.h "attr", tk "fn", tk s.fnName, .g .paren s.params] ++ s.ret ++ [.g .brace s.bodyHoles])]

/-- C17-1: each of the six regenerated skeletons is exactly one impl item for its trait, holding exactly the one
    method that trait requires with the documented name, receiver, parameters and return type, plus
    `type Error = …;` for the fallible traits and nothing else. -/
theorem C17_skeletons : skelSpecs.all (fun s => s.tmpl == s.expected) = true := by decide

/-- the two bodies of the Into / TryInto skeletons: with a bare `#[parent]` (post-init dialect: the `vars` bindings, then the
    default value of the counterpart *with its generic arguments*, the assignments, the parent calls) and without -/
theorem C17_into_bodies :
    (tmpl_quote_into_trait.getD 0 [] ==
        [.h "pre_init", tk "let", tk "mut", tk "obj", pn ':', .h "dst", .h "those_gens", pn '=', tk "Default", pj ':', pn ':', tk "default", .g .paren [], pn ';', .h "init", .h "post_init", tk "obj"]
     && tmpl_quote_into_trait.getD 1 [] == [.h "pre_init", .h "init"]
     && tmpl_quote_try_into_trait.getD 0 [] ==
        [.h "pre_init", tk "let", tk "mut", tk "obj", pn ':', .h "dst", .h "those_gens", pn '=', tk "Default", pj ':', pn ':', tk "default", .g .paren [], pn ';', .h "init", .h "post_init", tk "Ok", .g .paren [tk "obj"]]
     && tmpl_quote_try_into_trait.getD 1 [] == [.h "pre_init", .h "init"]) = true := by decide

/-- C17: `data_type_impl` emits exactly one skeleton instance per impl context, concatenated (a sequence of items) -/
theorem C17_sequence_of_items (input : DataType) (impls : List TS) (h : dataTypeImpls input = .ok impls) :
    impls.length = (implContexts input).length := by
  unfold dataTypeImpls at h
  exact List.mapM_length_eq h
where
  List.mapM_length_eq {α β : Type} {f : α → Except PErr β} : ∀ {xs : List α} {ys : List β}, xs.mapM f = .ok ys → ys.length = xs.length
    | [], ys, h => by simp [List.mapM_nil, pure, Except.pure] at h; subst h; rfl
    | x :: xs, ys, h => by
      rw [List.mapM_cons] at h
      cases hx : f x with
      | error e => simp [hx, bind, Except.bind] at h
      | ok y =>
        cases hxs : xs.mapM f with
        | error e => simp [hx, hxs, bind, Except.bind] at h
        | ok ys' =>
          simp [hx, hxs, bind, Except.bind, pure, Except.pure] at h
          subst h
          simp [List.mapM_length_eq hxs]

/-- C17 (*table*, regenerated): the bodies that wrap the initialiser — a struct conversion is the destination path applied
    to the init block (From and Into alike), an enum conversion is `match value {..}` (From) or `match self {..}` (Into);
    the IntoExisting flavours splice the statements unwrapped; a quick return into an existing value is `*other = <expr>;`;
    `vars` become `let a = b;`; the fallible body is `Ok(<inner>)` -/
theorem C17_main_blocks :
    (Gen.tmpl_struct_main_code_block == [[.h "dst", .h "struct_init_block"], [.h "dst", .h "struct_init_block"]]
     && Gen.tmpl_enum_main_code_block == [[tk "match", tk "value", .h "enum_init_block"], [tk "match", tk "self", .h "enum_init_block"]]
     && Gen.tmpl_struct_pre_init == [[tk "let", .h "a", pn '=', .h "b", pn ';']]
     && Gen.tmpl_main_code_block == [[pn '*', tk "other", pn '=', .h "action", pn ';']]
     && Gen.tmpl_main_code_block_ok == [[pn '*', tk "other", pn '=', .h "action", pn ';'], [tk "Ok", .g .paren [.h "inner"]]]) = true := by decide

/-- in a body assembled on a default value (a parameterless `#[parent]` member present) a type-level ghost is a
    statement `obj.<member> = <value>;` — it ends with `;` and begins with `obj .`, it is never a `name: value,`
    initialiser fragment (fix for the pinned tree: the fragment form made the body unparsable) -/
theorem C17_ghost_line_is_statement (g : GhostData) (ctx : ImplContext) (ts : TS)
    (hk : ctx.kind.cls = .into) (hp : ctx.hasPostInit = true) (h : renderGhostLine g ctx = .ok ts) :
    ∃ mid, ts = Tok.ident "obj" :: dot :: (mid ++ [semi]) := by
  unfold renderGhostLine at h
  cases hg : g.ghostIdent.getIdent with
  | error e => simp [hg, bind, Except.bind] at h
  | ok m =>
    cases m <;> simp [hg, hk, hp, bind, Except.bind, pure, Except.pure] at h <;> subst h
    · rename_i nm
      exact ⟨(match g.childPath with | some c => memberPathTS c.path ++ [dot] | none => []) ++ Tok.ident nm :: eq :: quoteAction g.action none ctx,
        by simp [i, List.append_assoc]; cases g.childPath <;> rfl⟩
    · rename_i n
      exact ⟨(match g.childPath with | some c => memberPathTS c.path ++ [dot] | none => []) ++ ((Member.unnamed n).toTS ++ eq :: quoteAction g.action none ctx),
        by simp [i, List.append_assoc]; cases g.childPath <;> rfl⟩

/-- non-vacuity: a named type-level ghost in such a body -/
example : renderGhostLine { ghostIdent := .member (.named "g"), action := [Tok.lit "7"], childPath := none }
    { (default : ImplContext) with kind := .ownedInto, hasPostInit := true }
    = .ok [Tok.ident "obj", dot, Tok.ident "g", eq, Tok.lit "7", semi] := by rfl

def EndsSemi (ts : TS) : Prop := ∃ mid, ts = mid ++ [semi]
theorem EndsSemi.single : EndsSemi [semi] := ⟨[], rfl⟩
theorem EndsSemi.cons (a : Tok) {ts : TS} (h : EndsSemi ts) : EndsSemi (a :: ts) := by
  obtain ⟨m, rfl⟩ := h; exact ⟨a :: m, rfl⟩
theorem EndsSemi.append (xs : TS) {ts : TS} (h : EndsSemi ts) : EndsSemi (xs ++ ts) := by
  obtain ⟨m, rfl⟩ := h; exact ⟨xs ++ m, by simp⟩
def IsObjStmt (ts : TS) : Prop := ∃ rest, ts = Tok.ident "obj" :: dot :: rest ∧ EndsSemi rest

theorem bind_ok_iff {α β : Type} (x : E α) (g : α → E β) (b : β) :
    (x >>= g) = .ok b ↔ ∃ a, x = .ok a ∧ g a = .ok b := by
  cases x <;> simp [bind, Except.bind]

macro "ends_semi" : tactic => `(tactic| (repeat (first | exact EndsSemi.single | apply EndsSemi.cons | apply EndsSemi.append)))

/-- C17 (statement dialect): in a body assembled on a default value (`hasPostInit`: a parameterless `#[parent]` member is
    present) *every* member line of an Into / TryInto conversion — whatever the member's name kind, its instruction, the
    counterpart's shape hint, nested-parent context and position — is one statement `obj. … ;`, never an initialiser
    fragment `name: value,` / `value,`. (Members carrying a `#[parent]` instruction are skipped by the caller in Into
    conversions, hence the hypothesis; three arms violated this on the pinned tree: fix bed8f1e.) -/
theorem C17_post_init_line_is_statement (f : Field) (ctx : ImplContext) (hint : TypeHint) (idx : Nat) (pc : Option ParentChildField) (ts : TS)
    (hk : ctx.kind.cls = .into) (hp : ctx.hasPostInit = true) (hu : hint ≠ .unit)
    (hpa : f.attrs.hasParentAttr ctx.ty = false)
    (h : renderStructLine f ctx hint idx pc = .ok ts) : IsObjStmt ts := by
  unfold renderStructLine at h
  simp only [hk, hp, hpa] at h
  split at h
  all_goals try (rename_i heq; cases heq; done)
  all_goals try (exfalso; exact hu rfl; done)
  all_goals try (simp [bind, Except.bind, pure, Except.pure, panicAt] at h; done)
  all_goals try (
    simp only [pure, Except.pure, Except.ok.injEq, ↓reduceIte] at h
    subst h
    refine ⟨_, by simp only [i, List.cons_append, List.nil_append, List.append_assoc]; rfl, ?_⟩
    ends_semi
    done)
  all_goals (
    repeat (rw [bind_ok_iff] at h; obtain ⟨_, _, h⟩ := h)
    simp only [pure, Except.pure, Except.ok.injEq, ↓reduceIte] at h
    subst h
    refine ⟨_, by simp only [i, List.cons_append, List.nil_append, List.append_assoc]; rfl, ?_⟩
    ends_semi)

/-- non-vacuity: a named member against a positional counterpart (`as ()`) in such a body — the arm that used to emit
    `self.a,` -/
example : renderStructLine { (default : Field) with member := .named "a", idx := 0 }
    { (default : ImplContext) with kind := .ownedInto, hasPostInit := true } .tuple 2 none
    = .ok [Tok.ident "obj", dot, Tok.lit "2", eq, Tok.ident "self", dot, Tok.ident "a", semi] := by rfl

/-- the type of a nested struct is written in expression form in front of the struct expression that builds it (fix
    380ecc1): the generic arguments of the path's own segments get `::`, nested arguments stay in type form, a turbofish
    that is already there is left alone -/
example : exprPath [i "R", p '<', i "T", p '>'] = [i "R", j ':', p ':', p '<', i "T", p '>'] := rfl
example : exprPath [i "m", j ':', p ':', i "Q", p '<', i "Vec", p '<', i "u8", p '>', p '>']
    = [i "m", j ':', p ':', i "Q", j ':', p ':', p '<', i "Vec", p '<', i "u8", p '>', p '>'] := rfl
example : exprPath [i "R", j ':', p ':', p '<', i "T", p '>'] = [i "R", j ':', p ':', p '<', i "T", p '>'] := rfl
example : exprPath [i "P"] = [i "P"] := rfl

end O2o
