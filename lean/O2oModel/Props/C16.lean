/-
C16 — expansion never panics.
Every partial operation of the Rust sources is inventoried by the translator (Generated.panicSites);
the model either carries it as an explicit `.panic site` outcome or the site is locally guarded.
-/
import O2oModel.Expand
import O2oModel.Props.C15
import O2oModel.Lemmas.NoPanic
namespace O2o

inductive Disposition
  /-- statically total (array indexed through an exhaustive `impl Index`) -/
  | total
  /-- a check in the same expression / statement excludes the failing case -/
  | guarded
  /-- carried by the model as `.error (.panic label)`: reachability is a statement about the model -/
  | modelled
  deriving DecidableEq, Repr

/-- every panic-capable site of attr.rs / ast.rs / validate.rs / expand.rs with what the model does about it -/
def siteTable : List (Gen.Site × Disposition × String) := [
  (⟨"attr.rs", "from", "unwrap(value . segments . last ())"⟩, .guarded, "syn::Path has at least one segment (library invariant)"),
  (⟨"attr.rs", "from", "unwrap(cl . segments . last_mut ())"⟩, .guarded, "syn::Path has at least one segment (library invariant)"),
  (⟨"attr.rs", "iter_for_kind", "index(x . applicable_to [kind])"⟩, .total, "[bool; 6] indexed through `impl Index<&Kind>`: every Kind maps to 0..5"),
  (⟨"attr.rs", "ghosts_attr", "index(x . applicable_to [kind])"⟩, .total, "[bool; 6] indexed through `impl Index<&Kind>`: every Kind maps to 0..5"),
  (⟨"attr.rs", "ghosts_attr", "unwrap(x . attr . container_ty . as_ref ())"⟩, .guarded, "`.is_some() &&` / `.is_none() ||` short-circuits before the unwrap"),
  (⟨"attr.rs", "ghosts_attr", "index(x . applicable_to [kind])"⟩, .total, "[bool; 6] indexed through `impl Index<&Kind>`: every Kind maps to 0..5"),
  (⟨"attr.rs", "where_attr", "unwrap(x . container_ty . as_ref ())"⟩, .guarded, "`.is_some() &&` / `.is_none() ||` short-circuits before the unwrap"),
  (⟨"attr.rs", "child_parents_attr", "unwrap(x . container_ty . as_ref ())"⟩, .guarded, "`.is_some() &&` / `.is_none() ||` short-circuits before the unwrap"),
  (⟨"attr.rs", "parse", "index(repeat_for [idx])"⟩, .guarded, "index comes from `position()` over an array of the same length"),
  (⟨"attr.rs", "iter_for_kind", "index(x . applicable_to [kind])"⟩, .total, "[bool; 6] indexed through `impl Index<&Kind>`: every Kind maps to 0..5"),
  (⟨"attr.rs", "child", "unwrap(x . container_ty . as_ref ())"⟩, .guarded, "`.is_some() &&` / `.is_none() ||` short-circuits before the unwrap"),
  (⟨"attr.rs", "ghost", "index(x . applicable_to [kind])"⟩, .total, "[bool; 6] indexed through `impl Index<&Kind>`: every Kind maps to 0..5"),
  (⟨"attr.rs", "ghost", "unwrap(x . attr . container_ty . as_ref ())"⟩, .guarded, "`.is_some() &&` / `.is_none() ||` short-circuits before the unwrap"),
  (⟨"attr.rs", "ghost", "index(x . applicable_to [kind])"⟩, .total, "[bool; 6] indexed through `impl Index<&Kind>`: every Kind maps to 0..5"),
  (⟨"attr.rs", "lit", "unwrap(x . container_ty . as_ref ())"⟩, .guarded, "`.is_some() &&` / `.is_none() ||` short-circuits before the unwrap"),
  (⟨"attr.rs", "pat", "unwrap(x . container_ty . as_ref ())"⟩, .guarded, "`.is_some() &&` / `.is_none() ||` short-circuits before the unwrap"),
  (⟨"attr.rs", "type_hint", "unwrap(x . container_ty . as_ref ())"⟩, .guarded, "`.is_some() &&` / `.is_none() ||` short-circuits before the unwrap"),
  (⟨"attr.rs", "has_parent_attr", "unwrap(x . container_ty . as_ref ())"⟩, .guarded, "`.is_some() &&` / `.is_none() ||` short-circuits before the unwrap"),
  (⟨"attr.rs", "has_parameterless_parent_attr", "unwrap(x . container_ty . as_ref ())"⟩, .guarded, "`.is_some() &&` / `.is_none() ||` short-circuits before the unwrap"),
  (⟨"attr.rs", "parameterized_parent_attr", "unwrap(x . container_ty . as_ref ())"⟩, .guarded, "`.is_some() &&` / `.is_none() ||` short-circuits before the unwrap"),
  (⟨"attr.rs", "field_attr", "unwrap(x . attr . container_ty . as_ref ())"⟩, .guarded, "`.is_some() &&` / `.is_none() ||` short-circuits before the unwrap"),
  (⟨"attr.rs", "field_attr_core", "unwrap(x . container_ty . as_ref ())"⟩, .guarded, "`.is_some() &&` / `.is_none() ||` short-circuits before the unwrap"),
  (⟨"attr.rs", "merge", "index(repeat . repeat_for [& MemberAttrType :: Attr])"⟩, .total, "fixed array indexed through an `impl Index<&Enum>`"),
  (⟨"attr.rs", "merge", "index(repeat . repeat_for [& MemberAttrType :: Child])"⟩, .total, "fixed array indexed through an `impl Index<&Enum>`"),
  (⟨"attr.rs", "merge", "index(repeat . repeat_for [& MemberAttrType :: Parent])"⟩, .total, "fixed array indexed through an `impl Index<&Enum>`"),
  (⟨"attr.rs", "merge", "index(repeat . repeat_for [& MemberAttrType :: Ghost])"⟩, .total, "fixed array indexed through an `impl Index<&Enum>`"),
  (⟨"attr.rs", "merge", "index(repeat . repeat_for [& MemberAttrType :: TypeHint])"⟩, .total, "fixed array indexed through an `impl Index<&Enum>`"),
  (⟨"attr.rs", "parse", "index(repeat [idx])"⟩, .guarded, "index comes from `position()` over an array of the same length"),
  (⟨"attr.rs", "merge", "index(attr_to_repeat [& TraitAttrType :: Vars])"⟩, .total, "fixed array indexed through an `impl Index<&Enum>`"),
  (⟨"attr.rs", "merge", "index(attr_to_repeat [& TraitAttrType :: Update])"⟩, .total, "fixed array indexed through an `impl Index<&Enum>`"),
  (⟨"attr.rs", "merge", "index(attr_to_repeat [& TraitAttrType :: QuickReturn])"⟩, .total, "fixed array indexed through an `impl Index<&Enum>`"),
  (⟨"attr.rs", "merge", "index(attr_to_repeat [& TraitAttrType :: DefaultCase])"⟩, .total, "fixed array indexed through an `impl Index<&Enum>`"),
  (⟨"attr.rs", "get_ident", "unreachable!(\"16\")"⟩, .modelled, "attr.rs:GhostIdent::get_ident:unreachable(16)"),
  (⟨"attr.rs", "get_child_path_str", "index(self . child_path_str [depth])"⟩, .modelled, "attr.rs:ChildPath::get_child_path_str:index"),
  (⟨"attr.rs", "get_for_kind", "index(x . applicable_to [kind])"⟩, .total, "[bool; 6] indexed through `impl Index<&Kind>`: every Kind maps to 0..5"),
  (⟨"attr.rs", "try_parse_container_ident", "unwrap(input . parse :: < Token ! [|] > ())"⟩, .guarded, "preceded by a successful `peek` of the same token"),
  (⟨"attr.rs", "try_parse_optional_ident", "unwrap(input . parse :: < Token ! [,] > ())"⟩, .guarded, "preceded by a successful `peek` of the same token"),
  (⟨"attr.rs", "try_parse_optional_ident", "unwrap(fork . parse :: < Member > ())"⟩, .guarded, "preceded by a successful `peek` of the same token"),
  (⟨"ast.rs", "named_fields", "panic!(\"Method 'named_fields' is not supposed to be calle)"⟩, .modelled, "ast.rs:DataType::named_fields:panic"),
  (⟨"validate.rs", "validate", "index(x . applicable_to [& Kind :: OwnedInto])"⟩, .total, "[bool; 6] indexed through `impl Index<&Kind>`: every Kind maps to 0..5"),
  (⟨"validate.rs", "validate", "index(x . applicable_to [& Kind :: RefInto])"⟩, .total, "[bool; 6] indexed through `impl Index<&Kind>`: every Kind maps to 0..5"),
  (⟨"validate.rs", "validate", "index(x . applicable_to [& Kind :: OwnedInto])"⟩, .total, "[bool; 6] indexed through `impl Index<&Kind>`: every Kind maps to 0..5"),
  (⟨"validate.rs", "validate", "index(x . applicable_to [& Kind :: RefInto])"⟩, .total, "[bool; 6] indexed through `impl Index<&Kind>`: every Kind maps to 0..5"),
  (⟨"validate.rs", "validate", "index(x . applicable_to [& Kind :: OwnedInto])"⟩, .total, "[bool; 6] indexed through `impl Index<&Kind>`: every Kind maps to 0..5"),
  (⟨"validate.rs", "validate", "index(x . applicable_to [& Kind :: RefInto])"⟩, .total, "[bool; 6] indexed through `impl Index<&Kind>`: every Kind maps to 0..5"),
  (⟨"validate.rs", "validate_error_instrs", "unreachable!(\"13\")"⟩, .guarded, "error_instrs only ever receives Misplaced / Misnamed / UnrecognizedWithError (the model's ErrInstr has exactly these)"),
  (⟨"validate.rs", "validate_member_error_instrs", "unreachable!(\"14\")"⟩, .guarded, "error_instrs only ever receives Misplaced / Misnamed / UnrecognizedWithError (the model's ErrInstr has exactly these)"),
  (⟨"validate.rs", "validate_struct_attrs", "unwrap(attr . err_ty . as_ref ())"⟩, .guarded, "`attr.err_ty.is_some()` checked in the same condition"),
  (⟨"validate.rs", "validate_ghost_attrs", "index(x . applicable_to [kind])"⟩, .total, "[bool; 6] indexed through `impl Index<&Kind>`: every Kind maps to 0..5"),
  (⟨"validate.rs", "validate_ghost_attrs", "index(x . applicable_to [kind])"⟩, .total, "[bool; 6] indexed through `impl Index<&Kind>`: every Kind maps to 0..5"),
  (⟨"validate.rs", "validate_ghost_attrs", "unwrap(ghost_attr . attr . container_ty . as_ref ())"⟩, .guarded, "`.is_some() &&` / `.is_none() ||` short-circuits before the unwrap"),
  (⟨"validate.rs", "validate_parent_member_type", "unwrap(p . container_ty . as_ref ())"⟩, .guarded, "`p.container_ty.is_none() ||` comes first in the same condition"),
  (⟨"validate.rs", "validate_parent_attrs", "unwrap(p . container_ty . as_ref ())"⟩, .guarded, "`.is_some() &&` / `.is_none() ||` short-circuits before the unwrap"),
  (⟨"validate.rs", "validate_parent_attrs", "unwrap(p . container_ty . as_ref ())"⟩, .guarded, "`.is_some() &&` / `.is_none() ||` short-circuits before the unwrap"),
  (⟨"expand.rs", "struct_init_block", "unwrap(group_paths . get (& path))"⟩, .guarded, "`contains_key` checked first"),
  (⟨"expand.rs", "struct_init_block", "unwrap(a . child_fields . as_ref ())"⟩, .guarded, "`parameterized_parent_attr` only returns attrs with `child_fields.is_some()`"),
  (⟨"expand.rs", "struct_init_block_inner", "unwrap(g . child_path . as_ref ())"⟩, .modelled, "expand.rs:struct_init_block_inner:ghost child_path unwrap"),
  (⟨"expand.rs", "struct_init_block_inner", "unreachable!(\"2\")"⟩, .modelled, "expand.rs:struct_init_block_inner:unreachable(2)"),
  (⟨"expand.rs", "variant_destruct_block", "unreachable!(\"3\")"⟩, .guarded, "`attr` is `Some` in the else branch of `attr.is_none()`"),
  (⟨"expand.rs", "variant_destruct_block", "unreachable!(\"4\")"⟩, .modelled, "expand.rs:variant_destruct_block:unreachable(4)"),
  (⟨"expand.rs", "render_child_fragment", "unwrap(depth)"⟩, .guarded, "`depth.is_none() ||` short-circuits"),
  (⟨"expand.rs", "render_child_fragment", "unwrap(ctx . input . get_attrs () . child_parents_attr (& ctx . str)"⟩, .modelled, "expand.rs:render_child_fragment:child_parents_attr unwrap"),
  (⟨"expand.rs", "render_child_fragment", "unwrap(child_parents . find (| child_data | child_data . check_matc)"⟩, .modelled, "expand.rs:render_child_fragment:child_data unwrap"),
  (⟨"expand.rs", "render_parent_child_fragment", "unwrap(depth)"⟩, .guarded, "`depth.is_none() ||` short-circuits"),
  (⟨"expand.rs", "render_parent_child_fragment", "unwrap(parent_child_field . sub_path [depth] . 1 . as_ref ())"⟩, .modelled, "expand.rs:render_parent_child_fragment:sub_path type unwrap"),
  (⟨"expand.rs", "render_parent_child_fragment", "index(parent_child_field . sub_path [depth])"⟩, .modelled, "expand.rs:render_parent_child_fragment:sub_path index"),
  (⟨"expand.rs", "render_parent_child_fragment", "unwrap(field . ty . as_ref ())"⟩, .modelled, "expand.rs:render_parent_child_fragment:field.ty unwrap"),
  (⟨"expand.rs", "struct_post_init", "todo!()"⟩, .modelled, "expand.rs:struct_post_init:todo"),
  (⟨"expand.rs", "render_parent", "unreachable!(\"5\")"⟩, .modelled, "expand.rs:render_parent:unreachable(5)"),
  (⟨"expand.rs", "render_child", "index(child_path . child_path [field_ctx . 1])"⟩, .modelled, "expand.rs:render_child:child_path index"),
  (⟨"expand.rs", "render_child", "unreachable!(\"15\")"⟩, .modelled, "expand.rs:render_child:unreachable(15)"),
  (⟨"expand.rs", "render_struct_line", "unreachable!(\"6\")"⟩, .modelled, "expand.rs:render_struct_line:unreachable(6)"),
  (⟨"expand.rs", "render_enum_line", "todo!()"⟩, .modelled, "expand.rs:render_enum_line:todo"),
  (⟨"expand.rs", "render_ghost_line", "unreachable!(\"7\")"⟩, .modelled, "expand.rs:render_ghost_line:unreachable(7)"),
  (⟨"expand.rs", "render_enum_ghost_line", "unreachable!(\"17\")"⟩, .modelled, "expand.rs:render_enum_ghost_line:unreachable(17)"),
  (⟨"expand.rs", "quote_err_ty", "unwrap(ctx . struct_attr . err_ty . as_ref ())"⟩, .modelled, "expand.rs:quote_try_*_trait:err_ty unwrap"),
  (⟨"expand.rs", "get_ident", "unreachable!(\"8\")"⟩, .modelled, "expand.rs:ApplicableAttr::get_ident:unreachable(8)"),
  (⟨"expand.rs", "get_ident", "unreachable!(\"18\")"⟩, .modelled, "expand.rs:ApplicableAttr::get_ident:unreachable(18)"),
  (⟨"expand.rs", "get_ident", "unreachable!(\"19\")"⟩, .modelled, "expand.rs:ApplicableAttr::get_ident:unreachable(19)"),
  (⟨"expand.rs", "get_ident", "unreachable!(\"9\")"⟩, .modelled, "expand.rs:ApplicableAttr::get_ident:unreachable(9)"),
  (⟨"expand.rs", "get_field_name_or", "unreachable!(\"10\")"⟩, .modelled, "expand.rs:ApplicableAttr::get_field_name_or:unreachable(10)"),
  (⟨"expand.rs", "get_stuff", "unwrap(attr)"⟩, .guarded, "`attr.is_some_and(..)` checked in the condition"),
  (⟨"expand.rs", "get_stuff", "unwrap(ghost_attr . action . as_ref ())"⟩, .modelled, "expand.rs:ApplicableAttr::get_stuff:ghost action unwrap")]

/-- C16-1: the inventory regenerated from the sources is exactly the table the model was written against.
    A new `unwrap()` / `todo!()` / index / `panic!` anywhere in the non-test sources breaks this obligation. -/
theorem C16_inventory : Gen.panicSites = siteTable.map (·.1) := by decide +kernel

/-- the labels the model can answer `.panic` with -/
def modelledLabels : List String := (siteTable.filter (·.2.1 == .modelled)).map (·.2.2)

/-- C16-2 (site `render_parent:unreachable(5)`): never reached — `struct_post_init` only calls it for Into kinds -/
theorem C16_site_render_parent (f : Field) (ctx : ImplContext) (h : ctx.kind.isFrom = false) :
    ∃ ts, renderParent f ctx = .ok ts := by
  unfold renderParent
  cases hk : ctx.kind <;> cases hf : ctx.fallible <;> simp_all [Kind.isFrom]

/-- C16-2 (site `render_ghost_line:unreachable(7)`): not reached for Into / IntoExisting kinds with a member ghost -/
theorem C16_site_render_ghost_line (g : GhostData) (ctx : ImplContext) (m : Member)
    (h : ctx.kind.isFrom = false) (hm : g.ghostIdent = .member m) :
    ∃ ts, renderGhostLine g ctx = .ok ts := by
  unfold renderGhostLine
  simp only [hm, GhostIdent.getIdent]
  cases hk : ctx.kind <;> cases m <;> cases hp : ctx.hasPostInit <;> simp_all [Kind.isFrom, Kind.cls, Kind.isIntoExisting, bind, Except.bind, pure, Except.pure]

/-- C16-2 (the three `err_ty.unwrap()` sites): not reached when the instruction carries an error type -/
theorem C16_site_err_ty (ctx : ImplContext) (t : TypePath) (h : ctx.structAttr.errTy = some t) :
    ∃ ts, errTyPath ctx = .ok ts := by
  simp [errTyPath, h]

/-- C16-5 for the outermost shape: a union is answered with a diagnostic -/
theorem C16_union (b : Back) (node : RawInput) (h : node.body = .union) :
    derive b node = .err ["#[derive(o2o)] only supports structs and enums."] := by
  simp [derive, h]

/-- `derive` is total: it always yields one of the five outcomes (Lean functions terminate; every loop of the
    expander is structural recursion on explicit fuel, and running out of fuel is reported as `unsupported`,
    never as agreement) -/
theorem C16_outcome_cases (b : Back) (node : RawInput) :
    (∃ ts, derive b node = .ok ts) ∨ (∃ ms, derive b node = .err ms) ∨ derive b node = .libErr ∨
    (∃ s, derive b node = .panic s) ∨ (∃ w, derive b node = .unsupported w) := by
  cases h : derive b node with
  | ok ts => exact Or.inl ⟨ts, rfl⟩
  | err ms => exact Or.inr (Or.inl ⟨ms, rfl⟩)
  | libErr => exact Or.inr (Or.inr (Or.inl rfl))
  | panic s => exact Or.inr (Or.inr (Or.inr (Or.inl ⟨s, rfl⟩)))
  | unsupported w => exact Or.inr (Or.inr (Or.inr (Or.inr ⟨w, rfl⟩)))

/-- C16 (sites `err_ty.unwrap()` in the three fallible skeletons): an input that validation accepts never reaches them -/
theorem C16_err_ty_sites_unreachable (input : DataType) (ctx : ImplContext)
    (hv : validate input = []) (hc : ctx ∈ implContexts input) (hf : ctx.fallible = true) :
    ∃ ts, errTyPath ctx = .ok ts := by
  unfold implContexts at hc
  simp only [List.mem_flatMap, List.mem_map] at hc
  obtain ⟨⟨k, f⟩, hkf, sa, hsa, rfl⟩ := hc
  simp only at hf
  subst hf
  cases herr : sa.errTy with
  | some t =>
    refine ⟨t.path ++ (match t.generics with | some g => g.toTS | none => []), ?_⟩
    simp only [errTyPath, herr]
    rfl
  | none =>
    have hk : k ∈ validateKinds := by
      cases k <;> simp [validateKinds]
    have := C15_complete_R3a_validate input k sa hk hsa herr
    rw [hv] at this
    cases this

/-! ### the `Ghost` arms of `get_field_name_or` / `get_ident` (`unreachable!("10")`, `("9")`) -/

/-- the applicable instruction is a ghost exactly when the ghost lookup succeeds -/
theorem applicableAttr_ghost_iff (a : MemberAttrs) (k : Kind) (fallible : Bool) (ty : TypePath) (g : FieldGhostAttrCore) :
    a.applicableAttr k fallible ty = some (.ghost g) ↔ a.ghost ty k = some g := by
  unfold MemberAttrs.applicableAttr
  cases hg : a.ghost ty k with
  | some g' => simp [HOrElse.hOrElse, OrElse.orElse, Option.orElse]
  | none =>
    simp only [Option.map_none, HOrElse.hOrElse, OrElse.orElse, Option.orElse]
    constructor
    · intro h
      cases hx : ((a.fieldAttrCore k fallible ty).orElse fun _ => if fallible = true then a.fieldAttrCore k false ty else none) with
      | _ => simp_all [Option.map, Option.orElse] <;> (split at h <;> simp at h)
    · intro h; cases h

/-- C16 (struct members): a member that takes part in an Into / IntoExisting conversion has no ghost as its
    applicable instruction — so the `Ghost` arms of `get_field_name_or` (`unreachable!("10")`) and `get_action_or`
    cannot be entered from `render_struct_line`'s Into / IntoExisting arms -/
theorem C16_member_not_ghost (ctx : ImplContext) (f : Field) (hk : ctx.kind.isFrom = false) (hs : fieldSkipped ctx f = false)
    (g : FieldGhostAttrCore) : f.attrs.applicableAttr ctx.kind ctx.fallible ctx.ty ≠ some (.ghost g) := by
  intro h
  have hg := (applicableAttr_ghost_iff _ _ _ _ g).mp h
  simp [fieldSkipped, hk, hg] at hs

/-- C16 (variants, From side): a variant that contributes an arm to a From conversion has no ghost as its applicable
    instruction — so `render_enum_line`'s From arm never enters the `Ghost` arms of `get_action_or` /
    `get_field_name_or` -/
theorem C16_variant_not_ghost_from (ctx : ImplContext) (v : Variant) (hk : ctx.kind.isFrom = true) (hc : variantContributes ctx v = true)
    (g : FieldGhostAttrCore) : v.attrs.applicableAttr ctx.kind ctx.fallible ctx.ty ≠ some (.ghost g) := by
  intro h
  have hg := (applicableAttr_ghost_iff _ _ _ _ g).mp h
  simp [variantContributes, hk, hg] at hc

/-- C16 (site `get_stuff: ghost_attr.action.unwrap()`, struct members): a member that contributes a line to a From
    conversion and whose applicable instruction is a ghost has a default value — a bare `#[ghost]` member leaves no
    line (its value comes from the `..update`) — so `get_stuff`'s `Ghost` arm never unwraps `None` there -/
theorem C16_site_get_stuff_ghost (ctx : ImplContext) (f : Field) (hk : ctx.kind.isFrom = true) (hs : fieldSkipped ctx f = false)
    (g : FieldGhostAttrCore) (ha : f.attrs.applicableAttr ctx.kind ctx.fallible ctx.ty = some (.ghost g))
    (obj : TS) (fp : Member → TS) (or : Member) :
    ∃ ts, (ApplicableAttr.ghost g).getStuff obj fp ctx or = .ok ts := by
  have hg := (applicableAttr_ghost_iff _ _ _ _ g).mp ha
  simp only [fieldSkipped, hk, ghostNoDefault, hg, Bool.not_true, Bool.false_and, Bool.true_and, Bool.false_or] at hs
  cases hact : g.action with
  | none => simp [hact] at hs
  | some act => exact ⟨quoteAction act none ctx, by simp [ApplicableAttr.getStuff, hact]⟩

/-- the two accessors are total on every instruction that is not a ghost -/
theorem C16_accessors_total (a : ApplicableAttr) (hng : ∀ g, a ≠ .ghost g) (m : Member) (fp : Option TS) (ctx : ImplContext) (or : TS) :
    (∃ x, a.getFieldNameOr m = .ok x) ∧ (∃ ts, a.getActionOr fp ctx or = .ok ts) := by
  cases a with
  | ghost g => exact absurd rfl (hng g)
  | field c =>
    constructor
    · simp only [ApplicableAttr.getFieldNameOr]; exact ⟨_, rfl⟩
    · simp only [ApplicableAttr.getActionOr]; split <;> exact ⟨_, rfl⟩
  | parentChildField pc k =>
    constructor
    · simp only [ApplicableAttr.getFieldNameOr]; split <;> exact ⟨_, rfl⟩
    · simp only [ApplicableAttr.getActionOr]; repeat' split
      all_goals exact ⟨_, rfl⟩

/-- since fix 597b696 `get_action_or` is total on every instruction -/
theorem C16_getActionOr_total (a : ApplicableAttr) (fp : Option TS) (ctx : ImplContext) (or : TS) : ∃ ts, a.getActionOr fp ctx or = .ok ts := by
  cases a <;> simp only [ApplicableAttr.getActionOr] <;> repeat' split
  all_goals exact ⟨_, rfl⟩

/-! ### `unreachable!("17")`: an index in an enum-level `#[ghosts]` (since fix ebe9216 reported by validation) -/

theorem enumGhostIdentPass_ext (g : GhostData) (es : Errors) (m : String) (hm : m ∈ es) : m ∈ enumGhostIdentPass g es := by
  unfold enumGhostIdentPass
  repeat' split
  all_goals first | exact mem_insert_of_mem _ _ _ hm | exact hm

/-- C16 (site `render_enum_ghost_line:unreachable(17)`): an enum that validation accepts never reaches it — every
    entry of every enum-level `#[ghosts]` instruction names a variant (or a destructuring pattern), whatever the
    conversion kind -/
theorem C16_site_17_unreachable (e : Enum) (hv : validate (.enum e) = []) (ga : GhostsAttr) (hga : ga ∈ e.attrs.ghostsAttrs)
    (g : GhostData) (hg : g ∈ ga.attr.ghostData) (ctx : ImplContext) :
    ∃ ts, renderEnumGhostLine g ctx = .ok ts := by
  cases hid : g.ghostIdent with
  | destruction d => unfold renderEnumGhostLine; simp only [hid]; split <;> exact ⟨_, rfl⟩
  | member m =>
    cases m with
    | named n => unfold renderEnumGhostLine; simp only [hid]; split <;> exact ⟨_, rfl⟩
    | unnamed n =>
      exfalso
      have hmem : g ∈ (DataType.enum e).attrs.ghostsAttrs.flatMap (fun x => x.attr.ghostData) :=
        List.mem_flatMap.mpr ⟨ga, hga, hg⟩
      have : "Enum-level #[ghosts(...)] should name a variant of the other type, not an index." ∈ validate (.enum e) := by
        unfold validate
        simp only
        apply mem_foldl_of_mem _ _ _ _ (fun v es hm => ext_validateVariantFields v _ es _ hm)
        exact mem_foldl_of_step _ _ _ _ g hmem (fun y es hm => enumGhostIdentPass_ext y es _ hm)
          (fun es => by unfold enumGhostIdentPass; simp only [hid]; exact mem_insert_self _ _)
      rw [hv] at this
      cases this

/-! ### `unreachable!("16")`: a destructuring pattern in struct-level / variant-level `#[ghosts]` (since fix 54c4df8 reported) -/

/-- C16 (site `GhostIdent::get_ident:unreachable(16)`, struct level): in a struct that validation accepts every entry of
    every type-level `#[ghosts]` instruction names a member, so `get_ident` answers for it -/
theorem C16_site_16_struct (s : Struct) (hv : validate (.struct s) = []) (ga : GhostsAttr) (hga : ga ∈ s.attrs.ghostsAttrs)
    (g : GhostData) (hg : g ∈ ga.attr.ghostData) : ∃ m, g.ghostIdent.getIdent = .ok m := by
  cases hid : g.ghostIdent with
  | member m => exact ⟨m, rfl⟩
  | destruction d =>
    exfalso
    have hmem : g ∈ (DataType.struct s).attrs.ghostsAttrs.flatMap (fun x => x.attr.ghostData) :=
      List.mem_flatMap.mpr ⟨ga, hga, hg⟩
    have : "Struct-level #[ghosts(...)] should name a member of the other type, not a pattern." ∈ validate (.struct s) := by
      unfold validate validateEnd
      simp only
      apply ext_validateFields
      exact mem_foldl_of_step _ _ _ _ g hmem (fun y es hm => ext_ghostPatternPass _ y es _ hm)
        (fun es => by unfold ghostPatternPass; simp only [hid]; exact mem_insert_self _ _)
    rw [hv] at this
    cases this

/-- C16 (site `GhostIdent::get_ident:unreachable(16)`, variant level): in an enum that validation accepts every entry
    of every variant-level `#[ghosts]` instruction names a member -/
theorem C16_site_16_variant (e : Enum) (hv : validate (.enum e) = []) (v : Variant) (hvm : v ∈ e.variants)
    (ga : GhostsAttr) (hga : ga ∈ v.attrs.ghostsAttrs) (g : GhostData) (hg : g ∈ ga.attr.ghostData) :
    ∃ m, g.ghostIdent.getIdent = .ok m := by
  cases hid : g.ghostIdent with
  | member m => exact ⟨m, rfl⟩
  | destruction d =>
    exfalso
    have hmem : g ∈ v.attrs.ghostsAttrs.flatMap (fun x => x.attr.ghostData) := List.mem_flatMap.mpr ⟨ga, hga, hg⟩
    have hmember : DataTypeMember.variant v ∈ (DataType.enum e).members := by
      simp only [DataType.members, List.mem_map]
      exact ⟨v, hvm, rfl⟩
    have : "Variant-level #[ghosts(...)] should name a member of the other type's variant, not a pattern." ∈ validate (.enum e) := by
      unfold validate
      simp only
      apply ext_validateEnd
      refine mem_foldl_of_step _ _ _ _ (DataTypeMember.variant v) hmember
        (fun y es hm => ext_validateMember _ _ _ _ y es _ hm) (fun es => ?_)
      unfold validateMember
      simp only
      apply ext_validateMemberErrorInstrs
      refine mem_foldl_of_mem _ _ _ _ (fun f es hm => ?_) ?_
      · apply ext_validateMemberErrorInstrs
        apply ext_validateDedicatedMemberAttrs
        apply ext_validateDedicatedMemberAttrs
        apply ext_parentTypePass
        apply ext_validateParentAttrs
        apply ext_barkAtMemberAttr
        exact hm
      · apply ext_validateDedicatedMemberAttrs
        apply ext_validateDedicatedMemberAttrs
        apply ext_validateDedicatedMemberAttrs
        exact mem_foldl_of_step _ _ _ _ g hmem
          (fun y es hm => ext_variantGhostChildPass y _ _ (ext_ghostPatternPass _ y es _ hm))
          (fun es => ext_variantGhostChildPass g _ _ (by unfold ghostPatternPass; simp only [hid]; exact mem_insert_self _ _))
    rw [hv] at this
    cases this

/-! ### `unreachable!("2")` / `("15")` through `as Unit` on a `#[child_parents]` entry (since fix 978c78a reported) -/

def unitHintMsg : String :=
  "Type hint 'as Unit' is not supported in #[child_parents(...)]: members are flattened into the nested struct."

theorem childParents_unit_reported (cas : List ChildParentsAttr) (tps : List TypePath) (es : Errors)
    (ca : ChildParentsAttr) (hca : ca ∈ cas) (cd : ChildParentData) (hcd : cd ∈ ca.childParents) (hu : cd.typeHint = .unit) :
    unitHintMsg ∈ validateChildParentsAttrs cas tps es := by
  obtain ⟨pre, post, rfl⟩ := List.append_of_mem hca
  obtain ⟨pre', post', hcp⟩ := List.append_of_mem hcd
  unfold validateChildParentsAttrs
  apply foldl_snd_mem_of_step pre post ca
  · intro x s es m hm
    simp only
    apply ext_foldl_snd x.childParents
    · intro cd s es m hm
      simp only
      have h1 : m ∈ (if s.contains cd.fieldPathStr then es.insert "Ident here must be unique." else es) := by
        split
        · exact mem_insert_of_mem _ _ _ hm
        · exact hm
      split
      · exact mem_insert_of_mem _ _ _ h1
      · exact h1
    · split
      · simp only
        repeat' split
        all_goals ext_tac
      · exact hm
  · intro s es
    simp only
    rw [hcp]
    apply foldl_snd_mem_of_step pre' post' cd
    · intro cd s es m hm
      simp only
      have h1 : m ∈ (if s.contains cd.fieldPathStr then es.insert "Ident here must be unique." else es) := by
        split
        · exact mem_insert_of_mem _ _ _ hm
        · exact hm
      split
      · exact mem_insert_of_mem _ _ _ h1
      · exact h1
    · intro s es
      simp only [hu, beq_self_eq_true, ↓reduceIte]
      exact mem_insert_self _ _

/-- C16 (sites `struct_init_block_inner:unreachable(2)` and `render_child:unreachable(15)` via nested structs): an input
    that validation accepts has no `#[child_parents]` entry hinted `as Unit`, so no nested struct is ever rendered with
    the unit shape -/
theorem C16_child_hint_not_unit (input : DataType) (hv : validate input = [])
    (ca : ChildParentsAttr) (hca : ca ∈ input.attrs.childParentsAttrs) (cd : ChildParentData) (hcd : cd ∈ ca.childParents) :
    cd.typeHint ≠ .unit := by
  intro hu
  have : unitHintMsg ∈ validate input := by
    unfold validate
    simp only
    have h2 := childParents_unit_reported input.attrs.childParentsAttrs (input.attrs.attrs.map (·.core.ty))
      (validateKinds.foldl (fun es k => validateGhostAttrs k input.attrs.ghostsAttrs (input.attrs.attrs.map (·.core.ty)) es)
        (validateKinds.foldl (fun es k => validateStructAttrs (input.attrs.iterForKindCore k true) true es)
          (validateKinds.foldl (fun es k => validateStructAttrs (input.attrs.iterForKindCore k false) false es)
            (validateErrorInstrs input.isEnum input.attrs.errorInstrs
              (if input.attrs.attrs.isEmpty then ["At least one trait instruction is expected."] else [])))))
      ca hca cd hcd hu
    have h3 := ext_validateWhereAttrs input.attrs.whereAttrs (input.attrs.attrs.map (·.core.ty)) _ _ h2
    have h3' := mem_foldl_of_mem (attrsByKind input.attrs) (updatePass input) _ _ (fun x es hm => ext_updatePass input x es _ hm) h3
    have h4 := mem_foldl_of_mem input.members
      (validateMember input input.isEnum (input.attrs.attrs.map (·.core.ty)) (attrsByKind input.attrs)) _ _
      (fun member es hm => ext_validateMember _ _ _ _ member es _ hm) h3'
    exact ext_validateEnd input _ _ _ _ h4
  rw [hv] at this
  cases this

/-! ### the two `unwrap()`s of `render_child_fragment` for struct-level ghosts addressed to a nested struct -/

/-- what `check_child_errors` says about one level of a path -/
def childLevelMsg (dta : DataTypeAttrs) (tp : TypePath) (path : String) : Option String :=
  match dta.childParentsAttr tp with
  | some ca => if !ca.childParents.any (fun x => x.fieldPathStr == path) then some ("Missing '" ++ path ++ ": [Type Path]' instruction for type " ++ tp.pathStr) else none
  | none => some ("Missing #[child_parents(...)] instruction for " ++ tp.pathStr)

theorem checkChildPath_reports (cp : ChildPath) (dta : DataTypeAttrs) (tp : TypePath) (path : String) (hp : path ∈ cp.strs)
    (msg : String) (hm : childLevelMsg dta tp path = some msg) (es : Errors) : msg ∈ checkChildPathErrors cp dta tp es := by
  unfold checkChildPathErrors
  simp only
  refine mem_foldl_of_step _ _ _ _ path hp (fun y es hm => ?_) (fun es => ?_)
  · split
    · split
      · exact mem_insert_of_mem _ _ _ hm
      · exact hm
    · exact mem_insert_of_mem _ _ _ hm
  · unfold childLevelMsg at hm
    cases hc : dta.childParentsAttr tp with
    | none => simp only [hc, Option.some.injEq] at hm; subst hm; simp only; exact mem_insert_self _ _
    | some ca =>
      simp only [hc] at hm
      simp only
      split at hm
      · rename_i hany
        simp only [Option.some.injEq] at hm; subst hm
        simp only [hany, if_true]
        exact mem_insert_self _ _
      · cases hm

/-- C16 (sites `render_child_fragment: child_parents_attr(..).unwrap()` and `.find(..).unwrap()` for struct-level ghosts, since
    fix a4ff391): in a struct that validation accepts, every level of the path a type-level ghost of an Into conversion is
    addressed to has its `#[child_parents]` entry -/
theorem C16_ghost_child_paths_declared (s : Struct) (hv : validate (.struct s) = [])
    (a : TraitAttrCore) (k : Kind) (hx : (a, k) ∈ attrsByKind s.attrs) (hf : k.isFrom = false) (he : k.isIntoExisting = false)
    (ga : StructGhostAttrCore) (hga : s.attrs.ghostsAttr a.ty k = some ga) (g : GhostData) (hg : g ∈ ga.ghostData)
    (cp : ChildPath) (hcp : g.childPath = some cp) (path : String) (hp : path ∈ cp.strs) :
    childLevelMsg s.attrs a.ty path = none := by
  cases hm : childLevelMsg s.attrs a.ty path with
  | none => rfl
  | some msg =>
    exfalso
    have hcpm : cp ∈ ga.ghostData.filterMap (·.childPath) := List.mem_filterMap.mpr ⟨g, hg, hcp⟩
    have : msg ∈ validate (.struct s) := by
      unfold validate validateEnd
      simp only
      unfold validateFields
      simp only
      have hstep : ∀ es, msg ∈ ghostChildPass (DataType.struct s).attrs es (a, k) := by
        intro es
        unfold ghostChildPass
        simp only [hf, he, Bool.not_false, Bool.and_self, if_true]
        have hga' : (DataType.struct s).attrs.ghostsAttr a.ty k = some ga := hga
        simp only [hga']
        exact mem_foldl_of_step _ _ _ _ cp hcpm (fun y es hm => ext_checkChildPathErrors y _ _ es _ hm)
          (fun es => checkChildPath_reports cp _ a.ty path hp msg hm es)
      split
      · refine mem_foldl_of_mem _ _ _ _ (fun x es hm => ext_namePass s x.1.core x.2 x.1.fallible es _ hm) ?_
        refine mem_foldl_of_mem _ _ _ _ (fun y es hm => ext_childBareParentPass s y es _ hm) ?_
        exact mem_foldl_of_step _ _ _ _ (a, k) hx (fun y es hm => ext_ghostChildPass _ y es _ hm) hstep
      · refine mem_foldl_of_mem _ _ _ _ (fun y es hm => ext_childBareParentPass s y es _ hm) ?_
        exact mem_foldl_of_step _ _ _ _ (a, k) hx (fun y es hm => ext_ghostChildPass _ y es _ hm) hstep
    rw [hv] at this
    cases this
/-! ### `get_stuff` (since fix 76b7206 total: a member instruction that says nothing means the default mapping) -/

/-- C16 (former site `get_stuff:unreachable(12)`): the value of a mapped member is defined for every combination of
    member name / expression, in every context -/
theorem C16_getStuffInner_total (m : Option Member) (a : Option TS) (obj : TS) (fp : Member → TS) (ctx : ImplContext) (or : Member) :
    ∃ ts, getStuffInner m a obj fp ctx or = .ok ts := by
  unfold getStuffInner
  repeat' split
  all_goals exact ⟨_, rfl⟩

/-- C16 (site `render_parent_child_fragment: field.ty.unwrap()`, since fix 0466684 reported): in an input that validation
    accepts, a member with a `#[parent(..)]` list that some From conversion has to construct has a path type -/
theorem C16_parent_member_has_type (input : DataType) (hv : validate input = []) (f : Field) (hf : DataTypeMember.field f ∈ input.members)
    (hp : f.attrs.parentAttrs.any (parentNeedsType (attrsByKind input.attrs)) = true) :
    f.ty.isSome = true := by
  cases hty : f.ty with
  | some t => rfl
  | none =>
    exfalso
    have : ("Type of member " ++ f.member.str ++ " should be a path to a struct: #[parent(...)] constructs it in 'from' conversions.") ∈ validate input := by
      unfold validate
      simp only
      apply ext_validateEnd
      refine mem_foldl_of_step _ _ _ _ (DataTypeMember.field f) hf (fun y es hm => ext_validateMember _ _ _ _ y es _ hm) (fun es => ?_)
      unfold validateMember
      simp only
      apply ext_validateMemberErrorInstrs
      unfold parentTypePass
      have hc : (f.ty.isNone && f.attrs.parentAttrs.any (parentNeedsType (attrsByKind input.attrs))) = true := by
        rw [hty, hp]; rfl
      rw [if_pos hc]
      exact mem_insert_self _ _
    rw [hv] at this
    cases this

/-! ### `struct_init_block_inner: g.child_path.as_ref().unwrap()` — a struct-level ghost entry in the member list -/

theorem mem_insertByGr (x y : FieldContainer) (l : List FieldContainer) : y ∈ insertByGr x l → y = x ∨ y ∈ l := by
  induction l with
  | nil => intro h; simp [insertByGr] at h; exact Or.inl h
  | cons z zs ih =>
    unfold insertByGr
    split
    · intro h; simpa using h
    · intro h
      rcases List.mem_cons.mp h with h | h
      · exact Or.inr (by simp [h])
      · rcases ih h with h | h
        · exact Or.inl h
        · exact Or.inr (List.mem_cons_of_mem _ h)

theorem mem_sortByGr (y : FieldContainer) (l : List FieldContainer) : y ∈ sortByGr l → y ∈ l := by
  induction l with
  | nil => intro h; simp [sortByGr] at h
  | cons x xs ih =>
    intro h
    simp only [sortByGr, List.foldr_cons] at h
    rcases mem_insertByGr x y _ h with h | h
    · simp [h]
    · exact List.mem_cons_of_mem _ (ih h)

/-- the grouping state: the root key `""` is present from the start and stays, and every struct-level ghost entry that
    made it into the list has a child path -/
def GroupInv (st : GroupPaths × List FieldContainer) : Prop :=
  (st.1.find? (·.1 == "")).isSome = true ∧
    ∀ fc ∈ st.2, ∀ g, fc.fieldData = .ghostData g → g.childPath.isSome = true

theorem makeTuple_keeps_root (gp : GroupPaths) (path : String) (fd : FieldData) (h : (gp.find? (·.1 == "")).isSome = true) :
    ((makeTuple gp path fd).1.find? (·.1 == "")).isSome = true := by
  unfold makeTuple
  split
  · exact h
  · simp only [List.find?_append]
    cases hf : gp.find? (·.1 == "") with
    | none => simp [hf] at h
    | some v => simp

theorem makeTuple_data (gp : GroupPaths) (path : String) (fd : FieldData) : (makeTuple gp path fd).2.1.fieldData = fd := by
  unfold makeTuple
  split <;> rfl

theorem groupInv_parentChild (x : Field) (ps : List ParentChildField) (st : GroupPaths × List FieldContainer) (h : GroupInv st) :
    GroupInv (ps.foldl (parentChildGroupStep x) st) := by
  induction ps generalizing st with
  | nil => exact h
  | cons pc rest ih =>
    apply ih
    refine ⟨makeTuple_keeps_root _ _ _ h.1, ?_⟩
    intro fc hfc g hg
    simp only [parentChildGroupStep, List.mem_append, List.mem_singleton] at hfc
    rcases hfc with hfc | hfc
    · exact h.2 fc hfc g hg
    · subst hfc
      rw [makeTuple_data] at hg
      cases hg

theorem groupInv_field (ctx : ImplContext) (st : GroupPaths × List FieldContainer) (x : Field) (h : GroupInv st) :
    GroupInv (fieldGroupStep ctx st x) := by
  unfold fieldGroupStep
  split
  · exact groupInv_parentChild x _ st h
  · refine ⟨makeTuple_keeps_root _ _ _ h.1, ?_⟩
    intro fc hfc g hg
    simp only [List.mem_append, List.mem_singleton] at hfc
    rcases hfc with hfc | hfc
    · exact h.2 fc hfc g hg
    · subst hfc
      rw [makeTuple_data] at hg
      cases hg

theorem groupInv_ghost (st : GroupPaths × List FieldContainer) (g : GhostData) (h : GroupInv st) :
    GroupInv (ghostGroupStep st g) := by
  unfold ghostGroupStep
  refine ⟨makeTuple_keeps_root _ _ _ h.1, ?_⟩
  intro fc hfc g' hg'
  simp only [] at hfc
  split at hfc
  · rename_i hnew
    simp only [List.mem_append, List.mem_singleton] at hfc
    rcases hfc with hfc | hfc
    · exact h.2 fc hfc g' hg'
    · subst hfc
      rw [makeTuple_data] at hg'
      cases hg'
      -- the entry opened a group of its own: its key is not the root key, so it has a child path
      cases hcp : g.childPath with
      | some c => rfl
      | none =>
        exfalso
        have hkey : ghostPathKey g = "" := by simp [ghostPathKey, hcp]
        unfold makeTuple at hnew
        rw [hkey] at hnew
        cases hf : st.1.find? (·.1 == "") with
        | none => have := h.1; simp [hf] at this
        | some v => simp [hf] at hnew
  · exact h.2 fc hfc g' hg'

theorem foldl_inv {α β : Type} (P : β → Prop) (f : β → α → β) (hstep : ∀ b a, P b → P (f b a)) :
    ∀ (l : List α) (b : β), P b → P (l.foldl f b) := by
  intro l
  induction l with
  | nil => intro b hb; exact hb
  | cons a rest ih => intro b hb; exact ih _ (hstep b a hb)

/-- C16 (site `struct_init_block_inner: g.child_path.as_ref().unwrap()`): never reached, for any struct and any
    conversion — a struct-level ghost entry stands in the member list handed to the descent only when it opened a group
    of its own, and an entry without a child path has the root's key, which is there from the start -/
theorem C16_site_ghost_child_path (input : Struct) (ctx : ImplContext) (fc : FieldContainer) (g : GhostData)
    (hfc : fc ∈ groupedMembers input ctx) (hg : fc.fieldData = .ghostData g) : g.childPath.isSome = true := by
  unfold groupedMembers at hfc
  have h0 : GroupInv (([("", 0)], []) : GroupPaths × List FieldContainer) := ⟨by decide, by simp⟩
  have h1 := foldl_inv GroupInv (fieldGroupStep ctx) (fun b a hb => groupInv_field ctx b a hb) input.fields _ h0
  have h2 := foldl_inv GroupInv ghostGroupStep (fun b a hb => groupInv_ghost b a hb)
    ((input.attrs.ghostsAttr ctx.ty ctx.kind).toList.flatMap (·.ghostData)) _ h1
  exact h2.2 fc (mem_sortByGr fc _ hfc) g hg

/-! ### `unreachable!("4")` and `unreachable!("9")` -/

/-- C16 (site `variant_destruct_block:unreachable(4)`): never reached, for any variant and any conversion — the shape
    computed in the first step is `struct`, `unit` or `tuple`, never left unspecified -/
theorem C16_site_4_unreachable (input : Struct) (ctx : ImplContext) :
    variantDestructBlock input ctx ≠ .error (.panic "expand.rs:variant_destruct_block:unreachable(4)") :=
  vdb_np4 input ctx

theorem cls_not_from (k : Kind) (h : k.cls = .into ∨ k.cls = .existing) : k.isFrom = false := by
  cases hf : k.isFrom with
  | false => rfl
  | true => simp [Kind.cls, hf] at h

/-- C16 (site `get_ident:unreachable(9)`): `render_struct_line` never reaches it for a member that contributes a line
    (nor for a nested member of a `#[parent(..)]` list) — `get_ident` is only asked in the Into / IntoExisting arms
    of a positional member under a struct-shaped counterpart, where the applicable instruction is never a ghost -/
theorem C16_site_9_unreachable (f : Field) (ctx : ImplContext) (hint : TypeHint) (idx : Nat) (pc : Option ParentChildField)
    (hs : pc = none → fieldSkipped ctx f = false) :
    renderStructLine f ctx hint idx pc ≠ .error (.panic "expand.rs:ApplicableAttr::get_ident:unreachable(9)") := by
  show NP _ _
  unfold renderStructLine
  simp only []
  repeat' (first
    | exact getStuff_np _ (by decide) _ _ _ _ _
    | exact getActionOr_np _ _ _ _ _
    | exact getFieldNameOr_np _ (by decide) _ _
    | np_step)
  all_goals
    rename_i hattr hcls
    apply getIdent_np9
    intro g hg
    subst hg
    cases pc with
    | some p => simp at hattr
    | none =>
      exact C16_member_not_ghost ctx f (cls_not_from _ (by simp [hcls])) (hs rfl) g hattr

/-! ### every panic a member line can end in -/

theorem orElse_map_cases (o1 : Option FieldGhostAttrCore) (o2 : Option MemberAttrCore) (v : ApplicableAttr)
    (h : ((o1.map ApplicableAttr.ghost) <|> (o2.map ApplicableAttr.field)) = some v) :
    (∃ g, v = .ghost g) ∨ (∃ c, v = .field c) := by
  cases o1 with
  | some g => simp at h; exact Or.inl ⟨g, h.symm⟩
  | none =>
    cases o2 with
    | some c => simp at h; exact Or.inr ⟨c, h.symm⟩
    | none => simp at h

theorem applicableAttr_not_pc (a : MemberAttrs) (k : Kind) (fallible : Bool) (ty : TypePath) (p : ParentChildField) (k' : Kind) :
    a.applicableAttr k fallible ty ≠ some (.parentChildField p k') := by
  intro h
  unfold MemberAttrs.applicableAttr at h
  rcases orElse_map_cases _ _ _ h with ⟨g, hg⟩ | ⟨c, hc⟩
  · cases hg
  · cases hc

theorem cls_from (k : Kind) (h : k.cls = .from_) : k.isFrom = true := by
  cases hf : k.isFrom with
  | true => rfl
  | false => simp [Kind.cls, hf] at h; split at h <;> cases h

/-- the applicable instruction of a member that contributes a line, seen by the accessors -/
theorem getIdent_np_ctx (s : String) (h8 : "expand.rs:ApplicableAttr::get_ident:unreachable(8)" ≠ s)
    (ctx : ImplContext) (f : Field) (attr : ApplicableAttr) (hs : fieldSkipped ctx f = false)
    (hattr : f.attrs.applicableAttr ctx.kind ctx.fallible ctx.ty = some attr)
    (hcls : ctx.kind.cls = .into ∨ ctx.kind.cls = .existing) : NP s attr.getIdent := by
  cases attr with
  | parentChildField p k => exact absurd hattr (applicableAttr_not_pc _ _ _ _ p k)
  | ghost g => exact absurd hattr (C16_member_not_ghost ctx f (cls_not_from _ hcls) hs g)
  | field c =>
    simp only [ApplicableAttr.getIdent]
    split
    · exact NP.ok _ _
    · exact NP.panicAt _ _ h8

theorem getFieldNameOr_np_ctx (s : String)
    (ctx : ImplContext) (f : Field) (attr : ApplicableAttr) (m : Member) (hs : fieldSkipped ctx f = false)
    (hattr : f.attrs.applicableAttr ctx.kind ctx.fallible ctx.ty = some attr)
    (hcls : ctx.kind.cls = .into ∨ ctx.kind.cls = .existing) : NP s (attr.getFieldNameOr m) := by
  cases attr with
  | parentChildField p k => exact absurd hattr (applicableAttr_not_pc _ _ _ _ p k)
  | ghost g => exact absurd hattr (C16_member_not_ghost ctx f (cls_not_from _ hcls) hs g)
  | field c => simp only [ApplicableAttr.getFieldNameOr]; exact NP.ok _ _

theorem getStuff_np_ctx (s : String)
    (ctx : ImplContext) (f : Field) (attr : ApplicableAttr) (hs : fieldSkipped ctx f = false)
    (hattr : f.attrs.applicableAttr ctx.kind ctx.fallible ctx.ty = some attr)
    (hcls : ctx.kind.cls = .from_) (obj : TS) (fp : Member → TS) (or : Member) : NP s (attr.getStuff obj fp ctx or) := by
  cases attr with
  | parentChildField p k => exact absurd hattr (applicableAttr_not_pc _ _ _ _ p k)
  | field c => simp only [ApplicableAttr.getStuff]; exact getStuffInner_np _ _ _ _ _ _ _
  | ghost g =>
    have hg := (applicableAttr_ghost_iff _ _ _ _ g).mp hattr
    simp only [fieldSkipped, cls_from _ hcls, ghostNoDefault, hg, Bool.not_true, Bool.false_and, Bool.true_and, Bool.false_or] at hs
    cases hact : g.action with
    | none => simp [hact] at hs
    | some act => simp only [ApplicableAttr.getStuff, hact]; exact NP.ok _ _

/-- C16 (the member lines of a struct body, all sites at once): for a member that contributes a line — any conversion
    kind, any shape hint, any position — `render_struct_line` either succeeds or stops at one of two sites, both listed
    findings: `unreachable!("6")` (a positional member under a struct-shaped level without a name) and
    `unreachable!("8")` (an instruction without a member name where the counterpart needs one). No other `unwrap`,
    `unreachable!` or index of the functions it calls (`get_stuff`, `get_action_or`, `get_field_name_or`, `get_ident`)
    can be reached from it. -/
theorem C16_struct_line_panics (f : Field) (ctx : ImplContext) (hint : TypeHint) (idx : Nat) (s : String)
    (hs : fieldSkipped ctx f = false)
    (h : renderStructLine f ctx hint idx none = .error (.panic s)) :
    s = "expand.rs:render_struct_line:unreachable(6)" ∨ s = "expand.rs:ApplicableAttr::get_ident:unreachable(8)" := by
  by_cases h6 : "expand.rs:render_struct_line:unreachable(6)" = s
  · exact Or.inl h6.symm
  by_cases h8 : "expand.rs:ApplicableAttr::get_ident:unreachable(8)" = s
  · exact Or.inr h8.symm
  exfalso
  revert h
  show NP s _
  unfold renderStructLine
  simp only []
  repeat' (first
    | exact getActionOr_np _ _ _ _ _
    | exact NP.panicAt _ _ h6
    | exact getIdent_np_ctx _ h8 ctx f _ hs ‹_› (by first | exact Or.inl ‹_› | exact Or.inr ‹_›)
    | exact getFieldNameOr_np_ctx _ ctx f _ _ hs ‹_› (by first | exact Or.inl ‹_› | exact Or.inr ‹_›)
    | exact getStuff_np_ctx _ ctx f _ hs ‹_› ‹_› _ _ _
    | np_step)

theorem getIdent_np_pc (s : String) (h18 : "expand.rs:ApplicableAttr::get_ident:unreachable(18)" ≠ s)
    (h19 : "expand.rs:ApplicableAttr::get_ident:unreachable(19)" ≠ s) (p : ParentChildField) (k : Kind) (attr : ApplicableAttr)
    (ha : some (ApplicableAttr.parentChildField p k) = some attr) : NP s attr.getIdent := by
  cases ha
  simp only [ApplicableAttr.getIdent]
  repeat' (first | exact NP.panicAt _ _ h18 | exact NP.panicAt _ _ h19 | np_step)

theorem getFieldNameOr_np_pc (s : String) (p : ParentChildField) (k : Kind) (m : Member) (attr : ApplicableAttr)
    (ha : some (ApplicableAttr.parentChildField p k) = some attr) : NP s (attr.getFieldNameOr m) := by
  cases ha
  simp only [ApplicableAttr.getFieldNameOr]
  repeat' np_step

theorem getStuff_np_pc (s : String) (p : ParentChildField) (k : Kind) (obj : TS) (fp : Member → TS) (ctx : ImplContext) (or : Member)
    (attr : ApplicableAttr) (ha : some (ApplicableAttr.parentChildField p k) = some attr) : NP s (attr.getStuff obj fp ctx or) := by
  cases ha
  simp only [ApplicableAttr.getStuff]
  repeat' (first | exact getStuffInner_np _ _ _ _ _ _ _ | np_step)

/-- C16 (the lines of the nested members of a `#[parent(..)]` list, all sites at once): `render_struct_line` either
    succeeds or stops at `unreachable!("18")` / `unreachable!("19")` — both listed findings (a positional nested member
    under a struct-shaped level whose instruction names no member / has no instruction for the kind) -/
theorem C16_parent_line_panics (f : Field) (ctx : ImplContext) (hint : TypeHint) (idx : Nat) (pc : ParentChildField) (s : String)
    (h : renderStructLine f ctx hint idx (some pc) = .error (.panic s)) :
    s = "expand.rs:ApplicableAttr::get_ident:unreachable(18)" ∨ s = "expand.rs:ApplicableAttr::get_ident:unreachable(19)" := by
  by_cases h18 : "expand.rs:ApplicableAttr::get_ident:unreachable(18)" = s
  · exact Or.inl h18.symm
  by_cases h19 : "expand.rs:ApplicableAttr::get_ident:unreachable(19)" = s
  · exact Or.inr h19.symm
  exfalso
  revert h
  show NP s _
  unfold renderStructLine
  simp only []
  repeat' (first
    | exact getActionOr_np _ _ _ _ _
    | exact getIdent_np_pc _ h18 h19 pc ctx.kind _ ‹_›
    | exact getFieldNameOr_np_pc _ pc ctx.kind _ _ ‹_›
    | exact getStuff_np_pc _ pc ctx.kind _ _ _ _ _ ‹_›
    | exact absurd ‹some (ApplicableAttr.parentChildField pc ctx.kind) = none› (by simp)
    | np_step)

theorem first_np (s : String) (sc c : Bool) (X : E TS) (t : TS) (hX : NP s X) :
    NP s (if sc = true then (do let ids ← X; pure (ids, TypeHint.struct)) else
            if c = true then pure ([], TypeHint.unit) else pure (t, TypeHint.tuple) : E (TS × TypeHint)) := by
  cases sc
  · cases c <;> exact NP.pure _ _
  · exact NP.bind _ _ _ hX (fun _ => NP.pure _ _)

/-- C16 (`variant_destruct_block`, all sites at once): the destructuring pattern of a variant is either written or
    the function stops at `GhostIdent::get_ident`'s `unreachable!("16")` (a destructuring pattern as the name of a
    variant-level ghost; reported by validation since fix 54c4df8, `C16_site_16_struct`). `unreachable!("4")` and —
    because ghost payload members are left out of a From pattern before their name is asked —
    `get_field_name_or`'s `unreachable!("10")` cannot be reached from it. -/
theorem C16_variant_destruct_panics (input : Struct) (ctx : ImplContext) (s : String)
    (h : variantDestructBlock input ctx = .error (.panic s)) :
    s = "attr.rs:GhostIdent::get_ident:unreachable(16)" := by
  by_cases h16 : "attr.rs:GhostIdent::get_ident:unreachable(16)" = s
  · exact h16.symm
  exfalso
  revert h
  show NP s _
  unfold variantDestructBlock
  simp only []
  apply NP.bind'
  · apply first_np
    apply NP.foldlM_mem
    intro acc x hx
    simp only [List.mem_filter] at hx
    split
    · rename_i a ha
      split
      · exact NP.pure _ _
      · rename_i hfrom
        have hfrom' : ctx.kind.isFrom = true := by simpa using hfrom
        have hng : (x.attrs.ghost ctx.ty ctx.kind).isNone = true := by simpa [hfrom'] using hx.2
        apply NP.bind _ _ _ ?_ (fun _ => NP.pure _ _)
        cases a with
        | ghost g =>
          have := (applicableAttr_ghost_iff _ _ _ _ g).mp ha
          simp [this] at hng
        | field c => simp only [ApplicableAttr.getFieldNameOr]; exact NP.ok _ _
        | parentChildField p k => exact absurd ha (applicableAttr_not_pc _ _ _ _ p k)
    · exact NP.pure _ _
  · intro a ha
    obtain ⟨ids, hint⟩ := a
    have hh : hint ≠ .unspecified := first_hint _ _ _ _ _ _ ha
    apply NP.bind
    · repeat' (first | exact ghostIdent_np _ h16 _ | np_step)
    · intro ids2
      cases hint with
      | unspecified => exact absurd rfl hh
      | struct => exact NP.pure _ _
      | tuple => exact NP.pure _ _
      | unit => exact NP.pure _ _

theorem getStr_np (s : String) (h : "attr.rs:ChildPath::get_child_path_str:index" ≠ s) (c : ChildPath) (d : Option Nat) :
    NP s (c.getStr d) := by
  unfold ChildPath.getStr
  split
  · exact NP.ok _ _
  · split
    · exact NP.ok _ _
    · intro e; injection e with e; injection e with e; exact h e

theorem getStr_none_np (s : String) (c : ChildPath) : NP s (c.getStr none) := by
  unfold ChildPath.getStr
  exact NP.ok _ _

/-- `render_ghost_line` for an Into / IntoExisting conversion stops, if at all, at `unreachable!("16")` -/
theorem renderGhostLine_np (s : String) (h16 : "attr.rs:GhostIdent::get_ident:unreachable(16)" ≠ s)
    (g : GhostData) (ctx : ImplContext) (hk : ctx.kind.isFrom = false) : NP s (renderGhostLine g ctx) := by
  unfold renderGhostLine
  simp only []
  apply NP.bind _ _ _ (ghostIdent_np _ h16 _)
  intro m
  have hcls : ctx.kind.cls ≠ .from_ := by
    intro hc
    have := cls_from _ hc
    simp [hk] at this
  split <;> first | (split <;> exact NP.pure _ _) | exact NP.pure _ _ | (rename_i hc; exact absurd hc hcls)

/-- C16 (the struct-level `#[ghosts]` lines of one level, all sites at once): they are only written for Into /
    IntoExisting conversions, so `render_ghost_line`'s `unreachable!("7")` cannot be reached from here; what remains is
    `unreachable!("16")` (a destructuring pattern as a ghost's name: reported by validation, `C16_site_16_struct`) and the
    depth index of `get_child_path_str` -/
theorem C16_struct_ghost_lines_panics (ctx : ImplContext) (fieldCtx : FieldCtx) (s : String)
    (h : structGhostLines ctx fieldCtx = .error (.panic s)) :
    s = "attr.rs:GhostIdent::get_ident:unreachable(16)" ∨ s = "attr.rs:ChildPath::get_child_path_str:index" := by
  by_cases h16 : "attr.rs:GhostIdent::get_ident:unreachable(16)" = s
  · exact Or.inl h16.symm
  by_cases hix : "attr.rs:ChildPath::get_child_path_str:index" = s
  · exact Or.inr hix.symm
  exfalso
  revert h
  show NP s _
  unfold structGhostLines
  split
  · rename_i hk
    have hk' : ctx.kind.isFrom = false := by simpa using hk
    split
    · apply NP.foldlM
      intro acc x
      split
      · apply NP.bind
        · unfold GhostData.getChildPathStr
          split
          · exact getStr_none_np _ _
          · exact NP.ok _ _
        · intro a
          apply NP.bind _ _ _ (getStr_np _ hix _ _)
          intro b
          split
          · exact NP.bind _ _ _ (renderGhostLine_np _ h16 _ _ hk') (fun _ => NP.pure _ _)
          · exact NP.pure _ _
      · exact NP.bind _ _ _ (renderGhostLine_np _ h16 _ _ hk') (fun _ => NP.pure _ _)
      · exact NP.pure _ _
    · exact NP.pure _ _
  · exact NP.pure _ _

end O2o
