/-
C20 — generated code works in #![no_std]: only ::core, o2o::traits and user names.
-/
import O2oModel.Expand
namespace O2o

/-- identifiers the expander is allowed to introduce on its own -/
def allowedIdents : List String := [
  -- paths
  "core", "convert", "result", "o2o", "traits", "From", "TryFrom", "Into", "TryInto", "IntoExisting", "TryIntoExisting", "Result",
  -- prelude items
  "Default", "Ok", "default", "Error",
  -- keywords
  "impl", "for", "fn", "type", "let", "mut", "match", "where", "as", "_", "self",
  -- binders and method names of the six traits
  "value", "other", "obj", "from", "try_from", "into", "try_into", "into_existing", "try_into_existing",
  -- `format_ident!("f{}", n)`: tuple payload bindings f0, f1, …
  "fmt:f{}"]

/-- C20-1: every identifier written literally in any `quote!` / `parse_quote!` / `format_ident!` of expand.rs and
    attr.rs is in the allowed list; in particular `std` and `alloc` never occur. -/
theorem C20_quoted_idents :
    (Gen.quotedIdents.all allowedIdents.contains && !Gen.quotedIdents.contains "std" && !Gen.quotedIdents.contains "alloc") = true := by decide

/-- every `core` inside a `quote!` is written as the absolute path `::core` -/
theorem C20_core_absolute : Gen.coreNotAbsolute = [] := by decide

/-- all literal identifiers of the regenerated skeletons the model instantiates -/
def skeletonIdents : List String :=
  (Gen.tmpl_quote_from_trait ++ Gen.tmpl_quote_try_from_trait ++ Gen.tmpl_quote_into_trait ++ Gen.tmpl_quote_try_into_trait ++
   Gen.tmpl_quote_into_existing_trait ++ Gen.tmpl_quote_try_into_existing_trait ++ Gen.tmpl_render_parent ++ Gen.tmpl_main_code_block ++
   Gen.tmpl_main_code_block_ok ++ Gen.tmpl_struct_main_code_block ++ Gen.tmpl_enum_main_code_block ++ Gen.tmpl_struct_pre_init ++
   Gen.tmpl_quote_action).flatMap Gen.Tm.identsList

/-- C20-2 (skeleton part): what `render` instantiates contains only allowed identifiers and quoted ones -/
theorem C20_skeleton_idents : skeletonIdents.all (fun s => allowedIdents.contains s && Gen.quotedIdents.contains s) = true := by decide

def takeSegs : List Gen.Tm → List String
  | .t (.punct ':' _) :: rest => takeSegs rest
  | .t (.ident s) :: rest => s :: takeSegs rest
  | _ => []

def segsAfter : List Gen.Tm → List String
  | .h "impl_gens" :: rest => takeSegs rest
  | _ :: rest => segsAfter rest
  | [] => []

def traitSegsOf (k : Kind) (f : Bool) : List String :=
  segsAfter (match k.cls, f with
    | .from_, false => Gen.tmpl_quote_from_trait.getD 0 []
    | .from_, true => Gen.tmpl_quote_try_from_trait.getD 0 []
    | .into, false => Gen.tmpl_quote_into_trait.getD 2 []
    | .into, true => Gen.tmpl_quote_try_into_trait.getD 2 []
    | .existing, false => Gen.tmpl_quote_into_existing_trait.getD 0 []
    | .existing, true => Gen.tmpl_quote_try_into_existing_trait.getD 0 [])

/-- the library paths named by the skeletons are exactly the documented ones -/
theorem C20_library_paths :
    Kind.all.all (fun k => [false, true].all fun f =>
      let segs := traitSegsOf k f
      segs == ["core", "convert", "From"] || segs == ["core", "convert", "TryFrom"] || segs == ["core", "convert", "Into"] ||
      segs == ["core", "convert", "TryInto"] || segs == ["o2o", "traits", "IntoExisting"] || segs == ["o2o", "traits", "TryIntoExisting"]) = true := by
  decide

/-! ### user tokens are only ever copied -/

mutual
def Tok.idents : Tok → List String
  | .ident s => [s]
  | .group _ ts => Tok.identsList ts
  | _ => []
def Tok.identsList : List Tok → List String
  | [] => []
  | t :: ts => Tok.idents t ++ Tok.identsList ts
end

theorem identsList_append (a b : TS) : Tok.identsList (a ++ b) = Tok.identsList a ++ Tok.identsList b := by
  induction a with
  | nil => rfl
  | cons t ts ih => simp [Tok.identsList, ih, List.append_assoc]

mutual
theorem C20_subst_idents_tok (at_ tilde : TS) : ∀ t : Tok, ∀ s ∈ Tok.identsList (replaceTok at_ tilde t),
    s ∈ Tok.idents t ∨ s ∈ Tok.identsList at_ ∨ s ∈ Tok.identsList tilde
  | .ident x, s, h => by simp [replaceTok, Tok.identsList, Tok.idents] at h ⊢; exact Or.inl h
  | .lit x, s, h => by simp [replaceTok, Tok.identsList, Tok.idents] at h
  | .punct c jn, s, h => by
    unfold replaceTok at h
    split at h
    · exact Or.inr (Or.inr h)
    · split at h
      · exact Or.inr (Or.inl h)
      · simp [Tok.identsList, Tok.idents] at h
  | .group d ts, s, h => by
    have ih := C20_subst_idents at_ tilde ts s
    cases d <;> simp [replaceTok, Tok.identsList, Tok.idents] at h ⊢ <;> exact ih h
/-- C20-3: every identifier of a substituted user expression comes from the user's expression or from the two
    substituted paths (`value` / `self` and the member path) — substitution introduces nothing else -/
theorem C20_subst_idents (at_ tilde : TS) : ∀ ts : List Tok, ∀ s ∈ Tok.identsList (replaceList at_ tilde ts),
    s ∈ Tok.identsList ts ∨ s ∈ Tok.identsList at_ ∨ s ∈ Tok.identsList tilde
  | [], s, h => by simp [replaceList, Tok.identsList] at h
  | t :: ts, s, h => by
    simp only [replaceList, identsList_append, List.mem_append] at h
    simp only [Tok.identsList, List.mem_append]
    cases h with
    | inl h1 =>
      rcases C20_subst_idents_tok at_ tilde t s h1 with h' | h' | h'
      · exact Or.inl (Or.inl h')
      · exact Or.inr (Or.inl h')
      · exact Or.inr (Or.inr h')
    | inr h2 =>
      rcases C20_subst_idents at_ tilde ts s h2 with h' | h' | h'
      · exact Or.inl (Or.inr h')
      · exact Or.inr (Or.inl h')
      · exact Or.inr (Or.inr h')
end

end O2o
