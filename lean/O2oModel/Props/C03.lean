/-
C03 — flattened (child/parent) mappings are faithful; each nested struct is built once.
-/
import O2oModel.Props.C01
import O2oModel.Lemmas.Tree
import O2oModel.Lemmas.TreeN
namespace O2o

/-- C03-2 (From side): a field marked `#[child(a.b)]` is read from `value.a.b.<field>` (named counterpart, default
    mapping) — any path depth -/
theorem C03_from_paths (f : Field) (ctx : ImplContext) (n : String) (idx : Nat) (ca : ChildAttr)
    (hm : f.member = .named n) (hk : ctx.kind.cls = .from_) (hc : f.attrs.child ctx.ty = some ca)
    (ha : f.attrs.applicableAttr ctx.kind ctx.fallible ctx.ty = none) (hpar : f.attrs.hasParentAttr ctx.ty = false)
    (hv : ctx.isVariant = false) :
    renderStructLine f ctx .unspecified idx none =
      .ok ([Tok.ident n, .punct ':' false] ++ srcIdent ctx.kind ++ [Tok.punct '.' false] ++ memberPathTS ca.childPath.path ++ [Tok.punct '.' false, .ident n, .punct ',' false]) := by
  unfold renderStructLine
  simp [hm, hk, hc, ha, hpar, hv, pure, Except.pure, Member.toTS, i, dot, colon, comma, List.append_assoc]

/-- C03-2 (into_existing): the same field is written to `other.a.b.<field>` -/
theorem C03_existing_paths (f : Field) (ctx : ImplContext) (n : String) (idx : Nat) (ca : ChildAttr)
    (hm : f.member = .named n) (hk : ctx.kind.cls = .existing) (hc : f.attrs.child ctx.ty = some ca)
    (ha : f.attrs.applicableAttr ctx.kind ctx.fallible ctx.ty = none) (hv : ctx.isVariant = false) :
    renderStructLine f ctx .unspecified idx none =
      .ok ([Tok.ident "other", .punct '.' false] ++ memberPathTS ca.childPath.path ++ [Tok.punct '.' false, .ident n, .punct '=' false] ++
           srcIdent ctx.kind ++ [Tok.punct '.' false, .ident n, .punct ';' false]) := by
  unfold renderStructLine
  simp [hm, hk, hc, ha, hv, pure, Except.pure, Member.toTS, i, dot, eq, semi, List.append_assoc]

/-- C03-3 (bare `#[parent]`, From side): the member is produced from the whole counterpart, by reference, through the
    nested conversion of the matching fallibility -/
theorem C03_parent_bare_from (f : Field) (ctx : ImplContext) (n : String) (idx : Nat)
    (hm : f.member = .named n) (hk : ctx.kind.cls = .from_)
    (ha : f.attrs.applicableAttr ctx.kind ctx.fallible ctx.ty = none) (hpar : f.attrs.hasParentAttr ctx.ty = true) :
    renderStructLine f ctx .unspecified idx none = .ok ([Tok.ident n, .punct ':' false] ++ parentConv ctx) := by
  unfold renderStructLine
  simp [hm, hk, ha, hpar, pure, Except.pure, i, colon]

/-- the four forms of that conversion -/
theorem C03_parent_conv_forms (ctx : ImplContext) :
    parentConv ctx = (match ctx.kind.isRef, ctx.fallible with
      | true, true => [Tok.ident "value", .punct '.' false, .ident "try_into", .group .paren [], .punct '?' false, .punct ',' false]
      | true, false => [Tok.ident "value", .punct '.' false, .ident "into", .group .paren [], .punct ',' false]
      | false, true => [Tok.group .paren [.punct '&' false, .ident "value"], .punct '.' false, .ident "try_into", .group .paren [], .punct '?' false, .punct ',' false]
      | false, false => [Tok.group .paren [.punct '&' false, .ident "value"], .punct '.' false, .ident "into", .group .paren [], .punct ',' false]) := by
  unfold parentConv
  cases ctx.kind.isRef <;> cases ctx.fallible <;> rfl

/-- C03-3 (bare `#[parent]`, Into side): the member is poured into the counterpart through its own
    (try_)into_existing, one statement per bare parent, for each of the eight Into / IntoExisting flavours -/
theorem C03_parent_bare_into (f : Field) (ctx : ImplContext) (h : ctx.kind.isFrom = false) :
    ∃ recv target call q, renderParent f ctx = .ok (recv ++ [Tok.punct '.' false, .ident call, .group .paren target] ++ q ++ [Tok.punct ';' false]) ∧
      (call = if ctx.fallible then "try_into_existing" else "into_existing") ∧
      (q = if ctx.fallible then [Tok.punct '?' false] else []) ∧
      (target = if ctx.kind.isIntoExisting then [Tok.ident "other"] else [Tok.punct '&' false, .ident "mut", .ident "obj"]) ∧
      (recv = if ctx.kind.isRef then [Tok.group .paren [.punct '&' false, .group .paren ([Tok.ident "self", .punct '.' false] ++ f.member.toTS)]]
              else [Tok.ident "self", .punct '.' false] ++ f.member.toTS) := by
  unfold renderParent
  cases hk : ctx.kind <;> cases hf : ctx.fallible <;> simp_all [Kind.isFrom] <;>
    (refine ⟨_, _, _, _, ?_, rfl, rfl, rfl, rfl⟩ <;>
      simp [skel, Gen.tmpl_render_parent, Gen.Tm.instList, Gen.Tm.inst, List.getD, Kind.isIntoExisting, Kind.isRef, List.append_assoc])

/-! ### the ordering step: grouping by first-seen path and sorting is a stable permutation -/

theorem insertByGr_perm (x : FieldContainer) (xs : List FieldContainer) : List.Perm (insertByGr x xs) (x :: xs) := by
  induction xs with
  | nil => exact List.Perm.refl _
  | cons y ys ih =>
    unfold insertByGr
    split
    · exact List.Perm.refl _
    · exact List.Perm.trans (List.Perm.cons y ih) (List.Perm.swap x y ys)

/-- C03 (no member lost, none duplicated by the sort): the sorted member list is a permutation of the grouped one -/
theorem C03_sort_perm (xs : List FieldContainer) : List.Perm (sortByGr xs) xs := by
  unfold sortByGr
  induction xs with
  | nil => exact List.Perm.refl _
  | cons x xs ih =>
    simp only [List.foldr_cons]
    exact List.Perm.trans (insertByGr_perm x _) (List.Perm.cons x ih)

def sortedByGr : List FieldContainer → Bool
  | [] => true
  | [_] => true
  | x :: y :: rest => x.grIdx ≤ y.grIdx && sortedByGr (y :: rest)

theorem insertByGr_sorted (x : FieldContainer) (xs : List FieldContainer) (h : sortedByGr xs = true) :
    sortedByGr (insertByGr x xs) = true := by
  induction xs with
  | nil => rfl
  | cons y ys ih =>
    unfold insertByGr
    split
    · rename_i hle
      simp [sortedByGr, hle, h]
    · rename_i hgt
      have hyx : y.grIdx ≤ x.grIdx := by omega
      cases ys with
      | nil => simp [insertByGr, sortedByGr, hyx]
      | cons z zs =>
        simp only [sortedByGr, Bool.and_eq_true, decide_eq_true_eq] at h
        have ih' := ih h.2
        unfold insertByGr at ih' ⊢
        split
        · rename_i hxz
          simp only [sortedByGr, Bool.and_eq_true, decide_eq_true_eq]
          exact ⟨hyx, hxz, h.2⟩
        · rename_i hxz
          simp only [hxz, if_false] at ih'
          simp only [sortedByGr, Bool.and_eq_true, decide_eq_true_eq]
          exact ⟨h.1, ih'⟩

/-- C03 (groups are contiguous after the sort): members are ordered by the index of the group their full path opened -/
theorem C03_sort_sorted (xs : List FieldContainer) : sortedByGr (sortByGr xs) = true := by
  unfold sortByGr
  induction xs with
  | nil => rfl
  | cons x xs ih =>
    simp only [List.foldr_cons]
    exact insertByGr_sorted x _ ih

/-! ### each nested struct is built once (depth ≤ 1) -/

/-- C03-1 for trees of depth ≤ 1, **any number of members and of children**: when the sorted member list is a sequence
    of well-formed segments (a member that is not flattened, or *all* members of one child — which is what sorting by
    group index yields for depth-1 paths: equal paths share a group), the Into body is `segmentsSpec`: one fragment per
    segment in order, and a child segment is exactly one construction `name: Type { one line per member of that child,
    its ghosts, ..update },`. Hence every intermediate struct is constructed exactly once and receives all and only its
    own members.  (For deeper trees the statement is false of the code when sibling subtrees are interleaved — listed
    known finding C03-interleaved-sibling-subtrees — and is not proved in general.) -/
theorem C03_once_depth1 (ctx : ImplContext) (named : Bool) (hint : TypeHint)
    (hk : ctx.kind.cls = .into) (cpa : ChildParentsAttr) (hcpa : ctx.input.attrs.childParentsAttr ctx.ty = some cpa)
    (nr : Bool) (hnr : ctx.input.namedFields = .ok nr) (segs : List Segment) (fuel : Nat) (frags : TS) (idx : Nat)
    (hf : totalSize segs + 8 < fuel) (hwf : segmentsWf ctx cpa segs) :
    structInitLoop fuel (segs.flatMap Segment.containers) named ctx none hint frags idx =
      (match segmentsSpec ctx nr hint segs idx with
       | .ok ts => .ok (frags ++ ts, [])
       | .error e => .error e) :=
  structInitLoop_segments ctx named hint hk cpa hcpa nr hnr segs fuel frags idx hf hwf

/-- C03-2 (shape agreement): a `from` conversion renders a flattened member by the shape that `#[child_parents(..)]`
    gives for the member's own nested struct — the same entry (`find?` by the full path) whose shape the `into`
    direction uses when it builds that nested struct (`renderChildFragment`), whatever the counterpart's own hint -/
theorem C03_from_uses_child_shape (ctx : ImplContext) (ca : ChildAttr) (h : TypeHint) (cpa : ChildParentsAttr) (cd : ChildParentData)
    (hk : ctx.kind.isFrom = true) (hcpa : ctx.input.attrs.childParentsAttr ctx.ty = some cpa)
    (hfind : cpa.childParents.find? (fun cd => cd.fieldPathStr == ca.childPath.strs.getLast?.getD "") = some cd) :
    childLineHint ctx ca h = cd.typeHint := by
  simp [childLineHint, hk, hcpa, hfind]

/-- the other directions keep the hint of the block being built -/
theorem C03_into_keeps_block_shape (ctx : ImplContext) (ca : ChildAttr) (h : TypeHint) (hk : ctx.kind.isFrom = false) :
    childLineHint ctx ca h = h := childLineHint_not_from ctx ca h hk

/-- inside a child, members are consumed one line each, in order, and the loop hands the first foreign member back -/
theorem C03_child_members_all_and_only (ctx : ImplContext) (named : Bool) (cp : ChildPath) (crc : Option ChildRenderContext) (d : Nat)
    (pfx : String) (hpfx : cp.getStr (some d) = .ok pfx) (hint : TypeHint) (hk : ctx.kind.isFrom = false)
    (block : List (FieldContainer × Field)) (rest : List FieldContainer) (fuel : Nat) (frags : TS) (idx : Nat)
    (hf : block.length + 1 < fuel) (hb : ∀ p ∈ block, AtLeaf ctx pfx d p)
    (hrest : rest = [] ∨ ∃ fc rs, rest = fc :: rs ∧ pathMatches fc.path pfx = false) :
    structInitLoop fuel (block.map (·.1) ++ rest) named ctx (some (cp, crc, d)) hint frags idx =
      (match flatLines ctx hint (block.map (·.2)) idx with
       | .ok ls => .ok (frags ++ ls, rest)
       | .error e => .error e) :=
  loop_leaf_block ctx named cp crc d pfx hpfx hint hk block rest fuel frags idx hf hb hrest

/-! ### each nested struct is built once (any depth) -/

/-- **C03-1, any depth, any number of members and nested structs.** When the sorted member list forms a tree —
    `NodeList.WF`: every member rendered at a level sits exactly at that level; every nested struct starts with a
    contributing member whose `#[child(..)]` path goes deeper, is listed in `#[child_parents(..)]`, holds the nodes of
    its own level, and is followed by a member that does not belong to it (its members are contiguous) — the Into body
    is `NodeList.spec`: one fragment per node in order, and a nested struct is exactly **one** construction
    `name: Type { fragments of its own nodes, its ghosts, ..update },`, recursively. So every intermediate struct is
    constructed exactly once and receives all and only its own members, at every depth. (When sibling subtrees are
    interleaved the member list is *not* such a tree and the statement is false of the code — known finding
    C03-interleaved-sibling-subtrees.) -/
theorem C03_once_any_depth (ctx : ImplContext) (named : Bool) (hint : TypeHint)
    (hk : ctx.kind.cls = .into) (cpa : ChildParentsAttr) (hcpa : ctx.input.attrs.childParentsAttr ctx.ty = some cpa)
    (nr : Bool) (hnr : ctx.input.namedFields = .ok nr) (ns : NodeList) (fuel : Nat) (frags : TS) (idx : Nat)
    (hf : ns.weight + 1 < fuel) (hwf : NodeList.WF ctx cpa none none ns) :
    structInitLoop fuel ns.flatten named ctx none hint frags idx =
      (match NodeList.spec ctx nr none hint ns idx with
       | .ok ts => .ok (frags ++ ts, [])
       | .error e => .error e) := by
  have := loop_nodes ctx hk cpa hcpa nr hnr ns named none hint [] fuel frags idx hf (by simpa using hwf) rfl
  simp only [List.append_nil] at this
  rw [this]
  cases NodeList.spec ctx nr none hint ns idx <;> rfl

/-- **C03-1, IntoExisting, any depth**: over a member tree (`NodeList.WF`) the IntoExisting body is `NodeList.specE` — for
    every contributing member exactly one assignment, in list order (a leaf's line is `render_struct_line` of that
    member, which `C03_existing_paths` shows to be `other.<child path>.<member> = ..;`), and after the members of each
    nested struct the ghost assignments addressed to exactly that struct. No member is assigned twice, none is left out -/
theorem C03_existing_any_depth (ctx : ImplContext) (named : Bool) (hint : TypeHint)
    (hk : ctx.kind.cls = .existing) (cpa : ChildParentsAttr) (hcpa : ctx.input.attrs.childParentsAttr ctx.ty = some cpa)
    (nr : Bool) (hnr : ctx.input.namedFields = .ok nr) (ns : NodeList) (fuel : Nat) (frags : TS) (idx : Nat)
    (hf : ns.weight + 1 < fuel) (hwf : NodeList.WF ctx cpa none none ns) :
    structInitLoop fuel ns.flatten named ctx none hint frags idx =
      (match NodeList.specE ctx nr none hint ns idx with
       | .ok ts => .ok (frags ++ ts, [])
       | .error e => .error e) := by
  have := loop_nodes_existing ctx hk cpa hcpa nr hnr ns named none hint [] fuel frags idx hf (by simpa using hwf) rfl
  simp only [List.append_nil] at this
  rw [this]
  cases NodeList.specE ctx nr none hint ns idx <;> rfl

/-- non-vacuity: the two-level tree `a { a.b { f1 }, f2 }` is well formed as soon as the members carry those paths -/
example (ctx : ImplContext) (cpa : ChildParentsAttr) (fc1 fc2 : FieldContainer) (f1 f2 : Field) (ca1 ca2 : ChildAttr)
    (cdA cdAB : ChildParentData)
    (h1 : f1.attrs.child ctx.ty = some ca1) (hs1 : ca1.childPath.strs = ["a", "a.b"]) (p1 : fc1.path = "a.b")
    (fd1 : fc1.fieldData = .field f1) (ns1 : fieldSkipped ctx f1 = false)
    (h2 : f2.attrs.child ctx.ty = some ca2) (hs2 : ca2.childPath.strs = ["a"]) (p2 : fc2.path = "a") (fd2 : fc2.fieldData = .field f2)
    (hfA : cpa.childParents.find? (fun cd => cd.fieldPathStr == "a") = some cdA)
    (hfAB : cpa.childParents.find? (fun cd => cd.fieldPathStr == "a.b") = some cdAB)
    (hm1 : pathMatches "a.b" "a" = true) (hm2 : pathMatches "a" "a.b" = false) :
    NodeList.WF ctx cpa none none
      (.cons (.sub (.cons (.sub (.cons (.leaf fc1 f1) .nil) cdAB) (.cons (.leaf fc2 f2) .nil)) cdA) .nil) := by
  refine ⟨trivial, ⟨(fc1, f1), ca1, "a", rfl, fd1, h1, ns1, trivial, by simp [ChildPath.getStr, hs1, newDepthOf], hfA, ?_, ?_⟩, trivial⟩
  · intro fc h; simp [afterOf, NodeList.flatten] at h
  · refine ⟨⟨"a", (fc1, f1), by simp [ChildPath.getStr, hs1], rfl, by simpa [p1] using hm1⟩, ?_, ?_⟩
    · refine ⟨(fc1, f1), ca1, "a.b", rfl, fd1, h1, ns1, by simp [hs1], by simp [ChildPath.getStr, hs1, newDepthOf], hfAB, ?_, ?_⟩
      · intro fc h
        simp [afterOf, NodeList.flatten, Node.flatten] at h
        subst h; simpa [p2] using hm2
      · refine ⟨⟨"a.b", (fc1, f1), by simp [ChildPath.getStr, hs1, newDepthOf], rfl, by simp [p1, pathMatches]⟩, ?_, trivial⟩
        exact ⟨fd1, "a.b", ca1, by simp [ChildPath.getStr, hs1, newDepthOf], p1, h1, by simp [hs1, newDepthOf]⟩
    · refine ⟨⟨"a", (fc2, f2), by simp [ChildPath.getStr, hs1], rfl, by simp [p2, pathMatches]⟩, ?_, trivial⟩
      exact ⟨fd2, "a", ca2, by simp [ChildPath.getStr, hs1], p2, h2, by simp [hs2, newDepthOf]⟩

end O2o
