/-
C08 — trait-instruction params (vars, ..update, return, attributes) act as documented.
-/
import O2oModel.Props.C17
import O2oModel.Lemmas.Blocks
namespace O2o
open Gen

def implSkeletons : List (List Tm) := skelSpecs.map (·.tmpl)

/-- the fn body group of an impl skeleton: last brace group inside the impl's brace group -/
def implBody : List Tm → List Tm
  | [.g .brace b] => b
  | _ :: rest => implBody rest
  | [] => []

def attrBeforeFn : List Tm → Bool
  | .h "attr" :: .t (.ident "fn") :: _ => true
  | _ :: rest => attrBeforeFn rest
  | [] => false

def fnBody : List Tm → List Tm
  | [.g .brace b] => b
  | _ :: rest => fnBody rest
  | [] => []

def countHole (n : String) (ts : List Tm) : Nat := (Tm.holesList ts).count n

/-- C08-5: in each of the six regenerated skeletons `impl_attribute(..)` is the first token of the item (outer
    attribute of the impl), `attribute(..)` immediately precedes `fn`, `inner_attribute(..)` is the first token inside
    the fn body; each occurs exactly once. -/
theorem C08_attr_positions :
    implSkeletons.all (fun sk =>
      sk.head? == some (.h "impl_attr") && attrBeforeFn (implBody sk) && (fnBody (implBody sk)).head? == some (.h "inner_attr")
      && countHole "impl_attr" sk == 1 && countHole "attr" sk == 1 && countHole "inner_attr" sk == 1) = true := by decide

/-- the attribute parameters are spliced as `#[…]`, `#[…]`, `#![…]` — checked on the parser's constructors -/
theorem C08_attr_wrapping (b : Back) (x : TS) :
    (parse2 (parseTraitAttrCore b) ([Tok.ident "A", .punct '|' false, .ident "attribute", .group .paren x])).map (·.fnAttr) = .ok (some [Tok.punct '#' false, .group .bracket x]) ∧
    (parse2 (parseTraitAttrCore b) ([Tok.ident "A", .punct '|' false, .ident "impl_attribute", .group .paren x])).map (·.implAttr) = .ok (some [Tok.punct '#' false, .group .bracket x]) ∧
    (parse2 (parseTraitAttrCore b) ([Tok.ident "A", .punct '|' false, .ident "inner_attribute", .group .paren x])).map (·.innerAttr) = .ok (some [Tok.punct '#' false, .punct '!' false, .group .bracket x]) := by
  cases b <;> refine ⟨?_, ?_, ?_⟩ <;> rfl

/-- C08 (on every impl): every impl context produced for an instruction carries that instruction's parameters -/
theorem C08_on_every_impl (input : DataType) (c : ImplContext) (h : c ∈ implContexts input) :
    ∃ a ∈ input.attrs.attrs, c.structAttr = a.core ∧ c.fallible = a.fallible ∧ a.appl.get c.kind = true := by
  unfold implContexts at h
  simp only [List.mem_flatMap, List.mem_map] at h
  obtain ⟨⟨k, f⟩, _, sa, hsa, rfl⟩ := h
  unfold DataTypeAttrs.iterForKindCore DataTypeAttrs.iterForKind at hsa
  simp only [List.mem_map, List.mem_filter, Bool.and_eq_true, beq_iff_eq] at hsa
  obtain ⟨a, ⟨ha, hf, hk⟩, rfl⟩ := hsa
  exact ⟨a, ha, rfl, hf.symm, hk⟩

/-- C08-2 (vars, syntactic part): the `let` statements are emitted one per `vars(..)` entry, in declaration order -/
theorem C08_vars_order (ctx : ImplContext) (ds : List InitData) (h : ctx.structAttr.initData = some ds) :
    structPreInit ctx = some (ds.flatMap fun x =>
      [Tok.ident "let", .ident x.ident, .punct '=' false] ++ quoteAction x.action none ctx ++ [.punct ';' false]) := by
  simp [structPreInit, h, skel, tmpl_struct_pre_init, Tm.instList, Tm.inst, List.getD]

/-- vars come before the result is built: every body that builds a result (both dialects of (try_)into included:
    the plain one and the one that starts from `Default::default()`) has `pre_init` exactly once, before `init` -/
theorem C08_vars_before_init :
    ([tmpl_quote_from_trait.getD 0 [], tmpl_quote_try_from_trait.getD 0 [],
      tmpl_quote_into_trait.getD 0 [], tmpl_quote_into_trait.getD 1 [],
      tmpl_quote_try_into_trait.getD 0 [], tmpl_quote_try_into_trait.getD 1 [],
      tmpl_quote_into_existing_trait.getD 0 [], tmpl_quote_try_into_existing_trait.getD 0 []].all fun sk =>
        let hs := Tm.holesList sk
        hs.idxOf "pre_init" < hs.idxOf "init" && hs.count "pre_init" == 1 && hs.count "init" == 1) = true := by decide

/-- C08-4 (`return expr`): the quick return replaces the whole generated body; for into_existing it is assigned to
    the existing value -/
theorem C08_return (ctx : ImplContext) (qr : TS) (h : ctx.structAttr.quickReturn = some qr) :
    mainCodeBlock ctx = .ok (if ctx.kind.isIntoExisting
      then [Tok.punct '*' false, .ident "other", .punct '=' false] ++ quoteAction qr none ctx ++ [.punct ';' false]
      else quoteAction qr none ctx) := by
  simp only [mainCodeBlock, h, quickReturnBlock]
  split <;> simp [skel, tmpl_main_code_block, Tm.instList, Tm.inst, List.getD]

/-- the fallible variant behaves the same (no `Ok(..)` is added around a quick return — documented behaviour) -/
theorem C08_return_fallible (ctx : ImplContext) (qr : TS) (h : ctx.structAttr.quickReturn = some qr) :
    mainCodeBlockOk ctx = mainCodeBlock ctx := by
  simp only [mainCodeBlockOk, mainCodeBlock, h, quickReturnBlock]
  split <;> simp [skel, tmpl_main_code_block, tmpl_main_code_block_ok, Tm.instList, Tm.inst, List.getD]

/-! ### parameter grammar: duplicates are rejected with a diagnostic naming the parameter -/

theorem C08_duplicate_param (b : Back) :
    (parse2 (parseTraitAttrCore b) [Tok.ident "A", .punct '|' false, .ident "vars", .group .paren [.ident "x", .punct ':' false, .group .brace [.lit "1"]],
        .punct ',' false, .ident "vars", .group .paren [.ident "y", .punct ':' false, .group .brace [.lit "2"]]]).toOption.isNone = true := by
  cases b <;> rfl

/-- C08-3 (`..expr`, syntactic part): in a struct body the update expression is the *last* fragment, after every member
    line and every ghost line — so it can only supply the members no fragment provides (any number of members) -/
theorem C08_update_last (ctx : ImplContext) (named : Bool) (l : List (Nat × String × Field)) (fuel : Nat)
    (out : TS) (rest : List FieldContainer) (u : TS)
    (hf : l.length + 1 < fuel) (hc : ∀ t ∈ l, t.2.2.attrs.child ctx.ty = none) (hu : ctx.structAttr.update = some u)
    (h : structInitBlockInner fuel (flatContainers l) named ctx none = .ok (out, rest)) :
    ∃ body, wrapInit ctx ctx.structAttr.typeHint named (body ++ [Tok.punct '.' true, Tok.punct '.' false] ++ quoteAction u none ctx) = .ok out := by
  obtain ⟨ls, g, _, _, hw, _⟩ := structInitBlockInner_flat ctx named l fuel out rest hf hc h
  refine ⟨ls ++ g, ?_⟩
  rw [← hw]
  simp [updateToks, hu, j, p, List.append_assoc]

/-- without `..expr` nothing is appended -/
theorem C08_no_update (ctx : ImplContext) (hu : ctx.structAttr.update = none) : updateToks ctx = [] := by
  simp [updateToks, hu]

/-- C08-4 (`return expr` stands for the *whole* body): with a quick return no call for a parameterless `#[parent]` member
    is generated, in any kind — so the body is the returned expression alone, in the plain dialect (fix d00ee70: the
    calls used to follow the returned expression) -/
theorem C08_return_no_parent_calls (input : DataType) (ctx : ImplContext) (qr : TS) (h : ctx.structAttr.quickReturn = some qr) :
    postInitOf input ctx = .ok none := by
  simp [postInitOf, h, pure, Except.pure]

end O2o
