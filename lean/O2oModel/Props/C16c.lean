/-
C16, third part — what validation establishes about enum variants (the zone where three panics were found and repaired
late: db73399, 08cc4d9, b5897ad), and the consequences for the expansion stage.
-/
import O2oModel.Props.C16b
namespace O2o

/-- a message that one variant's pass of the member loop puts into the diagnostics is in `validate`'s result -/
theorem variant_pass_reported (e : Enum) (v : Variant) (hvm : v ∈ e.variants) (msg : String)
    (hstep : ∀ es, msg ∈ validateMember (.enum e) true ((DataType.enum e).attrs.attrs.map (·.core.ty))
      (attrsByKind (DataType.enum e).attrs) es (.variant v)) : msg ∈ validate (.enum e) := by
  have hmember : DataTypeMember.variant v ∈ (DataType.enum e).members := by
    simp only [DataType.members, List.mem_map]
    exact ⟨v, hvm, rfl⟩
  unfold validate
  simp only
  apply ext_validateEnd
  exact mem_foldl_of_step _ _ _ _ (DataTypeMember.variant v) hmember
    (fun y es hm => ext_validateMember _ _ _ _ y es _ hm) (fun es => hstep es)

/-- C16 (`struct_post_init`'s `todo!()`): an enum that validation accepts has no `#[parent]` on a variant -/
theorem C16_variant_no_parent (e : Enum) (hv : validate (.enum e) = []) (v : Variant) (hvm : v ∈ e.variants) :
    v.attrs.parentAttrs = [] := by
  cases hp : v.attrs.parentAttrs with
  | nil => rfl
  | cons p ps =>
    exfalso
    have : "Instruction #[parent(...)] is not supported for this member." ∈ validate (.enum e) := by
      apply variant_pass_reported e v hvm
      intro es
      unfold validateMember
      simp only
      apply ext_validateMemberErrorInstrs
      refine mem_foldl_of_mem _ _ _ _ (fun f es hm => ?_) ?_
      · apply ext_validateMemberErrorInstrs
        apply ext_validateDedicatedMemberAttrs
        apply ext_validateDedicatedMemberAttrs
        apply ext_parentTypePass
        apply ext_validateParentAttrs
        apply ext_barkAtMemberAttr
        exact hm
      · apply ext_validateDedicatedMemberAttrs
        apply ext_validateDedicatedMemberAttrs
        apply ext_validateDedicatedMemberAttrs
        refine mem_foldl_of_mem _ _ _ _ (fun g es hm => ext_variantGhostChildPass g _ _ (ext_ghostPatternPass _ g es _ hm)) ?_
        unfold barkAtMemberAttr
        simp only [DataTypeMember.attrs, hp, List.length_cons]
        simp only [show ps.length + 1 > 0 from Nat.succ_pos _, if_true]
        exact mem_insert_self _ _
    rw [hv] at this
    cases this

/-- a message that the pass over one payload member of a variant produces is in `validate`'s result -/
theorem variant_field_pass_reported (e : Enum) (v : Variant) (hvm : v ∈ e.variants) (f : Field) (hf : f ∈ v.fields) (msg : String)
    (hstep : ∀ es, msg ∈ parentTypePass f (attrsByKind (DataType.enum e).attrs)
      (validateParentAttrs v.namedFields f.attrs.parentAttrs (attrsByKind (DataType.enum e).attrs)
        (barkAtMemberAttr f.attrs.childAttrs.length "child" es))) :
    msg ∈ validate (.enum e) := by
  apply variant_pass_reported e v hvm
  intro es
  unfold validateMember
  simp only
  apply ext_validateMemberErrorInstrs
  refine mem_foldl_of_step _ _ _ _ f hf (fun f' es hm => ?_) (fun es => ?_)
  · apply ext_validateMemberErrorInstrs
    apply ext_validateDedicatedMemberAttrs
    apply ext_validateDedicatedMemberAttrs
    apply ext_parentTypePass
    apply ext_validateParentAttrs
    apply ext_barkAtMemberAttr
    exact hm
  · apply ext_validateMemberErrorInstrs
    apply ext_validateDedicatedMemberAttrs
    apply ext_validateDedicatedMemberAttrs
    exact hstep es

/-- C16 (fix db73399): in an enum that validation accepts no payload member of a variant is flattened -/
theorem C16_variant_field_no_child (e : Enum) (hv : validate (.enum e) = []) (v : Variant) (hvm : v ∈ e.variants)
    (f : Field) (hf : f ∈ v.fields) : f.attrs.childAttrs = [] := by
  cases hc : f.attrs.childAttrs with
  | nil => rfl
  | cons c cs =>
    exfalso
    have : "Instruction #[child(...)] is not supported for this member." ∈ validate (.enum e) := by
      apply variant_field_pass_reported e v hvm f hf
      intro es
      apply ext_parentTypePass
      apply ext_validateParentAttrs
      unfold barkAtMemberAttr
      simp only [hc, List.length_cons, show cs.length + 1 > 0 from Nat.succ_pos _, if_true]
      exact mem_insert_self _ _
    rw [hv] at this
    cases this

/-- C16 (fix b5897ad): .. and a payload member whose `#[parent(..)]` list a From conversion constructs has a path type -/
theorem C16_variant_field_parent_type (e : Enum) (hv : validate (.enum e) = []) (v : Variant) (hvm : v ∈ e.variants)
    (f : Field) (hf : f ∈ v.fields)
    (hp : f.attrs.parentAttrs.any (parentNeedsType (attrsByKind (DataType.enum e).attrs)) = true) : f.ty.isSome = true := by
  cases hty : f.ty with
  | some t => rfl
  | none =>
    exfalso
    have : ("Type of member " ++ f.member.str ++ " should be a path to a struct: #[parent(...)] constructs it in 'from' conversions.") ∈ validate (.enum e) := by
      apply variant_field_pass_reported e v hvm f hf
      intro es
      unfold parentTypePass
      simp only [hty, Option.isNone_none, hp, Bool.and_self, if_true]
      exact mem_insert_self _ _
    rw [hv] at this
    cases this

/-- C16 (fix 08cc4d9): .. and no variant-level `#[ghosts]` entry is addressed to a nested struct -/
theorem C16_variant_ghost_no_child_path (e : Enum) (hv : validate (.enum e) = []) (v : Variant) (hvm : v ∈ e.variants)
    (ga : GhostsAttr) (hga : ga ∈ v.attrs.ghostsAttrs) (g : GhostData) (hg : g ∈ ga.attr.ghostData) : g.childPath = none := by
  cases hcp : g.childPath with
  | none => rfl
  | some cp =>
    exfalso
    have hmem : g ∈ v.attrs.ghostsAttrs.flatMap (fun x => x.attr.ghostData) := List.mem_flatMap.mpr ⟨ga, hga, hg⟩
    have : "Variant-level #[ghosts(...)] cannot address a nested struct ('path@name'): #[child_parents(...)] is only available for structs." ∈ validate (.enum e) := by
      apply variant_pass_reported e v hvm
      intro es
      unfold validateMember
      simp only
      apply ext_validateMemberErrorInstrs
      refine mem_foldl_of_mem _ _ _ _ (fun f es hm => ?_) ?_
      · apply ext_validateMemberErrorInstrs
        apply ext_validateDedicatedMemberAttrs
        apply ext_validateDedicatedMemberAttrs
        apply ext_parentTypePass
        apply ext_validateParentAttrs
        apply ext_barkAtMemberAttr
        exact hm
      · apply ext_validateDedicatedMemberAttrs
        apply ext_validateDedicatedMemberAttrs
        apply ext_validateDedicatedMemberAttrs
        refine mem_foldl_of_step _ _ _ _ g hmem
          (fun y es hm => ext_variantGhostChildPass y _ _ (ext_ghostPatternPass _ y es _ hm)) (fun es => ?_)
        unfold variantGhostChildPass
        simp only [hcp, Option.isSome_some, if_true]
        exact mem_insert_self _ _
    rw [hv] at this
    cases this

/-! ### flattened members of a struct: every level of the path has its `#[child_parents]` entry -/

theorem TypePath.beq_iff (a b : TypePath) : (a == b) = true ↔ a.pathStr = b.pathStr := by
  show (a.pathStr == b.pathStr) = true ↔ _
  simp

theorem isSomeEq_iff (c : Option TypePath) (ty : TypePath) : isSomeEq c ty = true ↔ ∃ t, c = some t ∧ t.pathStr = ty.pathStr := by
  cases c with
  | none => simp [isSomeEq]
  | some t => simp [isSomeEq, TypePath.beq_iff]

/-- what a "dedicated, else default" search returns -/
theorem findDedicatedOrDefault_some {α : Type} (xs : List α) (ok : α → Bool) (cty : α → Option TypePath) (ty : TypePath) (x : α)
    (h : findDedicatedOrDefault xs ok cty ty = some x) : x ∈ xs ∧ (isSomeEq (cty x) ty = true ∨ (cty x).isNone = true) := by
  unfold findDedicatedOrDefault at h
  cases h1 : xs.find? (fun x => ok x && isSomeEq (cty x) ty) with
  | some y =>
    simp [h1, HOrElse.hOrElse, OrElse.orElse, Option.orElse] at h
    subst h
    have := List.find?_some h1
    simp only [Bool.and_eq_true] at this
    exact ⟨List.mem_of_find?_eq_some h1, Or.inl this.2⟩
  | none =>
    simp [h1, HOrElse.hOrElse, OrElse.orElse, Option.orElse] at h
    have := List.find?_some h
    simp only [Bool.and_eq_true] at this
    exact ⟨List.mem_of_find?_eq_some h, Or.inr this.2⟩

/-- the lookups only look at the counterpart's printed path -/
theorem childParentsAttr_congr (dta : DataTypeAttrs) (a b : TypePath) (h : a.pathStr = b.pathStr) :
    dta.childParentsAttr a = dta.childParentsAttr b := by
  unfold DataTypeAttrs.childParentsAttr findDedicatedOrDefault
  have : ∀ c : Option TypePath, isSomeEq c a = isSomeEq c b := by
    intro c
    cases c with
    | none => rfl
    | some t => show (t.pathStr == a.pathStr) = (t.pathStr == b.pathStr); rw [h]
  simp only [this]

theorem childLevelMsg_congr (dta : DataTypeAttrs) (a b : TypePath) (h : a.pathStr = b.pathStr) (path : String) :
    childLevelMsg dta a path = childLevelMsg dta b path := by
  unfold childLevelMsg
  rw [childParentsAttr_congr dta a b h, h]

theorem uniqueInOrder_has (l : List TypePath) (x : TypePath) (hx : x ∈ l) :
    ∃ y ∈ uniqueInOrder l, y.pathStr = x.pathStr := by
  unfold uniqueInOrder
  -- generalise the accumulator: what is in it stays, and every element of the list ends up represented
  have key : ∀ (l : List TypePath) (acc : List TypePath),
      (∀ y ∈ acc, ∃ z ∈ l.foldl (fun acc tp => if acc.contains tp then acc else acc ++ [tp]) acc, z.pathStr = y.pathStr) ∧
      (∀ x ∈ l, ∃ z ∈ l.foldl (fun acc tp => if acc.contains tp then acc else acc ++ [tp]) acc, z.pathStr = x.pathStr) := by
    intro l
    induction l with
    | nil => intro acc; exact ⟨fun y hy => ⟨y, hy, rfl⟩, fun x hx => by cases hx⟩
    | cons t rest ih =>
      intro acc
      simp only [List.foldl_cons]
      obtain ⟨ihacc, ihrest⟩ := ih (if acc.contains t then acc else acc ++ [t])
      have hsub : ∀ y ∈ acc, y ∈ (if acc.contains t then acc else acc ++ [t]) := by
        intro y hy; split <;> simp [hy]
      refine ⟨fun y hy => ihacc y (hsub y hy), ?_⟩
      intro x hx
      rcases List.mem_cons.mp hx with rfl | hx
      · by_cases hc : acc.contains x = true
        · obtain ⟨w, hw, hwe⟩ := List.contains_iff_exists_mem_beq.mp hc
          obtain ⟨z, hz, hze⟩ := ihacc w (hsub w hw)
          exact ⟨z, hz, by rw [hze]; exact ((TypePath.beq_iff _ _).mp hwe).symm⟩
        · have : x ∈ (if acc.contains x then acc else acc ++ [x]) := by simp [hc]
          exact ihacc x this
      · exact ihrest x hx
  exact (key l []).2 x hx

theorem intoTypePaths_has (byKind : List (TraitAttrCore × Kind)) (a : TraitAttrCore) (k : Kind) (hx : (a, k) ∈ byKind)
    (hf : k.isFrom = false) (he : k.isIntoExisting = false) :
    ∃ y ∈ uniqueInOrder ((byKind.filter fun (_, k) => !k.isFrom && !k.isIntoExisting).map (·.1.ty)), y.pathStr = a.ty.pathStr := by
  apply uniqueInOrder_has
  simp only [List.mem_map, List.mem_filter]
  exact ⟨(a, k), ⟨hx, by simp [hf, he]⟩, rfl⟩

/-- `childPass` reports a missing level of the path of a `#[child]` instruction that applies to the counterpart `ty` -/
theorem childPass_reports (dta : DataTypeAttrs) (tps into : List TypePath) (ca : ChildAttr) (ty : TypePath)
    (hinto : ∃ y ∈ into, y.pathStr = ty.pathStr)
    (happ : isSomeEq ca.containerTy ty = true ∨ ca.containerTy.isNone = true)
    (path : String) (hp : path ∈ ca.childPath.strs) (msg : String) (hm : childLevelMsg dta ty path = some msg) (es : Errors) :
    msg ∈ childPass dta tps into ca es := by
  obtain ⟨y, hy, hye⟩ := hinto
  unfold childPass
  rcases happ with happ | happ
  · obtain ⟨t, ht, hte⟩ := (isSomeEq_iff _ _).mp happ
    simp only [ht]
    have hc : into.contains t = true :=
      List.contains_iff_exists_mem_beq.mpr ⟨y, hy, (TypePath.beq_iff _ _).mpr (by rw [hte, hye])⟩
    simp only [hc, if_true]
    unfold checkChildErrors
    exact checkChildPath_reports ca.childPath dta t path hp msg (by rw [childLevelMsg_congr dta t ty hte]; exact hm) _
  · cases hct : ca.containerTy with
    | some t => simp [hct] at happ
    | none =>
      simp only
      refine mem_foldl_of_step _ _ _ _ y hy (fun z es hm' => ext_checkChildErrors ca dta z es _ hm') (fun es => ?_)
      unfold checkChildErrors
      exact checkChildPath_reports ca.childPath dta y path hp msg (by rw [childLevelMsg_congr dta y ty hye]; exact hm) _

/-- C16 (sites `render_child_fragment: child_parents_attr(..).unwrap()` / `.find(..).unwrap()`, flattened members): in a
    struct that validation accepts, every level of the path of the `#[child]` instruction that applies to an Into
    conversion has its `#[child_parents]` entry for that counterpart -/
theorem C16_member_child_paths_declared (s : Struct) (hv : validate (.struct s) = [])
    (a : TraitAttrCore) (k : Kind) (hx : (a, k) ∈ attrsByKind s.attrs) (hf : k.isFrom = false) (he : k.isIntoExisting = false)
    (f : Field) (hfm : f ∈ s.fields) (ca : ChildAttr) (hca : f.attrs.child a.ty = some ca)
    (path : String) (hp : path ∈ ca.childPath.strs) : childLevelMsg s.attrs a.ty path = none := by
  cases hm : childLevelMsg s.attrs a.ty path with
  | none => rfl
  | some msg =>
    exfalso
    obtain ⟨hmem, happ⟩ := findDedicatedOrDefault_some _ _ _ _ _ hca
    have hcam : ca ∈ s.fields.flatMap (·.attrs.childAttrs) := List.mem_flatMap.mpr ⟨f, hfm, hmem⟩
    have : msg ∈ validate (.struct s) := by
      unfold validate validateEnd
      simp only
      unfold validateFields
      simp only
      have hstep : ∀ es, msg ∈ childPass (DataType.struct s).attrs ((DataType.struct s).attrs.attrs.map (·.core.ty))
          (uniqueInOrder (((attrsByKind (DataType.struct s).attrs).filter fun (_, k) => !k.isFrom && !k.isIntoExisting).map (·.1.ty))) ca es :=
        fun es => childPass_reports _ _ _ ca a.ty (intoTypePaths_has _ a k hx hf he) happ path hp msg hm es
      have hchild := fun es => mem_foldl_of_step _ _ es _ ca hcam (fun y es hm' => ext_childPass _ _ _ y es _ hm') hstep
      split
      · refine mem_foldl_of_mem _ _ _ _ (fun x es hm' => ext_namePass s x.1 x.2 es _ hm') ?_
        exact mem_foldl_of_mem _ _ _ _ (fun y es hm' => ext_ghostChildPass _ y es _ hm') (hchild _)
      · exact mem_foldl_of_mem _ _ _ _ (fun y es hm' => ext_ghostChildPass _ y es _ hm') (hchild _)
    rw [hv] at this
    cases this

/-! ### the cursor of the descent: what a function leaves is a suffix of what it was given -/

def Suf (l : List FieldContainer) (r : E (TS × List FieldContainer)) : Prop := Post (fun x => x.2 <:+ l) r

def SufAll (fuel : Nat) : Prop :=
  (∀ members named ctx fctx, Suf members (structInitBlockInner fuel members named ctx fctx)) ∧
  (∀ members named ctx fctx th frags idx, Suf members (structInitLoop fuel members named ctx fctx th frags idx)) ∧
  (∀ cp fields ctx depth th line, Suf fields (renderChildFragment fuel cp fields ctx depth th line)) ∧
  (∀ field pc fields named ctx depth lh idx, Suf fields (renderParentChildFragment fuel field pc fields named ctx depth lh idx)) ∧
  (∀ cd fields named ctx cp depth hint, Suf fields (renderChild fuel cd fields named ctx cp depth hint)) ∧
  (∀ fields named ctx cp depth, Suf fields (renderExistingChild fuel fields named ctx cp depth))

theorem suf_all : ∀ fuel, SufAll fuel := by
  intro fuel
  induction fuel with
  | zero =>
    refine ⟨?_, ?_, ?_, ?_, ?_, ?_⟩
    · intros; unfold structInitBlockInner; exact Post.error _ _
    · intros; unfold structInitLoop; exact Post.error _ _
    · intros; unfold renderChildFragment; exact Post.error _ _
    · intros; unfold renderParentChildFragment; exact Post.error _ _
    · intros; unfold renderChild; exact Post.error _ _
    · intros; unfold renderExistingChild; exact Post.error _ _
  | succ fuel ih =>
    obtain ⟨ihInner, ihLoop, ihCF, ihPCF, ihChild, ihEx⟩ := ih
    refine ⟨?_, ?_, ?_, ?_, ?_, ?_⟩
    · intro members named ctx fctx
      unfold structInitBlockInner
      simp only []
      refine Post.bind _ _ _ _ (ihLoop _ _ _ _ _ _ _) (fun x hx => ?_)
      refine Post.bind_any _ _ _ (fun _ => Post.bind_any _ _ _ (fun _ => Post.pure _ _ hx))
    · intro members named ctx fctx th frags idx
      unfold structInitLoop
      cases members with
      | nil => exact Post.ok _ _ (List.suffix_refl _)
      | cons fc rest =>
        simp only []
        refine Post.bind_any _ _ _ (fun brk => ?_)
        have hrest : ∀ (r : E (TS × List FieldContainer)), Suf rest r → Suf (fc :: rest) r :=
          fun r hr => Post.mono _ _ _ hr (fun a ha => List.IsSuffix.trans ha (List.suffix_cons _ _))
        have hstep : ∀ (x : E (TS × List FieldContainer)) (g : TS × List FieldContainer → E (TS × List FieldContainer)),
            Suf (fc :: rest) x → (∀ a, Suf a.2 (g a)) → Suf (fc :: rest) (x >>= g) :=
          fun x g hx hg => Post.bind _ _ _ _ hx (fun a ha => Post.mono _ _ _ (hg a) (fun b hb => List.IsSuffix.trans hb ha))
        split
        · exact Post.pure _ _ (List.suffix_refl _)
        · split
          · split
            · exact hrest _ (ihLoop _ _ _ _ _ _ _)
            · split
              · exact hstep _ _ (ihCF _ _ _ _ _ _) (fun a => ihLoop _ _ _ _ _ _ _)
              · exact Post.bind_any _ _ _ (fun _ => hrest _ (ihLoop _ _ _ _ _ _ _))
          · split
            · exact Post.panicAt _ _
            · exact hstep _ _ (ihCF _ _ _ _ _ _) (fun a => ihLoop _ _ _ _ _ _ _)
          · refine Post.bind_any _ _ _ (fun _ => ?_)
            exact hstep _ _ (ihPCF _ _ _ _ _ _ _ _) (fun a => ihLoop _ _ _ _ _ _ _)
    · intro cp fields ctx depth th line
      unfold renderChildFragment
      have hdrop : ∀ (x : E TS), Suf fields (do return (← x, fields.drop 1)) :=
        fun x => Post.bind_any _ _ _ (fun _ => Post.pure _ _ (List.drop_suffix _ _))
      split
      · split
        · split
          · exact Post.panicAt _ _
          · refine Post.bind_any _ _ _ (fun _ => ?_)
            split
            · exact Post.panicAt _ _
            · exact Post.bind_any _ _ _ (fun _ => ihChild _ _ _ _ _ _ _)
        · exact Post.bind_any _ _ _ (fun _ => ihEx _ _ _ _ _)
        · exact hdrop _
      · exact hdrop _
    · intro field pc fields named ctx depth lh idx
      unfold renderParentChildFragment
      split
      · exact Post.bind_any _ _ _ (fun _ => Post.bind_any _ _ _ (fun _ => ihChild _ _ _ _ _ _ _))
      · exact Post.bind_any _ _ _ (fun _ => Post.ok _ _ (List.drop_suffix _ _))
    · intro cd fields named ctx cp depth hint
      unfold renderChild
      simp only []
      refine Post.bind_any _ _ _ (fun _ => ?_)
      refine Post.bind _ _ _ _ (ihInner _ _ _ _) (fun x hx => ?_)
      refine Post.bind_any _ _ _ (fun _ => ?_)
      split <;> first | exact Post.pure _ _ hx | exact Post.panicAt _ _
    · intro fields named ctx cp depth
      unfold renderExistingChild
      exact Post.bind_any _ _ _ (fun _ => ihInner _ _ _ _)

end O2o
