/-
C16, third part — what validation establishes about enum variants (the zone where three panics were found and repaired
late: db73399, 08cc4d9, b5897ad), and the consequences for the expansion stage.
-/
import O2oModel.Props.C16b
import O2oModel.WF
namespace O2o

/-- a message that one variant's pass of the member loop puts into the diagnostics is in `validate`'s result -/
theorem variant_pass_reported (e : Enum) (v : Variant) (hvm : v ∈ e.variants) (msg : String)
    (hstep : ∀ es, msg ∈ validateMember (.enum e) true ((DataType.enum e).attrs.attrs.map (·.core.ty))
      (attrsByKind (DataType.enum e).attrs) es (.variant v)) : msg ∈ validate (.enum e) := by
  have hmember : DataTypeMember.variant v ∈ (DataType.enum e).members := by
    simp only [DataType.members, List.mem_map]
    exact ⟨v, hvm, rfl⟩
  unfold validate
  simp only
  apply ext_validateEnd
  exact mem_foldl_of_step _ _ _ _ (DataTypeMember.variant v) hmember
    (fun y es hm => ext_validateMember _ _ _ _ y es _ hm) (fun es => hstep es)

/-- C16 (`struct_post_init`'s `todo!()`): an enum that validation accepts has no `#[parent]` on a variant -/
theorem C16_variant_no_parent (e : Enum) (hv : validate (.enum e) = []) (v : Variant) (hvm : v ∈ e.variants) :
    v.attrs.parentAttrs = [] := by
  cases hp : v.attrs.parentAttrs with
  | nil => rfl
  | cons p ps =>
    exfalso
    have : "Instruction #[parent(...)] is not supported for this member." ∈ validate (.enum e) := by
      apply variant_pass_reported e v hvm
      intro es
      unfold validateMember
      simp only
      apply ext_validateMemberErrorInstrs
      refine mem_foldl_of_mem _ _ _ _ (fun f es hm => ?_) ?_
      · apply ext_validateMemberErrorInstrs
        apply ext_validateDedicatedMemberAttrs
        apply ext_validateDedicatedMemberAttrs
        apply ext_parentTypePass
        apply ext_validateParentAttrs
        apply ext_barkAtMemberAttr
        exact hm
      · apply ext_validateDedicatedMemberAttrs
        apply ext_validateDedicatedMemberAttrs
        apply ext_validateDedicatedMemberAttrs
        refine mem_foldl_of_mem _ _ _ _ (fun g es hm => ext_variantGhostChildPass g _ _ (ext_ghostPatternPass _ g es _ hm)) ?_
        unfold barkAtMemberAttr
        simp only [DataTypeMember.attrs, hp, List.length_cons]
        simp only [show ps.length + 1 > 0 from Nat.succ_pos _, if_true]
        exact mem_insert_self _ _
    rw [hv] at this
    cases this

/-- a message that the pass over one payload member of a variant produces is in `validate`'s result -/
theorem variant_field_pass_reported (e : Enum) (v : Variant) (hvm : v ∈ e.variants) (f : Field) (hf : f ∈ v.fields) (msg : String)
    (hstep : ∀ es, msg ∈ parentTypePass f (attrsByKind (DataType.enum e).attrs)
      (validateParentAttrs v.namedFields (variantWrittenAs v (DataType.enum e).attrs) f.attrs.parentAttrs (attrsByKind (DataType.enum e).attrs)
        (barkAtMemberAttr f.attrs.childAttrs.length "child" es))) :
    msg ∈ validate (.enum e) := by
  apply variant_pass_reported e v hvm
  intro es
  unfold validateMember
  simp only
  apply ext_validateMemberErrorInstrs
  refine mem_foldl_of_step _ _ _ _ f hf (fun f' es hm => ?_) (fun es => ?_)
  · apply ext_validateMemberErrorInstrs
    apply ext_validateDedicatedMemberAttrs
    apply ext_validateDedicatedMemberAttrs
    apply ext_parentTypePass
    apply ext_validateParentAttrs
    apply ext_barkAtMemberAttr
    exact hm
  · apply ext_validateMemberErrorInstrs
    apply ext_validateDedicatedMemberAttrs
    apply ext_validateDedicatedMemberAttrs
    exact hstep es

/-- C16 (fix db73399): in an enum that validation accepts no payload member of a variant is flattened -/
theorem C16_variant_field_no_child (e : Enum) (hv : validate (.enum e) = []) (v : Variant) (hvm : v ∈ e.variants)
    (f : Field) (hf : f ∈ v.fields) : f.attrs.childAttrs = [] := by
  cases hc : f.attrs.childAttrs with
  | nil => rfl
  | cons c cs =>
    exfalso
    have : "Instruction #[child(...)] is not supported for this member." ∈ validate (.enum e) := by
      apply variant_field_pass_reported e v hvm f hf
      intro es
      apply ext_parentTypePass
      apply ext_validateParentAttrs
      unfold barkAtMemberAttr
      simp only [hc, List.length_cons, show cs.length + 1 > 0 from Nat.succ_pos _, if_true]
      exact mem_insert_self _ _
    rw [hv] at this
    cases this

/-- C16 (fix b5897ad): .. and a payload member whose `#[parent(..)]` list a From conversion constructs has a path type -/
theorem C16_variant_field_parent_type (e : Enum) (hv : validate (.enum e) = []) (v : Variant) (hvm : v ∈ e.variants)
    (f : Field) (hf : f ∈ v.fields)
    (hp : f.attrs.parentAttrs.any (parentNeedsType (attrsByKind (DataType.enum e).attrs)) = true) : f.ty.isSome = true := by
  cases hty : f.ty with
  | some t => rfl
  | none =>
    exfalso
    have : ("Type of member " ++ f.member.str ++ " should be a path to a struct: #[parent(...)] constructs it in 'from' conversions.") ∈ validate (.enum e) := by
      apply variant_field_pass_reported e v hvm f hf
      intro es
      unfold parentTypePass
      simp only [hty, Option.isNone_none, hp, Bool.and_self, if_true]
      exact mem_insert_self _ _
    rw [hv] at this
    cases this

/-- C16 (fix 08cc4d9): .. and no variant-level `#[ghosts]` entry is addressed to a nested struct -/
theorem C16_variant_ghost_no_child_path (e : Enum) (hv : validate (.enum e) = []) (v : Variant) (hvm : v ∈ e.variants)
    (ga : GhostsAttr) (hga : ga ∈ v.attrs.ghostsAttrs) (g : GhostData) (hg : g ∈ ga.attr.ghostData) : g.childPath = none := by
  cases hcp : g.childPath with
  | none => rfl
  | some cp =>
    exfalso
    have hmem : g ∈ v.attrs.ghostsAttrs.flatMap (fun x => x.attr.ghostData) := List.mem_flatMap.mpr ⟨ga, hga, hg⟩
    have : "Variant-level #[ghosts(...)] cannot address a nested struct ('path@name'): #[child_parents(...)] is only available for structs." ∈ validate (.enum e) := by
      apply variant_pass_reported e v hvm
      intro es
      unfold validateMember
      simp only
      apply ext_validateMemberErrorInstrs
      refine mem_foldl_of_mem _ _ _ _ (fun f es hm => ?_) ?_
      · apply ext_validateMemberErrorInstrs
        apply ext_validateDedicatedMemberAttrs
        apply ext_validateDedicatedMemberAttrs
        apply ext_parentTypePass
        apply ext_validateParentAttrs
        apply ext_barkAtMemberAttr
        exact hm
      · apply ext_validateDedicatedMemberAttrs
        apply ext_validateDedicatedMemberAttrs
        apply ext_validateDedicatedMemberAttrs
        refine mem_foldl_of_step _ _ _ _ g hmem
          (fun y es hm => ext_variantGhostChildPass y _ _ (ext_ghostPatternPass _ y es _ hm)) (fun es => ?_)
        unfold variantGhostChildPass
        simp only [hcp, Option.isSome_some, if_true]
        exact mem_insert_self _ _
    rw [hv] at this
    cases this

/-! ### flattened members of a struct: every level of the path has its `#[child_parents]` entry -/

theorem TypePath.beq_iff (a b : TypePath) : (a == b) = true ↔ a.pathStr = b.pathStr := by
  show (a.pathStr == b.pathStr) = true ↔ _
  simp

theorem isSomeEq_iff (c : Option TypePath) (ty : TypePath) : isSomeEq c ty = true ↔ ∃ t, c = some t ∧ t.pathStr = ty.pathStr := by
  cases c with
  | none => simp [isSomeEq]
  | some t => simp [isSomeEq, TypePath.beq_iff]

/-- what a "dedicated, else default" search returns -/
theorem findDedicatedOrDefault_some {α : Type} (xs : List α) (ok : α → Bool) (cty : α → Option TypePath) (ty : TypePath) (x : α)
    (h : findDedicatedOrDefault xs ok cty ty = some x) : x ∈ xs ∧ (isSomeEq (cty x) ty = true ∨ (cty x).isNone = true) := by
  unfold findDedicatedOrDefault at h
  cases h1 : xs.find? (fun x => ok x && isSomeEq (cty x) ty) with
  | some y =>
    simp [h1, HOrElse.hOrElse, OrElse.orElse, Option.orElse] at h
    subst h
    have := List.find?_some h1
    simp only [Bool.and_eq_true] at this
    exact ⟨List.mem_of_find?_eq_some h1, Or.inl this.2⟩
  | none =>
    simp [h1, HOrElse.hOrElse, OrElse.orElse, Option.orElse] at h
    have := List.find?_some h
    simp only [Bool.and_eq_true] at this
    exact ⟨List.mem_of_find?_eq_some h, Or.inr this.2⟩

/-- the lookups only look at the counterpart's printed path -/
theorem childParentsAttr_congr (dta : DataTypeAttrs) (a b : TypePath) (h : a.pathStr = b.pathStr) :
    dta.childParentsAttr a = dta.childParentsAttr b := by
  unfold DataTypeAttrs.childParentsAttr findDedicatedOrDefault
  have : ∀ c : Option TypePath, isSomeEq c a = isSomeEq c b := by
    intro c
    cases c with
    | none => rfl
    | some t => show (t.pathStr == a.pathStr) = (t.pathStr == b.pathStr); rw [h]
  simp only [this]

theorem childLevelMsg_congr (dta : DataTypeAttrs) (a b : TypePath) (h : a.pathStr = b.pathStr) (path : String) :
    childLevelMsg dta a path = childLevelMsg dta b path := by
  unfold childLevelMsg
  rw [childParentsAttr_congr dta a b h, h]

theorem uniqueInOrder_has (l : List TypePath) (x : TypePath) (hx : x ∈ l) :
    ∃ y ∈ uniqueInOrder l, y.pathStr = x.pathStr := by
  unfold uniqueInOrder
  -- generalise the accumulator: what is in it stays, and every element of the list ends up represented
  have key : ∀ (l : List TypePath) (acc : List TypePath),
      (∀ y ∈ acc, ∃ z ∈ l.foldl (fun acc tp => if acc.contains tp then acc else acc ++ [tp]) acc, z.pathStr = y.pathStr) ∧
      (∀ x ∈ l, ∃ z ∈ l.foldl (fun acc tp => if acc.contains tp then acc else acc ++ [tp]) acc, z.pathStr = x.pathStr) := by
    intro l
    induction l with
    | nil => intro acc; exact ⟨fun y hy => ⟨y, hy, rfl⟩, fun x hx => by cases hx⟩
    | cons t rest ih =>
      intro acc
      simp only [List.foldl_cons]
      obtain ⟨ihacc, ihrest⟩ := ih (if acc.contains t then acc else acc ++ [t])
      have hsub : ∀ y ∈ acc, y ∈ (if acc.contains t then acc else acc ++ [t]) := by
        intro y hy; split <;> simp [hy]
      refine ⟨fun y hy => ihacc y (hsub y hy), ?_⟩
      intro x hx
      rcases List.mem_cons.mp hx with rfl | hx
      · by_cases hc : acc.contains x = true
        · obtain ⟨w, hw, hwe⟩ := List.contains_iff_exists_mem_beq.mp hc
          obtain ⟨z, hz, hze⟩ := ihacc w (hsub w hw)
          exact ⟨z, hz, by rw [hze]; exact ((TypePath.beq_iff _ _).mp hwe).symm⟩
        · have : x ∈ (if acc.contains x then acc else acc ++ [x]) := by simp [hc]
          exact ihacc x this
      · exact ihrest x hx
  exact (key l []).2 x hx

theorem intoTypePaths_has (byKind : List (TraitAttrCore × Kind)) (a : TraitAttrCore) (k : Kind) (hx : (a, k) ∈ byKind)
    (hf : k.isFrom = false) (he : k.isIntoExisting = false) :
    ∃ y ∈ uniqueInOrder ((byKind.filter fun (_, k) => !k.isFrom && !k.isIntoExisting).map (·.1.ty)), y.pathStr = a.ty.pathStr := by
  apply uniqueInOrder_has
  simp only [List.mem_map, List.mem_filter]
  exact ⟨(a, k), ⟨hx, by simp [hf, he]⟩, rfl⟩

/-- `childPass` reports a missing level of the path of a `#[child]` instruction that applies to the counterpart `ty` -/
theorem childPass_reports (dta : DataTypeAttrs) (tps into : List TypePath) (ca : ChildAttr) (ty : TypePath)
    (hinto : ∃ y ∈ into, y.pathStr = ty.pathStr)
    (happ : isSomeEq ca.containerTy ty = true ∨ ca.containerTy.isNone = true)
    (path : String) (hp : path ∈ ca.childPath.strs) (msg : String) (hm : childLevelMsg dta ty path = some msg) (es : Errors) :
    msg ∈ childPass dta tps into ca es := by
  obtain ⟨y, hy, hye⟩ := hinto
  unfold childPass
  rcases happ with happ | happ
  · obtain ⟨t, ht, hte⟩ := (isSomeEq_iff _ _).mp happ
    simp only [ht]
    have hc : into.contains t = true :=
      List.contains_iff_exists_mem_beq.mpr ⟨y, hy, (TypePath.beq_iff _ _).mpr (by rw [hte, hye])⟩
    simp only [hc, if_true]
    unfold checkChildErrors
    exact checkChildPath_reports ca.childPath dta t path hp msg (by rw [childLevelMsg_congr dta t ty hte]; exact hm) _
  · cases hct : ca.containerTy with
    | some t => simp [hct] at happ
    | none =>
      simp only
      refine mem_foldl_of_step _ _ _ _ y hy (fun z es hm' => ext_checkChildErrors ca dta z es _ hm') (fun es => ?_)
      unfold checkChildErrors
      exact checkChildPath_reports ca.childPath dta y path hp msg (by rw [childLevelMsg_congr dta y ty hye]; exact hm) _

/-- C16 (sites `render_child_fragment: child_parents_attr(..).unwrap()` / `.find(..).unwrap()`, flattened members): in a
    struct that validation accepts, every level of the path of the `#[child]` instruction that applies to an Into
    conversion has its `#[child_parents]` entry for that counterpart -/
theorem C16_member_child_paths_declared (s : Struct) (hv : validate (.struct s) = [])
    (a : TraitAttrCore) (k : Kind) (hx : (a, k) ∈ attrsByKind s.attrs) (hf : k.isFrom = false) (he : k.isIntoExisting = false)
    (f : Field) (hfm : f ∈ s.fields) (ca : ChildAttr) (hca : f.attrs.child a.ty = some ca)
    (path : String) (hp : path ∈ ca.childPath.strs) : childLevelMsg s.attrs a.ty path = none := by
  cases hm : childLevelMsg s.attrs a.ty path with
  | none => rfl
  | some msg =>
    exfalso
    obtain ⟨hmem, happ⟩ := findDedicatedOrDefault_some _ _ _ _ _ hca
    have hcam : ca ∈ s.fields.flatMap (·.attrs.childAttrs) := List.mem_flatMap.mpr ⟨f, hfm, hmem⟩
    have : msg ∈ validate (.struct s) := by
      unfold validate validateEnd
      simp only
      unfold validateFields
      simp only
      have hstep : ∀ es, msg ∈ childPass (DataType.struct s).attrs ((DataType.struct s).attrs.attrs.map (·.core.ty))
          (uniqueInOrder (((attrsByKind (DataType.struct s).attrs).filter fun (_, k) => !k.isFrom && !k.isIntoExisting).map (·.1.ty))) ca es :=
        fun es => childPass_reports _ _ _ ca a.ty (intoTypePaths_has _ a k hx hf he) happ path hp msg hm es
      have hchild := fun es => mem_foldl_of_step _ _ es _ ca hcam (fun y es hm' => ext_childPass _ _ _ y es _ hm') hstep
      split
      · refine mem_foldl_of_mem _ _ _ _ (fun x es hm' => ext_namePass s x.1.core x.2 x.1.fallible es _ hm') ?_
        refine mem_foldl_of_mem _ _ _ _ (fun y es hm' => ext_childBareParentPass s y es _ hm') ?_
        exact mem_foldl_of_mem _ _ _ _ (fun y es hm' => ext_ghostChildPass _ y es _ hm') (hchild _)
      · refine mem_foldl_of_mem _ _ _ _ (fun y es hm' => ext_childBareParentPass s y es _ hm') ?_
        exact mem_foldl_of_mem _ _ _ _ (fun y es hm' => ext_ghostChildPass _ y es _ hm') (hchild _)
    rw [hv] at this
    cases this

/-! ### the cursor of the descent: what a function leaves is a suffix of what it was given -/

def Suf (l : List FieldContainer) (r : E (TS × List FieldContainer)) : Prop := Post (fun x => x.2 <:+ l) r

def SufAll (fuel : Nat) : Prop :=
  (∀ members named ctx fctx, Suf members (structInitBlockInner fuel members named ctx fctx)) ∧
  (∀ members named ctx fctx th frags idx, Suf members (structInitLoop fuel members named ctx fctx th frags idx)) ∧
  (∀ cp fields ctx depth th line, Suf fields (renderChildFragment fuel cp fields ctx depth th line)) ∧
  (∀ field pc fields named ctx depth lh idx, Suf fields (renderParentChildFragment fuel field pc fields named ctx depth lh idx)) ∧
  (∀ cd fields named ctx cp depth hint, Suf fields (renderChild fuel cd fields named ctx cp depth hint)) ∧
  (∀ fields named ctx cp depth, Suf fields (renderExistingChild fuel fields named ctx cp depth))

theorem suf_all : ∀ fuel, SufAll fuel := by
  intro fuel
  induction fuel with
  | zero =>
    refine ⟨?_, ?_, ?_, ?_, ?_, ?_⟩
    · intros; unfold structInitBlockInner; exact Post.error _ _
    · intros; unfold structInitLoop; exact Post.error _ _
    · intros; unfold renderChildFragment; exact Post.error _ _
    · intros; unfold renderParentChildFragment; exact Post.error _ _
    · intros; unfold renderChild; exact Post.error _ _
    · intros; unfold renderExistingChild; exact Post.error _ _
  | succ fuel ih =>
    obtain ⟨ihInner, ihLoop, ihCF, ihPCF, ihChild, ihEx⟩ := ih
    refine ⟨?_, ?_, ?_, ?_, ?_, ?_⟩
    · intro members named ctx fctx
      unfold structInitBlockInner
      simp only []
      refine Post.bind _ _ _ _ (ihLoop _ _ _ _ _ _ _) (fun x hx => ?_)
      refine Post.bind_any _ _ _ (fun _ => Post.bind_any _ _ _ (fun _ => Post.pure _ _ hx))
    · intro members named ctx fctx th frags idx
      unfold structInitLoop
      cases members with
      | nil => exact Post.ok _ _ (List.suffix_refl _)
      | cons fc rest =>
        simp only []
        refine Post.bind_any _ _ _ (fun brk => ?_)
        have hrest : ∀ (r : E (TS × List FieldContainer)), Suf rest r → Suf (fc :: rest) r :=
          fun r hr => Post.mono _ _ _ hr (fun a ha => List.IsSuffix.trans ha (List.suffix_cons _ _))
        have hstep : ∀ (x : E (TS × List FieldContainer)) (g : TS × List FieldContainer → E (TS × List FieldContainer)),
            Suf (fc :: rest) x → (∀ a, Suf a.2 (g a)) → Suf (fc :: rest) (x >>= g) :=
          fun x g hx hg => Post.bind _ _ _ _ hx (fun a ha => Post.mono _ _ _ (hg a) (fun b hb => List.IsSuffix.trans hb ha))
        split
        · exact Post.pure _ _ (List.suffix_refl _)
        · split
          · split
            · exact hrest _ (ihLoop _ _ _ _ _ _ _)
            · split
              · exact hstep _ _ (ihCF _ _ _ _ _ _) (fun a => ihLoop _ _ _ _ _ _ _)
              · exact Post.bind_any _ _ _ (fun _ => hrest _ (ihLoop _ _ _ _ _ _ _))
          · split
            · exact Post.panicAt _ _
            · exact hstep _ _ (ihCF _ _ _ _ _ _) (fun a => ihLoop _ _ _ _ _ _ _)
          · refine Post.bind_any _ _ _ (fun _ => ?_)
            exact hstep _ _ (ihPCF _ _ _ _ _ _ _ _) (fun a => ihLoop _ _ _ _ _ _ _)
    · intro cp fields ctx depth th line
      unfold renderChildFragment
      have hdrop : ∀ (x : E TS), Suf fields (do return (← x, fields.drop 1)) :=
        fun x => Post.bind_any _ _ _ (fun _ => Post.pure _ _ (List.drop_suffix _ _))
      split
      · split
        · split
          · exact Post.panicAt _ _
          · refine Post.bind_any _ _ _ (fun _ => ?_)
            split
            · exact Post.panicAt _ _
            · exact Post.bind_any _ _ _ (fun _ => ihChild _ _ _ _ _ _ _)
        · exact Post.bind_any _ _ _ (fun _ => ihEx _ _ _ _ _)
        · exact hdrop _
      · exact hdrop _
    · intro field pc fields named ctx depth lh idx
      unfold renderParentChildFragment
      split
      · exact Post.bind_any _ _ _ (fun _ => Post.bind_any _ _ _ (fun _ => ihChild _ _ _ _ _ _ _))
      · exact Post.bind_any _ _ _ (fun _ => Post.ok _ _ (List.drop_suffix _ _))
    · intro cd fields named ctx cp depth hint
      unfold renderChild
      simp only []
      refine Post.bind_any _ _ _ (fun _ => ?_)
      refine Post.bind _ _ _ _ (ihInner _ _ _ _) (fun x hx => ?_)
      refine Post.bind_any _ _ _ (fun _ => ?_)
      split <;> first | exact Post.pure _ _ hx | exact Post.panicAt _ _
    · intro fields named ctx cp depth
      unfold renderExistingChild
      exact Post.bind_any _ _ _ (fun _ => ihInner _ _ _ _)

/-! ### the descent over a validated input -/

theorem buildChildPathStr_length (ms : List Member) (acc : List String) :
    (buildChildPathStr ms acc).length = ms.length + acc.length := by
  induction ms generalizing acc with
  | nil => simp [buildChildPathStr]
  | cons m rest ih =>
    cases acc with
    | nil => simp [buildChildPathStr, ih]
    | cons a as => simp [buildChildPathStr, ih]; omega

/-- a child path as the parser builds it: one printed prefix per level, at least one level -/
def ChildPath.WF (cp : ChildPath) : Prop := cp.strs.length = cp.path.length ∧ cp.path ≠ []

theorem ofMembers_WF (m : Member) (ms : List Member) : (ChildPath.ofMembers (m :: ms)).WF := by
  refine ⟨?_, by simp [ChildPath.ofMembers]⟩
  simp [ChildPath.ofMembers, buildChildPathStr_length]

theorem WF_pos (cp : ChildPath) (h : cp.WF) : 0 < cp.strs.length := by
  rw [h.1]
  cases hp : cp.path with
  | nil => exact absurd hp h.2
  | cons a as => simp

/-- every level of the path has its `#[child_parents]` entry, when the conversion builds the nested structs (Into) -/
def Decl (ctx : ImplContext) (cp : ChildPath) : Prop :=
  cp.WF ∧ (ctx.kind.cls = .into → ∀ path ∈ cp.strs, childLevelMsg ctx.input.attrs ctx.ty path = none)

/-- what the descent relies on for one entry of the grouped member list -/
def GoodFC (ctx : ImplContext) (fc : FieldContainer) : Prop :=
  match fc.fieldData with
  | .field f => ∀ ca, f.attrs.child ctx.ty = some ca → Decl ctx ca.childPath
  | .ghostData g => ∃ cp, g.childPath = some cp ∧ Decl ctx cp
  | .parentChildField f pc => ctx.kind.isFrom = true → (f.ty.isSome = true ∧ ∀ i ∈ pc.subPath, i.2.isSome = true)

/-- the shape a level is written in is never `Unit` outside From conversions -/
def THok (ctx : ImplContext) (th : TypeHint) : Prop := ctx.kind.isFrom = false → th ≠ .unit

/-- the level being rendered is a level of its path -/
def FCok (fctx : FieldCtx) : Prop := ∀ cp cd d, fctx = some (cp, cd, d) → cp.WF ∧ d < cp.strs.length

def hintOf (ctx : ImplContext) (fctx : FieldCtx) : TypeHint :=
  match fctx with
  | some (_, some crc, _) => crc.typeHint
  | _ => ctx.structAttr.typeHint

structure VCtx (s : String) (ctx : ImplContext) : Prop where
  ok : CtxOK s ctx
  hunit : ∀ ca ∈ ctx.input.attrs.childParentsAttrs, ∀ cd ∈ ca.childParents, cd.typeHint ≠ .unit
  htop : THok ctx ctx.structAttr.typeHint

/-- the sites a struct body can still stop at when the input is validated (and its child paths are well-formed): the four
    listed findings -/
def lineSites : List String := [
  "expand.rs:render_struct_line:unreachable(6)",
  "expand.rs:ApplicableAttr::get_ident:unreachable(8)",
  "expand.rs:ApplicableAttr::get_ident:unreachable(18)",
  "expand.rs:ApplicableAttr::get_ident:unreachable(19)"]

theorem getStr_np_lt (s : String) (cp : ChildPath) (d : Nat) (h : d < cp.strs.length) : NP s (cp.getStr (some d)) := by
  unfold ChildPath.getStr
  simp only [List.getElem?_eq_getElem h]
  exact NP.ok _ _

theorem getStr_post (cp : ChildPath) (d : Nat) : Post (fun key => key ∈ cp.strs) (cp.getStr (some d)) := by
  unfold ChildPath.getStr
  simp only
  split
  · rename_i k hk
    exact Post.ok _ _ (List.mem_of_getElem? hk)
  · exact Post.error _ _

theorem childLevelMsg_none (dta : DataTypeAttrs) (ty : TypePath) (path : String) (h : childLevelMsg dta ty path = none) :
    ∃ cpa, dta.childParentsAttr ty = some cpa ∧ ∃ cd, cpa.childParents.find? (fun cd => cd.fieldPathStr == path) = some cd := by
  unfold childLevelMsg at h
  cases hc : dta.childParentsAttr ty with
  | none => simp [hc] at h
  | some cpa =>
    simp only [hc] at h
    refine ⟨cpa, rfl, ?_⟩
    split at h
    · cases h
    · rename_i hany
      simp only [Bool.not_eq_true', Bool.not_eq_false] at hany
      have hany' : cpa.childParents.any (fun x => x.fieldPathStr == path) = true := by simpa using hany
      cases hf : cpa.childParents.find? (fun cd => cd.fieldPathStr == path) with
      | some cd => exact ⟨cd, rfl⟩
      | none =>
        rw [List.find?_eq_none] at hf
        obtain ⟨x, hx, hxp⟩ := List.any_eq_true.mp hany'
        exact absurd hxp (by simpa using hf x hx)

theorem childParentsAttr_mem (dta : DataTypeAttrs) (ty : TypePath) (cpa : ChildParentsAttr) (h : dta.childParentsAttr ty = some cpa) :
    cpa ∈ dta.childParentsAttrs := (findDedicatedOrDefault_some _ _ _ _ _ h).1

section
variable (s : String) (hA : ∀ site ∈ lineSites, site ≠ s)
include hA

theorem structLine_np_v (f : Field) (ctx : ImplContext) (hint : TypeHint) (idx : Nat) (hs : fieldSkipped ctx f = false) :
    NP s (renderStructLine f ctx hint idx none) := by
  intro h
  rcases C16_struct_line_panics f ctx hint idx s hs h with h | h
  · exact hA _ (by decide) h.symm
  · exact hA _ (by decide) h.symm

theorem parentLine_np_v (f : Field) (ctx : ImplContext) (hint : TypeHint) (idx : Nat) (pc : ParentChildField) :
    NP s (renderStructLine f ctx hint idx (some pc)) := by
  intro h
  rcases C16_parent_line_panics f ctx hint idx pc s h with h | h
  · exact hA _ (by decide) h.symm
  · exact hA _ (by decide) h.symm

omit hA in
theorem wrapInit_np_v (ctx : ImplContext) (hint : TypeHint) (n : Bool) (fr : TS) (hth : THok ctx hint) : NP s (wrapInit ctx hint n fr) := by
  unfold wrapInit
  split
  · exact NP.ok _ _
  · split
    · exact NP.ok _ _
    · rename_i hnf
      have hnf' : ctx.kind.isFrom = false := by simpa using hnf
      split
      · exact NP.ok _ _
      · exact NP.ok _ _
      · exact NP.ok _ _
      · exact absurd rfl (hth hnf')

omit hA in
theorem levelBreak_np_v (fc : FieldCtx) (p : String) (hfc : FCok fc) : NP s (levelBreak fc p) := by
  unfold levelBreak
  split
  · exact NP.bind _ _ _ (getStr_np_lt _ _ _ (hfc _ _ _ rfl).2) (fun _ => NP.pure _ _)
  · exact NP.pure _ _

omit hA in
theorem structGhostLines_np_v (ctx : ImplContext) (fc : FieldCtx) (hok : GhostsOK s ctx.input.attrs.ghostsAttrs) (hfc : FCok fc) :
    NP s (structGhostLines ctx fc) := by
  unfold structGhostLines
  split
  · rename_i hk
    have hk' : ctx.kind.isFrom = false := by simpa using hk
    split
    · rename_i ga hga
      obtain ⟨x, hx, rfl⟩ := ghostsAttr_mem _ _ _ _ hga
      apply NP.foldlM_mem
      intro acc g hg
      have hid := hok x hx g hg
      split
      · apply NP.bind
        · unfold GhostData.getChildPathStr
          split
          · exact getStr_none_np _ _
          · exact NP.ok _ _
        · intro a
          apply NP.bind _ _ _ (getStr_np_lt _ _ _ (hfc _ _ _ rfl).2)
          intro b
          split
          · exact NP.bind _ _ _ (renderGhostLine_np_of _ _ _ hid hk') (fun _ => NP.pure _ _)
          · exact NP.pure _ _
      · exact NP.bind _ _ _ (renderGhostLine_np_of _ _ _ hid hk') (fun _ => NP.pure _ _)
      · exact NP.pure _ _
    · exact NP.pure _ _
  · exact NP.pure _ _

def BodyV (fuel : Nat) : Prop :=
  (∀ members named ctx fctx, VCtx s ctx → (∀ fc ∈ members, GoodFC ctx fc) → THok ctx (hintOf ctx fctx) → FCok fctx →
      NP s (structInitBlockInner fuel members named ctx fctx)) ∧
  (∀ members named ctx fctx th frags idx, VCtx s ctx → (∀ fc ∈ members, GoodFC ctx fc) → THok ctx th → FCok fctx →
      NP s (structInitLoop fuel members named ctx fctx th frags idx)) ∧
  (∀ cp fields ctx depth th line, VCtx s ctx → (∀ fc ∈ fields, GoodFC ctx fc) → THok ctx th → Decl ctx cp → NP s (line ()) →
      NP s (renderChildFragment fuel cp fields ctx depth th line)) ∧
  (∀ field pc fields named ctx depth lh idx, VCtx s ctx → (∀ fc ∈ fields, GoodFC ctx fc) →
      (ctx.kind.isFrom = true → (field.ty.isSome = true ∧ ∀ i ∈ pc.subPath, i.2.isSome = true)) →
      NP s (renderParentChildFragment fuel field pc fields named ctx depth lh idx)) ∧
  (∀ cd fields named ctx cp depth hint, VCtx s ctx → (∀ fc ∈ fields, GoodFC ctx fc) → THok ctx cd.typeHint → hint ≠ .unit →
      cp.WF → depth < cp.strs.length → NP s (renderChild fuel cd fields named ctx cp depth hint)) ∧
  (∀ fields named ctx cp depth, VCtx s ctx → (∀ fc ∈ fields, GoodFC ctx fc) → cp.WF → depth < cp.strs.length →
      NP s (renderExistingChild fuel fields named ctx cp depth))

theorem body_v : ∀ fuel, BodyV s fuel := by
  intro fuel
  induction fuel with
  | zero =>
    refine ⟨?_, ?_, ?_, ?_, ?_, ?_⟩
    · intros; unfold structInitBlockInner; exact NP.error_unsupported _ _
    · intros; unfold structInitLoop; exact NP.error_unsupported _ _
    · intros; unfold renderChildFragment; exact NP.error_unsupported _ _
    · intros; unfold renderParentChildFragment; exact NP.error_unsupported _ _
    · intros; unfold renderChild; exact NP.error_unsupported _ _
    · intros; unfold renderExistingChild; exact NP.error_unsupported _ _
  | succ fuel ih =>
    obtain ⟨ihInner, ihLoop, ihCF, ihPCF, ihChild, ihEx⟩ := ih
    obtain ⟨sufInner, sufLoop, sufCF, sufPCF, sufChild, sufEx⟩ := suf_all fuel
    refine ⟨?_, ?_, ?_, ?_, ?_, ?_⟩
    · intro members named ctx fctx hv hgood hth hfc
      rcases fctx with _ | ⟨cp, _ | crc, d⟩ <;>
      · unfold structInitBlockInner
        simp only []
        simp only [hintOf] at hth
        refine NP.bind _ _ _ (ihLoop _ _ _ _ _ _ _ hv hgood hth hfc) (fun _ => ?_)
        refine NP.bind _ _ _ (structGhostLines_np_v s _ _ hv.ok.2 hfc) (fun _ => ?_)
        exact NP.bind _ _ _ (wrapInit_np_v s _ _ _ _ hth) (fun _ => NP.pure _ _)
    · intro members named ctx fctx th frags idx hv hgood hth hfc
      unfold structInitLoop
      cases members with
      | nil => exact NP.ok _ _
      | cons fc rest =>
        simp only []
        refine NP.bind _ _ _ (levelBreak_np_v s _ _ hfc) (fun brk => ?_)
        have hfcg : GoodFC ctx fc := hgood fc List.mem_cons_self
        have hrestg : ∀ x ∈ rest, GoodFC ctx x := fun x hx => hgood x (List.mem_cons_of_mem _ hx)
        have hsufg : ∀ l : List FieldContainer, l <:+ (fc :: rest) → ∀ x ∈ l, GoodFC ctx x :=
          fun l hl x hx => hgood x (hl.subset hx)
        split
        · exact NP.pure _ _
        · split
          · -- a member
            rename_i f hfd
            split
            · exact ihLoop _ _ _ _ _ _ _ hv hrestg hth hfc
            · rename_i hskip
              have hskip' : fieldSkipped ctx f = false := by simpa using hskip
              split
              · rename_i ca hca
                have hdecl : Decl ctx ca.childPath := by
                  have := hfcg
                  simp only [GoodFC, hfd] at this
                  exact this ca hca
                refine NP.bind_post _ _ _ _ (ihCF _ _ _ _ _ _ hv hgood hth hdecl (structLine_np_v s hA _ _ _ _ hskip'))
                  (sufCF _ _ _ _ _ _) (fun a ha => ihLoop _ _ _ _ _ _ _ hv (hsufg _ ha) hth hfc)
              · refine NP.bind _ _ _ (structLine_np_v s hA _ _ _ _ hskip') (fun _ => ihLoop _ _ _ _ _ _ _ hv hrestg hth hfc)
          · -- a struct-level ghost entry: it has a child path, declared at every level
            rename_i g hfd
            have := hfcg
            simp only [GoodFC, hfd] at this
            obtain ⟨cp, hcp, hdecl⟩ := this
            simp only [hcp]
            refine NP.bind_post _ _ _ _ (ihCF _ _ _ _ _ _ hv hgood hth hdecl (NP.ok _ _))
              (sufCF _ _ _ _ _ _) (fun a ha => ihLoop _ _ _ _ _ _ _ hv (hsufg _ ha) hth hfc)
          · -- a nested member of a #[parent(..)] list
            rename_i f pc hfd
            have hty := hfcg
            simp only [GoodFC, hfd] at hty
            refine NP.bind _ _ _ (parentChildHint_np s _ _ hv.ok.1) (fun _ => ?_)
            refine NP.bind_post _ _ _ _ (ihPCF _ _ _ _ _ _ _ _ hv hgood hty)
              (sufPCF _ _ _ _ _ _ _ _) (fun a ha => ihLoop _ _ _ _ _ _ _ hv (hsufg _ ha) hth hfc)
    · intro cp fields ctx depth th line hv hgood hth hdecl hline
      unfold renderChildFragment
      split
      · rename_i hdeep
        -- the level below exists: its index is inside the path
        have hnd : nextDepth depth < cp.strs.length := by
          have hpos := WF_pos cp hdecl.1
          cases depth with
          | none => simpa [nextDepth] using hpos
          | some d =>
            have : d < cp.strs.length - 1 := by simpa [deeperThan] using hdeep
            simp only [nextDepth]; omega
        split
        · -- Into: the nested struct is built from its #[child_parents] entry
          rename_i hcls
          have hall := hdecl.2 hcls
          have hnf : ctx.kind.isFrom = false := cls_not_from _ (Or.inl hcls)
          split
          · rename_i hnone
            have hpos := WF_pos cp hdecl.1
            obtain ⟨cpa, hcpa, _⟩ := childLevelMsg_none _ _ _ (hall (cp.strs[0]) (List.getElem_mem hpos))
            rw [hcpa] at hnone
            cases hnone
          · rename_i cpa hcpa
            refine NP.bind_post _ _ _ _ (getStr_np_lt _ _ _ hnd) (getStr_post _ _) (fun key hkey => ?_)
            obtain ⟨cpa', hcpa', cd, hcd⟩ := childLevelMsg_none _ _ _ (hall key hkey)
            rw [hcpa] at hcpa'
            cases hcpa'
            simp only [hcd]
            have hcdm : cd ∈ cpa.childParents := List.mem_of_find?_eq_some hcd
            have hcdu : cd.typeHint ≠ .unit := hv.hunit cpa (childParentsAttr_mem _ _ _ hcpa) cd hcdm
            exact NP.bind _ _ _ (namedFields_np s _ hv.ok.1)
              (fun _ => ihChild _ _ _ _ _ _ _ hv hgood (fun _ => hcdu) (hth hnf) hdecl.1 hnd)
        · exact NP.bind _ _ _ (namedFields_np s _ hv.ok.1) (fun _ => ihEx _ _ _ _ _ hv hgood hdecl.1 hnd)
        · exact NP.bind _ _ _ hline (fun _ => NP.pure _ _)
      · exact NP.bind _ _ _ hline (fun _ => NP.pure _ _)
    · intro field pc fields named ctx depth lh idx hv hgood hty
      unfold renderParentChildFragment
      split
      · rename_i hcond
        simp only [Bool.and_eq_true] at hcond
        obtain ⟨hfty, hsub⟩ := hty hcond.2
        have hwf : (ChildPath.ofMembers (field.member :: pc.subPath.map (·.1))).WF := ofMembers_WF _ _
        have hlen : (ChildPath.ofMembers (field.member :: pc.subPath.map (·.1))).strs.length = pc.subPath.length + 1 := by
          simp [ChildPath.ofMembers, buildChildPathStr_length]
        have hnd : nextDepth depth < (ChildPath.ofMembers (field.member :: pc.subPath.map (·.1))).strs.length := by
          rw [hlen]
          cases depth with
          | none => simp [nextDepth]
          | some d =>
            have : d < pc.subPath.length := by simpa [deeperThan] using hcond.1
            simp only [nextDepth]; omega
        refine NP.bind _ _ _ ?_ (fun _ => NP.bind _ _ _ (namedFields_np s _ hv.ok.1) (fun nm => ?_))
        · split
          · rename_i d
            split
            · exact NP.pure _ _
            · rename_i m hget
              have := hsub _ (List.mem_of_getElem? hget)
              simp at this
            · rename_i hnone
              have hd : d < pc.subPath.length := by simpa [deeperThan] using hcond.1
              simp [List.getElem?_eq_getElem hd] at hnone
          · split
            · exact NP.pure _ _
            · rename_i hnone
              simp [hnone] at hfty
        · refine ihChild _ _ _ _ _ _ _ hv hgood (fun hnf => by simp [hcond.2] at hnf) ?_ hwf hnd
          cases nm <;> simp
      · exact NP.bind _ _ _ (parentLine_np_v s hA _ _ _ _ _) (fun _ => NP.ok _ _)
    · intro cd fields named ctx cp depth hint hv hgood hcd hhint hwf hd
      unfold renderChild
      simp only []
      refine NP.bind _ _ _ ?_ (fun _ => ?_)
      · split
        · exact NP.pure _ _
        · rename_i hnone
          have : depth < cp.path.length := by rw [← hwf.1]; exact hd
          simp [List.getElem?_eq_getElem this] at hnone
      · refine NP.bind _ _ _ (ihInner _ _ _ _ hv hgood (by simpa [hintOf] using hcd)
          (fun cp' cd' d' h => by cases h; exact ⟨hwf, hd⟩)) (fun _ => ?_)
        refine NP.bind _ _ _ (namedFields_np s _ hv.ok.1) (fun _ => ?_)
        split <;> first | exact NP.pure _ _ | exact absurd rfl hhint
    · intro fields named ctx cp depth hv hgood hwf hd
      unfold renderExistingChild
      refine NP.bind _ _ _ (getStr_np_lt _ _ _ hd) (fun key => ?_)
      refine ihInner _ _ _ _ hv hgood ?_ (fun cp' cd' d' h => by cases h; exact ⟨hwf, hd⟩)
      -- the shape of the level: its #[child_parents] entry (never `Unit`), else the counterpart's own
      cases hb : ((ctx.input.attrs.childParentsAttr ctx.ty).bind fun x => x.childParents.find? (fun cd => cd.fieldPathStr == key)) with
      | none => simpa [hintOf, hb] using hv.htop
      | some cd =>
        simp only [hintOf, hb, Option.map_some]
        obtain ⟨cpa, hcpa, hfind⟩ := Option.bind_eq_some_iff.mp hb
        intro _
        exact hv.hunit cpa (childParentsAttr_mem _ _ _ hcpa) cd (List.mem_of_find?_eq_some hfind)
end

/-! ### where the entries of the grouped member list come from -/

/-- the three origins of an entry of `groupedMembers` -/
def FromInput (input : Struct) (ctx : ImplContext) (fc : FieldContainer) : Prop :=
  (∃ x ∈ input.fields, fc.fieldData = .field x) ∨
  (∃ g ∈ (input.attrs.ghostsAttr ctx.ty ctx.kind).toList.flatMap (·.ghostData), fc.fieldData = .ghostData g ∧ g.childPath.isSome = true) ∨
  (∃ x ∈ input.fields, ∃ ps pc, (x.attrs.parameterizedParentAttr ctx.ty).bind (·.childFields) = some ps ∧ pc ∈ ps ∧
      fc.fieldData = .parentChildField x pc)

def GroupInvP (P : FieldContainer → Prop) (st : GroupPaths × List FieldContainer) : Prop :=
  (st.1.find? (·.1 == "")).isSome = true ∧ ∀ fc ∈ st.2, P fc

theorem groupedMembers_from (input : Struct) (ctx : ImplContext) (fc : FieldContainer) (h : fc ∈ groupedMembers input ctx) :
    FromInput input ctx fc := by
  unfold groupedMembers at h
  have h0 : GroupInvP (FromInput input ctx) (([("", 0)], []) : GroupPaths × List FieldContainer) := ⟨by decide, by simp⟩
  -- members
  have hfield : ∀ (fs : List Field), (∀ x ∈ fs, x ∈ input.fields) → ∀ st, GroupInvP (FromInput input ctx) st →
      GroupInvP (FromInput input ctx) (fs.foldl (fieldGroupStep ctx) st) := by
    intro fs
    induction fs with
    | nil => intro _ st hst; exact hst
    | cons x rest ih =>
      intro hsub st hst
      simp only [List.foldl_cons]
      apply ih (fun y hy => hsub y (List.mem_cons_of_mem _ hy))
      have hx : x ∈ input.fields := hsub x List.mem_cons_self
      unfold fieldGroupStep
      split
      · rename_i ps hps
        -- the nested fields of a #[parent(..)] list
        have hpc : ∀ (qs : List ParentChildField), (∀ pc ∈ qs, pc ∈ ps) → ∀ st, GroupInvP (FromInput input ctx) st →
            GroupInvP (FromInput input ctx) (qs.foldl (parentChildGroupStep x) st) := by
          intro qs
          induction qs with
          | nil => intro _ st hst; exact hst
          | cons pc qrest ihq =>
            intro hqsub st hst
            simp only [List.foldl_cons]
            apply ihq (fun y hy => hqsub y (List.mem_cons_of_mem _ hy))
            refine ⟨makeTuple_keeps_root _ _ _ hst.1, ?_⟩
            intro fc' hfc'
            simp only [parentChildGroupStep, List.mem_append, List.mem_singleton] at hfc'
            rcases hfc' with hfc' | hfc'
            · exact hst.2 fc' hfc'
            · subst hfc'
              exact Or.inr (Or.inr ⟨x, hx, ps, pc, hps, hqsub pc List.mem_cons_self, makeTuple_data _ _ _⟩)
        exact hpc ps (fun _ h => h) st hst
      · refine ⟨makeTuple_keeps_root _ _ _ hst.1, ?_⟩
        intro fc' hfc'
        simp only [List.mem_append, List.mem_singleton] at hfc'
        rcases hfc' with hfc' | hfc'
        · exact hst.2 fc' hfc'
        · subst hfc'
          exact Or.inl ⟨x, hx, makeTuple_data _ _ _⟩
  -- struct-level ghosts
  have hghost : ∀ (gs : List GhostData), (∀ g ∈ gs, g ∈ (input.attrs.ghostsAttr ctx.ty ctx.kind).toList.flatMap (·.ghostData)) →
      ∀ st, GroupInvP (FromInput input ctx) st → GroupInvP (FromInput input ctx) (gs.foldl ghostGroupStep st) := by
    intro gs
    induction gs with
    | nil => intro _ st hst; exact hst
    | cons g rest ih =>
      intro hsub st hst
      simp only [List.foldl_cons]
      apply ih (fun y hy => hsub y (List.mem_cons_of_mem _ hy))
      unfold ghostGroupStep
      refine ⟨makeTuple_keeps_root _ _ _ hst.1, ?_⟩
      intro fc' hfc'
      simp only [] at hfc'
      split at hfc'
      · rename_i hnew
        simp only [List.mem_append, List.mem_singleton] at hfc'
        rcases hfc' with hfc' | hfc'
        · exact hst.2 fc' hfc'
        · subst hfc'
          refine Or.inr (Or.inl ⟨g, hsub g List.mem_cons_self, makeTuple_data _ _ _, ?_⟩)
          cases hcp : g.childPath with
          | some c => rfl
          | none =>
            exfalso
            have hkey : ghostPathKey g = "" := by simp [ghostPathKey, hcp]
            unfold makeTuple at hnew
            rw [hkey] at hnew
            cases hf : st.1.find? (·.1 == "") with
            | none => have := hst.1; simp [hf] at this
            | some v => simp [hf] at hnew
      · exact hst.2 fc' hfc'
  have h1 := hfield input.fields (fun _ h => h) _ h0
  have h2 := hghost _ (fun _ h => h) _ h1
  exact h2.2 fc (mem_sortByGr fc _ h)

/-! ### nested parents carry their types (rule "Field 'x' should have type here") -/

def nestedTypeMsg (i : Member × Option TS) : String :=
  "Field '" ++ i.1.str ++ "' should have type here, e.g. '" ++ i.1.str ++ ": SomeStruct'"

theorem validateParentAttrs_reports_type (named : Bool) (hf' : List (TraitAttrCore × Kind × TypeHint)) (pas : List ParentAttr) (byKind : List (TraitAttrCore × Kind)) (es : Errors)
    (pa : ParentAttr) (hpa : pa ∈ pas) (a : TraitAttrCore) (k : Kind) (hx : (a, k) ∈ byKind) (hk : k.isFrom = true)
    (happ : pa.containerTy.isNone = true ∨ isSomeEq pa.containerTy a.ty = true)
    (fs : List ParentChildField) (hfs : pa.childFields = some fs) (f : ParentChildField) (hf : f ∈ fs)
    (i : Member × Option TS) (hi : i ∈ f.subPath) (hnone : i.2.isNone = true) :
    nestedTypeMsg i ∈ validateParentAttrs named hf' pas byKind es := by
  unfold validateParentAttrs
  simp only
  refine mem_foldl_of_step _ _ _ _ pa hpa (fun pa' es hm => ?_) (fun es => ?_)
  · -- any other #[parent] instruction keeps what was reported
    refine mem_foldl_of_mem _ _ _ _ (fun x es hm => ?_) ?_
    · split
      · refine mem_foldl_of_mem _ _ _ _ (fun f es hm => ?_) hm
        refine mem_foldl_of_mem _ _ _ _ (fun i es hm => ?_) hm
        split
        · exact mem_insert_of_mem _ _ _ hm
        · exact hm
      · exact hm
    · refine mem_foldl_of_mem _ _ _ _ (fun x es hm => ?_) hm
      split
      · refine mem_foldl_of_mem _ _ _ _ (fun f es hm => ?_) hm
        split
        · exact mem_insert_of_mem _ _ _ hm
        · exact hm
      · exact hm
  · have hmem : (a, k) ∈ byKind.filter (fun (x : TraitAttrCore × Kind) => x.2.isFrom && (pa.containerTy.isNone || isSomeEq pa.containerTy x.1.ty)) := by
      simp only [List.mem_filter, Bool.and_eq_true, Bool.or_eq_true]
      exact ⟨hx, hk, happ⟩
    refine mem_foldl_of_step _ _ _ _ (a, k) hmem (fun y es hm => ?_) (fun es => ?_)
    · split
      · refine mem_foldl_of_mem _ _ _ _ (fun f es hm => ?_) hm
        refine mem_foldl_of_mem _ _ _ _ (fun i es hm => ?_) hm
        split
        · exact mem_insert_of_mem _ _ _ hm
        · exact hm
      · exact hm
    · simp only [hfs]
      refine mem_foldl_of_step _ _ _ _ f hf (fun f' es hm => ?_) (fun es => ?_)
      · refine mem_foldl_of_mem _ _ _ _ (fun i es hm => ?_) hm
        split
        · exact mem_insert_of_mem _ _ _ hm
        · exact hm
      · refine mem_foldl_of_step _ _ _ _ i hi (fun i' es hm => ?_) (fun es => ?_)
        · split
          · exact mem_insert_of_mem _ _ _ hm
          · exact hm
        · simp only [hnone, if_true]
          exact mem_insert_self _ _

/-- C16 (site `sub_path[depth].1.unwrap()`, struct members): in a struct that validation accepts, every nested parent
    of a `#[parent(..)]` list that a From conversion constructs carries its type -/
theorem C16_nested_parent_types_struct (st : Struct) (hv : validate (.struct st) = []) (x : Field) (hxm : x ∈ st.fields)
    (pa : ParentAttr) (hpa : pa ∈ x.attrs.parentAttrs) (a : TraitAttrCore) (k : Kind) (hx : (a, k) ∈ attrsByKind st.attrs)
    (hk : k.isFrom = true) (happ : pa.containerTy.isNone = true ∨ isSomeEq pa.containerTy a.ty = true)
    (fs : List ParentChildField) (hfs : pa.childFields = some fs) (f : ParentChildField) (hf : f ∈ fs)
    (i : Member × Option TS) (hi : i ∈ f.subPath) : i.2.isSome = true := by
  cases hn : i.2 with
  | some t => rfl
  | none =>
    exfalso
    have hmember : DataTypeMember.field x ∈ (DataType.struct st).members := by
      simp only [DataType.members, List.mem_map]
      exact ⟨x, hxm, rfl⟩
    have : nestedTypeMsg i ∈ validate (.struct st) := by
      unfold validate
      simp only
      apply ext_validateEnd
      refine mem_foldl_of_step _ _ _ _ (DataTypeMember.field x) hmember
        (fun y es hm => ext_validateMember _ _ _ _ y es _ hm) (fun es => ?_)
      unfold validateMember
      simp only
      apply ext_validateMemberErrorInstrs
      apply ext_parentTypePass
      exact validateParentAttrs_reports_type _ _ _ _ _ pa hpa a k hx hk happ fs hfs f hf i hi (by simp [hn])
    rw [hv] at this
    cases this

/-- .. and likewise for the payload members of the variants of an enum (since fix 7690954) -/
theorem C16_nested_parent_types_variant (e : Enum) (hv : validate (.enum e) = []) (v : Variant) (hvm : v ∈ e.variants)
    (x : Field) (hxm : x ∈ v.fields)
    (pa : ParentAttr) (hpa : pa ∈ x.attrs.parentAttrs) (a : TraitAttrCore) (k : Kind) (hx : (a, k) ∈ attrsByKind e.attrs)
    (hk : k.isFrom = true) (happ : pa.containerTy.isNone = true ∨ isSomeEq pa.containerTy a.ty = true)
    (fs : List ParentChildField) (hfs : pa.childFields = some fs) (f : ParentChildField) (hf : f ∈ fs)
    (i : Member × Option TS) (hi : i ∈ f.subPath) : i.2.isSome = true := by
  cases hn : i.2 with
  | some t => rfl
  | none =>
    exfalso
    have : nestedTypeMsg i ∈ validate (.enum e) := by
      apply variant_field_pass_reported e v hvm x hxm
      intro es
      apply ext_parentTypePass
      exact validateParentAttrs_reports_type _ _ _ _ _ pa hpa a k hx hk happ fs hfs f hf i hi (by simp [hn])
    rw [hv] at this
    cases this

/-! ### the entries of the grouped member list of a validated input are good -/

theorem wf_iff (cp : ChildPath) : cp.wf = true ↔ cp.WF := by
  unfold ChildPath.wf ChildPath.WF
  cases hp : cp.path with
  | nil => simp
  | cons a as => simp

theorem cls_into (k : Kind) (h : k.cls = .into) : k.isFrom = false ∧ k.isIntoExisting = false := by
  refine ⟨cls_not_from _ (Or.inl h), ?_⟩
  cases he : k.isIntoExisting with
  | false => rfl
  | true =>
    have hf := cls_not_from _ (Or.inl h)
    simp [Kind.cls, hf, he] at h

/-- the `#[parent(..)]` instruction whose nested fields are rendered for this conversion -/
theorem parameterized_parent (x : Field) (ty : TypePath) (ps : List ParentChildField)
    (h : (x.attrs.parameterizedParentAttr ty).bind (·.childFields) = some ps) :
    ∃ p ∈ x.attrs.parentAttrs, p.childFields = some ps ∧ (p.containerTy.isNone = true ∨ isSomeEq p.containerTy ty = true) := by
  obtain ⟨p, hp, hps⟩ := Option.bind_eq_some_iff.mp h
  obtain ⟨hmem, happ⟩ := findDedicatedOrDefault_some _ _ _ _ _ hp
  exact ⟨p, hmem, hps, happ.symm⟩

theorem parentNeedsType_of (byKind : List (TraitAttrCore × Kind)) (p : ParentAttr) (ps : List ParentChildField)
    (hps : p.childFields = some ps) (a : TraitAttrCore) (k : Kind) (hx : (a, k) ∈ byKind) (hk : k.isFrom = true)
    (happ : p.containerTy.isNone = true ∨ isSomeEq p.containerTy a.ty = true) : parentNeedsType byKind p = true := by
  unfold parentNeedsType
  simp only [hps, Option.isSome_some, Bool.true_and, List.any_eq_true]
  refine ⟨(a, k), hx, ?_⟩
  simp only [hk, Bool.true_and]
  cases hc : p.containerTy with
  | none => rfl
  | some t =>
    rcases happ with happ | happ
    · simp [hc] at happ
    · obtain ⟨t', ht', hte⟩ := (isSomeEq_iff _ _).mp happ
      rw [hc] at ht'
      cases ht'
      exact (TypePath.beq_iff _ _).mpr hte.symm

/-- a struct that validation accepts, with well-formed child paths: every entry of its grouped member list is good, for
    every conversion the derive generates -/
theorem goodFC_struct (st : Struct) (hv : validate (.struct st) = []) (hwf : (DataType.struct st).pathsWF = true)
    (ctx : ImplContext) (hin : ctx.input = .struct st) (hby : (ctx.structAttr, ctx.kind) ∈ attrsByKind st.attrs)
    (fc : FieldContainer) (hfc : fc ∈ groupedMembers st ctx) : GoodFC ctx fc := by
  have hattrs : ctx.input.attrs = st.attrs := by rw [hin]; rfl
  simp only [DataType.pathsWF, Bool.and_eq_true, List.all_eq_true] at hwf
  rcases groupedMembers_from st ctx fc hfc with ⟨x, hx, hfd⟩ | ⟨g, hg, hfd, hsome⟩ | ⟨x, hx, ps, pc, hps, hpc, hfd⟩
  · -- a member: its #[child] path
    simp only [GoodFC, hfd]
    intro ca hca
    obtain ⟨hmem, _⟩ := findDedicatedOrDefault_some _ _ _ _ _ hca
    have hxw := hwf.2 (.field x) (by simp only [DataType.members, List.mem_map]; exact ⟨x, hx, rfl⟩)
    simp only [MemberAttrs.pathsWF, List.all_eq_true] at hxw
    refine ⟨(wf_iff _).mp (hxw ca hmem), ?_⟩
    intro hcls path hp
    rw [hattrs]
    exact C16_member_child_paths_declared st hv ctx.structAttr ctx.kind hby (cls_into _ hcls).1 (cls_into _ hcls).2 x hx ca hca path hp
  · -- a struct-level ghost entry
    simp only [GoodFC, hfd]
    cases hcp : g.childPath with
    | none => simp [hcp] at hsome
    | some cp =>
      refine ⟨cp, rfl, ?_, ?_⟩
      · simp only [List.mem_flatMap, Option.mem_toList] at hg
        obtain ⟨ga, hga, hgm⟩ := hg
        obtain ⟨x, hxm, rfl⟩ := ghostsAttr_mem _ _ _ _ hga
        have := hwf.1
        simp only [ghostsPathsWF, List.all_eq_true] at this
        have := this x hxm g hgm
        simp only [hcp] at this
        exact (wf_iff _).mp this
      · intro hcls path hp
        simp only [List.mem_flatMap, Option.mem_toList] at hg
        obtain ⟨ga, hga, hgm⟩ := hg
        rw [hattrs]
        exact C16_ghost_child_paths_declared st hv ctx.structAttr ctx.kind hby (cls_into _ hcls).1 (cls_into _ hcls).2 ga hga g hgm cp hcp path hp
  · -- a nested member of a #[parent(..)] list
    simp only [GoodFC, hfd]
    intro hfrom
    obtain ⟨p, hpm, hpps, happ⟩ := parameterized_parent x ctx.ty ps hps
    refine ⟨?_, ?_⟩
    · apply C16_parent_member_has_type (.struct st) hv x (by simp only [DataType.members, List.mem_map]; exact ⟨x, hx, rfl⟩)
      exact List.any_eq_true.mpr ⟨p, hpm, parentNeedsType_of _ p ps hpps ctx.structAttr ctx.kind hby hfrom happ⟩
    · intro i hi
      exact C16_nested_parent_types_struct st hv x hx p hpm ctx.structAttr ctx.kind hby hfrom happ ps hpps pc hpc i hi

/-- the struct a variant is presented as -/
def variantStructOf (v : Variant) : Struct :=
  { attrs := { ghostsAttrs := v.attrs.ghostsAttrs }, ident := v.ident, generics := [],
    fields := v.fields, namedFields := v.namedFields, unit := v.unit }

/-- .. and likewise for every variant of an enum that validation accepts: its payload members are not flattened, its
    ghosts are not addressed to nested structs, its `#[parent(..)]` lists are typed -/
theorem goodFC_variant (e : Enum) (hv : validate (.enum e) = []) (v : Variant) (hvm : v ∈ e.variants)
    (ctx : ImplContext) (hin : ctx.input = .struct (variantStructOf v))
    (a : TraitAttrCore) (hby : (a, ctx.kind) ∈ attrsByKind e.attrs) (hty : ctx.ty = a.ty)
    (fc : FieldContainer) (hfc : fc ∈ groupedMembers (variantStructOf v) ctx) : GoodFC ctx fc := by
  rcases groupedMembers_from _ ctx fc hfc with ⟨x, hx, hfd⟩ | ⟨g, hg, hfd, hsome⟩ | ⟨x, hx, ps, pc, hps, hpc, hfd⟩
  · simp only [GoodFC, hfd]
    intro ca hca
    obtain ⟨hmem, _⟩ := findDedicatedOrDefault_some _ _ _ _ _ hca
    have hnone := C16_variant_field_no_child e hv v hvm x hx
    rw [hnone] at hmem
    cases hmem
  · exfalso
    simp only [List.mem_flatMap, Option.mem_toList] at hg
    obtain ⟨ga, hga, hgm⟩ := hg
    obtain ⟨y, hym, rfl⟩ := ghostsAttr_mem _ _ _ _ hga
    have := C16_variant_ghost_no_child_path e hv v hvm y hym g hgm
    simp [this] at hsome
  · simp only [GoodFC, hfd]
    intro hfrom
    obtain ⟨p, hpm, hpps, happ⟩ := parameterized_parent x ctx.ty ps hps
    rw [hty] at happ
    refine ⟨?_, ?_⟩
    · apply C16_variant_field_parent_type e hv v hvm x hx
      exact List.any_eq_true.mpr ⟨p, hpm, parentNeedsType_of _ p ps hpps a ctx.kind hby hfrom happ⟩
    · intro i hi
      exact C16_nested_parent_types_variant e hv v hvm x hx p hpm a ctx.kind hby hfrom happ ps hpps pc hpc i hi

/-- `struct_init_block` over good entries: only the four listed sites of the member lines remain -/
theorem structInitBlock_np_v (s : String) (hA : ∀ site ∈ lineSites, site ≠ s) (input : Struct) (ctx : ImplContext)
    (hok : CtxOK s ctx) (hunit : ∀ ca ∈ ctx.input.attrs.childParentsAttrs, ∀ cd ∈ ca.childParents, cd.typeHint ≠ .unit)
    (hgood : ∀ fc ∈ groupedMembers input ctx, GoodFC ctx fc) : NP s (structInitBlock input ctx) := by
  unfold structInitBlock
  split
  · exact NP.pure _ _
  · rename_i hguard
    have htop : THok ctx ctx.structAttr.typeHint := by
      intro hnf hu
      apply hguard
      simp [hnf, hu]
    have hv : VCtx s ctx := ⟨hok, hunit, htop⟩
    exact NP.bind _ _ _ ((body_v s hA _).1 _ _ _ _ hv hgood (by simpa [hintOf] using htop)
      (fun cp cd d h => by cases h)) (fun _ => NP.pure _ _)

/-! ### the expansion of a validated input -/

/-- the sites at which the expansion of a validated input (with parser-built child paths) can stop: exactly the five
    listed findings -/
def findingSites : List String := lineSites ++ ["expand.rs:render_enum_line:todo"]

theorem implContexts_facts (input : DataType) (ctx : ImplContext) (hctx : ctx ∈ implContexts input) :
    ctx.input = input ∧ (ctx.structAttr, ctx.kind) ∈ attrsByKind input.attrs := by
  unfold implContexts at hctx
  simp only [List.mem_flatMap, List.mem_map] at hctx
  obtain ⟨⟨k, fl⟩, hkf, sa, hsa, rfl⟩ := hctx
  refine ⟨rfl, ?_⟩
  simp only
  unfold attrsByKind
  have hk : k ∈ kindOrderInto := by
    simp only [implPasses, List.mem_cons, Prod.mk.injEq, List.mem_nil_iff, or_false] at hkf
    rcases hkf with ⟨rfl, _⟩ | ⟨rfl, _⟩ | ⟨rfl, _⟩ | ⟨rfl, _⟩ | ⟨rfl, _⟩ | ⟨rfl, _⟩ | ⟨rfl, _⟩ | ⟨rfl, _⟩ | ⟨rfl, _⟩ | ⟨rfl, _⟩ | ⟨rfl, _⟩ | ⟨rfl, _⟩ <;> decide
  cases fl with
  | false => exact List.mem_append_left _ (List.mem_flatMap.mpr ⟨k, hk, List.mem_map.mpr ⟨sa, hsa, rfl⟩⟩)
  | true => exact List.mem_append_right _ (List.mem_flatMap.mpr ⟨k, hk, List.mem_map.mpr ⟨sa, hsa, rfl⟩⟩)

section
variable (s : String) (hF : ∀ site ∈ findingSites, site ≠ s)
include hF

theorem hF_line : ∀ site ∈ lineSites, site ≠ s := fun site h => hF site (List.mem_append_left _ h)

theorem variant_body_v (e : Enum) (hv : validate (.enum e) = []) (v : Variant) (hvm : v ∈ e.variants) (nctx : ImplContext)
    (hin : nctx.input = .struct (variantStructOf v)) (a : TraitAttrCore) (hby : (a, nctx.kind) ∈ attrsByKind e.attrs)
    (hty : nctx.ty = a.ty) (hok : GhostsOK s v.attrs.ghostsAttrs) : NP s (structInitBlock (variantStructOf v) nctx) := by
  refine structInitBlock_np_v s (hF_line s hF) _ nctx ⟨by simp [DataType.isEnum, hin], by rw [hin]; exact hok⟩ ?_
    (fun fc hfc => goodFC_variant e hv v hvm nctx hin a hby hty fc hfc)
  rw [hin]
  intro ca hca
  cases hca

theorem renderEnumLine_v (e : Enum) (hv : validate (.enum e) = []) (v : Variant) (hvm : v ∈ e.variants) (ctx : ImplContext)
    (hby : (ctx.structAttr, ctx.kind) ∈ attrsByKind e.attrs) (hc : variantContributes ctx v = true) :
    NP s (renderEnumLine v ctx) := by
  have hok : GhostsOK s v.attrs.ghostsAttrs := by
    intro ga hga g hg
    obtain ⟨m, hm⟩ := C16_site_16_variant e hv v hvm ga hga g hg
    rw [hm]; exact NP.ok _ _
  unfold renderEnumLine
  simp only []
  refine NP.bind _ _ _ ?_ (fun destr => NP.bind _ _ _ ?_ (fun init => ?_))
  · repeat' (first | exact variantDestructBlock_np s _ _ hok | np_step)
  · repeat' (first
      | exact variant_body_v s hF e hv v hvm _ rfl ctx.structAttr hby rfl hok
      | np_step)
  · split
    · exact NP.pure _ _
    · rename_i a hattr _ _ hcls
      have hfrom := cls_from _ hcls
      have hng : ∀ g, a ≠ .ghost g := fun g hg => C16_variant_not_ghost_from ctx v hfrom hc g (hg ▸ hattr)
      refine NP.bind _ _ _ (getActionOr_np _ _ _ _ _) (fun _ => NP.bind _ _ _ ?_ (fun _ => NP.pure _ _))
      cases a with
      | ghost g => exact absurd rfl (hng g)
      | field c => simp only [ApplicableAttr.getFieldNameOr]; exact NP.ok _ _
      | parentChildField p k => exact absurd hattr (applicableAttr_not_pc _ _ _ _ p k)
    · rename_i a hattr _ _ hcls
      have hnf := cls_not_from _ (Or.inl hcls)
      refine NP.bind _ _ _ ?_ (fun _ => NP.pure _ _)
      apply getStuff_np_of
      intro g hg
      subst hg
      have hgl := (applicableAttr_ghost_iff _ _ _ _ g).mp hattr
      simp only [variantContributes, hnf, ghostNoDefault, hgl, Bool.false_and, Bool.not_false, Bool.true_and] at hc
      simpa using hc
    · exact NP.pure _ _
    · exact NP.pure _ _
    · exact NP.pure _ _
    · exact NP.bind _ _ _ (getActionOr_np _ _ _ _ _) (fun _ => NP.pure _ _)
    · exact NP.panicAt _ _ (hF _ (by decide))

theorem enumInitBlock_v (e : Enum) (hv : validate (.enum e) = []) (ctx : ImplContext)
    (hby : (ctx.structAttr, ctx.kind) ∈ attrsByKind e.attrs) : NP s (enumInitBlock e ctx) := by
  unfold enumInitBlock
  refine NP.bind _ _ _ ?_ (fun _ => NP.bind _ _ _ ?_ (fun _ => NP.pure _ _))
  · apply NP.foldlM_mem
    intro acc v hvm
    unfold enumArmStep
    split
    · rename_i hc
      exact NP.bind _ _ _ (renderEnumLine_v s hF e hv v hvm ctx hby hc) (fun _ => NP.pure _ _)
    · exact NP.pure _ _
  · apply NP.foldlM_mem
    intro acc g hg
    refine NP.bind _ _ _ ?_ (fun _ => NP.pure _ _)
    unfold enumGhostData at hg
    split at hg
    · rename_i ga hga
      obtain ⟨x, hx, rfl⟩ := ghostsAttr_mem _ _ _ _ hga
      obtain ⟨ts, hts⟩ := C16_site_17_unreachable e hv x hx g hg ctx
      rw [hts]; exact NP.ok _ _
    · simp at hg

/-- the body of one conversion of a validated input -/
theorem body_of_validated (input : DataType) (hv : validate input = []) (hwf : input.pathsWF = true) (ctx : ImplContext)
    (hin : ctx.input = input) (hby : (ctx.structAttr, ctx.kind) ∈ attrsByKind input.attrs) :
    (∀ st, ctx.input = .struct st → NP s (structInitBlock st ctx)) ∧ (∀ e, ctx.input = .enum e → NP s (enumInitBlock e ctx)) := by
  refine ⟨?_, ?_⟩
  · intro st hst
    have hi : input = .struct st := by rw [← hin]; exact hst
    subst hi
    refine structInitBlock_np_v s (hF_line s hF) st ctx ⟨by simp [DataType.isEnum, hst], ?_⟩ ?_
      (fun fc hfc => goodFC_struct st hv hwf ctx hst hby fc hfc)
    · rw [hst]
      intro ga hga g hg
      obtain ⟨m, hm⟩ := C16_site_16_struct st hv ga hga g hg
      rw [hm]; exact NP.ok _ _
    · rw [hst]
      exact fun ca hca cd hcd => C16_child_hint_not_unit (.struct st) hv ca hca cd hcd
  · intro e he
    have hi : input = .enum e := by rw [← hin]; exact he
    subst hi
    exact enumInitBlock_v s hF e hv ctx hby

theorem mainCodeBlock_v (input : DataType) (hv : validate input = []) (hwf : input.pathsWF = true) (ctx : ImplContext)
    (hin : ctx.input = input) (hby : (ctx.structAttr, ctx.kind) ∈ attrsByKind input.attrs) : NP s (mainCodeBlock ctx) := by
  obtain ⟨hS, hE⟩ := body_of_validated s hF input hv hwf ctx hin hby
  unfold mainCodeBlock
  split
  · exact NP.ok _ _
  · split
    · rename_i st hst
      unfold structMainCodeBlock
      refine NP.bind _ _ _ (hS st hst) (fun _ => ?_)
      split <;> exact NP.pure _ _
    · rename_i e he
      unfold enumMainCodeBlock
      refine NP.bind _ _ _ (hE e he) (fun _ => ?_)
      split <;> exact NP.pure _ _

theorem mainCodeBlockOk_v (input : DataType) (hv : validate input = []) (hwf : input.pathsWF = true) (ctx : ImplContext)
    (hin : ctx.input = input) (hby : (ctx.structAttr, ctx.kind) ∈ attrsByKind input.attrs) : NP s (mainCodeBlockOk ctx) := by
  obtain ⟨hS, hE⟩ := body_of_validated s hF input hv hwf ctx hin hby
  unfold mainCodeBlockOk
  split
  · exact NP.ok _ _
  · refine NP.bind _ _ _ ?_ (fun _ => by split <;> exact NP.pure _ _)
    split
    · rename_i st hst
      unfold structMainCodeBlock
      refine NP.bind _ _ _ (hS st hst) (fun _ => ?_)
      split <;> exact NP.pure _ _
    · rename_i e he
      unfold enumMainCodeBlock
      refine NP.bind _ _ _ (hE e he) (fun _ => ?_)
      split <;> exact NP.pure _ _

omit hF in
/-- `struct_post_init` never reaches its `todo!()` on a validated input: no variant carries `#[parent]` -/
theorem postInitOf_v (input : DataType) (hv : validate input = []) (ctx : ImplContext) : NP s (postInitOf input ctx) := by
  unfold postInitOf
  split
  · exact NP.pure _ _
  · rename_i hcond
    have hnf : ctx.kind.isFrom = false := by
      cases hf : ctx.kind.isFrom with
      | false => rfl
      | true => simp [hf] at hcond
    unfold structPostInit
    refine NP.bind _ _ _ ?_ (fun _ => ?_)
    · apply NP.foldlM_mem
      intro acc m hm
      split
      · rename_i hpar
        split
        · exact NP.bind _ _ _ (renderParent_np s _ _ hnf) (fun _ => NP.pure _ _)
        · rename_i v
          exfalso
          cases input with
          | struct st =>
            simp only [DataType.members, List.mem_map] at hm
            obtain ⟨f, _, hf⟩ := hm
            cases hf
          | enum e =>
            simp only [DataType.members, List.mem_map] at hm
            obtain ⟨v', hv', hve⟩ := hm
            injection hve with hve
            subst hve
            have := C16_variant_no_parent e hv v' hv'
            simp [DataTypeMember.attrs, MemberAttrs.hasParameterlessParentAttr, this] at hpar
      · exact NP.pure _ _
    · split <;> exact NP.pure _ _

theorem quoteTrait_v (input : DataType) (hv : validate input = []) (hwf : input.pathsWF = true) (ctx : ImplContext)
    (hctx : ctx ∈ implContexts input) : NP s (quoteTrait input ctx) := by
  obtain ⟨hin, hby⟩ := implContexts_facts input ctx hctx
  have herr : ctx.fallible = true → NP s (errTyPath ctx) := by
    intro hf
    obtain ⟨ts, hts⟩ := C16_err_ty_sites_unreachable input ctx hv hctx hf
    rw [hts]; exact NP.ok _ _
  unfold quoteTrait
  simp only []
  refine NP.bind _ _ _ (postInitOf_v s input hv ctx) (fun pi => ?_)
  split <;>
    repeat' (first
      | exact mainCodeBlock_v s hF input hv hwf _ hin hby
      | exact mainCodeBlockOk_v s hF input hv hwf _ hin hby
      | exact herr (by assumption)
      | np_step)
end

/-- **C16 (validated inputs, the whole expansion stage).** For every parsed input that validation accepts and whose child
    paths are as the parser builds them (`pathsWF`: a decidable test the driver evaluates on every input of the
    correspondence run), generating the impls either succeeds, or reports exhausted fuel, or stops at one of the *five
    listed findings*: `unreachable!("6")`, `("8")`, `("18")`, `("19")` of the member lines, and the `todo!()` of
    `render_enum_line`. No other `unwrap()`, `unreachable!`, `todo!()`, `panic!` or index of `expand.rs`, `attr.rs` or
    `ast.rs` can be reached. -/
theorem C16_validated_only_findings (input : DataType) (hv : validate input = []) (hwf : input.pathsWF = true) (s : String)
    (h : dataTypeImpls input = .error (.panic s)) : s ∈ findingSites := by
  by_cases hm : s ∈ findingSites
  · exact hm
  exfalso
  have hF : ∀ site ∈ findingSites, site ≠ s := fun site hs e => hm (e ▸ hs)
  revert h
  show NP s _
  unfold dataTypeImpls
  exact mapM_np_mem s _ _ (fun ctx hctx => quoteTrait_v s hF input hv hwf ctx hctx)

/-- the list is the list of the findings kept in `KNOWN_FINDINGS.json`, and each is a row of the regenerated inventory -/
example : findingSites = ["expand.rs:render_struct_line:unreachable(6)", "expand.rs:ApplicableAttr::get_ident:unreachable(8)",
    "expand.rs:ApplicableAttr::get_ident:unreachable(18)", "expand.rs:ApplicableAttr::get_ident:unreachable(19)",
    "expand.rs:render_enum_line:todo"] ∧ findingSites.all (fun x => modelledLabels.contains x) = true := ⟨rfl, by decide⟩

/-- non-vacuity: `#[into(A)] #[child_parents(p: P)] struct S { #[child(p)] a: i32, b: i32 }` as a parsed input — it is
    accepted by validation, its child path is well-formed, and a flattened member is exactly what the closed sites are about -/
def exFlatStruct : DataType :=
  let ta : TypePath := { path := [Tok.ident "A"], pathStr := "A", generics := none, namelessTuple := false }
  let tp : TypePath := { path := [Tok.ident "P"], pathStr := "P", generics := none, namelessTuple := false }
  .struct {
    attrs := {
      attrs := [{ core := { ty := ta, errTy := none, typeHint := .unspecified }, fallible := false,
                  appl := [true, true, false, false, false, false] }],
      childParentsAttrs := [{ containerTy := none, childParents := [{ ty := tp.path, typeHint := .unspecified, fieldPath := [Member.named "p"], fieldPathStr := "p" }] }] },
    ident := "S", generics := [],
    fields := [
      { attrs := { childAttrs := [{ containerTy := none, childPath := ChildPath.ofMembers [Member.named "p"] }] },
        idx := 0, member := .named "a", memberStr := "a", ty := none },
      { attrs := {}, idx := 1, member := .named "b", memberStr := "b", ty := none }],
    namedFields := true, unit := false }

example : validate exFlatStruct = [] ∧ exFlatStruct.pathsWF = true := by decide

/-- **C16 (the derive as a whole, after parsing).** When the attribute parser accepts the input — yielding `input`, with
    child paths as it builds them — whatever `derive` then does (report diagnostics, or expand), it can panic only at one
    of the five listed findings. -/
theorem C16_derive_only_findings (b : Back) (node : RawInput) (input : DataType) (hp : parseInput b node = some input)
    (hwf : input.pathsWF = true) (s : String) (h : derive b node = .panic s) : s ∈ findingSites := by
  unfold derive at h
  unfold parseInput at hp
  cases hb : node.body with
  | union => simp [hb] at h
  | struct data =>
    simp only [hb] at h hp
    cases hs : Struct.fromSyn b node data with
    | error e => simp [hs] at hp
    | ok st =>
      simp only [hs, Option.some.injEq] at hp
      subst hp
      simp only [hs, Except.map] at h
      cases hva : validateAll (.struct st) with
      | cons m ms => simp [hva] at h
      | nil =>
        have hv := validate_of_validateAll_nil _ hva
        simp only [hva] at h
        cases hd : dataTypeImpls (.struct st) with
        | ok impls => simp [hd] at h
        | error e =>
          simp only [hd] at h
          cases e with
          | panic s' =>
            simp only [ofPErr, Outcome.panic.injEq] at h
            subst h
            exact C16_validated_only_findings _ hv hwf _ hd
          | lib => simp [ofPErr] at h
          | o2o m => simp [ofPErr] at h
          | unsupported w => simp [ofPErr] at h
  | enum vs =>
    simp only [hb] at h hp
    cases hs : Enum.fromSyn b node vs with
    | error e => simp [hs] at hp
    | ok en =>
      simp only [hs, Option.some.injEq] at hp
      subst hp
      simp only [hs, Except.map] at h
      cases hva : validateAll (.enum en) with
      | cons m ms => simp [hva] at h
      | nil =>
        have hv := validate_of_validateAll_nil _ hva
        simp only [hva] at h
        cases hd : dataTypeImpls (.enum en) with
        | ok impls => simp [hd] at h
        | error e =>
          simp only [hd] at h
          cases e with
          | panic s' =>
            simp only [ofPErr, Outcome.panic.injEq] at h
            subst h
            exact C16_validated_only_findings _ hv hwf _ hd
          | lib => simp [ofPErr] at h
          | o2o m => simp [ofPErr] at h
          | unsupported w => simp [ofPErr] at h

end O2o
