/-
C19 — expansion is a deterministic function of the input.
The model `derive` is a function, so determinism of the model is trivial; what has to be shown is that
modelling the code's `HashMap` / `HashSet`s as order-free containers is legitimate: (1) the sources never
iterate a hash container (inventory regenerated every run), (2) the association-list models used for the
two hash maps that survive in the code answer lookups independently of their internal order.
-/
import O2oModel.Expand
namespace O2o

/-- methods whose result does not depend on the iteration order of a hash container -/
def orderFreeMethods : List String := ["insert", "get", "get_mut", "contains", "contains_key", "remove", "len", "is_empty"]

/-- C19-1: every `HashMap` / `HashSet` binding or parameter in attr.rs, ast.rs, validate.rs, expand.rs is used only
    through order-free methods: none is iterated (`iter`, `into_iter`, `keys`, `values`, `drain`, `for … in`). -/
theorem C19_hash_uses : Gen.hashUses.all (fun u => u.methods.all orderFreeMethods.contains) = true := by decide

/-- C19-4: the sources name no clock, environment, file-system, process, thread or random-state API -/
theorem C19_no_env : Gen.envPaths = [] := by decide

/-- C19-3: same input, same result (the model has no other input) — stated for completeness -/
theorem C19_deterministic (b : Back) (inp₁ inp₂ : RawInput) (h : inp₁ = inp₂) : derive b inp₁ = derive b inp₂ := by
  rw [h]

/-! ### `trait_attrs_to_repeat`: lookups do not depend on the order entries were inserted in -/

def RepeatMap.keysDistinct : RepeatMap → Bool
  | [] => true
  | (k, _) :: rest => !(rest.any (·.1 == k)) && RepeatMap.keysDistinct rest

theorem get_perm (m m' : RepeatMap) (k : Appl × Bool) (h : List.Perm m m') (hd : RepeatMap.keysDistinct m = true) :
    RepeatMap.get? m k = RepeatMap.get? m' k := by
  induction h with
  | nil => rfl
  | cons x _ ih =>
    rename_i l₁ l₂
    simp only [RepeatMap.keysDistinct, Bool.and_eq_true] at hd
    unfold RepeatMap.get? at ih ⊢
    simp only [List.find?_cons]
    split
    · rfl
    · exact ih hd.2
  | swap x y l =>
    simp only [RepeatMap.keysDistinct, Bool.and_eq_true, List.any_cons, Bool.not_eq_true', Bool.or_eq_false_iff] at hd
    unfold RepeatMap.get?
    simp only [List.find?_cons]
    by_cases hx : (x.1 == k) = true
    · by_cases hy : (y.1 == k) = true
      · -- both keys equal k: impossible, keys are distinct
        have hxy : (x.1 == y.1) = true := by
          have e1 : x.1 = k := by simpa using hx
          have e2 : y.1 = k := by simpa using hy
          simp [e1, e2]
        have := hd.1.1
        simp [hxy] at this
      · simp [hx, hy]
    · by_cases hy : (y.1 == k) = true <;> simp [hx, hy]
  | trans h₁ h₂ ih₁ ih₂ =>
    rename_i l₁ l₂ l₃
    have hd2 : RepeatMap.keysDistinct l₂ = true := by
      clear ih₁ ih₂ h₂
      induction h₁ with
      | nil => rfl
      | cons x hp ih =>
        simp only [RepeatMap.keysDistinct, Bool.and_eq_true, Bool.not_eq_true'] at hd ⊢
        refine ⟨?_, ih hd.2⟩
        rw [← hd.1]
        exact (List.Perm.any_eq hp).symm
      | swap x y l =>
        simp only [RepeatMap.keysDistinct, Bool.and_eq_true, List.any_cons, Bool.not_eq_true', Bool.or_eq_false_iff] at hd ⊢
        refine ⟨⟨?_, hd.2.1⟩, hd.1.2, hd.2.2⟩
        have := hd.1.1
        simp only [beq_eq_false_iff_ne, ne_eq] at this ⊢
        exact fun e => this e.symm
      | trans _ _ ih₁ ih₂ => exact ih₂ (ih₁ hd)
    exact (ih₁ hd).trans (ih₂ hd2)

/-- C19-2a: `trait_attrs_to_repeat.get(k)` is independent of the order of the entries -/
theorem C19_repeat_lookup_order_free (m m' : RepeatMap) (k : Appl × Bool) (h : List.Perm m m')
    (hd : RepeatMap.keysDistinct m = true) : RepeatMap.get? m k = RepeatMap.get? m' k :=
  get_perm m m' k h hd

/-- non-vacuity -/
example : RepeatMap.keysDistinct [(([true], false), default), (([false], false), default)] = true := by decide

end O2o
