/-
C06, whole conversion: the statement that needs the simulation of the recursive descent (`Lemmas/Projection.lean`,
which builds on the lookup theorems of `Props/C06.lean`).
-/
import O2oModel.Lemmas.Projection
namespace O2o

/-- **C06-2 (whole struct conversion, any number of members, any nesting, every kind).** Dropping from every member the
    instructions that are dedicated to *other* counterparts (`MemberAttrs.project`) leaves the body generated for this
    counterpart unchanged: the grouping of members by child path, their ordering, and the whole recursive descent of
    `struct_init_block_inner` (nested structs, parameterised parents, ghost-only children) commute with the projection.
    Together with `C06_ghosts_attr`, `C06_where_attr`, `C06_child_parents_attr` (the type-level lookups) this is
    non-interference for struct conversions. -/
theorem C06_struct_conversion_projection (s : Struct) (ctx : ImplContext) :
    structInitBlock (s.projectMembers ctx.ty) ctx = structInitBlock s ctx :=
  structInitBlock_proj s ctx

/-- the descent itself: at every fuel level, every function of the mutual block returns the same tokens on the projected
    member list, and hands back the projected remainder of the cursor -/
theorem C06_descent_commutes (ty : TypePath) (n : Nat) : Sim ty n := sim_all ty n

end O2o
