/-
C02 — enum conversions map each variant and payload field to its designated target.
-/
import O2oModel.Expand
namespace O2o

/-- C02 (default arm): a variant without variant-level instruction, literal or pattern is mapped to the same-named
    variant of the counterpart: `Src::V <bindings> => Dst::V <payload init>,` -/
theorem C02_default_arm (v : Variant) (ctx : ImplContext) (out : TS)
    (ha : v.attrs.applicableAttr ctx.kind ctx.fallible ctx.ty = none)
    (hl : v.attrs.lit ctx.ty = none) (hp : v.attrs.pat ctx.ty = none)
    (h : renderEnumLine v ctx = .ok out) :
    ∃ destr init, out = ctx.srcTy ++ cc ++ [Tok.ident v.ident] ++ destr ++ fatArrow ++ ctx.dstTy ++ cc ++ [Tok.ident v.ident] ++ init ++ [comma] := by
  unfold renderEnumLine at h
  simp only [ha, hl, hp] at h
  simp only [bind, Except.bind] at h
  split at h
  · cases h
  · rename_i destr _
    split at h
    · cases h
    · rename_i init _
      simp only [pure, Except.pure, Except.ok.injEq] at h
      exact ⟨destr, init, h.symm⟩

/-- C02 (rename, From side): `#[map(Other)]` on a variant matches `Src::Other` and builds `Dst::V` -/
theorem C02_rename_from (v : Variant) (ctx : ImplContext) (out : TS) (c : MemberAttrCore) (x : String)
    (hk : ctx.kind.cls = .from_)
    (ha : v.attrs.applicableAttr ctx.kind ctx.fallible ctx.ty = some (.field c))
    (hc : c.member = some (.named x)) (hact : c.action = none)
    (hl : v.attrs.lit ctx.ty = none) (hp : v.attrs.pat ctx.ty = none)
    (h : renderEnumLine v ctx = .ok out) :
    ∃ destr init, out = ctx.srcTy ++ cc ++ [Tok.ident x] ++ destr ++ fatArrow ++ ctx.dstTy ++ cc ++ [Tok.ident v.ident] ++ init ++ [comma] := by
  unfold renderEnumLine at h
  simp only [ha, hl, hp, hk] at h
  simp only [bind, Except.bind] at h
  split at h
  · cases h
  · rename_i destr _
    split at h
    · cases h
    · rename_i init _
      simp only [ApplicableAttr.getActionOr, hact, ApplicableAttr.getFieldNameOr, hc, Option.getD_some, pure, Except.pure, Except.ok.injEq, Member.toTS] at h
      exact ⟨destr, init, by rw [← h]; simp [i, List.append_assoc]⟩

/-- C02 (tuple payload bindings): inside a variant, a tuple payload field without instruction is referred to by the
    binding `f<index>` on the Into side -/
theorem C02_tuple_binding_use (f : Field) (ctx : ImplContext) (n idx : Nat)
    (hm : f.member = .unnamed n) (hk : ctx.kind.cls = .into) (hv : ctx.isVariant = true) (hpost : ctx.hasPostInit = false)
    (ha : f.attrs.applicableAttr ctx.kind ctx.fallible ctx.ty = none) :
    renderStructLine f ctx .unspecified idx none = .ok [Tok.ident ("f" ++ toString n), .punct ',' false] := by
  unfold renderStructLine
  simp [hm, hk, hv, hpost, ha, fIdent, Member.toTS, pure, Except.pure, comma]

/-- C02 (named payload bindings): a named payload field is referred to by its own name -/
theorem C02_named_binding_use (f : Field) (ctx : ImplContext) (n : String) (idx : Nat)
    (hm : f.member = .named n) (hk : ctx.kind.cls = .into) (hv : ctx.isVariant = true) (hpost : ctx.hasPostInit = false)
    (ha : f.attrs.applicableAttr ctx.kind ctx.fallible ctx.ty = none) :
    renderStructLine f ctx .unspecified idx none = .ok [Tok.ident n, .punct ':' false, .ident n, .punct ',' false] := by
  unfold renderStructLine
  simp [hm, hk, hv, hpost, ha, pure, Except.pure, i, colon, comma]

/-- C02 (ghost variants, From side): a variant carrying an applicable `#[ghost]` produces no arm when converting
    from the counterpart -/
theorem C02_ghost_variant_skipped (v : Variant) (ctx : ImplContext) (acc : TS) (g : FieldGhostAttrCore)
    (hk : ctx.kind.isFrom = true) (hg : v.attrs.ghost ctx.ty ctx.kind = some g) :
    (do
      let attrs := v.attrs
      if ctx.kind.isFrom && (attrs.ghost ctx.ty ctx.kind).isSome then return acc
      if !ctx.kind.isFrom && (match attrs.ghost ctx.ty ctx.kind with | some g => g.action.isNone | none => false) then return acc
      return acc ++ (← renderEnumLine v ctx) : E TS) = .ok acc := by
  simp [hk, hg, pure, Except.pure]

end O2o
