/-
C02 — enum conversions map each variant and payload field to its designated target.
-/
import O2oModel.Lemmas.Blocks
import O2oModel.Lemmas.Lines
namespace O2o

/-- C02 (default arm): a variant without variant-level instruction, literal or pattern is mapped to the same-named
    variant of the counterpart: `Src::V <bindings> => Dst::V <payload init>,` -/
theorem C02_default_arm (v : Variant) (ctx : ImplContext) (out : TS)
    (ha : v.attrs.applicableAttr ctx.kind ctx.fallible ctx.ty = none)
    (hl : v.attrs.lit ctx.ty = none) (hp : v.attrs.pat ctx.ty = none)
    (h : renderEnumLine v ctx = .ok out) :
    ∃ destr init, out = ctx.srcTy ++ cc ++ [Tok.ident v.ident] ++ destr ++ fatArrow ++ ctx.dstTy ++ cc ++ [Tok.ident v.ident] ++ init ++ [comma] := by
  unfold renderEnumLine at h
  simp only [ha, hl, hp] at h
  simp only [bind, Except.bind] at h
  split at h
  · cases h
  · rename_i destr _
    split at h
    · cases h
    · rename_i init _
      simp only [pure, Except.pure, Except.ok.injEq] at h
      exact ⟨destr, init, h.symm⟩

/-- C02 (rename, From side): `#[map(Other)]` on a variant matches `Src::Other` and builds `Dst::V` -/
theorem C02_rename_from (v : Variant) (ctx : ImplContext) (out : TS) (c : MemberAttrCore) (x : String)
    (hk : ctx.kind.cls = .from_)
    (ha : v.attrs.applicableAttr ctx.kind ctx.fallible ctx.ty = some (.field c))
    (hc : c.member = some (.named x)) (hact : c.action = none)
    (hl : v.attrs.lit ctx.ty = none) (hp : v.attrs.pat ctx.ty = none)
    (h : renderEnumLine v ctx = .ok out) :
    ∃ destr init, out = ctx.srcTy ++ cc ++ [Tok.ident x] ++ destr ++ fatArrow ++ ctx.dstTy ++ cc ++ [Tok.ident v.ident] ++ init ++ [comma] := by
  unfold renderEnumLine at h
  simp only [ha, hl, hp, hk] at h
  simp only [bind, Except.bind] at h
  split at h
  · cases h
  · rename_i destr _
    split at h
    · cases h
    · rename_i init _
      simp only [ApplicableAttr.getActionOr, hact, ApplicableAttr.getFieldNameOr, hc, Option.getD_some, pure, Except.pure, Except.ok.injEq, Member.toTS] at h
      exact ⟨destr, init, by rw [← h]; simp [i, List.append_assoc]⟩

/-- C02 (tuple payload bindings): inside a variant, a tuple payload field without instruction is referred to by the
    binding `f<index>` on the Into side -/
theorem C02_tuple_binding_use (f : Field) (ctx : ImplContext) (n idx : Nat)
    (hm : f.member = .unnamed n) (hk : ctx.kind.cls = .into) (hv : ctx.isVariant = true) (hpost : ctx.hasPostInit = false)
    (ha : f.attrs.applicableAttr ctx.kind ctx.fallible ctx.ty = none) :
    renderStructLine f ctx .unspecified idx none = .ok [Tok.ident ("f" ++ toString n), .punct ',' false] := by
  unfold renderStructLine
  simp [hm, hk, hv, hpost, ha, fIdent, Member.toTS, pure, Except.pure, comma]

/-- C02 (named payload bindings): a named payload field is referred to by its own name -/
theorem C02_named_binding_use (f : Field) (ctx : ImplContext) (n : String) (idx : Nat)
    (hm : f.member = .named n) (hk : ctx.kind.cls = .into) (hv : ctx.isVariant = true) (hpost : ctx.hasPostInit = false)
    (ha : f.attrs.applicableAttr ctx.kind ctx.fallible ctx.ty = none) :
    renderStructLine f ctx .unspecified idx none = .ok [Tok.ident n, .punct ':' false, .ident n, .punct ',' false] := by
  unfold renderStructLine
  simp [hm, hk, hv, hpost, ha, pure, Except.pure, i, colon, comma]

/-- C02 (ghost variants): a variant carrying an applicable `#[ghost]` produces no arm when converting from the
    counterpart; when converting into it, it produces an arm only if the ghost declares a default -/
theorem C02_ghost_variant_skipped (v : Variant) (ctx : ImplContext) (acc : TS) (g : FieldGhostAttrCore)
    (hg : v.attrs.ghost ctx.ty ctx.kind = some g) (h : ctx.kind.isFrom = true ∨ g.action = none) :
    enumArmStep ctx acc v = .ok acc := by
  unfold enumArmStep variantContributes ghostNoDefault
  cases hk : ctx.kind.isFrom
  · cases h with
    | inl h => simp [hk] at h
    | inr h => simp [hg, hk, h, pure, Except.pure]
  · simp [hg, hk, pure, Except.pure]

/-- C02 (all variants, declaration order): the arms of the generated `match` are exactly the arms of the contributing
    variants, in declaration order — for any number of variants -/
theorem C02_arms_eq_variants (input : Enum) (ctx : ImplContext) (out : TS) (h : enumInitBlock input ctx = .ok out) :
    ∃ arms : List TS, arms.length = (input.variants.filter (variantContributes ctx)).length ∧
      (∀ n (hn : n < arms.length) (hv : n < (input.variants.filter (variantContributes ctx)).length),
        renderEnumLine ((input.variants.filter (variantContributes ctx))[n]) ctx = .ok arms[n]) ∧
      ∃ rest, out = [Tok.group .brace (arms.flatten ++ rest)] := by
  rw [enumInitBlock_eq] at h
  cases h1 : (input.variants.filter (variantContributes ctx)).mapM (renderEnumLine · ctx) with
  | error e => simp [h1, bind, Except.bind] at h
  | ok arms =>
    cases h2 : (enumGhostData input ctx).mapM (renderEnumGhostLine · ctx) with
    | error e => simp [h1, h2, bind, Except.bind] at h
    | ok gs =>
      simp only [h1, h2, bind, Except.bind, pure, Except.pure, Except.ok.injEq] at h
      have hlen := mapM_ok_length h1
      refine ⟨arms, hlen, ?_, gs.flatten ++ defaultArm input ctx, by rw [← h]; simp [brace, List.append_assoc]⟩
      intro n hn hv
      exact mapM_ok_getElem h1 n hv hn

/-! ### whole `match`: the variant table, any number of variants -/

/-- variant `v` is mapped plainly to the counterpart variant `x`: no variant-level instruction (then `x` is its own
    name) or a rename without expression; no literal, no pattern -/
def PlainVariant (ctx : ImplContext) (v : Variant) (x : String) : Prop :=
  v.attrs.lit ctx.ty = none ∧ v.attrs.pat ctx.ty = none ∧
  ((v.attrs.applicableAttr ctx.kind ctx.fallible ctx.ty = none ∧ x = v.ident) ∨
   (∃ c, v.attrs.applicableAttr ctx.kind ctx.fallible ctx.ty = some (.field c) ∧ c.member = some (.named x) ∧ c.action = none))

/-- C02 (whole From `match`): when every contributing variant is mapped plainly, the k-th arm matches the designated
    counterpart variant `x_k` and builds the k-th variant — `Src::x_k <bindings> => Dst::V_k <payload>,` — in declaration
    order, for any number of variants -/
theorem C02_from_arm_table (ctx : ImplContext) (vs : List (Variant × String)) (arms : List TS)
    (hk : ctx.kind.cls = .from_) (hall : ∀ t ∈ vs, PlainVariant ctx t.1 t.2)
    (h : (vs.map (·.1)).mapM (renderEnumLine · ctx) = .ok arms) :
    arms.length = vs.length ∧
    ∀ k (hk1 : k < arms.length) (hk2 : k < vs.length),
      ∃ destr init, arms[k] = ctx.srcTy ++ cc ++ [Tok.ident vs[k].2] ++ destr ++ fatArrow ++ ctx.dstTy ++ cc ++ [Tok.ident vs[k].1.ident] ++ init ++ [comma] := by
  have hlen := mapM_ok_length h
  rw [List.length_map] at hlen
  refine ⟨hlen, ?_⟩
  intro k hk1 hk2
  have hkm : k < (vs.map (·.1)).length := by simpa using hk2
  have harm := mapM_ok_getElem h k hkm hk1
  simp only [List.getElem_map] at harm
  obtain ⟨hl, hp, hhow⟩ := hall vs[k] (List.getElem_mem hk2)
  rcases hhow with ⟨ha, hx⟩ | ⟨c, ha, hc, hact⟩
  · obtain ⟨destr, init, hout⟩ := C02_default_arm vs[k].1 ctx arms[k] ha hl hp harm
    exact ⟨destr, init, by rw [hx]; exact hout⟩
  · exact C02_rename_from vs[k].1 ctx arms[k] c vs[k].2 hk ha hc hact hl hp harm

/-- reading of a `match` on an enum value: the first arm whose pattern names the value's variant is taken -/
def firstArm (table : List (String × String)) (x : String) : Option String := (table.find? (fun r => decide (r.1 = x))).map (·.2)

/-- C02 (values): every counterpart variant `x_k` is converted to the variant that designates it; if two variants
    designate the same counterpart variant, the one declared first wins; when the designation is injective, the
    conversion hits exactly `V_k` — so `from (into V_k) = V_k` -/
theorem C02_value_first_declared : ∀ (table : List (String × String)) (row : String × String), row ∈ table →
    ∃ v, firstArm table row.1 = some v ∧ ((table.map (·.1)).Nodup → v = row.2)
  | [], _, h => by simp at h
  | r :: table, row, h => by
    by_cases he : r.1 = row.1
    · refine ⟨r.2, by simp [firstArm, List.find?, he], ?_⟩
      intro hnd
      rcases List.mem_cons.mp h with rfl | h'
      · rfl
      · have hnot : r.1 ∉ table.map (·.1) := (List.nodup_cons.mp (by simpa using hnd)).1
        exact absurd (List.mem_map.mpr ⟨row, h', he.symm⟩) hnot
    · have h' : row ∈ table := by
        rcases List.mem_cons.mp h with rfl | h'
        · exact absurd rfl he
        · exact h'
      obtain ⟨v, hv, hn⟩ := C02_value_first_declared table row h'
      refine ⟨v, by simpa [firstArm, List.find?, he] using hv, fun hnd => hn (List.nodup_cons.mp (by simpa using hnd)).2⟩

/-- C02-7 (payload positions): a payload line of a variant arm never depends on how many lines were written before it
    (From: always; Into: the arm is one struct / tuple expression) — a member after a ghost payload member still reads
    and writes its own binding `f<declaration index>` -/
theorem C02_payload_line_ignores_line_count (f : Field) (ctx : ImplContext) (hint : TypeHint) (idx idx' : Nat)
    (h : ctx.kind.cls = .from_ ∨ (ctx.kind.cls = .into ∧ ctx.hasPostInit = false)) :
    renderStructLine f ctx hint idx none = renderStructLine f ctx hint idx' none := by
  rcases h with h | ⟨h, hp⟩
  · exact renderStructLine_from_ignores_counter f ctx hint idx idx' none h
  · exact renderStructLine_into_ignores_counter f ctx hint idx idx' none h hp

end O2o
