/-
C10 — `@` and `~` are substituted everywhere; all other user tokens pass through.
Theorems about `replaceList` / `quoteAction` of the model (Expand.lean), for token trees of
unbounded size and nesting depth (mutual structural induction over `Tok` / `List Tok`).
-/
import O2oModel.Expand
import O2oModel.Lemmas.Lines
namespace O2o

mutual
/-- no `@` / `~` punctuation token at any depth -/
def Tok.noPh : Tok → Bool
  | .punct c _ => c != '~' && c != '@'
  | .group _ ts => Tok.noPhList ts
  | _ => true
def Tok.noPhList : List Tok → Bool
  | [] => true
  | t :: ts => Tok.noPh t && Tok.noPhList ts
end

theorem noPhList_append (a b : TS) : Tok.noPhList (a ++ b) = (Tok.noPhList a && Tok.noPhList b) := by
  induction a with
  | nil => simp [Tok.noPhList]
  | cons t ts ih => simp [Tok.noPhList, ih, Bool.and_assoc]

mutual
/-- C10-1 (one token): after substitution no placeholder is left, at any depth -/
theorem C10_no_placeholder_left_tok (at_ tilde : TS) (ha : Tok.noPhList at_ = true) (ht : Tok.noPhList tilde = true) :
    ∀ t : Tok, Tok.noPhList (replaceTok at_ tilde t) = true
  | .ident s => by simp [replaceTok, Tok.noPhList, Tok.noPh]
  | .lit s => by simp [replaceTok, Tok.noPhList, Tok.noPh]
  | .punct c jn => by
    unfold replaceTok
    by_cases h1 : (c == '~') = true
    · simp [h1, ht]
    · by_cases h2 : (c == '@') = true
      · simp [h1, h2, ha]
      · simp only [h1, h2]
        simp [Tok.noPhList, Tok.noPh]
        simp at h1 h2
        exact ⟨h1, h2⟩
  | .group d ts => by
    have ih := C10_no_placeholder_left at_ tilde ha ht ts
    cases d <;> simp [replaceTok, Tok.noPhList, Tok.noPh, ih]
/-- C10-1: after substitution no placeholder is left, at any depth -/
theorem C10_no_placeholder_left (at_ tilde : TS) (ha : Tok.noPhList at_ = true) (ht : Tok.noPhList tilde = true) :
    ∀ ts : List Tok, Tok.noPhList (replaceList at_ tilde ts) = true
  | [] => by simp [replaceList, Tok.noPhList]
  | t :: ts => by
    simp only [replaceList, noPhList_append]
    rw [C10_no_placeholder_left_tok at_ tilde ha ht t, C10_no_placeholder_left at_ tilde ha ht ts]
    rfl
end

mutual
/-- the specification of substitution: a token-wise homomorphism. Every token that is not a
    placeholder is kept as is (same text, same spacing flag), in order, at the same depth and inside
    the same delimiter; `Delim.none` groups are flattened as the code does. -/
def substSpecTok (at_ tilde : TS) : Tok → TS
  | .punct '~' _ => tilde
  | .punct '@' _ => at_
  | .group .none ts => substSpecList at_ tilde ts
  | .group d ts => [.group d (substSpecList at_ tilde ts)]
  | t => [t]
def substSpecList (at_ tilde : TS) : List Tok → TS
  | [] => []
  | t :: ts => substSpecTok at_ tilde t ++ substSpecList at_ tilde ts
end

mutual
theorem C10_homomorphism_tok (at_ tilde : TS) : ∀ t : Tok, replaceTok at_ tilde t = substSpecTok at_ tilde t
  | .ident s => by simp [replaceTok, substSpecTok]
  | .lit s => by simp [replaceTok, substSpecTok]
  | .punct c jn => by
    unfold replaceTok
    by_cases h1 : c = '~'
    · subst h1; simp [substSpecTok]
    · by_cases h2 : c = '@'
      · subst h2; simp [substSpecTok]
      · have e1 : (c == '~') = false := by simp [h1]
        have e2 : (c == '@') = false := by simp [h2]
        simp only [e1, e2]
        unfold substSpecTok
        split <;> simp_all
  | .group d ts => by
    have ih := C10_homomorphism at_ tilde ts
    cases d <;> simp [replaceTok, substSpecTok, ih]
/-- C10-2: substitution is exactly the token-wise homomorphism — nothing but placeholders changes -/
theorem C10_homomorphism (at_ tilde : TS) : ∀ ts : List Tok, replaceList at_ tilde ts = substSpecList at_ tilde ts
  | [] => by simp [replaceList, substSpecList]
  | t :: ts => by
    simp only [replaceList, substSpecList]
    rw [C10_homomorphism_tok at_ tilde t, C10_homomorphism at_ tilde ts]
end

-- C10-2b: an expression without placeholders is emitted verbatim (when it has no `Delim.none` group)
mutual
def Tok.noNone : Tok → Bool
  | .group .none _ => false
  | .group _ ts => Tok.noNoneList ts
  | _ => true
def Tok.noNoneList : List Tok → Bool
  | [] => true
  | t :: ts => Tok.noNone t && Tok.noNoneList ts
end

mutual
theorem C10_verbatim_tok (at_ tilde : TS) : ∀ t : Tok, Tok.noPh t = true → Tok.noNone t = true → replaceTok at_ tilde t = [t]
  | .ident s, _, _ => by simp [replaceTok]
  | .lit s, _, _ => by simp [replaceTok]
  | .punct c jn, h, _ => by
    simp [Tok.noPh] at h
    have e1 : (c == '~') = false := by simp [h.1]
    have e2 : (c == '@') = false := by simp [h.2]
    simp [replaceTok, e1, e2]
  | .group d ts, h, hn => by
    cases d with
    | none => simp [Tok.noNone] at hn
    | paren => simp [Tok.noPh] at h; simp [Tok.noNone] at hn; simp [replaceTok, C10_verbatim at_ tilde ts h hn]
    | brace => simp [Tok.noPh] at h; simp [Tok.noNone] at hn; simp [replaceTok, C10_verbatim at_ tilde ts h hn]
    | bracket => simp [Tok.noPh] at h; simp [Tok.noNone] at hn; simp [replaceTok, C10_verbatim at_ tilde ts h hn]
theorem C10_verbatim (at_ tilde : TS) : ∀ ts : List Tok, Tok.noPhList ts = true → Tok.noNoneList ts = true → replaceList at_ tilde ts = ts
  | [], _, _ => by simp [replaceList]
  | t :: ts, h, hn => by
    simp [Tok.noPhList] at h
    simp [Tok.noNoneList] at hn
    simp [replaceList, C10_verbatim_tok at_ tilde t h.1 hn.1, C10_verbatim at_ tilde ts h.2 hn.2]
end

/-- C10-3 (meaning of `@`): `value` when converting from the counterpart, `self` otherwise -/
theorem C10_at_meaning (k : Kind) : srcIdent k = if k.isFrom then [Tok.ident "value"] else [Tok.ident "self"] := by
  cases k <;> decide

/-- C10-3 (meaning of `~`, struct): the source object followed by `.` and the member path -/
theorem C10_tilde_meaning_struct (ctx : ImplContext) (post : TS) (h : ctx.implType = .struct) :
    tildePath ctx (some post) = srcIdent ctx.kind ++ [Tok.punct '.' false] ++ post := by
  simp [tildePath, h, skel, Gen.tmpl_quote_action, Gen.Tm.instList, Gen.Tm.inst, List.getD]

/-- C10-3 (meaning of `~`, enum variant expression): `Dst::` followed by the variant (and its init) -/
theorem C10_tilde_meaning_enum (ctx : ImplContext) (post : TS) (h : ctx.implType = .enum) :
    tildePath ctx (some post) = ctx.dstTy ++ [Tok.punct ':' true, Tok.punct ':' false] ++ post := by
  simp [tildePath, h, skel, Gen.tmpl_quote_action, Gen.Tm.instList, Gen.Tm.inst, List.getD]

/-- C10-3 (meaning of `~`, payload field of a variant): the binding itself -/
theorem C10_tilde_meaning_variant (ctx : ImplContext) (post : TS) (h : ctx.implType = .variant) :
    tildePath ctx (some post) = post := by
  simp [tildePath, h, skel, Gen.tmpl_quote_action, Gen.Tm.instList, Gen.Tm.inst, List.getD]

/-- C10-1 lifted to `quote_action`: the emitted expression has no placeholder left, whatever the user wrote -/
theorem C10_quoteAction_no_placeholder (action : TS) (post : Option TS) (ctx : ImplContext)
    (hs : Tok.noPhList (srcIdent ctx.kind) = true) (hp : Tok.noPhList (tildePath ctx post) = true) :
    Tok.noPhList (quoteAction action post ctx) = true :=
  C10_no_placeholder_left _ _ hs hp action

/-- the premise `hs` holds for every kind -/
theorem C10_srcIdent_noPh (k : Kind) : Tok.noPhList (srcIdent k) = true := by
  cases k <;> decide

/-- non-vacuity: a nested expression with both placeholders, literals containing `~`/`@`, joint punctuation -/
example :
    replaceList [Tok.ident "value"] [Tok.ident "value", Tok.punct '.' false, Tok.ident "x"]
      [Tok.ident "f", Tok.group .paren [Tok.punct '~' false, Tok.punct ',' false, Tok.group .bracket [Tok.punct '@' false, Tok.punct '&' true, Tok.punct '&' false, Tok.lit "\"~@\""]]]
    = [Tok.ident "f", Tok.group .paren [Tok.ident "value", Tok.punct '.' false, Tok.ident "x", Tok.punct ',' false,
        Tok.group .bracket [Tok.ident "value", Tok.punct '&' true, Tok.punct '&' false, Tok.lit "\"~@\""]]] := by decide

/-- C10-6 (`~` under a positional source): a named member built from a tuple-shaped source (`#[from(T as ())]`) whose
    instruction gives an expression and no index — `~` is the source's member at the member's *declaration* position
    `f.idx`, whatever the number `idx` of initialiser lines written before it (bare ghosts leave no line) -/
theorem C10_tilde_positional_source (f : Field) (ctx : ImplContext) (n : String) (idx : Nat) (c : MemberAttrCore) (act : TS)
    (hm : f.member = .named n) (hk : ctx.kind.cls = .from_)
    (ha : f.attrs.applicableAttr ctx.kind ctx.fallible ctx.ty = some (.field c))
    (hc : c.member = none) (hact : c.action = some act)
    (hch : f.attrs.child ctx.ty = none) (hv : ctx.isVariant = false) :
    renderStructLine f ctx .tuple idx none =
      .ok ([Tok.ident n, .punct ':' false] ++ quoteAction act (some (Member.unnamed f.idx).toTS) ctx ++ [Tok.punct ',' false]) := by
  unfold renderStructLine
  simp [hm, hk, ha, hc, hact, hch, hv, ApplicableAttr.getStuff, getStuffInner, bind, Except.bind, pure, Except.pure, Member.toTS,
    i, colon, comma, List.append_assoc]

/-- C10-7: no line of a From conversion depends on the running line counter — every path a `~` (or a default read)
    resolves to comes from the member and its instructions -/
theorem C10_from_line_ignores_line_count (f : Field) (ctx : ImplContext) (hint : TypeHint) (idx idx' : Nat)
    (pc : Option ParentChildField) (h : ctx.kind.cls = .from_) :
    renderStructLine f ctx hint idx pc = renderStructLine f ctx hint idx' pc :=
  renderStructLine_from_ignores_counter f ctx hint idx idx' pc h

/-- C10-7 (Into, initialiser expression): likewise when the counterpart is written as one struct / tuple expression -/
theorem C10_into_line_ignores_line_count (f : Field) (ctx : ImplContext) (hint : TypeHint) (idx idx' : Nat)
    (pc : Option ParentChildField) (h : ctx.kind.cls = .into) (hp : ctx.hasPostInit = false) :
    renderStructLine f ctx hint idx pc = renderStructLine f ctx hint idx' pc :=
  renderStructLine_into_ignores_counter f ctx hint idx idx' pc h hp

/-- non-vacuity: the third member (declaration index 2) of `#[from(T as ())] struct S { #[ghost] a, .., #[from(~ + 1)] c }`
    rendered as the second line (one line was left out): `c: value.2 + 1,` -/
def exSkewField : Field :=
  { attrs := { attrs := [{ attr := { containerTy := none, member := none, action := some [Tok.punct '~' false, Tok.punct '+' false, Tok.lit "1"] },
                           fallible := false, originalInstr := "from", appl := [false, false, true, true, false, false] }] },
    idx := 2, member := .named "c", memberStr := "c", ty := none }

def exSkewCtx : ImplContext := { (default : ImplContext) with kind := .fromOwned, implType := .struct, fallible := false, hasPostInit := false }

/-- the hypotheses of `C10_tilde_positional_source` hold for it .. -/
example : exSkewField.member = .named "c" ∧ exSkewCtx.kind.cls = .from_ ∧ exSkewCtx.isVariant = false ∧
    exSkewField.attrs.child exSkewCtx.ty = none ∧
    exSkewField.attrs.applicableAttr exSkewCtx.kind exSkewCtx.fallible exSkewCtx.ty
      = some (.field { containerTy := none, member := none, action := some [Tok.punct '~' false, Tok.punct '+' false, Tok.lit "1"] }) := by
  refine ⟨rfl, by decide, by decide, rfl, ?_⟩
  simp [exSkewField, exSkewCtx, MemberAttrs.applicableAttr, MemberAttrs.ghost, MemberAttrs.fieldAttrCore, MemberAttrs.fieldAttr,
    MemberAttrs.iterForKind, findDedicatedOrDefault, Appl.get, isSomeEq]
  decide

/-- .. and the line is `c: value.2 + 1,` although it is written as line 1 -/
example : (match renderStructLine exSkewField exSkewCtx .tuple 1 none with | .ok ts => ts | .error _ => []) =
    [Tok.ident "c", .punct ':' false, .ident "value", .punct '.' false, .lit "2", .punct '+' false, .lit "1", .punct ',' false] := by
  decide

end O2o
