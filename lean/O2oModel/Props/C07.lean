/-
C07 — owned, by-reference, fallible and into-existing flavours of a mapping agree.
Syntactic agreement theorems on the model; the runtime half (values) is sampled by the correspondence
check only through token equality of the generated bodies — stated in the evidence assumptions.
-/
import O2oModel.Expand
namespace O2o

/-- C07-2 (try vs plain, body): for one and the same context the fallible body is `Ok(<plain body>)` — the plumbing
    is shared, only the wrapper differs (no post-init, no quick return) -/
theorem C07_try_wraps_plain (ctx : ImplContext) (hq : ctx.structAttr.quickReturn = none) (hp : ctx.hasPostInit = false) :
    mainCodeBlockOk ctx = (mainCodeBlock ctx).map fun inner => [Tok.ident "Ok", Tok.group .paren inner] := by
  unfold mainCodeBlockOk mainCodeBlock
  simp only [hq]
  cases hin : ctx.input with
  | struct s =>
    simp only
    cases structMainCodeBlock s ctx with
    | error e => rfl
    | ok inner => simp [hp, bind, Except.bind, pure, Except.pure, Except.map, skel, Gen.tmpl_main_code_block_ok, Gen.Tm.instList, Gen.Tm.inst, List.getD]
  | enum e =>
    simp only
    cases enumMainCodeBlock e ctx with
    | error e => rfl
    | ok inner => simp [hp, bind, Except.bind, pure, Except.pure, Except.map, skel, Gen.tmpl_main_code_block_ok, Gen.Tm.instList, Gen.Tm.inst, List.getD]

/-- with a bare `#[parent]` (post-init dialect) the fallible body is the plain statement list; `Ok(obj)` is added by
    the skeleton (C17_into_bodies) -/
theorem C07_try_post_init (ctx : ImplContext) (hq : ctx.structAttr.quickReturn = none) (hp : ctx.hasPostInit = true) :
    mainCodeBlockOk ctx = mainCodeBlock ctx := by
  unfold mainCodeBlockOk mainCodeBlock
  simp only [hq]
  cases hin : ctx.input with
  | struct s =>
    simp only
    cases structMainCodeBlock s ctx with
    | error e => rfl
    | ok inner => simp [hp, bind, Except.bind, pure, Except.pure]
  | enum e =>
    simp only
    cases enumMainCodeBlock e ctx with
    | error e => rfl
    | ok inner => simp [hp, bind, Except.bind, pure, Except.pure]

/-- the statement skeleton of one `quote!` body: which pieces are spliced in, in which order (the error type apart) -/
def bodyOrder (t : List (List Gen.Tm)) : List (List String) := t.map fun b => (Gen.Tm.holesList b).filter (· != "err_ty")

/-- C07-2 (try vs plain, skeletons; *table*, regenerated): each fallible skeleton splices exactly the same pieces in
    exactly the same order as its infallible twin, in every dialect (plain / post-init) — so the same member
    assignments, parent calls, `vars` and attributes run in the same order whether or not the conversion is fallible -/
theorem C07_fallible_same_statement_order :
    (bodyOrder Gen.tmpl_quote_try_from_trait == bodyOrder Gen.tmpl_quote_from_trait
      && bodyOrder Gen.tmpl_quote_try_into_trait == bodyOrder Gen.tmpl_quote_into_trait
      && bodyOrder Gen.tmpl_quote_try_into_existing_trait == bodyOrder Gen.tmpl_quote_into_existing_trait) = true := by decide

/-- non-vacuity: the post-init dialect of `Into` really splices `init` before `post_init` -/
example : (bodyOrder Gen.tmpl_quote_into_trait).head? = some ["dst", "init", "post_init"] := by decide

/-- the source object named by the generated code depends only on the direction, not on owned / by-ref / fallible -/
theorem C07_same_source_object (k k' : Kind) (h : k.isFrom = k'.isFrom) : srcIdent k = srcIdent k' := by
  unfold srcIdent; rw [h]

/-- owned and by-reference kinds of one direction are in the same class: every `match` of the expander on the kind
    class takes the same arm for them -/
theorem C07_ref_owned_same_class :
    Kind.fromOwned.cls = Kind.fromRef.cls ∧ Kind.ownedInto.cls = Kind.refInto.cls ∧ Kind.ownedIntoExisting.cls = Kind.refIntoExisting.cls := by
  decide

/-- C07-3 (existing vs into, one line, default mapping): for a named member without instructions `into` emits
    `name: self.name,` and `into_existing` emits `other.name = self.name;` — same right-hand side, same slot -/
theorem C07_existing_vs_into_default (f : Field) (ctx ctx' : ImplContext) (name : String) (idx : Nat)
    (hm : f.member = .named name) (hk : ctx.kind.cls = .into) (hk' : ctx'.kind.cls = .existing)
    (ha : f.attrs.applicableAttr ctx.kind ctx.fallible ctx.ty = none) (ha' : f.attrs.applicableAttr ctx'.kind ctx'.fallible ctx'.ty = none)
    (hc : f.attrs.child ctx'.ty = none) (hp : ctx.hasPostInit = false) (hv : ctx.isVariant = false) (hv' : ctx'.isVariant = false) :
    renderStructLine f ctx .unspecified idx none = .ok ([Tok.ident name, .punct ':' false, .ident "self", .punct '.' false, .ident name, .punct ',' false]) ∧
    renderStructLine f ctx' .unspecified idx none = .ok ([Tok.ident "other", .punct '.' false, .ident name, .punct '=' false, .ident "self", .punct '.' false, .ident name, .punct ';' false]) := by
  have hfrom : ctx.kind.isFrom = false := by
    cases hkk : ctx.kind <;> simp_all [Kind.cls, Kind.isFrom, Kind.isIntoExisting]
  have hfrom' : ctx'.kind.isFrom = false := by
    cases hkk : ctx'.kind <;> simp_all [Kind.cls, Kind.isFrom, Kind.isIntoExisting]
  constructor
  · unfold renderStructLine
    simp [hm, ha, hk, hp, hv, srcIdent, hfrom, skel, Gen.tmpl_quote_action, Gen.Tm.instList, Gen.Tm.inst, List.getD, pure, Except.pure, i, dot, colon, comma]
  · unfold renderStructLine
    simp [hm, ha', hk', hc, hv', srcIdent, hfrom', skel, Gen.tmpl_quote_action, Gen.Tm.instList, Gen.Tm.inst, List.getD, pure, Except.pure, i, dot, eq, semi, Member.toTS]

end O2o
