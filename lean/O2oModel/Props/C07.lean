/-
C07 — owned, by-reference, fallible and into-existing flavours of a mapping agree.
Syntactic agreement theorems on the model; the runtime half (values) is sampled by the correspondence
check only through token equality of the generated bodies — stated in the evidence assumptions.
-/
import O2oModel.Expand
import O2oModel.Lemmas.Sem
namespace O2o

/-- C07-2 (try vs plain, body): for one and the same context the fallible body is `Ok(<plain body>)` — the plumbing
    is shared, only the wrapper differs (no post-init, no quick return) -/
theorem C07_try_wraps_plain (ctx : ImplContext) (hq : ctx.structAttr.quickReturn = none) (hp : ctx.hasPostInit = false) :
    mainCodeBlockOk ctx = (mainCodeBlock ctx).map fun inner => [Tok.ident "Ok", Tok.group .paren inner] := by
  unfold mainCodeBlockOk mainCodeBlock
  simp only [hq]
  cases hin : ctx.input with
  | struct s =>
    simp only
    cases structMainCodeBlock s ctx with
    | error e => rfl
    | ok inner => simp [hp, bind, Except.bind, pure, Except.pure, Except.map, skel, Gen.tmpl_main_code_block_ok, Gen.Tm.instList, Gen.Tm.inst, List.getD]
  | enum e =>
    simp only
    cases enumMainCodeBlock e ctx with
    | error e => rfl
    | ok inner => simp [hp, bind, Except.bind, pure, Except.pure, Except.map, skel, Gen.tmpl_main_code_block_ok, Gen.Tm.instList, Gen.Tm.inst, List.getD]

/-- with a bare `#[parent]` (post-init dialect) the fallible body is the plain statement list; `Ok(obj)` is added by
    the skeleton (C17_into_bodies) -/
theorem C07_try_post_init (ctx : ImplContext) (hq : ctx.structAttr.quickReturn = none) (hp : ctx.hasPostInit = true) :
    mainCodeBlockOk ctx = mainCodeBlock ctx := by
  unfold mainCodeBlockOk mainCodeBlock
  simp only [hq]
  cases hin : ctx.input with
  | struct s =>
    simp only
    cases structMainCodeBlock s ctx with
    | error e => rfl
    | ok inner => simp [hp, bind, Except.bind, pure, Except.pure]
  | enum e =>
    simp only
    cases enumMainCodeBlock e ctx with
    | error e => rfl
    | ok inner => simp [hp, bind, Except.bind, pure, Except.pure]

/-- the statement skeleton of one `quote!` body: which pieces are spliced in, in which order (the error type apart) -/
def bodyOrder (t : List (List Gen.Tm)) : List (List String) := t.map fun b => (Gen.Tm.holesList b).filter (· != "err_ty")

/-- C07-2 (try vs plain, skeletons; *table*, regenerated): each fallible skeleton splices exactly the same pieces in
    exactly the same order as its infallible twin, in every dialect (plain / post-init) — so the same member
    assignments, parent calls, `vars` and attributes run in the same order whether or not the conversion is fallible -/
theorem C07_fallible_same_statement_order :
    (bodyOrder Gen.tmpl_quote_try_from_trait == bodyOrder Gen.tmpl_quote_from_trait
      && bodyOrder Gen.tmpl_quote_try_into_trait == bodyOrder Gen.tmpl_quote_into_trait
      && bodyOrder Gen.tmpl_quote_try_into_existing_trait == bodyOrder Gen.tmpl_quote_into_existing_trait) = true := by decide

/-- non-vacuity: the post-init dialect of `Into` really splices `init` before `post_init` -/
example : (bodyOrder Gen.tmpl_quote_into_trait).head? = some ["pre_init", "dst", "those_gens", "init", "post_init"] := by decide

/-- the instruction names that say neither `owned` nor `ref` -/
def flavourNeutralNames : List String :=
  ["map", "from", "into", "into_existing", "try_map", "try_from", "try_into", "try_into_existing"]

/-- C07 (*tables*, regenerated): wherever an applicability vector is filled — type level, member level and the nested
    `[..]` instructions of a parameterised `#[parent(..)]` — an instruction whose name says neither `owned` nor `ref`
    applies to the by-reference flavour of a conversion exactly when it applies to the owned one: one written
    mapping serves both, in Into, From and IntoExisting alike -/
theorem C07_owned_ref_same_instructions :
    ((Gen.nestedAppl :: ((Gen.typeArms ++ Gen.memberArms).filter (fun a => match a.kind with | .map _ => true | _ => false)).map (·.appl)).all fun v =>
      flavourNeutralNames.all fun n =>
        let A := applOf v n
        A.get .ownedInto == A.get .refInto && A.get .fromOwned == A.get .fromRef
          && A.get .ownedIntoExisting == A.get .refIntoExisting) = true := by decide

/-- non-vacuity: the nested vector is there and `into_existing` does apply to both IntoExisting flavours -/
example : (applOf Gen.nestedAppl "into_existing").get .ownedIntoExisting = true
    ∧ (applOf Gen.nestedAppl "into_existing").get .refIntoExisting = true := by decide

/-- the source object named by the generated code depends only on the direction, not on owned / by-ref / fallible -/
theorem C07_same_source_object (k k' : Kind) (h : k.isFrom = k'.isFrom) : srcIdent k = srcIdent k' := by
  unfold srcIdent; rw [h]

/-- owned and by-reference kinds of one direction are in the same class: every `match` of the expander on the kind
    class takes the same arm for them -/
theorem C07_ref_owned_same_class :
    Kind.fromOwned.cls = Kind.fromRef.cls ∧ Kind.ownedInto.cls = Kind.refInto.cls ∧ Kind.ownedIntoExisting.cls = Kind.refIntoExisting.cls := by
  decide

/-- C07-3 (existing vs into, one line, default mapping): for a named member without instructions `into` emits
    `name: self.name,` and `into_existing` emits `other.name = self.name;` — same right-hand side, same slot -/
theorem C07_existing_vs_into_default (f : Field) (ctx ctx' : ImplContext) (name : String) (idx : Nat)
    (hm : f.member = .named name) (hk : ctx.kind.cls = .into) (hk' : ctx'.kind.cls = .existing)
    (ha : f.attrs.applicableAttr ctx.kind ctx.fallible ctx.ty = none) (ha' : f.attrs.applicableAttr ctx'.kind ctx'.fallible ctx'.ty = none)
    (hc : f.attrs.child ctx'.ty = none) (hp : ctx.hasPostInit = false) (hv : ctx.isVariant = false) (hv' : ctx'.isVariant = false) :
    renderStructLine f ctx .unspecified idx none = .ok ([Tok.ident name, .punct ':' false, .ident "self", .punct '.' false, .ident name, .punct ',' false]) ∧
    renderStructLine f ctx' .unspecified idx none = .ok ([Tok.ident "other", .punct '.' false, .ident name, .punct '=' false, .ident "self", .punct '.' false, .ident name, .punct ';' false]) := by
  have hfrom : ctx.kind.isFrom = false := by
    cases hkk : ctx.kind <;> simp_all [Kind.cls, Kind.isFrom, Kind.isIntoExisting]
  have hfrom' : ctx'.kind.isFrom = false := by
    cases hkk : ctx'.kind <;> simp_all [Kind.cls, Kind.isFrom, Kind.isIntoExisting]
  constructor
  · unfold renderStructLine
    simp [hm, ha, hk, hp, hv, srcIdent, hfrom, skel, Gen.tmpl_quote_action, Gen.Tm.instList, Gen.Tm.inst, List.getD, pure, Except.pure, i, dot, colon, comma]
  · unfold renderStructLine
    simp [hm, ha', hk', hc, hv', srcIdent, hfrom', skel, Gen.tmpl_quote_action, Gen.Tm.instList, Gen.Tm.inst, List.getD, pure, Except.pure, i, dot, eq, semi, Member.toTS]

/-! ### values (record semantics of `O2oModel/Sem.lean`) -/

/-- C07 (owned vs by-reference, any flavour): two contexts of the same direction in which every member is mapped
    plainly to the same counterpart member (`Simple`: default or rename, as decided by the instructions that apply to
    *that* flavour) emit token-identical member lines — hence deliver the same values. Any number of members. -/
theorem C07_same_lines (ctx ctx' : ImplContext) (fs : List (Field × String × String))
    (hk : ctx.kind.cls = ctx'.kind.cls) (hv : ctx.isVariant = false) (hv' : ctx'.isVariant = false)
    (hpost : ctx.hasPostInit = false) (hpost' : ctx'.hasPostInit = false)
    (hs : ∀ t ∈ fs, Simple ctx t.1 t.2.1 t.2.2) (hs' : ∀ t ∈ fs, Simple ctx' t.1 t.2.1 t.2.2) :
    ∃ body, flatLines ctx .unspecified (fs.map (·.1)) 0 = .ok body ∧ flatLines ctx' .unspecified (fs.map (·.1)) 0 = .ok body := by
  have key : ∀ (c : ImplContext) (line : Field × String × String → TS),
      (∀ t ∈ fs, fieldSkipped c t.1 = false ∧ ∀ k, renderStructLine t.1 c .unspecified k none = .ok (line t)) →
      flatLines c .unspecified (fs.map (·.1)) 0 = .ok (fs.flatMap line) := by
    intro c line h
    have := flatLines_of_lines c .unspecified (fs.map fun t => (t.1, line t)) 0 (by
      intro t ht
      obtain ⟨u, hu, rfl⟩ := List.mem_map.mp ht
      exact h u hu)
    simpa [List.map_map, List.flatMap_map, Function.comp_def] using this
  cases hc : ctx.kind.cls with
  | from_ =>
    have hc' : ctx'.kind.cls = .from_ := by rw [← hk, hc]
    exact ⟨_, key ctx (fun t => tokLine t.2.1 "value" t.2.2) (fun t ht => ⟨(hs t ht).notSkipped, fun k => simple_line_from ctx _ _ _ k (hs t ht) hc hv⟩),
      key ctx' _ (fun t ht => ⟨(hs' t ht).notSkipped, fun k => simple_line_from ctx' _ _ _ k (hs' t ht) hc' hv'⟩)⟩
  | into =>
    have hc' : ctx'.kind.cls = .into := by rw [← hk, hc]
    exact ⟨_, key ctx (fun t => tokLine t.2.2 "self" t.2.1) (fun t ht => ⟨(hs t ht).notSkipped, fun k => simple_line_into ctx _ _ _ k (hs t ht) hc hv hpost⟩),
      key ctx' _ (fun t ht => ⟨(hs' t ht).notSkipped, fun k => simple_line_into ctx' _ _ _ k (hs' t ht) hc' hv' hpost'⟩)⟩
  | existing =>
    have hc' : ctx'.kind.cls = .existing := by rw [← hk, hc]
    exact ⟨_, key ctx (fun t => tokAssign t.2.2 "self" t.2.1) (fun t ht => ⟨(hs t ht).notSkipped, fun k => simple_line_existing ctx _ _ _ k (hs t ht) hc hv⟩),
      key ctx' _ (fun t ht => ⟨(hs' t ht).notSkipped, fun k => simple_line_existing ctx' _ _ _ k (hs' t ht) hc' hv'⟩)⟩

/-- C07 (Into vs IntoExisting, values): the record built by `into` and the record left by `into_existing` — whatever
    the existing record held before — agree on every designated member: both hold the value of the member mapped to it -/
theorem C07_value_into_vs_existing (ctxI ctxE : ImplContext) (fs : List (Field × String × String))
    (hkI : ctxI.kind.cls = .into) (hkE : ctxE.kind.cls = .existing) (hvI : ctxI.isVariant = false) (hvE : ctxE.isVariant = false)
    (hpost : ctxI.hasPostInit = false)
    (hsI : ∀ t ∈ fs, Simple ctxI t.1 t.2.1 t.2.2) (hsE : ∀ t ∈ fs, Simple ctxE t.1 t.2.1 t.2.2)
    (hnd : (fs.map (·.2.2)).Nodup) :
    ∃ bI bE, flatLines ctxI .unspecified (fs.map (·.1)) 0 = .ok bI ∧ flatLines ctxE .unspecified (fs.map (·.1)) 0 = .ok bE ∧
      ∀ (s other : Sem.Rec), (∀ t ∈ fs, (s.get? t.2.1).isSome) →
        ∃ r1 r2, Sem.evalInit "self" s bI = some r1 ∧ Sem.execBody "self" s bE other = some r2 ∧
          ∀ t ∈ fs, Sem.Rec.get? r1 t.2.2 = Sem.Rec.get? r2 t.2.2 := by
  obtain ⟨bI, hbI, hI⟩ := value_into ctxI fs hkI hvI hpost hsI
  obtain ⟨bE, hbE, hE⟩ := value_existing ctxE fs hkE hvE hsE
  refine ⟨bI, bE, hbI, hbE, ?_⟩
  intro s other hdef
  obtain ⟨r2, hr2, _, hin⟩ := hE s other hdef
  -- the Into record exists because every member is present in `s`
  have hex : ∃ r1, fs.mapM (fun t => (s.get? t.2.1).map fun v => (t.2.2, v)) = some r1 := by
    have := roundtrip_pairs (fs.map fun t => (t.2.1, t.2.2)) s (by simpa [List.map_map, Function.comp_def] using hnd) (by
      intro p hp
      obtain ⟨u, hu, rfl⟩ := List.mem_map.mp hp
      exact hdef u hu)
    obtain ⟨r, hr, _⟩ := this
    exact ⟨r, by simpa [List.mapM_map, Function.comp_def] using hr⟩
  obtain ⟨r1, hr1⟩ := hex
  refine ⟨r1, r2, by rw [hI s]; exact hr1, hr2, ?_⟩
  intro t ht
  have h1 := mapM_get s (fs.map fun t => (t.2.1, t.2.2)) r1 (by simpa [List.mapM_map, Function.comp_def] using hr1)
    (by simpa [List.map_map, Function.comp_def] using hnd) (t.2.1, t.2.2) (List.mem_map.mpr ⟨t, ht, rfl⟩)
  simp only at h1
  rw [h1, hin hnd t ht]

end O2o
