/-
C06 — impls for one counterpart type are independent of the other counterparts.
Every place where the expander reaches an instruction goes through one of the lookups below with
`ty = ctx.struct_attr.ty`; each lookup is invariant under removing the instructions dedicated to other
counterparts (`project`). Lists of any length, any order.
-/
import O2oModel.Lemmas.Lookup
import O2oModel.Expand
import O2oModel.Lemmas.Blocks
namespace O2o

/-- `project A` on member-level instructions: drop everything dedicated to a counterpart other than `ty` -/
def MemberAttrs.project (a : MemberAttrs) (ty : TypePath) : MemberAttrs :=
  { a with
    attrs := a.attrs.filter fun x => relevantTo ty x.attr.containerTy
    childAttrs := a.childAttrs.filter fun x => relevantTo ty x.containerTy
    parentAttrs := a.parentAttrs.filter fun x => relevantTo ty x.containerTy
    ghostAttrs := a.ghostAttrs.filter fun x => relevantTo ty x.attr.containerTy
    ghostsAttrs := a.ghostsAttrs.filter fun x => relevantTo ty x.attr.containerTy
    litAttrs := a.litAttrs.filter fun x => relevantTo ty x.containerTy
    patAttrs := a.patAttrs.filter fun x => relevantTo ty x.containerTy
    typeHintAttrs := a.typeHintAttrs.filter fun x => relevantTo ty x.containerTy }

/-- `project A` on type-level dedicated instructions -/
def DataTypeAttrs.project (a : DataTypeAttrs) (ty : TypePath) : DataTypeAttrs :=
  { a with
    ghostsAttrs := a.ghostsAttrs.filter fun x => relevantTo ty x.attr.containerTy
    whereAttrs := a.whereAttrs.filter fun x => relevantTo ty x.containerTy
    childParentsAttrs := a.childParentsAttrs.filter fun x => relevantTo ty x.containerTy }

theorem C06_ghost (a : MemberAttrs) (ty : TypePath) (k : Kind) : (a.project ty).ghost ty k = a.ghost ty k := by
  simp only [MemberAttrs.ghost, MemberAttrs.project]
  rw [findDedicatedOrDefault_filter a.ghostAttrs (·.appl.get k) (·.attr.containerTy) ty]

theorem C06_child (a : MemberAttrs) (ty : TypePath) : (a.project ty).child ty = a.child ty := by
  simp only [MemberAttrs.child, MemberAttrs.project]
  rw [findDedicatedOrDefault_filter a.childAttrs (fun _ => true) (·.containerTy) ty]

theorem C06_lit (a : MemberAttrs) (ty : TypePath) : (a.project ty).lit ty = a.lit ty := by
  simp only [MemberAttrs.lit, MemberAttrs.project]
  rw [findDedicatedOrDefault_filter a.litAttrs (fun _ => true) (·.containerTy) ty]

theorem C06_pat (a : MemberAttrs) (ty : TypePath) : (a.project ty).pat ty = a.pat ty := by
  simp only [MemberAttrs.pat, MemberAttrs.project]
  rw [findDedicatedOrDefault_filter a.patAttrs (fun _ => true) (·.containerTy) ty]

theorem C06_type_hint (a : MemberAttrs) (ty : TypePath) : (a.project ty).typeHint ty = a.typeHint ty := by
  simp only [MemberAttrs.typeHint, MemberAttrs.project]
  rw [findDedicatedOrDefault_filter a.typeHintAttrs (fun _ => true) (·.containerTy) ty]

theorem C06_parameterized_parent (a : MemberAttrs) (ty : TypePath) :
    (a.project ty).parameterizedParentAttr ty = a.parameterizedParentAttr ty := by
  simp only [MemberAttrs.parameterizedParentAttr, MemberAttrs.project]
  rw [findDedicatedOrDefault_filter a.parentAttrs (·.childFields.isSome) (·.containerTy) ty]

theorem any_filter_and {α} (xs : List α) (p q : α → Bool) : (xs.filter p).any q = xs.any (fun x => p x && q x) := by
  induction xs with
  | nil => rfl
  | cons x xs ih =>
    simp only [List.filter_cons, List.any_cons]
    cases hp : p x <;> simp [ih]

theorem C06_has_parent (a : MemberAttrs) (ty : TypePath) : (a.project ty).hasParentAttr ty = a.hasParentAttr ty := by
  simp only [MemberAttrs.hasParentAttr, MemberAttrs.project, any_filter_and]
  congr 1
  funext x
  unfold relevantTo
  cases x.containerTy.isNone <;> cases isSomeEq x.containerTy ty <;> rfl

theorem C06_has_parameterless_parent (a : MemberAttrs) (ty : TypePath) :
    (a.project ty).hasParameterlessParentAttr ty = a.hasParameterlessParentAttr ty := by
  simp only [MemberAttrs.hasParameterlessParentAttr, MemberAttrs.project, any_filter_and]
  congr 1
  funext x
  unfold relevantTo
  cases x.childFields.isNone <;> cases x.containerTy.isNone <;> cases isSomeEq x.containerTy ty <;> rfl

theorem filter_filter_swap {α} (xs : List α) (p q : α → Bool) : (xs.filter p).filter q = (xs.filter q).filter p := by
  simp only [List.filter_filter]
  congr 1
  funext x
  exact Bool.and_comm _ _

theorem C06_field_attr (a : MemberAttrs) (ty : TypePath) (k : Kind) (f : Bool) :
    (a.project ty).fieldAttr k f ty = a.fieldAttr k f ty := by
  simp only [MemberAttrs.fieldAttr, MemberAttrs.iterForKind, MemberAttrs.project]
  rw [filter_filter_swap]
  rw [findDedicatedOrDefault_filter (a.attrs.filter fun x => x.fallible == f && x.appl.get k) (fun _ => true) (·.attr.containerTy) ty]

/-- C06-1 (member instructions): the instruction that takes effect for counterpart `ty` is the same before and after
    removing everything dedicated to the other counterparts — all 12 conversion kinds -/
theorem C06_applicable_attr (a : MemberAttrs) (ty : TypePath) (k : Kind) (f : Bool) :
    (a.project ty).applicableAttr k f ty = a.applicableAttr k f ty := by
  simp only [MemberAttrs.applicableAttr, MemberAttrs.fieldAttrCore, C06_ghost, C06_field_attr]

theorem C06_applicable_field_attr (a : MemberAttrs) (ty : TypePath) (k : Kind) (f : Bool) :
    (a.project ty).applicableFieldAttr k f ty = a.applicableFieldAttr k f ty := by
  simp only [MemberAttrs.applicableFieldAttr, C06_field_attr]

/-- C06-1 (type-level dedicated instructions) -/
theorem C06_ghosts_attr (a : DataTypeAttrs) (ty : TypePath) (k : Kind) : (a.project ty).ghostsAttr ty k = a.ghostsAttr ty k := by
  simp only [DataTypeAttrs.ghostsAttr, DataTypeAttrs.project]
  rw [findDedicatedOrDefault_filter a.ghostsAttrs (·.appl.get k) (·.attr.containerTy) ty]

theorem C06_where_attr (a : DataTypeAttrs) (ty : TypePath) : (a.project ty).whereAttr ty = a.whereAttr ty := by
  simp only [DataTypeAttrs.whereAttr, DataTypeAttrs.project]
  rw [findDedicatedOrDefault_filter a.whereAttrs (fun _ => true) (·.containerTy) ty]

theorem C06_child_parents_attr (a : DataTypeAttrs) (ty : TypePath) : (a.project ty).childParentsAttr ty = a.childParentsAttr ty := by
  simp only [DataTypeAttrs.childParentsAttr, DataTypeAttrs.project]
  rw [findDedicatedOrDefault_filter a.childParentsAttrs (fun _ => true) (·.containerTy) ty]

/-- C06: the enum arms / bindings taken from `#[ghosts(..)]` are those of the instruction selected for this counterpart
    and kind (since the `fix:` commit; the raw iteration used before leaked arms dedicated to A into impls for B) -/
theorem C06_enum_ghost_arms_selected (input : Enum) (ctx ctx' : ImplContext)
    (h : input.attrs.ghostsAttr ctx.ty ctx.kind = input.attrs.ghostsAttr ctx'.ty ctx'.kind) :
    (match input.attrs.ghostsAttr ctx.ty ctx.kind with | some ga => ga.ghostData | none => []).length =
    (match input.attrs.ghostsAttr ctx'.ty ctx'.kind with | some ga => ga.ghostData | none => []).length := by
  rw [h]

/-- the header's where-clause is the one dedicated to (or defaulting for) this counterpart -/
theorem C06_where_clause_header (input : DataType) (ctx : ImplContext) :
    (getQuoteTraitParams input ctx).whereClause =
      match input.attrs.whereAttr ctx.ty with
      | some w => [Tok.ident "where"] ++ w.whereClause
      | none => [] := by
  rfl

end O2o

namespace O2o

/-- C06-2 (one struct line): the line generated for counterpart `ty` is the same whether or not the member carries
    instructions dedicated to other counterparts — every kind, every hint, with or without a nested parent field -/
theorem C06_line_projection (f : Field) (ctx : ImplContext) (hint : TypeHint) (idx : Nat) (pc : Option ParentChildField) :
    renderStructLine { f with attrs := f.attrs.project ctx.ty } ctx hint idx pc = renderStructLine f ctx hint idx pc := by
  unfold renderStructLine
  simp only [C06_applicable_attr, C06_child, C06_has_parent]

/-- C06-2 (enum arm selection): the variant-level lookups used by `render_enum_line` are projection-invariant -/
theorem C06_variant_lookups (v : Variant) (ty : TypePath) (k : Kind) (fl : Bool) :
    (v.attrs.project ty).applicableAttr k fl ty = v.attrs.applicableAttr k fl ty ∧
    (v.attrs.project ty).lit ty = v.attrs.lit ty ∧ (v.attrs.project ty).pat ty = v.attrs.pat ty ∧
    (v.attrs.project ty).typeHint ty = v.attrs.typeHint ty :=
  ⟨C06_applicable_attr _ _ _ _, C06_lit _ _, C06_pat _ _, C06_type_hint _ _⟩

end O2o

namespace O2o

/-- whether a member takes part in a conversion does not depend on instructions dedicated to other counterparts -/
theorem C06_field_skipped (f : Field) (ctx : ImplContext) :
    fieldSkipped ctx { f with attrs := f.attrs.project ctx.ty } = fieldSkipped ctx f := by
  unfold fieldSkipped ghostNoDefault
  simp only [C06_ghost, C06_has_parent]

/-- C06-2 (whole flat body, any number of members): the member lines generated for counterpart `ty` are the same
    whether or not the members carry instructions dedicated to other counterparts -/
theorem C06_flat_body_projection (ctx : ImplContext) (hint : TypeHint) :
    ∀ (fs : List Field) (idx : Nat),
      flatLines ctx hint (fs.map fun f => { f with attrs := f.attrs.project ctx.ty }) idx = flatLines ctx hint fs idx
  | [], _ => rfl
  | f :: fs, idx => by
    simp only [List.map_cons, flatLines, C06_field_skipped, C06_line_projection,
      C06_flat_body_projection ctx hint fs idx, C06_flat_body_projection ctx hint fs (idx + 1)]

/-- C06-2 (which variants contribute an arm) -/
theorem C06_variant_contributes (v : Variant) (ctx : ImplContext) :
    variantContributes ctx { v with attrs := v.attrs.project ctx.ty } = variantContributes ctx v := by
  unfold variantContributes ghostNoDefault
  simp only [C06_ghost]

end O2o
