/-
C14 — repeat / skip_repeat / stop_repeat equal writing the instructions out.
-/
import O2oModel.Expand
namespace O2o

/-- what writing a repeat out means for one member: append the instructions of the selected categories -/
def writeOutOne (self src : MemberAttrs) (rf : List Bool) : MemberAttrs :=
  { self with
    attrs := self.attrs ++ (if rf.getD 0 false then src.attrs else [])
    childAttrs := self.childAttrs ++ (if rf.getD 1 false then src.childAttrs else [])
    parentAttrs := self.parentAttrs ++ (if rf.getD 2 false then src.parentAttrs else [])
    ghostAttrs := self.ghostAttrs ++ (if rf.getD 3 false then src.ghostAttrs else [])
    typeHintAttrs := self.typeHintAttrs ++ (if rf.getD 4 false then src.typeHintAttrs else []) }

/-- C14 (one member): merging the carried `repeat` member into a later member is exactly writing the selected
    categories out after the member's own instructions; `skip_repeat` members are left alone -/
theorem C14_merge (self src : MemberAttrs) (r : MemberRepeatAttr) (h : src.repeat_ = some r) :
    self.merge src = if self.skipRepeat then self else writeOutOne self src r.repeatFor := by
  unfold MemberAttrs.merge writeOutOne
  cases hs : self.skipRepeat
  · simp only [Bool.false_eq_true, if_false, h]
    congr 1 <;> (split <;> simp)
  · simp

theorem C14_merge_no_repeat (self src : MemberAttrs) (h : src.repeat_ = none) : self.merge src = self := by
  unfold MemberAttrs.merge
  cases self.skipRepeat <;> simp [h]

/-- declarative reading of the threading for one struct / one variant payload: walk the members with the currently
    active repeat source (if any) -/
def writeOutFields : List Field → Option MemberAttrs → List Field
  | [], _ => []
  | f :: rest, active =>
    let active := if f.attrs.stopRepeat then none else active
    match f.attrs.repeat_ with
    | some _ => f :: writeOutFields rest (some f.attrs)
    | none =>
      match active with
      | some src => { f with attrs := f.attrs.merge src } :: writeOutFields rest active
      | none => f :: writeOutFields rest none

/-- the context a list of already-parsed fields leaves behind, and the list itself, as a pure function (the parsing
    of each member's own instructions is independent of the threading) -/
def threadFields : List Field → Context → Option (List Field × Context)
  | [], ctx => some ([], ctx)
  | field :: rest, ctx =>
    let ctx := if field.attrs.stopRepeat then { ctx with fieldAttrsToRepeat := none } else ctx
    match field.attrs.repeat_ with
    | some r =>
      if ctx.fieldAttrsToRepeat.isSome && !field.attrs.stopRepeat then none
      else (threadFields rest { ctx with fieldAttrsToRepeat := some (field.attrs, r.permeate) }).map fun (fs, c) => (field :: fs, c)
    | none =>
      match ctx.fieldAttrsToRepeat with
      | some (toRepeat, _) => (threadFields rest ctx).map fun (fs, c) => ({ field with attrs := field.attrs.merge toRepeat } :: fs, c)
      | none => (threadFields rest ctx).map fun (fs, c) => (field :: fs, c)

/-- C14-1 (fields): whenever the threading succeeds (no unterminated second `repeat`), its result is the written-out
    form — for every member sequence, every placement of repeat / skip_repeat / stop_repeat, including stop+repeat on
    one member and several consecutive blocks -/
theorem C14_fields (fs : List Field) (ctx : Context) (out : List Field) (ctx' : Context)
    (h : threadFields fs ctx = some (out, ctx')) :
    out = writeOutFields fs (ctx.fieldAttrsToRepeat.map (·.1)) := by
  induction fs generalizing ctx out ctx' with
  | nil => simp [threadFields] at h; simp [writeOutFields, h.1]
  | cons f rest ih =>
    unfold threadFields at h
    unfold writeOutFields
    cases hstop : f.attrs.stopRepeat <;> simp only [hstop, Bool.false_eq_true, if_false, if_true] at h ⊢
    all_goals
      cases hr : f.attrs.repeat_ with
      | some r =>
        simp only [hr] at h ⊢
        split at h
        · simp at h
        · simp only [Option.map_eq_some_iff] at h
          obtain ⟨⟨fs', c'⟩, hrec, heq⟩ := h
          simp only [Prod.mk.injEq] at heq
          rw [← heq.1]
          have := ih _ _ _ hrec
          simp only [Option.map_some] at this
          rw [this]
      | none =>
        simp only [hr] at h ⊢
        first
        | (cases hc : ctx.fieldAttrsToRepeat with
           | none =>
             simp only [hc, Option.map_none] at h ⊢
             simp only [Option.map_eq_some_iff] at h
             obtain ⟨⟨fs', c'⟩, hrec, heq⟩ := h
             simp only [Prod.mk.injEq] at heq
             rw [← heq.1]
             have := ih _ _ _ hrec
             simp only [hc, Option.map_none] at this
             rw [this]
           | some p =>
             obtain ⟨src, perm⟩ := p
             simp only [hc, Option.map_some] at h ⊢
             simp only [Option.map_eq_some_iff] at h
             obtain ⟨⟨fs', c'⟩, hrec, heq⟩ := h
             simp only [Prod.mk.injEq] at heq
             rw [← heq.1]
             have := ih _ _ _ hrec
             simp only [hc, Option.map_some] at this
             rw [this])
        | (simp only [Option.map_eq_some_iff] at h
           obtain ⟨⟨fs', c'⟩, hrec, heq⟩ := h
           simp only [Prod.mk.injEq] at heq
           rw [← heq.1]
           have := ih _ _ _ hrec
           simp only [Option.map_none] at this
           rw [this])

/-- trait-level repeat: the carried parameters are copied category by category (vars, update, quick return, default
    case), an instruction marked `skip_repeat` is left alone, and a parameter that would be overridden is an error -/
theorem C14_trait_merge_skip (self other : TraitAttrCore) (h : self.skipRepeat = true) : self.merge other = .ok self := by
  simp [TraitAttrCore.merge, h]

theorem C14_trait_merge_copy (self other : TraitAttrCore) (h : self.skipRepeat = false)
    (hr : other.repeat_ = some [true, true, true, true])
    (h0 : self.initData = none) (h1 : self.update = none) (h2 : self.quickReturn = none) (h3 : self.defaultCase = none) :
    self.merge other = .ok { self with initData := other.initData, update := other.update, quickReturn := other.quickReturn, defaultCase := other.defaultCase } := by
  simp [TraitAttrCore.merge, h, hr, h0, h1, h2, h3]

theorem C14_trait_merge_conflict (self other : TraitAttrCore) (h : self.skipRepeat = false) (r : List Bool)
    (hr : other.repeat_ = some r) (hv : r.getD 0 false = true) (h0 : self.initData.isSome = true) :
    self.merge other = .error (.o2o "Vars will be overriden. Did you forget to use 'skip_repeat'?") := by
  unfold TraitAttrCore.merge
  simp only [h, Bool.false_eq_true, if_false, hr]
  have : (r.getD 0 false && self.initData.isSome) = true := by rw [hv, h0]; rfl
  simp only [this, if_true]

end O2o

namespace O2o

/-- parsing of each member's own instructions, without any threading -/
def parseFields (b : Back) (bark : Bool) : List RawField → Nat → Except PErr (List Field)
  | [], _ => .ok []
  | n :: rest, i =>
    match Field.fromSyn b i n bark with
    | .error e => .error e
    | .ok f =>
      match parseFields b bark rest (i + 1) with
      | .error e => .error e
      | .ok fs => .ok (f :: fs)

/-- C14 (tie to `Field::multiple_from_syn`): when every member's own instructions parse, the code's loop is exactly
    "parse each member, then thread the repeat context over the parsed members" — so `C14_fields` describes what
    `multiple_from_syn` returns; an unterminated second `repeat` is the one diagnostic the threading can raise -/
theorem C14_multiple_from_syn (b : Back) (bark : Bool) (nodes : List RawField) (i : Nat) (ctx : Context) (acc fs : List Field)
    (h : parseFields b bark nodes i = .ok fs) :
    Field.multipleFromSyn b bark nodes i ctx acc =
      match threadFields fs ctx with
      | some (out, c) => .ok (acc.reverse ++ out, c)
      | none => .error (.o2o repeatNotTerminated) := by
  induction nodes generalizing i ctx acc fs with
  | nil =>
    simp only [parseFields, Except.ok.injEq] at h
    subst h
    simp [Field.multipleFromSyn, threadFields]
  | cons n rest ih =>
    unfold parseFields at h
    cases hf : Field.fromSyn b i n bark with
    | error e => simp [hf] at h
    | ok f =>
      simp only [hf] at h
      cases hrest : parseFields b bark rest (i + 1) with
      | error e => simp [hrest] at h
      | ok fs' =>
        simp only [hrest, Except.ok.injEq] at h
        subst h
        unfold Field.multipleFromSyn
        simp only [hf, bind, Except.bind]
        unfold threadFields
        cases hstop : f.attrs.stopRepeat <;> simp only [hstop, Bool.false_eq_true, if_false, if_true]
        all_goals
          cases hr : f.attrs.repeat_ with
          | some r =>
            simp only
            split
            · rfl
            · rw [ih _ _ _ _ hrest]
              cases threadFields fs' _ with
              | none => rfl
              | some p => obtain ⟨o, c⟩ := p; simp [List.reverse_cons, List.append_assoc]
          | none =>
            simp only
            first
            | (cases hc : ctx.fieldAttrsToRepeat with
               | none =>
                 simp only
                 rw [ih _ _ _ _ hrest]
                 cases threadFields fs' _ with
                 | none => rfl
                 | some p => obtain ⟨o, c⟩ := p; simp [List.reverse_cons, List.append_assoc]
               | some p =>
                 obtain ⟨src, perm⟩ := p
                 simp only
                 rw [ih _ _ _ _ hrest]
                 cases threadFields fs' _ with
                 | none => rfl
                 | some p => obtain ⟨o, c⟩ := p; simp [List.reverse_cons, List.append_assoc])
            | (rw [ih _ _ _ _ hrest]
               cases threadFields fs' _ with
               | none => rfl
               | some p => obtain ⟨o, c⟩ := p; simp [List.reverse_cons, List.append_assoc])

/-- C14 (*table*, regenerated): the categories a member-level `repeat(..)` can name, and the parameter kinds a trait-level
    `repeat(..)` can name, are the documented ones, in the order the `repeat_for` vectors are indexed -/
theorem C14_repeat_categories :
    (Gen.memberRepeatTypes == ["map", "child", "parent", "ghost", "type_hint"]
     && Gen.traitRepeatTypes == ["vars", "update", "quick_return", "default_case"]) = true := by decide

/-- the repeat source still active after a list of payload members (with its `permeate` flag) -/
def leftover : List Field → Option (MemberAttrs × Bool) → Option (MemberAttrs × Bool)
  | [], a => a
  | f :: rest, a =>
    let a := if f.attrs.stopRepeat then none else a
    match f.attrs.repeat_ with
    | some r => leftover rest (some (f.attrs, r.permeate))
    | none => leftover rest a

theorem threadFields_ctx (fs : List Field) (ctx : Context) (out : List Field) (ctx' : Context)
    (h : threadFields fs ctx = some (out, ctx')) :
    ctx' = { ctx with fieldAttrsToRepeat := leftover fs ctx.fieldAttrsToRepeat } := by
  induction fs generalizing ctx out ctx' with
  | nil => simp [threadFields] at h; simp [leftover, h.2]
  | cons f rest ih =>
    unfold threadFields at h
    unfold leftover
    cases hstop : f.attrs.stopRepeat <;> simp only [hstop, Bool.false_eq_true, if_false, if_true] at h ⊢
    all_goals
      cases hr : f.attrs.repeat_ with
      | some r =>
        simp only [hr] at h ⊢
        split at h
        · simp at h
        · simp only [Option.map_eq_some_iff] at h
          obtain ⟨⟨fs', c'⟩, hrec, heq⟩ := h
          simp only [Prod.mk.injEq] at heq
          rw [← heq.2]
          exact ih _ _ _ hrec
      | none =>
        simp only [hr] at h ⊢
        first
        | (cases hc : ctx.fieldAttrsToRepeat with
           | none =>
             simp only [hc] at h ⊢
             simp only [Option.map_eq_some_iff] at h
             obtain ⟨⟨fs', c'⟩, hrec, heq⟩ := h
             simp only [Prod.mk.injEq] at heq
             rw [← heq.2]
             have := ih _ _ _ hrec
             simpa [hc] using this
           | some p =>
             obtain ⟨src, perm⟩ := p
             simp only [hc] at h ⊢
             simp only [Option.map_eq_some_iff] at h
             obtain ⟨⟨fs', c'⟩, hrec, heq⟩ := h
             simp only [Prod.mk.injEq] at heq
             rw [← heq.2]
             have := ih _ _ _ hrec
             simpa [hc] using this)
        | (simp only [Option.map_eq_some_iff] at h
           obtain ⟨⟨fs', c'⟩, hrec, heq⟩ := h
           simp only [Prod.mk.injEq] at heq
           rw [← heq.2]
           exact ih _ _ _ hrec)

/-- what a variant's end does to the active source: a plain repeat ends with its variant, a permeating one goes on -/
def endOfVariant (a : Option (MemberAttrs × Bool)) : Option (MemberAttrs × Bool) :=
  match a with
  | some (_, permeating) => if !permeating then none else a
  | none => none

/-- the context handling of `Variant::from_syn`, on parsed payloads -/
def threadPayloads : List (List Field) → Context → Option (List (List Field) × Context)
  | [], ctx => some ([], ctx)
  | fs :: rest, ctx =>
    match threadFields fs ctx with
    | none => none
    | some (out, ctx1) =>
      let ctx2 := match ctx1.fieldAttrsToRepeat with
        | some (_, permeating) => if !permeating then { ctx1 with fieldAttrsToRepeat := none } else ctx1
        | none => ctx1
      (threadPayloads rest ctx2).map fun (os, c) => (out :: os, c)

/-- declarative reading over a whole enum -/
def writeOutPayloads : List (List Field) → Option (MemberAttrs × Bool) → List (List Field)
  | [], _ => []
  | fs :: rest, a => writeOutFields fs (a.map (·.1)) :: writeOutPayloads rest (endOfVariant (leftover fs a))

/-- C14 (payload members of an enum's variants, plain and permeating repeat): whenever the threading over the variants
    succeeds, every variant's payload is the written-out form under the source that is active when the variant begins — a
    plain repeat ends with its variant, a `repeat(permeate())` one is carried on until `stop_repeat`; any number of
    variants, any placement of the instructions -/
theorem C14_enum_payloads (vs : List (List Field)) (ctx : Context) (outs : List (List Field)) (ctx' : Context)
    (h : threadPayloads vs ctx = some (outs, ctx')) :
    outs = writeOutPayloads vs ctx.fieldAttrsToRepeat := by
  induction vs generalizing ctx outs ctx' with
  | nil => simp [threadPayloads] at h; simp [writeOutPayloads, h.1]
  | cons fs rest ih =>
    unfold threadPayloads at h
    unfold writeOutPayloads
    cases ht : threadFields fs ctx with
    | none => simp [ht] at h
    | some p =>
      obtain ⟨out, ctx1⟩ := p
      simp only [ht, Option.map_eq_some_iff] at h
      obtain ⟨⟨os, c⟩, hrec, heq⟩ := h
      simp only [Prod.mk.injEq] at heq
      rw [← heq.1]
      have h1 := C14_fields fs ctx out ctx1 ht
      have h2 := threadFields_ctx fs ctx out ctx1 ht
      have h3 := ih _ _ _ hrec
      rw [h1, h3]
      congr 1
      rw [h2]
      simp only [endOfVariant]
      cases hl : leftover fs ctx.fieldAttrsToRepeat with
      | none => rfl
      | some q =>
        obtain ⟨src, perm⟩ := q
        cases perm <;> rfl

/-- tie to `Variant::from_syn`: when the payload members' own instructions and the variant's own instructions parse, the
    variant's payload is the threaded one and the context it leaves is the one `threadPayloads` passes on -/
theorem C14_variant_from_syn (b : Back) (bark : Bool) (ctx : Context) (v : RawVariant) (fs : List Field) (attrs : MemberAttrs)
    (hf : parseFields b bark v.fields.fields 0 = .ok fs) (ha : getMemberAttrs b v.attrs none bark = .ok attrs) :
    Variant.fromSyn b ctx v bark =
      match threadFields fs ctx with
      | some (out, c) =>
        .ok ({ attrs := attrs, ident := v.name, fields := out, namedFields := v.fields.kind == .named, unit := v.fields.kind == .unit },
             match c.fieldAttrsToRepeat with
             | some (_, permeating) => if !permeating then { c with fieldAttrsToRepeat := none } else c
             | none => c)
      | none => .error (.o2o repeatNotTerminated) := by
  unfold Variant.fromSyn
  rw [C14_multiple_from_syn b bark v.fields.fields 0 ctx [] fs hf]
  cases threadFields fs ctx with
  | none => rfl
  | some p =>
    obtain ⟨out, c⟩ := p
    simp [bind, Except.bind, ha, pure, Except.pure]
    cases c.fieldAttrsToRepeat with
    | none => rfl
    | some q => obtain ⟨x, y⟩ := q; cases y <;> rfl

end O2o
