/-
C01 — struct conversions move every value to the field the instructions designate.
`Spec.line` describes a struct line by three orthogonal pieces (which slot, which source, which dialect) instead of
the 35-arm match of `render_struct_line`; the theorems show the expander's line is the specified one, cell by cell.
-/
import O2oModel.Lemmas.Blocks
import O2oModel.Lemmas.Sem
namespace O2o

namespace Spec

/-- the member of the counterpart a field corresponds to by default: same name, or same position under `as ()` -/
def counterpartMember (f : Field) (hint : TypeHint) : Member :=
  match f.member, hint with
  | .named _, .tuple => .unnamed f.idx
  | m, _ => m

/-- path of that member inside the counterpart (child path first) -/
def counterpartPath (f : Field) (ty : TypePath) (m : Member) : TS :=
  match f.attrs.child ty with
  | some ca => memberPathTS ca.childPath.path ++ [dot] ++ m.toTS
  | none => m.toTS

/-- default line of a plain struct (not a variant payload): slot / source / dialect -/
def defaultLine (f : Field) (ctx : ImplContext) (hint : TypeHint) : TS :=
  let obj := srcIdent ctx.kind ++ [dot]
  match ctx.kind.cls with
  | .from_ =>
    -- source: the counterpart's member; slot: own member (named → `name:`, positional otherwise)
    let src := obj ++ counterpartPath f ctx.ty (counterpartMember f hint)
    (match f.member with | .named n => [i n, colon] | .unnamed _ => []) ++ src ++ [comma]
  | .into =>
    let src := obj ++ f.member.toTS
    (match f.member, hint with | .named n, .tuple => [] | .named n, _ => [i n, colon] | .unnamed _, _ => []) ++ src ++ [comma]
  | .existing =>
    let src := obj ++ f.member.toTS
    let slot := match f.member, hint with
      | .named _, .tuple => (Member.unnamed f.idx).toTS
      | .named _, _ => counterpartPath f ctx.ty f.member
      | .unnamed _, _ => (Member.unnamed f.idx).toTS
    [i "other", dot] ++ slot ++ [eq] ++ src ++ [semi]

end Spec

/-- the cells in which a member without instructions has a defined default line (a tuple member under `as {}` has none:
    validation demands a name for it) -/
def defaultCell (f : Field) (k : KC) (hint : TypeHint) : Bool :=
  match f.member, k, hint with
  | .unnamed _, _, .struct => false
  | _, .into, .unit => false
  | _, .existing, .unit => false
  | .named _, .from_, _ => true
  | .unnamed _, .from_, _ => true
  | _, _, _ => true

/-- C01-1 (default mapping): a member with no applicable instruction, outside a variant, is mapped to the same-named
    (or same-position) member of the counterpart, in every conversion kind and under every type hint -/
theorem C01_default_line (f : Field) (ctx : ImplContext) (hint : TypeHint) (idx : Nat)
    (ha : f.attrs.applicableAttr ctx.kind ctx.fallible ctx.ty = none)
    (hpar : f.attrs.hasParentAttr ctx.ty = false)
    (hv : ctx.isVariant = false) (hpost : ctx.hasPostInit = false)
    (hidx : ∀ n, f.member = .unnamed n → n = f.idx)
    (hcell : defaultCell f ctx.kind.cls hint = true) :
    renderStructLine f ctx hint idx none = .ok (Spec.defaultLine f ctx hint) := by
  unfold renderStructLine Spec.defaultLine Spec.counterpartPath Spec.counterpartMember
  cases hm : f.member with
  | named n =>
    cases hk : ctx.kind.cls <;> cases hint <;>
      simp_all [defaultCell, pure, Except.pure, Member.toTS, List.append_assoc] <;>
      (cases f.attrs.child ctx.ty <;> simp [List.append_assoc])
  | unnamed n =>
    have hn := hidx n hm
    subst hn
    cases hk : ctx.kind.cls <;> cases hint <;>
      simp_all [defaultCell, pure, Except.pure, Member.toTS, List.append_assoc] <;>
      (try (cases f.attrs.child ctx.ty <;> simp [List.append_assoc]))

/-- C01 (rename): `#[map(other_name)]` on a named member of a named counterpart — From reads `value.other_name`,
    Into writes `other_name: self.name` -/
theorem C01_rename_from (f : Field) (ctx : ImplContext) (n x : String) (idx : Nat) (c : MemberAttrCore)
    (hm : f.member = .named n) (hk : ctx.kind.cls = .from_)
    (ha : f.attrs.applicableAttr ctx.kind ctx.fallible ctx.ty = some (.field c))
    (hc : c.member = some (.named x)) (hact : c.action = none)
    (hch : f.attrs.child ctx.ty = none) (hv : ctx.isVariant = false) :
    renderStructLine f ctx .unspecified idx none =
      .ok ([Tok.ident n, .punct ':' false] ++ srcIdent ctx.kind ++ [Tok.punct '.' false, .ident x, .punct ',' false]) := by
  unfold renderStructLine
  simp [hm, hk, ha, hc, hact, hch, hv, ApplicableAttr.getStuff, getStuffInner, bind, Except.bind, pure, Except.pure, Member.toTS,
    i, dot, colon, comma, List.append_assoc]

theorem C01_rename_into (f : Field) (ctx : ImplContext) (n x : String) (idx : Nat) (c : MemberAttrCore)
    (hm : f.member = .named n) (hk : ctx.kind.cls = .into)
    (ha : f.attrs.applicableAttr ctx.kind ctx.fallible ctx.ty = some (.field c))
    (hc : c.member = some (.named x)) (hact : c.action = none)
    (hv : ctx.isVariant = false) (hpost : ctx.hasPostInit = false) :
    renderStructLine f ctx .unspecified idx none =
      .ok ([Tok.ident x, .punct ':' false] ++ srcIdent ctx.kind ++ [Tok.punct '.' false, .ident n, .punct ',' false]) := by
  unfold renderStructLine
  simp [hm, hk, ha, hc, hact, hv, hpost, ApplicableAttr.getFieldNameOr, ApplicableAttr.getActionOr, bind, Except.bind, pure, Except.pure,
    Member.toTS, i, dot, colon, comma, List.append_assoc]

/-- C01 (inline expression): the member's value is the user's expression with `~` ↦ the member's path on the source
    object and `@` ↦ the source object -/
theorem C01_action_into (f : Field) (ctx : ImplContext) (n : String) (idx : Nat) (c : MemberAttrCore) (act : TS)
    (hm : f.member = .named n) (hk : ctx.kind.cls = .into)
    (ha : f.attrs.applicableAttr ctx.kind ctx.fallible ctx.ty = some (.field c))
    (hc : c.member = none) (hact : c.action = some act)
    (hv : ctx.isVariant = false) (hpost : ctx.hasPostInit = false) :
    renderStructLine f ctx .unspecified idx none =
      .ok ([Tok.ident n, .punct ':' false] ++ quoteAction act (some [Tok.ident n]) ctx ++ [Tok.punct ',' false]) := by
  unfold renderStructLine
  simp [hm, hk, ha, hc, hact, hv, hpost, ApplicableAttr.getFieldNameOr, ApplicableAttr.getActionOr, bind, Except.bind, pure, Except.pure,
    Member.toTS, i, colon, comma, List.append_assoc]

/-- C01 (ghost default): on the From side a `#[ghost({expr})]` member takes the declared default -/
theorem C01_ghost_default_from (f : Field) (ctx : ImplContext) (n : String) (idx : Nat) (g : FieldGhostAttrCore) (act : TS)
    (hm : f.member = .named n) (hk : ctx.kind.cls = .from_)
    (ha : f.attrs.applicableAttr ctx.kind ctx.fallible ctx.ty = some (.ghost g)) (hact : g.action = some act) :
    renderStructLine f ctx .unspecified idx none =
      .ok ([Tok.ident n, .punct ':' false] ++ quoteAction act none ctx ++ [Tok.punct ',' false]) := by
  unfold renderStructLine
  simp [hm, hk, ha, hact, ApplicableAttr.getStuff, bind, Except.bind, pure, Except.pure, Member.toTS, i, colon, comma, List.append_assoc]

/-- C01-3 (`as_type`): `#[as_type(T)]` is exactly `from(~ as <field type>)` plus `into(~ as T)` (into_existing falls back to it) -/
theorem C01_as_type (fieldTy : TS) (a : AsAttr) :
    (addAsTypeAttrs fieldTy a).map (fun m => (m.attr.action, m.appl, m.fallible)) =
      [(some ([Tok.punct '~' false, .ident "as"] ++ fieldTy), [false, false, true, true, false, false], false),
       (some ([Tok.punct '~' false, .ident "as"] ++ a.tokens), [true, true, false, false, true, true], false)] := rfl

/-- C01-1 (whole body, any number of members): for a struct whose members are not flattened, the generated body is
    exactly one line per contributing member, in declaration order (`flatLines`: each line is `renderStructLine` of that
    member at its running position), followed by the struct-level ghost lines and `..update` — and nothing else, so no
    other field of the result is written. Skipped members (`fieldSkipped`) are ghosts and parents on the Into side and
    default-less ghosts on the From side. -/
theorem C01_flat_body (ctx : ImplContext) (named : Bool) (l : List (Nat × String × Field)) (fuel : Nat)
    (out : TS) (rest : List FieldContainer)
    (hf : l.length + 1 < fuel) (hc : ∀ t ∈ l, t.2.2.attrs.child ctx.ty = none)
    (h : structInitBlockInner fuel (flatContainers l) named ctx none = .ok (out, rest)) :
    ∃ ls g, flatLines ctx ctx.structAttr.typeHint (l.map (·.2.2)) 0 = .ok ls ∧ structGhostLines ctx none = .ok g ∧
      wrapInit ctx ctx.structAttr.typeHint named (ls ++ g ++ updateToks ctx) = .ok out ∧ rest = [] :=
  structInitBlockInner_flat ctx named l fuel out rest hf hc h

/-- the running position passed to a member's line counts only the contributing members before it -/
theorem C01_flatLines_cons_skipped (ctx : ImplContext) (hint : TypeHint) (f : Field) (fs : List Field) (idx : Nat)
    (h : fieldSkipped ctx f = true) : flatLines ctx hint (f :: fs) idx = flatLines ctx hint fs idx := by
  simp [flatLines, h]

theorem C01_flatLines_cons (ctx : ImplContext) (hint : TypeHint) (f : Field) (fs : List Field) (idx : Nat)
    (h : fieldSkipped ctx f = false) :
    flatLines ctx hint (f :: fs) idx = (do
      let l ← renderStructLine f ctx hint idx none
      let r ← flatLines ctx hint fs (idx + 1)
      return l ++ r) := by
  simp [flatLines, h]

/-- non-vacuity: the flat-body premises hold for a two-member struct -/
example : ∀ t ∈ ([(1, "a", (default : Field)), (2, "b", default)] : List (Nat × String × Field)),
    t.2.2.attrs.child (TypePath.ofTokens [Tok.ident "A"]) = none := by
  intro t ht
  simp at ht
  rcases ht with rfl | rfl <;> rfl

/-- C01 (ghost flavours, *table*, regenerated): `ghost_owned` / `ghosts_owned` apply to exactly the three owned
    conversion kinds, `ghost_ref` / `ghosts_ref` to exactly the three by-reference kinds, and `ghost` / `ghosts` to all
    six — at member level, variant level and type level. (The applicability vectors are read from the sources on every
    run; the model interprets them, so only this theorem notices a slip inside one of them.) -/
theorem C01_ghost_flavours :
    ([("ghost_owned", Gen.memberArms, false), ("ghost_ref", Gen.memberArms, true),
      ("ghosts_owned", Gen.memberArms, false), ("ghosts_ref", Gen.memberArms, true),
      ("ghosts_owned", Gen.typeArms, false), ("ghosts_ref", Gen.typeArms, true)].all (fun (name, arms, isRef) =>
        match findArm arms name true true with
        | some a => Kind.all.all (fun k => (applOf a.appl name).get k == (k.isRef == isRef))
        | none => false)
     && [("ghost", Gen.memberArms), ("ghosts", Gen.memberArms), ("ghosts", Gen.typeArms)].all (fun (name, arms) =>
        match findArm arms name true true with
        | some a => Kind.all.all (fun k => (applOf a.appl name).get k)
        | none => false)) = true := by decide

/-! ### values (record semantics of `O2oModel/Sem.lean`)

`fs` lists the members with, for each, its own name `n` and the counterpart member `x` the instructions designate
(`Simple`: no instruction — then `x = n` — or a rename without expression). The statements hold for every number of
members, every order, every mixture of renamed and unrenamed members, and every source record. -/

/-- C01 (values, From): the body emitted for the members builds the record that holds, at each member `n`, exactly the
    value found at the designated counterpart member `x` of the source — and nothing else (the result has one binding
    per member, in declaration order); it is undefined only if some designated member does not exist in the source -/
theorem C01_value_from (ctx : ImplContext) (fs : List (Field × String × String))
    (hk : ctx.kind.cls = .from_) (hv : ctx.isVariant = false) (hs : ∀ t ∈ fs, Simple ctx t.1 t.2.1 t.2.2) :
    ∃ body, flatLines ctx .unspecified (fs.map (·.1)) 0 = .ok body ∧
      ∀ src : Sem.Rec, Sem.evalInit "value" src body = fs.mapM (fun t => (src.get? t.2.2).map fun v => (t.2.1, v)) :=
  value_from ctx fs hk hv hs

/-- C01 (values, Into): the counterpart record gets, at each designated member `x`, the value of the member `n` -/
theorem C01_value_into (ctx : ImplContext) (fs : List (Field × String × String))
    (hk : ctx.kind.cls = .into) (hv : ctx.isVariant = false) (hpost : ctx.hasPostInit = false)
    (hs : ∀ t ∈ fs, Simple ctx t.1 t.2.1 t.2.2) :
    ∃ body, flatLines ctx .unspecified (fs.map (·.1)) 0 = .ok body ∧
      ∀ s : Sem.Rec, Sem.evalInit "self" s body = fs.mapM (fun t => (s.get? t.2.1).map fun v => (t.2.2, v)) :=
  value_into ctx fs hk hv hpost hs

/-- C01 (values, IntoExisting): running the emitted assignments against an existing counterpart record `other` leaves a
    record in which every designated member `x` holds the value of its member `n` (when no two members designate the
    same `x`), and **every other member of `other` keeps the value it had** — for every number of members -/
theorem C01_value_existing (ctx : ImplContext) (fs : List (Field × String × String))
    (hk : ctx.kind.cls = .existing) (hv : ctx.isVariant = false) (hs : ∀ t ∈ fs, Simple ctx t.1 t.2.1 t.2.2) :
    ∃ body, flatLines ctx .unspecified (fs.map (·.1)) 0 = .ok body ∧
      ∀ (s other : Sem.Rec), (∀ t ∈ fs, (s.get? t.2.1).isSome) →
        ∃ r, Sem.execBody "self" s body other = some r ∧
          (∀ k, k ∉ fs.map (·.2.2) → Sem.Rec.get? r k = Sem.Rec.get? other k) ∧
          ((fs.map (·.2.2)).Nodup → ∀ t ∈ fs, Sem.Rec.get? r t.2.2 = s.get? t.2.1) :=
  value_existing ctx fs hk hv hs

/-- C01 (values, round trip): when no two members designate the same counterpart member, converting into the
    counterpart and back gives every member its own value again — `from (into s) = s` on the mapped members, for
    every number of members, every renaming and every record `s` that has those members. (`ps` pairs each member `n`
    with its designated counterpart member `x`; the two `mapM`s are the meanings of the Into and From bodies given by
    `C01_value_into` / `C01_value_from`.) -/
theorem C01_value_roundtrip (ps : List (String × String)) (s : Sem.Rec) (hinj : (ps.map (·.2)).Nodup)
    (hdef : ∀ p ∈ ps, (s.get? p.1).isSome) :
    ∃ r, ps.mapM (fun p => (s.get? p.1).map fun v => (p.2, v)) = some r ∧
      ps.mapM (fun p => (Sem.Rec.get? r p.2).map fun v => (p.1, v)) = ps.mapM (fun p => (s.get? p.1).map fun v => (p.1, v)) :=
  roundtrip_pairs ps s hinj hdef

/-- non-vacuity: a member without any instruction is `Simple` in an owned From conversion, and the reading of a two-line
    body on a concrete record -/
example (ctx : ImplContext) (hk : ctx.kind = .fromOwned) :
    Simple ctx { attrs := {}, idx := 0, member := .named "a", memberStr := "a", ty := none } "a" "a" := by
  constructor
  · rfl
  · simp [MemberAttrs.child, findDedicatedOrDefault]
  · simp [fieldSkipped, hk, Kind.isFrom, ghostNoDefault, MemberAttrs.ghost, findDedicatedOrDefault]
  · left
    simp [MemberAttrs.applicableAttr, MemberAttrs.ghost, MemberAttrs.fieldAttrCore, MemberAttrs.fieldAttr, MemberAttrs.iterForKind, MemberAttrs.hasParentAttr,
      findDedicatedOrDefault, hk]

example : Sem.evalInit "value" [("x", 1), ("y", 2)] (tokLine "a" "value" "x" ++ tokLine "b" "value" "y") = some [("a", 1), ("b", 2)] := by
  decide

end O2o
