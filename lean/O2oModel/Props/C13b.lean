/-
C13, second part — the attribute loop of `get_data_type_attrs`: a whole `#[o2o(a(..), b(..), ..)]` attribute contributes
to the instruction list exactly what the separate bare attributes `#[a(..)] #[b(..)] ..` contribute, in the written
order and at the written place among the other attributes of the type.
-/
import O2oModel.Props.C13
namespace O2o

theorem typeInstrNames_not_doc_o2o : typeInstrNames.all (fun n => n != "doc" && n != "o2o") = true := by decide

/-- the bare attributes `#[e1] #[e2] ..` append their instructions one by one, in the written order, and leave the
    `allow_unknown` switch where it was -/
theorem C13_collect_bare (b : Back) (items : List (String × Option TS)) (acc : DTAcc) (h : ∀ e ∈ items, e.1 ∈ typeInstrNames) :
    collectDataTypeInstrs b (items.map bareAttr) acc =
      (match allResults (fun instr c => parseDataTypeInstruction b instr c false acc.bark) items with
       | .ok xs => .ok { acc with instrs := acc.instrs ++ xs }
       | .error e => .error e) := by
  induction items generalizing acc with
  | nil => simp [collectDataTypeInstrs, allResults]
  | cons e rest ih =>
    have hn := List.all_eq_true.mp typeInstrNames_not_doc_o2o e.1 (h e List.mem_cons_self)
    simp only [Bool.and_eq_true, bne_iff_ne, ne_eq] at hn
    obtain ⟨n, c⟩ := e
    simp only [List.map_cons]
    unfold collectDataTypeInstrs
    have hid : (bareAttr (n, c)).ident? = some n := rfl
    rw [hid]
    have htok : bareAttrTokens b (bareAttr (n, c)) = .ok (c.getD []) := by
      cases c <;> cases b <;> rfl
    split
    · rename_i heq; exact absurd (Option.some.inj heq) hn.1
    · rename_i heq; exact absurd (Option.some.inj heq) hn.2
    · rename_i instr _ _ heq
      cases Option.some.inj heq
      simp only [htok, bind, Except.bind, allResults, elemResult]
      cases hp : parseDataTypeInstruction b n (c.getD []) false acc.bark with
      | error err => rfl
      | ok i =>
        simp only []
        rw [ih _ (fun e' he' => h e' (List.mem_cons_of_mem _ he'))]
        simp only []
        cases allResults (fun instr c => parseDataTypeInstruction b instr c false acc.bark) rest with
        | error err => rfl
        | ok xs => simp
    · rename_i heq; cases heq

/-- a real type-level instruction never parses to the `allow_unknown` switch -/
theorem typeInstr_not_allowUnknown (b : Back) (name : String) (ts : TS) (i : DataTypeInstruction) (h : name ∈ typeInstrNames)
    (hp : parseDataTypeInstruction b name ts true true = .ok i) : i.isAllowUnknown = false := by
  unfold parseDataTypeInstruction at hp
  simp only [typeInstrNames, List.mem_filter] at h
  cases hf : findArm Gen.typeArms name true true with
  | none => simp [hf] at h
  | some arm =>
    simp only [hf] at h hp
    cases hkind : arm.kind <;> simp [hkind] at h
    all_goals
      simp only [hkind, bind, Except.bind, pure, Except.pure] at hp
      split at hp
      · cases hp
      · cases hp; rfl

theorem allResults_no_allowUnknown (b : Back) (items : List (String × Option TS)) (xs : List DataTypeInstruction)
    (h : ∀ e ∈ items, e.1 ∈ typeInstrNames)
    (hr : allResults (fun instr c => parseDataTypeInstruction b instr c true true) items = .ok xs) :
    xs.any DataTypeInstruction.isAllowUnknown = false := by
  induction items generalizing xs with
  | nil => simp [allResults] at hr; subst hr; rfl
  | cons e rest ih =>
    simp only [allResults, elemResult] at hr
    cases he : parseDataTypeInstruction b e.1 (e.2.getD []) true true with
    | error err => simp [he] at hr
    | ok x =>
      simp only [he] at hr
      cases hrest : allResults (fun instr c => parseDataTypeInstruction b instr c true true) rest with
      | error err => simp [hrest] at hr
      | ok ys =>
        simp only [hrest] at hr
        cases hr
        simp [List.any_cons, typeInstr_not_allowUnknown b e.1 _ x (h e List.mem_cons_self) he,
          ih ys (fun e' he' => h e' (List.mem_cons_of_mem _ he')) hrest]

/-- C13-3 (type level, in context): among any other attributes of the type, written before and after, a grouped
    `#[o2o(i1(..), i2(..), ..)]` attribute and the bare attributes `#[i1(..)] #[i2(..)] ..` written in its place leave the
    attribute loop in the same state — the same instruction list in the same order, the same `allow_unknown` switch —
    or stop it with the same error. Everything after the loop (repeat bookkeeping, validation, expansion) sees no
    difference. -/
theorem C13_grouping_in_context (b : Back) (pre post : List RawAttr) (items : List (String × Option TS)) (acc : DTAcc)
    (h : ∀ e ∈ items, e.1 ∈ typeInstrNames) :
    collectDataTypeInstrs b (pre ++ groupAttr items :: post) acc
      = collectDataTypeInstrs b (pre ++ (items.map bareAttr ++ post)) acc := by
  rw [collect_append, collect_append]
  cases collectDataTypeInstrs b pre acc with
  | error err => rfl
  | ok acc' =>
    simp only [Except.bind]
    have hk : ∀ e ∈ items, isKeyword b e.1 = false := by
      intro e he
      have := List.all_eq_true.mp (List.all_eq_true.mp typeInstrNames_not_keyword b (by cases b <;> simp)) e.1 (h e he)
      simpa using this
    rw [collect_group b items post acc' hk, collect_append, C13_collect_bare b items acc' h]
    have hc := allResults_congr (fun instr c => parseDataTypeInstruction b instr c false acc'.bark)
      (fun instr c => parseDataTypeInstruction b instr c true true) items
      (fun e he => C13_type_instr b e.1 _ acc'.bark (h e he))
    rw [hc]
    cases hr : allResults (fun instr c => parseDataTypeInstruction b instr c true true) items with
    | error err => rfl
    | ok xs =>
      simp only [Except.bind, allResults_no_allowUnknown b items xs h hr]
      rfl

/-! ### member level: the attribute loop of `get_member_attrs` -/

theorem collectM_append (b : Back) (bark : Bool) (xs ys : List RawAttr) (acc : List MemberInstruction) :
    collectMemberInstrs b bark (xs ++ ys) acc = (collectMemberInstrs b bark xs acc).bind (collectMemberInstrs b bark ys) := by
  induction xs generalizing acc with
  | nil => rfl
  | cons x rest ih =>
    simp only [List.cons_append]
    rw [collectMemberInstrs, collectMemberInstrs]
    split
    · exact ih acc
    · simp only [bind, Except.bind]
      split
      · rfl
      · split
        · rfl
        · exact ih _
    · simp only [bind, Except.bind]
      split
      · rfl
      · split
        · rfl
        · exact ih _
    · exact ih acc

theorem memberInstrNames_not_doc_o2o : memberInstrNames.all (fun n => n != "doc" && n != "o2o") = true := by decide

theorem collectM_bare (b : Back) (bark : Bool) (items : List (String × Option TS)) (acc : List MemberInstruction)
    (h : ∀ e ∈ items, e.1 ∈ memberInstrNames) :
    collectMemberInstrs b bark (items.map bareAttr) acc =
      (match allResults (fun instr c => parseMemberInstruction b instr c false bark) items with
       | .ok xs => .ok (acc ++ xs)
       | .error e => .error e) := by
  induction items generalizing acc with
  | nil => simp [collectMemberInstrs, allResults]
  | cons e rest ih =>
    have hn := List.all_eq_true.mp memberInstrNames_not_doc_o2o e.1 (h e List.mem_cons_self)
    simp only [Bool.and_eq_true, bne_iff_ne, ne_eq] at hn
    obtain ⟨n, c⟩ := e
    simp only [List.map_cons]
    rw [collectMemberInstrs]
    have hid : (bareAttr (n, c)).ident? = some n := rfl
    rw [hid]
    have htok : bareAttrTokens b (bareAttr (n, c)) = .ok (c.getD []) := by
      cases c <;> cases b <;> rfl
    split
    · rename_i heq; exact absurd (Option.some.inj heq) hn.1
    · rename_i heq; exact absurd (Option.some.inj heq) hn.2
    · rename_i instr _ _ heq
      cases Option.some.inj heq
      simp only [htok, bind, Except.bind, allResults, elemResult]
      cases hp : parseMemberInstruction b n (c.getD []) false bark with
      | error err => rfl
      | ok i =>
        simp only []
        rw [ih _ (fun e' he' => h e' (List.mem_cons_of_mem _ he'))]
        cases allResults (fun instr c => parseMemberInstruction b instr c false bark) rest with
        | error err => rfl
        | ok xs => simp
    · rename_i heq; cases heq

theorem collectM_group (b : Back) (bark : Bool) (items : List (String × Option TS)) (rest : List RawAttr)
    (acc : List MemberInstruction) (hk : ∀ e ∈ items, isKeyword b e.1 = false) :
    collectMemberInstrs b bark (groupAttr items :: rest) acc =
      (match allResults (fun instr c => parseMemberInstruction b instr c true true) items with
       | .ok xs => collectMemberInstrs b bark rest (acc ++ xs)
       | .error e => .error e) := by
  rw [collectMemberInstrs]
  have hid : (groupAttr items).ident? = some "o2o" := rfl
  rw [hid]
  simp only [bind, Except.bind]
  have htok : o2oArgTokens (groupAttr items) = .ok (o2oTokens items) := rfl
  rw [htok]
  simp only []
  rw [parse2_o2o_list b _ items hk]
  cases allResults (fun instr c => parseMemberInstruction b instr c true true) items with
  | error err => rfl
  | ok xs => rfl

/-- C13-3 (member level, in context): on a member (or a variant), among any other attributes before and after, the
    grouped and the bare spelling leave the attribute loop with the same instruction list, or the same error -/
theorem C13_grouping_in_context_member (b : Back) (bark : Bool) (pre post : List RawAttr) (items : List (String × Option TS))
    (acc : List MemberInstruction) (h : ∀ e ∈ items, e.1 ∈ memberInstrNames) :
    collectMemberInstrs b bark (pre ++ groupAttr items :: post) acc
      = collectMemberInstrs b bark (pre ++ (items.map bareAttr ++ post)) acc := by
  rw [collectM_append, collectM_append]
  cases collectMemberInstrs b bark pre acc with
  | error err => rfl
  | ok acc' =>
    simp only [Except.bind]
    have hk : ∀ e ∈ items, isKeyword b e.1 = false := by
      intro e he
      have := List.all_eq_true.mp (List.all_eq_true.mp memberInstrNames_not_keyword b (by cases b <;> simp)) e.1 (h e he)
      simpa using this
    rw [collectM_group b bark items post acc' hk, collectM_append, collectM_bare b bark items acc' h]
    have hc := allResults_congr (fun instr c => parseMemberInstruction b instr c false bark)
      (fun instr c => parseMemberInstruction b instr c true true) items
      (fun e he => C13_member_instr b e.1 _ bark (h e he))
    rw [hc]
    cases allResults (fun instr c => parseMemberInstruction b instr c true true) items with
    | error err => rfl
    | ok xs => rfl

/-- non-vacuity: the spellings of a two-element list -/
example : bareAttr ("map", some [.ident "X"]) = ⟨[.ident "map"], .list .paren [.ident "X"]⟩ ∧
    groupAttr [("map", some [.ident "X"]), ("ghosts", some [])] =
      ⟨[.ident "o2o"], .list .paren [.ident "map", .group .paren [.ident "X"], p ',', .ident "ghosts", .group .paren []]⟩ := ⟨rfl, rfl⟩

example : "map" ∈ typeInstrNames ∧ "ghosts" ∈ typeInstrNames ∧ "try_from_ref" ∈ typeInstrNames := by decide

end O2o
