/-
C16, fourth part — the hypothesis `pathsWF` of `C16_validated_only_findings` is what the attribute parser establishes:
every child path it builds comes from `ChildPath.ofMembers` on a non-empty member path. The proof follows the values
through the parser monad (`PostP`), the instruction lists, the assembling loops and the repeat-merging of members.
-/
import O2oModel.Props.C16c
namespace O2o

/-! ### postconditions in the parser monad -/

/-- every value the parser can return satisfies `Q`, whatever the state it runs in -/
def PostP {α : Type} (Q : α → Prop) (p : P α) : Prop := ∀ st a st', p st = .ok (a, st') → Q a

theorem PostP.pure {α : Type} (Q : α → Prop) (a : α) (h : Q a) : PostP Q (pure a : P α) := by
  intro st b st' hb
  cases hb
  exact h

theorem PostP.bind {α β : Type} (R : α → Prop) (Q : β → Prop) (x : P α) (f : α → P β)
    (hx : PostP R x) (hf : ∀ a, R a → PostP Q (f a)) : PostP Q (x >>= f) := by
  intro st b st' hb
  change StateT.bind x f st = _ at hb
  unfold StateT.bind at hb
  cases hxs : x st with
  | error e => rw [hxs] at hb; cases hb
  | ok r =>
    obtain ⟨a, st1⟩ := r
    rw [hxs] at hb
    exact hf a (hx st a st1 hxs) st1 b st' hb

theorem PostP.bind_any {α β : Type} (Q : β → Prop) (x : P α) (f : α → P β) (hf : ∀ a, PostP Q (f a)) : PostP Q (x >>= f) :=
  PostP.bind (fun _ => True) Q x f (fun _ _ _ _ => trivial) (fun a _ => hf a)

theorem PostP.mono {α : Type} (R Q : α → Prop) (p : P α) (h : PostP R p) (hrq : ∀ a, R a → Q a) : PostP Q p :=
  fun st a st' ha => hrq a (h st a st' ha)

theorem PostP.ite {α : Type} (Q : α → Prop) (c : Prop) [Decidable c] (p q : P α) (hp : PostP Q p) (hq : PostP Q q) :
    PostP Q (if c then p else q) := by
  split
  · exact hp
  · exact hq

theorem Post.of_parse2 {α : Type} (Q : α → Prop) (p : P α) (ts : TS) (h : PostP Q p) : Post Q (parse2 p ts) := by
  intro a ha
  unfold parse2 at ha
  split at ha
  · cases ha
  · rename_i a' s hs
    split at ha
    · cases ha
    · cases ha
      exact h _ _ _ hs

/-! ### the member path is never empty -/

theorem parseMemberPathAux_nonempty (b : Back) : ∀ (fuel : Nat) (acc : List Member), (0 < fuel ∨ acc ≠ []) →
    PostP (fun ms => ms ≠ []) (parseMemberPathAux b fuel acc) := by
  intro fuel
  induction fuel with
  | zero =>
    intro acc h
    rcases h with h | h
    · cases h
    · unfold parseMemberPathAux
      exact PostP.pure _ _ (by simpa using h)
  | succ fuel ih =>
    intro acc _
    unfold parseMemberPathAux
    refine PostP.bind_any _ _ _ (fun m => PostP.bind_any _ _ _ (fun c => ?_))
    split
    · exact PostP.bind_any _ _ _ (fun _ => ih (m :: acc) (Or.inr (by simp)))
    · exact PostP.pure _ _ (by simp)

theorem parseMemberPath_nonempty (b : Back) : PostP (fun ms => ms ≠ []) (parseMemberPath b) := by
  unfold parseMemberPath
  exact PostP.bind_any _ _ _ (fun ts => parseMemberPathAux_nonempty b _ _ (Or.inl (Nat.succ_pos _)))

theorem ofMembers_wf (ms : List Member) (h : ms ≠ []) : (ChildPath.ofMembers ms).wf = true := by
  cases ms with
  | nil => exact absurd rfl h
  | cons m rest => exact (wf_iff _).mpr (ofMembers_WF m rest)

theorem parseChildAttr_wf (b : Back) : PostP (fun a => a.childPath.wf = true) (parseChildAttr b) := by
  unfold parseChildAttr
  refine PostP.bind_any _ _ _ (fun c => ?_)
  refine PostP.bind _ _ _ _ (parseMemberPath_nonempty b) (fun ms hms => ?_)
  exact PostP.pure _ _ (ofMembers_wf ms hms)

/-! ### lists of parsed elements -/

theorem parseTerminatedAux_all {α : Type} (Q : α → Prop) (elem : P α) (he : PostP Q elem) :
    ∀ (fuel : Nat) (acc : List α), (∀ x ∈ acc, Q x) → PostP (fun l => ∀ x ∈ l, Q x) (parseTerminatedAux elem fuel acc) := by
  intro fuel
  induction fuel with
  | zero =>
    intro acc hacc
    unfold parseTerminatedAux
    exact PostP.pure _ _ (fun x hx => hacc x (List.mem_reverse.mp hx))
  | succ fuel ih =>
    intro acc hacc
    unfold parseTerminatedAux
    refine PostP.bind_any _ _ _ (fun e => ?_)
    split
    · exact PostP.pure _ _ (fun x hx => hacc x (List.mem_reverse.mp hx))
    · refine PostP.bind _ _ _ _ he (fun x hx => ?_)
      have hacc' : ∀ y ∈ x :: acc, Q y := by
        intro y hy
        rcases List.mem_cons.mp hy with rfl | hy
        · exact hx
        · exact hacc y hy
      refine PostP.bind_any _ _ _ (fun e2 => ?_)
      split
      · exact PostP.pure _ _ (fun y hy => hacc' y (List.mem_reverse.mp hy))
      · exact PostP.bind_any _ _ _ (fun _ => ih (x :: acc) hacc')

theorem parseTerminated_all {α : Type} (Q : α → Prop) (elem : P α) (he : PostP Q elem) :
    PostP (fun l => ∀ x ∈ l, Q x) (parseTerminated elem) := by
  unfold parseTerminated
  exact PostP.bind_any _ _ _ (fun ts => parseTerminatedAux_all Q elem he _ _ (by simp))

/-- a struct-level / variant-level ghost entry whose child path, if any, is well-formed -/
def GhostData.good (g : GhostData) : Prop := ∀ cp, g.childPath = some cp → cp.wf = true

theorem parseGhostData_good (b : Back) : PostP GhostData.good (parseGhostData b) := by
  unfold parseGhostData
  refine PostP.bind (fun (cpo : Option ChildPath) => ∀ cp, cpo = some cp → cp.wf = true) _ _ _ ?_ (fun cpo hcpo => ?_)
  · refine PostP.bind_any _ _ _ (fun c => ?_)
    split
    · refine PostP.bind _ _ _ _ (parseMemberPath_nonempty b) (fun ms hms => ?_)
      refine PostP.bind_any _ _ _ (fun _ => PostP.pure _ _ ?_)
      intro cp hcp
      cases hcp
      exact ofMembers_wf ms hms
    · exact PostP.pure _ _ (fun cp hcp => by cases hcp)
  · refine PostP.bind_any _ _ _ (fun gi => PostP.bind_any _ _ _ (fun _ => PostP.bind_any _ _ _ (fun a => PostP.pure _ _ ?_)))
    exact hcpo

theorem parseStructGhostAttrCore_good (b : Back) : PostP (fun a => ∀ g ∈ a.ghostData, g.good) (parseStructGhostAttrCore b) := by
  unfold parseStructGhostAttrCore
  refine PostP.bind_any _ _ _ (fun c => ?_)
  refine PostP.bind _ _ _ _ (parseTerminated_all _ _ (parseGhostData_good b)) (fun gd hgd => PostP.pure _ _ hgd)

/-! ### instructions -/

def GoodMI (i : MemberInstruction) : Prop :=
  match i with
  | .child a => a.childPath.wf = true
  | .ghosts a => ∀ g ∈ a.attr.ghostData, g.good
  | _ => True

def GoodDI (i : DataTypeInstruction) : Prop :=
  match i with
  | .ghosts a => ∀ g ∈ a.attr.ghostData, g.good
  | _ => True

theorem parseMemberInstruction_good (b : Back) (instr : String) (input : TS) (own bark : Bool) :
    Post GoodMI (parseMemberInstruction b instr input own bark) := by
  unfold parseMemberInstruction
  split
  · exact Post.error _ _
  · split
    all_goals first
      | exact Post.error _ _
      | exact Post.ok _ _ trivial
      | exact Post.bind _ _ _ _ (Post.of_parse2 _ _ _ (parseChildAttr_wf b)) (fun a ha => Post.pure _ _ ha)
      | exact Post.bind _ _ _ _ (Post.of_parse2 _ _ _ (parseStructGhostAttrCore_good b)) (fun a ha => Post.pure _ _ ha)
      | exact Post.bind_any _ _ _ (fun _ => Post.pure _ _ trivial)

theorem parseDataTypeInstruction_good (b : Back) (instr : String) (input : TS) (own bark : Bool) :
    Post GoodDI (parseDataTypeInstruction b instr input own bark) := by
  unfold parseDataTypeInstruction
  split
  · exact Post.error _ _
  · split
    all_goals first
      | exact Post.error _ _
      | exact Post.ok _ _ trivial
      | exact Post.bind _ _ _ _ (Post.of_parse2 _ _ _ (parseStructGhostAttrCore_good b)) (fun a ha => Post.pure _ _ ha)
      | exact Post.bind_any _ _ _ (fun _ => Post.pure _ _ trivial)

/-! ### the attribute loops -/

theorem liftE_post {α : Type} (Q : α → Prop) (e : Except PErr α) (h : Post Q e) : PostP Q (liftE e) := by
  unfold liftE
  split
  · rename_i a
    exact PostP.pure _ _ (h a rfl)
  · intro st a st' ha
    cases ha

theorem o2oElem_post {α : Type} (b : Back) (Q : α → Prop) (f : String → TS → Except PErr α) (hf : ∀ i c, Post Q (f i c)) :
    PostP Q (o2oElem b f) := by
  unfold o2oElem
  exact PostP.bind_any _ _ _ (fun instr => PostP.bind_any _ _ _ (fun c => liftE_post Q _ (hf instr c)))

theorem collectMemberInstrs_good (b : Back) (bark : Bool) : ∀ (attrs : List RawAttr) (acc : List MemberInstruction),
    (∀ i ∈ acc, GoodMI i) → Post (fun l => ∀ i ∈ l, GoodMI i) (collectMemberInstrs b bark attrs acc) := by
  intro attrs
  induction attrs with
  | nil => intro acc hacc; unfold collectMemberInstrs; exact Post.ok _ _ hacc
  | cons x rest ih =>
    intro acc hacc
    unfold collectMemberInstrs
    split
    · exact ih acc hacc
    · refine Post.bind_any _ _ _ (fun ts => ?_)
      refine Post.bind _ _ _ _ (Post.of_parse2 _ _ _ (parseTerminated_all GoodMI _
        (o2oElem_post b GoodMI _ (fun i c => parseMemberInstruction_good b i c true true)))) (fun l hl => ?_)
      exact ih _ (fun i hi => by rcases List.mem_append.mp hi with h | h; exact hacc i h; exact hl i h)
    · refine Post.bind_any _ _ _ (fun ts => ?_)
      refine Post.bind _ _ _ _ (parseMemberInstruction_good b _ ts false bark) (fun i hi => ?_)
      exact ih _ (fun j hj => by
        rcases List.mem_append.mp hj with h | h
        · exact hacc j h
        · simp only [List.mem_singleton] at h; subst h; exact hi)
    · exact ih acc hacc

/-- the member-level attributes are well-formed: flattening paths and the paths of variant-level ghosts -/
def MemberAttrs.wfAll (a : MemberAttrs) : Prop :=
  (∀ ca ∈ a.childAttrs, ca.childPath.wf = true) ∧ (∀ ga ∈ a.ghostsAttrs, ∀ g ∈ ga.attr.ghostData, g.good)

theorem assembleMemberAttrs_wf (fieldTy : Option TS) : ∀ (instrs : List MemberInstruction) (attrs : MemberAttrs),
    (∀ i ∈ instrs, GoodMI i) → attrs.wfAll → Post MemberAttrs.wfAll (assembleMemberAttrs fieldTy instrs attrs) := by
  intro instrs
  induction instrs with
  | nil => intro attrs _ h; unfold assembleMemberAttrs; exact Post.ok _ _ h
  | cons i rest ih =>
    intro attrs hgood h
    have hrest : ∀ j ∈ rest, GoodMI j := fun j hj => hgood j (List.mem_cons_of_mem _ hj)
    have hi : GoodMI i := hgood i List.mem_cons_self
    unfold assembleMemberAttrs
    split
    all_goals first
      | exact Post.error _ _
      | (apply ih _ hrest; exact ⟨h.1, h.2⟩)
      | (apply ih _ hrest
         refine ⟨?_, h.2⟩
         intro ca hca
         rcases List.mem_append.mp hca with hca | hca
         · exact h.1 ca hca
         · simp only [List.mem_singleton] at hca; subst hca; exact hi)
      | (apply ih _ hrest
         refine ⟨h.1, ?_⟩
         intro ga hga
         rcases List.mem_append.mp hga with hga | hga
         · exact h.2 ga hga
         · simp only [List.mem_singleton] at hga; subst hga; exact hi)
      | (split
         · apply ih _ hrest; exact ⟨h.1, h.2⟩
         · exact Post.error _ _)

theorem getMemberAttrs_wf (b : Back) (attrs : List RawAttr) (fieldTy : Option TS) (bark : Bool) :
    Post MemberAttrs.wfAll (getMemberAttrs b attrs fieldTy bark) := by
  unfold getMemberAttrs
  refine Post.bind _ _ _ _ (collectMemberInstrs_good b bark attrs [] (by simp)) (fun l hl => ?_)
  exact assembleMemberAttrs_wf fieldTy l {} hl ⟨by simp, by simp⟩

/-! ### members, with the attributes repeated onto them -/

theorem merge_wf (self other : MemberAttrs) (hs : self.wfAll) (ho : other.wfAll) : (self.merge other).wfAll := by
  unfold MemberAttrs.merge
  split
  · exact hs
  · split
    · exact hs
    · refine ⟨?_, hs.2⟩
      simp only
      split
      · intro ca hca
        rcases List.mem_append.mp hca with h | h
        · exact hs.1 ca h
        · exact ho.1 ca h
      · exact hs.1

def ctxWF (ctx : Context) : Prop :=
  (∀ p, ctx.fieldAttrsToRepeat = some p → p.1.wfAll) ∧ (∀ a, ctx.variantAttrsToRepeat = some a → a.wfAll)

theorem Field.fromSyn_wf (b : Back) (idx : Nat) (node : RawField) (bark : Bool) :
    Post (fun f => f.attrs.wfAll) (Field.fromSyn b idx node bark) := by
  unfold Field.fromSyn
  exact Post.bind _ _ _ _ (getMemberAttrs_wf b _ _ _) (fun a ha => Post.pure _ _ ha)

theorem multipleFromSyn_wf (b : Back) (bark : Bool) : ∀ (nodes : List RawField) (i : Nat) (ctx : Context) (acc : List Field),
    ctxWF ctx → (∀ f ∈ acc, f.attrs.wfAll) →
    Post (fun r => (∀ f ∈ r.1, f.attrs.wfAll) ∧ ctxWF r.2) (Field.multipleFromSyn b bark nodes i ctx acc) := by
  intro nodes
  induction nodes with
  | nil =>
    intro i ctx acc hctx hacc
    unfold Field.multipleFromSyn
    exact Post.ok _ _ ⟨fun f hf => hacc f (List.mem_reverse.mp hf), hctx⟩
  | cons node rest ih =>
    intro i ctx acc hctx hacc
    unfold Field.multipleFromSyn
    refine Post.bind _ _ _ _ (Field.fromSyn_wf b i node bark) (fun field hfield => ?_)
    have hacc' : ∀ f ∈ field :: acc, f.attrs.wfAll := by
      intro f hf
      rcases List.mem_cons.mp hf with rfl | hf
      · exact hfield
      · exact hacc f hf
    simp only []
    have hctx1 : ctxWF (if field.attrs.stopRepeat = true then { ctx with fieldAttrsToRepeat := none } else ctx) := by
      split
      · exact ⟨fun p hp => (by cases hp), hctx.2⟩
      · exact hctx
    generalize (if field.attrs.stopRepeat = true then { ctx with fieldAttrsToRepeat := none } else ctx) = ctx1 at hctx1 ⊢
    split
    · split
      · exact Post.error _ _
      · apply ih _ _ _ ?_ hacc'
        refine ⟨?_, hctx1.2⟩
        intro p hp
        cases hp
        exact hfield
    · split
      · rename_i toRepeat perm hrep
        apply ih _ _ _ hctx1
        intro f hf
        rcases List.mem_cons.mp hf with rfl | hf
        · exact merge_wf _ _ hfield (hctx1.1 _ hrep)
        · exact hacc f hf
      · exact ih _ _ _ hctx1 hacc'

/-! ### variants -/

theorem Variant.fromSyn_wf (b : Back) (ctx : Context) (v : RawVariant) (bark : Bool) (hctx : ctxWF ctx) :
    Post (fun r => (r.1.attrs.wfAll ∧ ∀ f ∈ r.1.fields, f.attrs.wfAll) ∧ ctxWF r.2) (Variant.fromSyn b ctx v bark) := by
  unfold Variant.fromSyn
  refine Post.bind _ _ _ _ (multipleFromSyn_wf b bark _ 0 ctx [] hctx (by simp)) (fun r hr => ?_)
  obtain ⟨fields, ctx'⟩ := r
  refine Post.bind _ _ _ _ (getMemberAttrs_wf b _ _ _) (fun a ha => ?_)
  refine Post.pure _ _ ⟨⟨ha, hr.1⟩, ?_⟩
  simp only
  split
  · split
    · exact ⟨fun p hp => (by cases hp), hr.2.2⟩
    · exact hr.2
  · exact hr.2

theorem Variant.multipleFromSyn_wf (b : Back) (bark : Bool) : ∀ (vs : List RawVariant) (ctx : Context) (acc : List Variant),
    ctxWF ctx → (∀ v ∈ acc, v.attrs.wfAll ∧ ∀ f ∈ v.fields, f.attrs.wfAll) →
    Post (fun l => ∀ v ∈ l, v.attrs.wfAll ∧ ∀ f ∈ v.fields, f.attrs.wfAll) (Variant.multipleFromSyn b bark vs ctx acc) := by
  intro vs
  induction vs with
  | nil =>
    intro ctx acc _ hacc
    unfold Variant.multipleFromSyn
    exact Post.ok _ _ (fun v hv => hacc v (List.mem_reverse.mp hv))
  | cons rv rest ih =>
    intro ctx acc hctx hacc
    unfold Variant.multipleFromSyn
    refine Post.bind _ _ _ _ (Variant.fromSyn_wf b ctx rv bark hctx) (fun r hr => ?_)
    obtain ⟨variant, ctx'⟩ := r
    simp only []
    have hctx1 : ctxWF (if variant.attrs.stopRepeat = true then { ctx' with variantAttrsToRepeat := none } else ctx') := by
      split
      · exact ⟨hr.2.1, fun a ha => (by cases ha)⟩
      · exact hr.2
    generalize (if variant.attrs.stopRepeat = true then { ctx' with variantAttrsToRepeat := none } else ctx') = ctx1 at hctx1 ⊢
    have hacc' : ∀ v ∈ variant :: acc, v.attrs.wfAll ∧ ∀ f ∈ v.fields, f.attrs.wfAll := by
      intro v hv
      rcases List.mem_cons.mp hv with rfl | hv
      · exact hr.1
      · exact hacc v hv
    split
    · split
      · exact Post.error _ _
      · apply ih _ _ ?_ hacc'
        exact ⟨hctx1.1, fun a ha => by cases ha; exact hr.1.1⟩
    · split
      · rename_i toRepeat hrep
        apply ih _ _ hctx1
        intro v hv
        rcases List.mem_cons.mp hv with rfl | hv
        · exact ⟨merge_wf _ _ hr.1.1 (hctx1.2 _ hrep), hr.1.2⟩
        · exact hacc v hv
      · exact ih _ _ hctx1 hacc'

/-! ### type-level attributes -/

theorem collectDataTypeInstrs_good (b : Back) : ∀ (attrs : List RawAttr) (acc : DTAcc),
    (∀ i ∈ acc.instrs, GoodDI i) → Post (fun r => ∀ i ∈ r.instrs, GoodDI i) (collectDataTypeInstrs b attrs acc) := by
  intro attrs
  induction attrs with
  | nil => intro acc hacc; unfold collectDataTypeInstrs; exact Post.ok _ _ hacc
  | cons x rest ih =>
    intro acc hacc
    unfold collectDataTypeInstrs
    split
    · exact ih acc hacc
    · refine Post.bind_any _ _ _ (fun ts => ?_)
      refine Post.bind _ _ _ _ (Post.of_parse2 _ _ _ (parseTerminated_all GoodDI _
        (o2oElem_post b GoodDI _ (fun i c => parseDataTypeInstruction_good b i c true true)))) (fun l hl => ?_)
      exact ih _ (fun i hi => by rcases List.mem_append.mp hi with h | h; exact hacc i h; exact hl i h)
    · refine Post.bind_any _ _ _ (fun ts => ?_)
      refine Post.bind _ _ _ _ (parseDataTypeInstruction_good b _ ts false acc.bark) (fun i hi => ?_)
      exact ih _ (fun j hj => by
        rcases List.mem_append.mp hj with h | h
        · exact hacc j h
        · simp only [List.mem_singleton] at h; subst h; exact hi)
    · exact ih acc hacc

def DataTypeAttrs.ghostsGood (a : DataTypeAttrs) : Prop := ∀ ga ∈ a.ghostsAttrs, ∀ g ∈ ga.attr.ghostData, g.good

theorem assembleDataTypeAttrs_good : ∀ (instrs : List DataTypeInstruction) (m : RepeatMap) (attrs : DataTypeAttrs),
    (∀ i ∈ instrs, GoodDI i) → attrs.ghostsGood → Post DataTypeAttrs.ghostsGood (assembleDataTypeAttrs instrs m attrs) := by
  intro instrs
  induction instrs with
  | nil => intro m attrs _ h; unfold assembleDataTypeAttrs; exact Post.ok _ _ h
  | cons i rest ih =>
    intro m attrs hgood h
    have hrest : ∀ j ∈ rest, GoodDI j := fun j hj => hgood j (List.mem_cons_of_mem _ hj)
    have hi : GoodDI i := hgood i List.mem_cons_self
    unfold assembleDataTypeAttrs
    split
    · -- a trait instruction: the ghosts are untouched
      simp only []
      repeat' split
      all_goals first
        | exact Post.error _ _
        | exact ih _ _ hrest h
        | exact Post.bind_any _ _ _ (fun _ => ih _ _ hrest h)
    · apply ih _ _ hrest
      intro ga hga
      rcases List.mem_append.mp hga with hga | hga
      · exact h ga hga
      · simp only [List.mem_singleton] at hga; subst hga; exact hi
    all_goals exact ih _ _ hrest h

theorem getDataTypeAttrs_good (b : Back) (attrs : List RawAttr) : Post (fun r => r.1.ghostsGood) (getDataTypeAttrs b attrs) := by
  unfold getDataTypeAttrs
  refine Post.bind _ _ _ _ (collectDataTypeInstrs_good b attrs {} (by simp)) (fun acc hacc => ?_)
  refine Post.bind _ _ _ _ (assembleDataTypeAttrs_good acc.instrs [] {} hacc (by intro ga hga; cases hga)) (fun a ha => ?_)
  exact Post.pure _ _ ha

/-! ### the parsed input -/

theorem ghostsPathsWF_of (gas : List GhostsAttr) (h : ∀ ga ∈ gas, ∀ g ∈ ga.attr.ghostData, g.good) : ghostsPathsWF gas = true := by
  unfold ghostsPathsWF
  simp only [List.all_eq_true]
  intro ga hga g hg
  cases hcp : g.childPath with
  | none => rfl
  | some cp => exact h ga hga g hg cp hcp

theorem memberPathsWF_of (a : MemberAttrs) (h : a.wfAll) : a.pathsWF = true := by
  unfold MemberAttrs.pathsWF
  simp only [List.all_eq_true]
  exact h.1

/-- **the attribute parser builds well-formed child paths**: whatever it accepts satisfies `pathsWF` -/
theorem parseInput_pathsWF (b : Back) (node : RawInput) (input : DataType) (h : parseInput b node = some input) :
    input.pathsWF = true := by
  unfold parseInput at h
  split at h
  · rename_i data _
    split at h
    · rename_i st hst
      cases h
      have : Post (fun (s : Struct) => (DataType.struct s).pathsWF = true) (Struct.fromSyn b node data) := by
        unfold Struct.fromSyn
        refine Post.bind _ _ _ _ (getDataTypeAttrs_good b _) (fun r hr => ?_)
        obtain ⟨attrs, bark⟩ := r
        refine Post.bind _ _ _ _ (multipleFromSyn_wf b bark _ 0 {} [] ⟨fun p hp => (by cases hp), fun a ha => (by cases ha)⟩ (by simp))
          (fun r2 hr2 => ?_)
        obtain ⟨fields, ctx⟩ := r2
        refine Post.pure _ _ ?_
        simp only [DataType.pathsWF, DataType.attrs, DataType.members, Bool.and_eq_true, List.all_eq_true, List.mem_map]
        refine ⟨ghostsPathsWF_of _ hr, ?_⟩
        rintro m ⟨f, hf, rfl⟩
        exact memberPathsWF_of _ (hr2.1 f hf)
      exact this st hst
    · cases h
  · rename_i vs _
    split at h
    · rename_i en hen
      cases h
      have : Post (fun (e : Enum) => (DataType.enum e).pathsWF = true) (Enum.fromSyn b node vs) := by
        unfold Enum.fromSyn
        refine Post.bind _ _ _ _ (getDataTypeAttrs_good b _) (fun r hr => ?_)
        obtain ⟨attrs, bark⟩ := r
        refine Post.bind _ _ _ _ (Variant.multipleFromSyn_wf b bark vs {} [] ⟨fun p hp => (by cases hp), fun a ha => (by cases ha)⟩ (by simp))
          (fun variants hvs => ?_)
        refine Post.pure _ _ ?_
        simp only [DataType.pathsWF, DataType.attrs, DataType.members, Bool.and_eq_true, List.all_eq_true, List.mem_map]
        refine ⟨ghostsPathsWF_of _ hr, ?_⟩
        rintro m ⟨v, hv, rfl⟩
        simp only [Bool.and_eq_true, List.all_eq_true]
        refine ⟨ghostsPathsWF_of _ (hvs v hv).1.2, ?_⟩
        intro f hf
        exact memberPathsWF_of _ ((hvs v hv).2 f hf)
      exact this en hen
    · cases h
  · cases h

/-- **C16, the derive as a whole.** Whenever the attribute parser accepts the input, whatever `derive` then does — report
    diagnostics or generate the impls — it can panic only at one of the five listed findings. No hypothesis is left but
    the acceptance by the parser (a parse-stage panic of the model can only be the dispatchers' "no arm", excluded by
    `C16_dispatch_total`). -/
theorem C16_derive_panics_only_at_findings (b : Back) (node : RawInput) (input : DataType) (hp : parseInput b node = some input)
    (s : String) (h : derive b node = .panic s) : s ∈ findingSites :=
  C16_derive_only_findings b node input hp (parseInput_pathsWF b node input hp) s h

end O2o
