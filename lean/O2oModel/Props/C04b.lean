/-
C04, second part — "none missing" starts where the instructions are read: every trait instruction written in an
`#[o2o(..)]` list reaches the instruction list, wherever the `allow_unknown` switch stands in that list, and the switch
itself is no instruction: the impls requested are those of the list without it.
-/
import O2oModel.Props.C04
import O2oModel.Lemmas.Grouping
namespace O2o

/-- C04-5 (reading a list): a grouped attribute `#[o2o(e0, e1, .., e(n-1))]` appends exactly n instructions to the
    instruction list, the k-th one being what the k-th element parses to — elements written before, between or after
    `allow_unknown` alike (the switch only decides whether *later* foreign attributes are reported) -/
theorem C04_list_nothing_dropped (b : Back) (items : List (String × Option TS)) (acc r : DTAcc)
    (hk : ∀ e ∈ items, isKeyword b e.1 = false)
    (h : collectDataTypeInstrs b [groupAttr items] acc = .ok r) :
    ∃ xs, r.instrs = acc.instrs ++ xs ∧ xs.length = items.length ∧
      ∀ k (h1 : k < items.length) (h2 : k < xs.length),
        parseDataTypeInstruction b items[k].1 (items[k].2.getD []) true true = .ok xs[k] := by
  rw [collect_group b items [] acc hk] at h
  cases hr : allResults (fun instr c => parseDataTypeInstruction b instr c true true) items with
  | error err => simp [hr] at h
  | ok xs =>
    simp only [hr, collectDataTypeInstrs] at h
    cases h
    obtain ⟨hl, hg⟩ := allResults_get _ items xs hr
    exact ⟨xs, rfl, hl, fun k h1 h2 => hg k h1 h2⟩

/-- C04-6 (`allow_unknown` is a switch, not an instruction): the assembled type-level attributes — the trait
    instructions the impls are generated from, with their `repeat()` bookkeeping — are those of the instruction list
    with every `allow_unknown` entry left out, wherever the entries stand -/
theorem C04_allow_unknown_no_instruction (is : List DataTypeInstruction) (m : RepeatMap) (a : DataTypeAttrs) :
    assembleDataTypeAttrs (is.filter fun i => !i.isAllowUnknown) m a = assembleDataTypeAttrs is m a := by
  induction is generalizing m a with
  | nil => rfl
  | cons i rest ih =>
    cases i with
    | allowUnknown =>
      have hf : (DataTypeInstruction.allowUnknown :: rest).filter (fun i => !i.isAllowUnknown)
          = rest.filter (fun i => !i.isAllowUnknown) := by simp [DataTypeInstruction.isAllowUnknown]
      rw [hf, ih]
      conv => rhs; rw [assembleDataTypeAttrs]
    | map ta =>
      have hf : (DataTypeInstruction.map ta :: rest).filter (fun i => !i.isAllowUnknown)
          = .map ta :: rest.filter (fun i => !i.isAllowUnknown) := by simp [DataTypeInstruction.isAllowUnknown]
      rw [hf, assembleDataTypeAttrs, assembleDataTypeAttrs]
      simp only [ih]
    | ghosts x =>
      have hf : (DataTypeInstruction.ghosts x :: rest).filter (fun i => !i.isAllowUnknown)
          = .ghosts x :: rest.filter (fun i => !i.isAllowUnknown) := by simp [DataTypeInstruction.isAllowUnknown]
      rw [hf, assembleDataTypeAttrs, assembleDataTypeAttrs]
      simp only [ih]
    | where_ x =>
      have hf : (DataTypeInstruction.where_ x :: rest).filter (fun i => !i.isAllowUnknown)
          = .where_ x :: rest.filter (fun i => !i.isAllowUnknown) := by simp [DataTypeInstruction.isAllowUnknown]
      rw [hf, assembleDataTypeAttrs, assembleDataTypeAttrs]
      simp only [ih]
    | childParents x =>
      have hf : (DataTypeInstruction.childParents x :: rest).filter (fun i => !i.isAllowUnknown)
          = .childParents x :: rest.filter (fun i => !i.isAllowUnknown) := by simp [DataTypeInstruction.isAllowUnknown]
      rw [hf, assembleDataTypeAttrs, assembleDataTypeAttrs]
      simp only [ih]
    | unrecognized =>
      have hf : (DataTypeInstruction.unrecognized :: rest).filter (fun i => !i.isAllowUnknown)
          = .unrecognized :: rest.filter (fun i => !i.isAllowUnknown) := by simp [DataTypeInstruction.isAllowUnknown]
      rw [hf, assembleDataTypeAttrs, assembleDataTypeAttrs]
      simp only [ih]
    | err x =>
      have hf : (DataTypeInstruction.err x :: rest).filter (fun i => !i.isAllowUnknown)
          = .err x :: rest.filter (fun i => !i.isAllowUnknown) := by simp [DataTypeInstruction.isAllowUnknown]
      rw [hf, assembleDataTypeAttrs, assembleDataTypeAttrs]
      simp only [ih]

/-- non-vacuity: a list with the switch in the middle keeps both neighbours -/
example : (([DataTypeInstruction.unrecognized, .allowUnknown, .unrecognized] : List DataTypeInstruction).filter
    fun i => !i.isAllowUnknown).length = 2 := rfl

end O2o
