/-
C04, second part — "none missing" starts where the instructions are read: every trait instruction written in an
`#[o2o(..)]` list reaches the instruction list, wherever the `allow_unknown` switch stands in that list, and the switch
itself is no instruction: the impls requested are those of the list without it.
-/
import O2oModel.Props.C04
import O2oModel.Props.C15
import O2oModel.Lemmas.Grouping
namespace O2o

/-- C04-5 (reading a list): a grouped attribute `#[o2o(e0, e1, .., e(n-1))]` appends exactly n instructions to the
    instruction list, the k-th one being what the k-th element parses to — elements written before, between or after
    `allow_unknown` alike (the switch only decides whether *later* foreign attributes are reported) -/
theorem C04_list_nothing_dropped (b : Back) (items : List (String × Option TS)) (acc r : DTAcc)
    (hk : ∀ e ∈ items, isKeyword b e.1 = false)
    (h : collectDataTypeInstrs b [groupAttr items] acc = .ok r) :
    ∃ xs, r.instrs = acc.instrs ++ xs ∧ xs.length = items.length ∧
      ∀ k (h1 : k < items.length) (h2 : k < xs.length),
        parseDataTypeInstruction b items[k].1 (items[k].2.getD []) true true = .ok xs[k] := by
  rw [collect_group b items [] acc hk] at h
  cases hr : allResults (fun instr c => parseDataTypeInstruction b instr c true true) items with
  | error err => simp [hr] at h
  | ok xs =>
    simp only [hr, collectDataTypeInstrs] at h
    cases h
    obtain ⟨hl, hg⟩ := allResults_get _ items xs hr
    exact ⟨xs, rfl, hl, fun k h1 h2 => hg k h1 h2⟩

/-- C04-6 (`allow_unknown` is a switch, not an instruction): the assembled type-level attributes — the trait
    instructions the impls are generated from, with their `repeat()` bookkeeping — are those of the instruction list
    with every `allow_unknown` entry left out, wherever the entries stand -/
theorem C04_allow_unknown_no_instruction (is : List DataTypeInstruction) (m : RepeatMap) (a : DataTypeAttrs) :
    assembleDataTypeAttrs (is.filter fun i => !i.isAllowUnknown) m a = assembleDataTypeAttrs is m a := by
  induction is generalizing m a with
  | nil => rfl
  | cons i rest ih =>
    cases i with
    | allowUnknown =>
      have hf : (DataTypeInstruction.allowUnknown :: rest).filter (fun i => !i.isAllowUnknown)
          = rest.filter (fun i => !i.isAllowUnknown) := by simp [DataTypeInstruction.isAllowUnknown]
      rw [hf, ih]
      conv => rhs; rw [assembleDataTypeAttrs]
    | map ta =>
      have hf : (DataTypeInstruction.map ta :: rest).filter (fun i => !i.isAllowUnknown)
          = .map ta :: rest.filter (fun i => !i.isAllowUnknown) := by simp [DataTypeInstruction.isAllowUnknown]
      rw [hf, assembleDataTypeAttrs, assembleDataTypeAttrs]
      simp only [ih]
    | ghosts x =>
      have hf : (DataTypeInstruction.ghosts x :: rest).filter (fun i => !i.isAllowUnknown)
          = .ghosts x :: rest.filter (fun i => !i.isAllowUnknown) := by simp [DataTypeInstruction.isAllowUnknown]
      rw [hf, assembleDataTypeAttrs, assembleDataTypeAttrs]
      simp only [ih]
    | where_ x =>
      have hf : (DataTypeInstruction.where_ x :: rest).filter (fun i => !i.isAllowUnknown)
          = .where_ x :: rest.filter (fun i => !i.isAllowUnknown) := by simp [DataTypeInstruction.isAllowUnknown]
      rw [hf, assembleDataTypeAttrs, assembleDataTypeAttrs]
      simp only [ih]
    | childParents x =>
      have hf : (DataTypeInstruction.childParents x :: rest).filter (fun i => !i.isAllowUnknown)
          = .childParents x :: rest.filter (fun i => !i.isAllowUnknown) := by simp [DataTypeInstruction.isAllowUnknown]
      rw [hf, assembleDataTypeAttrs, assembleDataTypeAttrs]
      simp only [ih]
    | unrecognized =>
      have hf : (DataTypeInstruction.unrecognized :: rest).filter (fun i => !i.isAllowUnknown)
          = .unrecognized :: rest.filter (fun i => !i.isAllowUnknown) := by simp [DataTypeInstruction.isAllowUnknown]
      rw [hf, assembleDataTypeAttrs, assembleDataTypeAttrs]
      simp only [ih]
    | err x =>
      have hf : (DataTypeInstruction.err x :: rest).filter (fun i => !i.isAllowUnknown)
          = .err x :: rest.filter (fun i => !i.isAllowUnknown) := by simp [DataTypeInstruction.isAllowUnknown]
      rw [hf, assembleDataTypeAttrs, assembleDataTypeAttrs]
      simp only [ih]

/-- non-vacuity: a list with the switch in the middle keeps both neighbours -/
example : (([DataTypeInstruction.unrecognized, .allowUnknown, .unrecognized] : List DataTypeInstruction).filter
    fun i => !i.isAllowUnknown).length = 2 := rfl

/-! ### none extra: no impl twice -/

theorem dup_split {α β : Type} [DecidableEq β] (g : α → β) : ∀ (l : List α), ¬ (l.map g).Nodup →
    ∃ pre a mid a' post, l = pre ++ a :: (mid ++ a' :: post) ∧ g a' = g a := by
  intro l
  induction l with
  | nil => intro h; exact absurd List.nodup_nil h
  | cons x xs ih =>
    intro h
    by_cases hx : g x ∈ xs.map g
    · obtain ⟨y, hy, hgy⟩ := List.mem_map.mp hx
      obtain ⟨mid, post, rfl⟩ := List.append_of_mem hy
      exact ⟨[], x, mid, y, post, rfl, hgy⟩
    · have hxs : ¬ (xs.map g).Nodup := by
        intro hn
        apply h
        simp only [List.map_cons, List.nodup_cons]
        exact ⟨hx, hn⟩
      obtain ⟨pre, a, mid, a', post, hl, hg⟩ := ih hxs
      exact ⟨x :: pre, a, mid, a', post, by simp [hl], hg⟩

/-- C04-7 (validated ⇒ one request per counterpart and pass): in an input that validation accepts, the instructions of
    one (kind, fallibility) pass name pairwise different counterparts -/
theorem C04_validated_types_distinct (input : DataType) (hv : validate input = []) (k : Kind) (hk : k ∈ validateKinds) (f : Bool) :
    ((input.attrs.iterForKindCore k f).map (·.ty.pathStr)).Nodup := by
  apply Classical.byContradiction
  intro hnd
  obtain ⟨pre, a, mid, a', post, hl, hg⟩ := dup_split (fun (x : TraitAttrCore) => x.ty.pathStr) _ hnd
  have hbeq : (a'.ty == a.ty) = true := by
    show (a'.ty.pathStr == a.ty.pathStr) = true
    simp [hg]
  have := C15_complete_R2_validate input k f pre mid post a a' hk hl hbeq
  rw [hv] at this
  cases this

/-- C04-8 (none extra): the impls generated for a validated input are pairwise different — no (kind, fallibility,
    counterpart) occurs twice, whatever names the instructions were written with (`map` next to `from`, ..) -/
theorem C04_no_impl_twice (input : DataType) (hv : validate input = []) :
    ((implContexts input).map ImplContext.key).Nodup := by
  unfold implContexts
  simp only [List.map_flatMap, List.map_map]
  rw [List.nodup_iff_pairwise_ne, List.pairwise_flatMap]
  refine ⟨?_, ?_⟩
  · intro p hp
    obtain ⟨k, f⟩ := p
    have hk : k ∈ validateKinds := by
      simp only [implPasses, List.mem_cons, Prod.mk.injEq, List.mem_nil_iff, or_false] at hp
      rcases hp with ⟨rfl, _⟩ | ⟨rfl, _⟩ | ⟨rfl, _⟩ | ⟨rfl, _⟩ | ⟨rfl, _⟩ | ⟨rfl, _⟩ | ⟨rfl, _⟩ | ⟨rfl, _⟩ | ⟨rfl, _⟩ | ⟨rfl, _⟩ | ⟨rfl, _⟩ | ⟨rfl, _⟩ <;> decide
    have hd := C04_validated_types_distinct input hv k hk f
    rw [← List.nodup_iff_pairwise_ne]
    have hinj : ∀ x y : String, (k, f, x) = (k, f, y) → x = y := fun x y h => by injection h with _ h; injection h
    have hmap : ∀ (g : TraitAttrCore → Kind × Bool × String), (∀ sa, g sa = (k, f, sa.ty.pathStr)) →
        ((input.attrs.iterForKindCore k f).map g).Nodup := by
      intro g hg
      have : (input.attrs.iterForKindCore k f).map g
          = ((input.attrs.iterForKindCore k f).map (·.ty.pathStr)).map (fun x => (k, f, x)) := by
        simp only [List.map_map]
        exact List.map_congr_left (fun sa _ => hg sa)
      rw [this]
      rw [List.nodup_iff_pairwise_ne] at hd ⊢
      exact List.Pairwise.map _ (fun x y hxy h => hxy (hinj x y h)) hd
    exact hmap _ (fun sa => rfl)
  · have hpn : implPasses.Nodup := by decide
    rw [List.nodup_iff_pairwise_ne] at hpn
    refine List.Pairwise.imp ?_ hpn
    intro p q hpq x hx y hy hxy
    obtain ⟨k1, f1⟩ := p
    obtain ⟨k2, f2⟩ := q
    simp only [List.mem_map, Function.comp] at hx hy
    obtain ⟨sa1, _, rfl⟩ := hx
    obtain ⟨sa2, _, rfl⟩ := hy
    simp only [ImplContext.key, Prod.mk.injEq] at hxy
    exact hpq (by rw [hxy.1, hxy.2.1])

end O2o
